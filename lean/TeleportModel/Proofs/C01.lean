import TeleportModel.Lemmas.Xibc
/-
C01 — exactly-once delivery per (source, destination, sequence).

All statements are about *receipt keys* `receipts/{src}/{dst}/sequences/{seq}` — the real store key of the
triple. Two messages with the same (src,dst,seq) have the same key (`recvKeyOf_triple`), so every statement
"per key" is a statement "per triple"; no injectivity of the key template is needed.
They hold for every `Env` (any decoder, hash, proof verifier, callback outcome), every start state and every
interleaving of every kind of message (induction over the message list).
-/
namespace TM.Xibc

/-- the receipt key addressed by a receive message (as decoded by the real decoder `env.decodePacket`) -/
def recvKeyOf (env : Env) : Msg → Option Bytes
  | .recvPacket packet _ _ _ _ => some (receiptKey (env.decodePacket packet).1)
  | _ => none

/-- same (src,dst,seq) ⇒ same receipt key, whatever the payload / proof / height / signer / callback outcome -/
theorem recvKeyOf_triple (env : Env) (pk pk' pf pf' : Bytes) (h h' : Height) (s s' : Bytes) (cb cb' : Callback)
    (hs : (env.decodePacket pk).1.src = (env.decodePacket pk').1.src)
    (hd : (env.decodePacket pk).1.dst = (env.decodePacket pk').1.dst)
    (hq : (env.decodePacket pk).1.seq = (env.decodePacket pk').1.seq) :
    recvKeyOf env (.recvPacket pk pf h s cb) = recvKeyOf env (.recvPacket pk' pf' h' s' cb') := by
  simp [recvKeyOf, receiptKey, hs, hd, hq]

/-- accepted receive of key `k` (one entry of a run, zipped with its result) -/
def acceptedRecvOf (env : Env) (k : Bytes) (x : Result × (UInt64 × Msg)) : Bool :=
  decide (x.1 = .ok) && decide (recvKeyOf env x.2.2 = some k)

/-! ### one step -/
/-- Every delivery either leaves the receipts alone or is an accepted receive that adds exactly its own key,
which was absent before. -/
theorem deliver_receipts (env : Env) (c : Chain) (now : UInt64) (m : Msg) :
    (deliver env c now m).1.receipts = c.receipts ∨
    ∃ k, recvKeyOf env m = some k ∧ (deliver env c now m).2 = .ok ∧ c.receipts.has k = false ∧
      (deliver env c now m).1.receipts = c.receipts.set k [1] := by
  rcases deliver_cases env c now m with ⟨c', hh, hd⟩ | ⟨e, _, hd⟩
  · rw [hd]
    cases m with
    | recvPacket packet proof h signer cb =>
      have eff := handle_recv_effect hh
      exact Or.inr ⟨_, rfl, rfl, eff.fresh, eff.receipts⟩
    | acknowledgement packet ack proof h signer o => exact Or.inl (handle_ack_effect hh).receipts
    | sendPacket p ok => obtain ⟨_, _, _, _, he⟩ := sendPacket_ok hh; subst he; exact Or.inl rfl
    | updateClient chain h root signer ok =>
      obtain ⟨cls, he⟩ := updateClient_ok hh; subst he; exact Or.inl rfl
    | toggleClient chain cl =>
      obtain ⟨cls, he⟩ := toggleClient_ok (by simpa [handle] using hh); subst he; exact Or.inl rfl
    | upgradeClient chain cl =>
      obtain ⟨cls, he⟩ := upgradeClient_ok (by simpa [handle] using hh); subst he; exact Or.inl rfl
    | createClient chain cl => simp only [handle] at hh; injection hh with hh; subst hh; exact Or.inl rfl
    | registerRelayer r => simp only [handle] at hh; injection hh with hh; subst hh; exact Or.inl rfl
    | restart => simp only [handle] at hh; injection hh with hh; subst hh; exact Or.inl rfl
  · rw [hd]; exact Or.inl rfl

theorem deliver_receipts_mono (env : Env) (c : Chain) (now : UInt64) (m : Msg) (k : Bytes)
    (h : c.receipts.has k = true) : (deliver env c now m).1.receipts.has k = true := by
  rcases deliver_receipts env c now m with he | ⟨k', _, _, _, he⟩
  · rw [he]; exact h
  · rw [he, Tab.has_set]; simp [h]

/-- **recv_accept_iff_fresh**: an accepted receive found no receipt under its key and leaves one behind. -/
theorem recv_accept_iff_fresh (env : Env) (c : Chain) (now : UInt64) (pk pf : Bytes) (h : Height) (s : Bytes)
    (cb : Callback) (hok : (deliver env c now (.recvPacket pk pf h s cb)).2 = .ok) :
    c.receipts.has (receiptKey (env.decodePacket pk).1) = false ∧
    (deliver env c now (.recvPacket pk pf h s cb)).1.receipts.has (receiptKey (env.decodePacket pk).1) = true := by
  have eff := handle_recv_effect (deliver_ok_handle hok)
  refine ⟨eff.fresh, ?_⟩
  rw [eff.receipts, Tab.has_set]; simp

/-- a receive whose receipt exists is rejected and changes nothing — whatever else the message contains -/
theorem recv_rejected_of_receipt (env : Env) (c : Chain) (now : UInt64) (m : Msg) (k : Bytes)
    (hm : recvKeyOf env m = some k) (hk : c.receipts.has k = true) : deliver env c now m = (c, .err) := by
  rcases deliver_cases env c now m with ⟨c', hh, _⟩ | ⟨e, _, hd⟩
  · cases m with
    | recvPacket packet proof h signer cb =>
      have hf := (handle_recv_effect hh).fresh
      simp only [recvKeyOf, Option.some.injEq] at hm
      rw [hm, hk] at hf
      exact absurd hf (by simp)
    | acknowledgement packet ack proof h signer o => simp [recvKeyOf] at hm
    | sendPacket p ok => simp [recvKeyOf] at hm
    | updateClient chain h root signer ok => simp [recvKeyOf] at hm
    | toggleClient chain cl => simp [recvKeyOf] at hm
    | upgradeClient chain cl => simp [recvKeyOf] at hm
    | createClient chain cl => simp [recvKeyOf] at hm
    | registerRelayer r => simp [recvKeyOf] at hm
    | restart => simp [recvKeyOf] at hm
  · exact hd

/-! ### histories -/
/-- **receipts_monotone**: a receipt is never removed, by any message of any history. -/
theorem receipts_monotone (env : Env) (c : Chain) (ms : List (UInt64 × Msg)) (k : Bytes)
    (h : c.receipts.has k = true) : (run env c ms).1.receipts.has k = true :=
  run_invariant (fun c => c.receipts.has k = true) (fun c now m hc => deliver_receipts_mono env c now m k hc) c ms h

/-- number of accepted receives of key `k` in a run -/
def acceptedCount (env : Env) (k : Bytes) (c : Chain) (ms : List (UInt64 × Msg)) : Nat :=
  (((run env c ms).2.zip ms).filter (acceptedRecvOf env k)).length

theorem acceptedCount_cons (env : Env) (k : Bytes) (c : Chain) (now : UInt64) (m : Msg) (ms : List (UInt64 × Msg)) :
    acceptedCount env k c ((now, m) :: ms) =
      (if acceptedRecvOf env k ((deliver env c now m).2, (now, m)) then 1 else 0) +
        acceptedCount env k (deliver env c now m).1 ms := by
  unfold acceptedCount
  rw [run_cons]
  simp only [List.zip_cons_cons, List.filter_cons]
  split <;> simp <;> omega

theorem acceptedCount_bound (env : Env) (k : Bytes) (c : Chain) (ms : List (UInt64 × Msg)) :
    acceptedCount env k c ms ≤ if c.receipts.has k = true then 0 else 1 := by
  induction ms generalizing c with
  | nil => simp [acceptedCount, run_nil]
  | cons x ms ih =>
    obtain ⟨now, m⟩ := x
    rw [acceptedCount_cons]
    have ih' := ih (deliver env c now m).1
    by_cases hacc : acceptedRecvOf env k ((deliver env c now m).2, (now, m)) = true
    · -- the head is an accepted receive of k: absent before, present after
      simp only [acceptedRecvOf, Bool.and_eq_true, decide_eq_true_eq] at hacc
      obtain ⟨hok, hkey⟩ := hacc
      have hacc' : acceptedRecvOf env k ((deliver env c now m).2, (now, m)) = true := by
        simp [acceptedRecvOf, hok, hkey]
      have hbefore : c.receipts.has k = false := by
        cases hb : c.receipts.has k with
        | false => rfl
        | true =>
          have := recv_rejected_of_receipt env c now m k hkey hb
          rw [this] at hok; cases hok
      have hafter : (deliver env c now m).1.receipts.has k = true := by
        rcases deliver_receipts env c now m with he | ⟨k', hk', _, _, he⟩
        · -- receipts unchanged is impossible for an accepted receive
          cases m with
          | recvPacket packet proof h signer cb =>
            have := (recv_accept_iff_fresh env c now packet proof h signer cb hok).2
            simp only [recvKeyOf, Option.some.injEq] at hkey
            rw [hkey] at this; exact this
          | acknowledgement packet ack proof h signer o => simp [recvKeyOf] at hkey
          | sendPacket p ok => simp [recvKeyOf] at hkey
          | updateClient chain h root signer ok => simp [recvKeyOf] at hkey
          | toggleClient chain cl => simp [recvKeyOf] at hkey
          | upgradeClient chain cl => simp [recvKeyOf] at hkey
          | createClient chain cl => simp [recvKeyOf] at hkey
          | registerRelayer r => simp [recvKeyOf] at hkey
          | restart => simp [recvKeyOf] at hkey
        · rw [hkey] at hk'; injection hk' with hk'; subst hk'
          rw [he, Tab.has_set]; simp
      rw [hafter] at ih'
      simp only [hacc', hbefore, ↓reduceIte] at ih' ⊢
      simp at ih' ⊢
      omega
    · have hacc' : acceptedRecvOf env k ((deliver env c now m).2, (now, m)) = false := by
        simpa using hacc
      simp only [hacc']
      by_cases hb : c.receipts.has k = true
      · have := deliver_receipts_mono env c now m k hb
        rw [this] at ih'
        simp only [hb, ↓reduceIte] at ih' ⊢
        simp at ih' ⊢; omega
      · have : c.receipts.has k = false := by simpa using hb
        simp only [this]
        split at ih' <;> simp at ih' ⊢ <;> omega

/-- **recv_at_most_once**: in any history from any state, at most one receive per key is accepted (none if the
receipt already exists). -/
theorem recv_at_most_once (env : Env) (c : Chain) (ms : List (UInt64 × Msg)) (k : Bytes) :
    (((run env c ms).2.zip ms).filter (acceptedRecvOf env k)).length ≤ 1 := by
  have := acceptedCount_bound env k c ms
  unfold acceptedCount at this
  split at this <;> omega

/-- after a history containing an accepted receive of `k`, the receipt of `k` exists -/
theorem receipt_after_accept (env : Env) (c : Chain) (ms : List (UInt64 × Msg)) (k : Bytes)
    (hpos : 0 < acceptedCount env k c ms) : (run env c ms).1.receipts.has k = true := by
  induction ms generalizing c with
  | nil => simp [acceptedCount, run_nil] at hpos
  | cons x ms ih =>
    obtain ⟨now, m⟩ := x
    rw [acceptedCount_cons] at hpos
    rw [run_cons]
    dsimp only
    by_cases hacc : acceptedRecvOf env k ((deliver env c now m).2, (now, m)) = true
    · simp only [acceptedRecvOf, Bool.and_eq_true, decide_eq_true_eq] at hacc
      obtain ⟨hok, hkey⟩ := hacc
      have hafter : (deliver env c now m).1.receipts.has k = true := by
        cases m with
        | recvPacket packet proof h signer cb =>
          have := (recv_accept_iff_fresh env c now packet proof h signer cb hok).2
          simp only [recvKeyOf, Option.some.injEq] at hkey
          rw [hkey] at this; exact this
        | acknowledgement packet ack proof h signer o => simp [recvKeyOf] at hkey
        | sendPacket p ok => simp [recvKeyOf] at hkey
        | updateClient chain h root signer ok => simp [recvKeyOf] at hkey
        | toggleClient chain cl => simp [recvKeyOf] at hkey
        | upgradeClient chain cl => simp [recvKeyOf] at hkey
        | createClient chain cl => simp [recvKeyOf] at hkey
        | registerRelayer r => simp [recvKeyOf] at hkey
        | restart => simp [recvKeyOf] at hkey
      exact receipts_monotone env _ ms k hafter
    · have hacc' : acceptedRecvOf env k ((deliver env c now m).2, (now, m)) = false := by simpa using hacc
      simp only [hacc'] at hpos
      exact ih _ (by simpa using hpos)

/-- **replay_rejected_unchanged**: once a receive of `k` was accepted somewhere in the history `ms`, every later
message addressing the same key — byte-identical, re-encoded, with another payload, proof, height, signer or
callback outcome — is rejected and the state is exactly what it was. -/
theorem replay_rejected_unchanged (env : Env) (c : Chain) (ms : List (UInt64 × Msg)) (k : Bytes)
    (hacc : 0 < (((run env c ms).2.zip ms).filter (acceptedRecvOf env k)).length)
    (m' : Msg) (now' : UInt64) (hm' : recvKeyOf env m' = some k) :
    deliver env (run env c ms).1 now' m' = ((run env c ms).1, .err) :=
  recv_rejected_of_receipt env _ now' m' k hm' (receipt_after_accept env c ms k hacc)

/-- the same for further history: the replay may come after any number of other messages -/
theorem replay_rejected_later (env : Env) (c : Chain) (ms ms2 : List (UInt64 × Msg)) (k : Bytes)
    (hacc : 0 < (((run env c ms).2.zip ms).filter (acceptedRecvOf env k)).length)
    (m' : Msg) (now' : UInt64) (hm' : recvKeyOf env m' = some k) :
    deliver env (run env (run env c ms).1 ms2).1 now' m' = ((run env (run env c ms).1 ms2).1, .err) :=
  recv_rejected_of_receipt env _ now' m' k hm'
    (receipts_monotone env _ ms2 k (receipt_after_accept env c ms k hacc))

/-! ### restarts -/
/-- **restart_preserves**: a node restart (genesis export → JSON → import into an empty store) is the identity on the
modelled state — every receipt, commitment, acknowledgement, send sequence, client and relayer is re-created under
the key it had. Any loss in the real round trip therefore shows as a divergence of the differential run. -/
theorem restart_preserves (env : Env) (c : Chain) (now : UInt64) : deliver env c now .restart = (c, .ok) := rfl

/-- exactly-once over histories that contain restarts: `Msg.restart` is one of the messages the history theorems
quantify over, so nothing has to be re-proved; stated explicitly for a restart at an arbitrary point. -/
theorem recv_at_most_once_across_restart (env : Env) (c : Chain) (ms ms2 : List (UInt64 × Msg)) (t : UInt64) (k : Bytes) :
    (((run env c (ms ++ (t, .restart) :: ms2)).2.zip (ms ++ (t, .restart) :: ms2)).filter (acceptedRecvOf env k)).length ≤ 1 :=
  recv_at_most_once env c (ms ++ (t, .restart) :: ms2) k

/-- a receive accepted before a restart is still refused — unchanged — after the restart and any further history -/
theorem replay_rejected_after_restart (env : Env) (c : Chain) (ms ms2 : List (UInt64 × Msg)) (t : UInt64) (k : Bytes)
    (hacc : 0 < (((run env c ms).2.zip ms).filter (acceptedRecvOf env k)).length)
    (m' : Msg) (now' : UInt64) (hm' : recvKeyOf env m' = some k) :
    deliver env (run env (run env c ms).1 ((t, .restart) :: ms2)).1 now' m' =
      ((run env (run env c ms).1 ((t, .restart) :: ms2)).1, .err) :=
  replay_rejected_later env c ms ((t, .restart) :: ms2) k hacc m' now' hm'

/-! ### client lifecycle -/
/-- messages that concern the client / relayer tables (and the restart) -/
def isClientOp : Msg → Bool
  | .updateClient _ _ _ _ _ => true
  | .createClient _ _ => true
  | .toggleClient _ _ => true
  | .upgradeClient _ _ => true
  | .registerRelayer _ => true
  | .restart => true
  | _ => false

/-- **client_ops_preserve_packet_state**: creating, updating, upgrading or toggling (light client ↔ TSS) a client,
registering a relayer and restarting never touch receipts, commitments, acknowledgements, send sequences or the
contract log — accepted or rejected. What a lifecycle operation on a CLIENT does to packet state on the real chain must
therefore be nothing (`C01:client-op-moved-packet-state`). -/
theorem client_ops_preserve_packet_state (env : Env) (c : Chain) (now : UInt64) (m : Msg) (hm : isClientOp m = true) :
    (deliver env c now m).1.receipts = c.receipts ∧ (deliver env c now m).1.commits = c.commits ∧
    (deliver env c now m).1.acks = c.acks ∧ (deliver env c now m).1.nextSeq = c.nextSeq ∧
    (deliver env c now m).1.evm = c.evm ∧ (deliver env c now m).1.ackWrites = c.ackWrites ∧
    (deliver env c now m).1.name = c.name := by
  rcases deliver_cases env c now m with ⟨c', hh, hd⟩ | ⟨e, _, hd⟩
  · rw [hd]
    cases m with
    | recvPacket packet proof h signer cb => simp [isClientOp] at hm
    | acknowledgement packet ack proof h signer o => simp [isClientOp] at hm
    | sendPacket p ok => simp [isClientOp] at hm
    | updateClient chain h root signer ok =>
      obtain ⟨cls, he⟩ := updateClient_ok hh; subst he; exact ⟨rfl, rfl, rfl, rfl, rfl, rfl, rfl⟩
    | toggleClient chain cl =>
      obtain ⟨cls, he⟩ := toggleClient_ok (by simpa [handle] using hh); subst he; exact ⟨rfl, rfl, rfl, rfl, rfl, rfl, rfl⟩
    | upgradeClient chain cl =>
      obtain ⟨cls, he⟩ := upgradeClient_ok (by simpa [handle] using hh); subst he; exact ⟨rfl, rfl, rfl, rfl, rfl, rfl, rfl⟩
    | createClient chain cl =>
      simp only [handle] at hh; injection hh with hh; subst hh; exact ⟨rfl, rfl, rfl, rfl, rfl, rfl, rfl⟩
    | registerRelayer r =>
      simp only [handle] at hh; injection hh with hh; subst hh; exact ⟨rfl, rfl, rfl, rfl, rfl, rfl, rfl⟩
    | restart => simp only [handle] at hh; injection hh with hh; subst hh; exact ⟨rfl, rfl, rfl, rfl, rfl, rfl, rfl⟩
  · rw [hd]; exact ⟨rfl, rfl, rfl, rfl, rfl, rfl, rfl⟩

/-- exactly-once across a client toggle: a receive accepted under the old client (say a Tendermint light client) is
refused — unchanged — when it is delivered again under the new one (say TSS, signed by the TSS address), after any
further history. `Msg.toggleClient` is one of the messages the history theorems quantify over. -/
theorem replay_rejected_after_toggle (env : Env) (c : Chain) (ms ms2 : List (UInt64 × Msg)) (t : UInt64) (chain : Bytes)
    (cl : Client) (k : Bytes) (hacc : 0 < (((run env c ms).2.zip ms).filter (acceptedRecvOf env k)).length)
    (m' : Msg) (now' : UInt64) (hm' : recvKeyOf env m' = some k) :
    deliver env (run env (run env c ms).1 ((t, .toggleClient chain cl) :: ms2)).1 now' m' =
      ((run env (run env c ms).1 ((t, .toggleClient chain cl) :: ms2)).1, .err) :=
  replay_rejected_later env c ms ((t, .toggleClient chain cl) :: ms2) k hacc m' now' hm'

/-! ### effects -/
def cbCount (k : Bytes) (c : Chain) : Nat := c.evm.count (.recvCallback k)

/-- the callback outcome carried by a receive message -/
def callbackOf : Msg → Option Callback
  | .recvPacket _ _ _ _ cb => some cb
  | _ => none

/-- one step: the effects of the receive callback of key `k` are committed only inside an accepted receive of `k`,
once, and only if CallPacket succeeded with result code 0 (`Callback.committed`). -/
theorem deliver_cbCount (env : Env) (c : Chain) (now : UInt64) (m : Msg) (k : Bytes) :
    cbCount k (deliver env c now m).1 =
      cbCount k c ∨
    (cbCount k (deliver env c now m).1 = cbCount k c + 1 ∧ (deliver env c now m).2 = .ok ∧ recvKeyOf env m = some k ∧
      ∃ cb, callbackOf m = some cb ∧ cb.committed = true) := by
  rcases deliver_cases env c now m with ⟨c', hh, hd⟩ | ⟨e, _, hd⟩
  · rw [hd]
    cases m with
    | recvPacket packet proof h signer cb =>
      have eff := handle_recv_effect hh
      obtain ⟨relayer, _, ae⟩ := eff.relayer
      cases ae with
      | relayed _ _ _ _ hevm _ => left; simp [cbCount, hevm]
      | acked ackBz _ _ _ _ _ hwhich =>
        rcases hwhich with ⟨_, _, hevm⟩ | ⟨_, _, _, hevm⟩
        · cases hcm : cb.committed with
          | false => left; simp [cbCount, hevm, hcm]
          | true =>
            by_cases hk : receiptKey (env.decodePacket packet).1 = k
            · right; subst hk; exact ⟨by simp [cbCount, hevm, hcm], rfl, rfl, cb, rfl, hcm⟩
            · left; simp [cbCount, hevm, hcm, hk]
        · left; simp [cbCount, hevm]
    | acknowledgement packet ack proof h signer o =>
      left
      obtain ⟨a, _, _, hc⟩ := (handle_ack_effect hh).decoded
      rcases hc with ⟨_, _, _, relayer, _, _, _, hevm⟩ | ⟨_, _, _, _, hevm⟩
      · simp [cbCount, hevm, ackEvents]
      · simp [cbCount, hevm]
    | sendPacket p ok =>
      obtain ⟨_, _, _, _, he⟩ := sendPacket_ok hh; subst he; left; simp [cbCount]
    | updateClient chain h root signer ok => obtain ⟨cls, he⟩ := updateClient_ok hh; subst he; left; rfl
    | toggleClient chain cl => obtain ⟨cls, he⟩ := toggleClient_ok (by simpa [handle] using hh); subst he; left; rfl
    | upgradeClient chain cl => obtain ⟨cls, he⟩ := upgradeClient_ok (by simpa [handle] using hh); subst he; left; rfl
    | createClient chain cl => simp only [handle] at hh; injection hh with hh; subst hh; left; rfl
    | registerRelayer r => simp only [handle] at hh; injection hh with hh; subst hh; left; rfl
    | restart => simp only [handle] at hh; injection hh with hh; subst hh; left; rfl
  · rw [hd]; left; rfl

/-- **effects_at_most_once**: over any history the number of `onRecvPacket` invocations for key `k` grows by at
most the number of accepted receives of `k`, hence by at most one (and not at all if the receipt exists). -/
theorem effects_at_most_once (env : Env) (c : Chain) (ms : List (UInt64 × Msg)) (k : Bytes) :
    cbCount k (run env c ms).1 ≤ cbCount k c + acceptedCount env k c ms ∧
    acceptedCount env k c ms ≤ 1 ∧
    (c.receipts.has k = true → cbCount k (run env c ms).1 = cbCount k c) := by
  have hgrow : ∀ (ms : List (UInt64 × Msg)) (c : Chain),
      cbCount k c ≤ cbCount k (run env c ms).1 ∧ cbCount k (run env c ms).1 ≤ cbCount k c + acceptedCount env k c ms := by
    intro ms
    induction ms with
    | nil => intro c; simp [run_nil, acceptedCount]
    | cons x ms ih =>
      intro c
      obtain ⟨now, m⟩ := x
      rw [run_cons, acceptedCount_cons]
      dsimp only
      have ih' := ih (deliver env c now m).1
      rcases deliver_cbCount env c now m k with he | ⟨he, hok, hkey, _⟩
      · rw [he] at ih'; constructor <;> omega
      · have : acceptedRecvOf env k ((deliver env c now m).2, (now, m)) = true := by
          simp [acceptedRecvOf, hok, hkey]
        rw [he] at ih'; simp only [this, ↓reduceIte]; constructor <;> omega
  have hb := acceptedCount_bound env k c ms
  refine ⟨(hgrow ms c).2, by split at hb <;> omega, ?_⟩
  intro hk
  rw [hk] at hb
  simp at hb
  have := hgrow ms c
  omega

/-- **callback effects are all-or-nothing**: a receive whose callback failed (CallPacket error) or reported a
non-zero result code commits none of the callback's effects — for no key does the committed-callback count move —
although the receive is accepted and (C05) its error acknowledgement is stored. -/
theorem failed_callback_commits_nothing (env : Env) (c : Chain) (now : UInt64) (pk pf : Bytes) (h : Height) (s : Bytes)
    (cb : Callback) (hcb : cb.committed = false) (k : Bytes) :
    cbCount k (deliver env c now (.recvPacket pk pf h s cb)).1 = cbCount k c := by
  rcases deliver_cbCount env c now (.recvPacket pk pf h s cb) k with he | ⟨_, _, _, cb', hc, hcm⟩
  · exact he
  · simp only [callbackOf, Option.some.injEq] at hc
    subst hc; rw [hcb] at hcm; cases hcm

/-! ### non-vacuity: a concrete environment and history in which a receive is accepted and its replay refused -/
section Example
def exPacket : Packet := ⟨[1], [2], 1, [], [9], [], [], 0⟩
def exEnv : Env where
  sha256 := fun b => 0 :: b
  decodePacket := fun _ => (exPacket, false)
  encodePacket := fun _ => [7]
  decodeAck := fun _ => none
  encodeAck := fun _ => [8]
  verify := fun _ _ _ _ _ _ => true
  bech32Valid := fun _ => true
def exClient : Client := ⟨.tm, ⟨0, 5⟩, [(⟨0, 5⟩, [3])], [(⟨0, 5⟩, 0)], 0, 0, []⟩
def exChain : Chain := { Chain.init [2] with clients := [([1], exClient)], relayers := [⟨[4], [[1]], [[5]]⟩] }
def exMsg : Msg := .recvPacket [] [] ⟨0, 5⟩ [4] (.ok 0 [] [])

example : (run exEnv exChain [(10, exMsg), (11, exMsg)]).2 = [.ok, .err] := by decide
example : 0 < acceptedCount exEnv (receiptKey exPacket) exChain [(10, exMsg)] := by decide
end Example

end TM.Xibc
