import TeleportModel.Model.Registry
/-
C12 — the token-pair registry stays self-consistent under every governance action.
-/
namespace TM.Registry

/-! ### finite-map lemmas -/
namespace Map
variable {κ ν : Type} [DecidableEq κ]

theorem find_del (m : Map κ ν) (k k' : κ) : (m.del k).find k' = if k = k' then none else m.find k' := by
  induction m with
  | nil => simp [del, find]
  | cons e t ih =>
    obtain ⟨a, v⟩ := e
    simp only [del, List.filter] at ih ⊢
    by_cases ha : a = k
    · subst ha
      simp only [decide_true, Bool.not_true]
      rw [ih]
      by_cases hk : a = k'
      · simp [hk]
      · simp [find, hk]
    · simp only [ha, decide_false, Bool.not_false]
      simp only [find]
      rw [ih]
      by_cases hk : k = k'
      · subst hk; simp [ha]
      · simp [hk]

theorem find_ins (m : Map κ ν) (k k' : κ) (v : ν) : (m.ins k v).find k' = if k = k' then some v else m.find k' := by
  simp only [ins, find]
  by_cases hk : k = k'
  · simp [hk]
  · simp [hk, find_del]

theorem find_insAll (m : Map κ ν) (ks : List κ) (v : ν) (k' : κ) :
    (m.insAll ks v).find k' = if k' ∈ ks then some v else m.find k' := by
  induction ks generalizing m with
  | nil => simp [insAll]
  | cons k t ih =>
    simp only [insAll, List.foldl_cons] at ih ⊢
    rw [ih]
    by_cases h1 : k' ∈ t
    · simp [h1]
    · simp only [h1, if_false, find_ins, List.mem_cons, or_false]
      by_cases h2 : k = k'
      · simp [h2]
      · have : ¬ k' = k := fun e => h2 e.symm
        simp [h2, this]

theorem find_delAll (m : Map κ ν) (ks : List κ) (k' : κ) :
    (m.delAll ks).find k' = if k' ∈ ks then none else m.find k' := by
  induction ks generalizing m with
  | nil => simp [delAll]
  | cons k t ih =>
    simp only [delAll, List.foldl_cons] at ih ⊢
    rw [ih]
    by_cases h1 : k' ∈ t
    · simp [h1]
    · simp only [h1, if_false, find_del, List.mem_cons, or_false]
      by_cases h2 : k = k'
      · simp [h2]
      · have : ¬ k' = k := fun e => h2 e.symm
        simp [h2, this]

theorem mem_entriesAux (m : Map κ ν) : ∀ (seen : List κ) (k : κ) (v : ν),
    (k, v) ∈ entriesAux seen m ↔ k ∉ seen ∧ m.find k = some v := by
  induction m with
  | nil => intro seen k v; simp [entriesAux, find]
  | cons e t ih =>
    obtain ⟨k0, v0⟩ := e
    intro seen k v
    unfold entriesAux
    by_cases hs : seen.contains k0 = true
    · rw [if_pos hs, ih]
      have hk0 : k0 ∈ seen := by simpa using hs
      constructor
      · rintro ⟨h1, h2⟩
        have : ¬ k0 = k := fun e => h1 (e ▸ hk0)
        exact ⟨h1, by simp [find, this, h2]⟩
      · rintro ⟨h1, h2⟩
        have : ¬ k0 = k := fun e => h1 (e ▸ hk0)
        simp only [find, this, if_false] at h2
        exact ⟨h1, h2⟩
    · rw [if_neg hs]
      have hk0 : k0 ∉ seen := by simpa using hs
      simp only [List.mem_cons, Prod.mk.injEq, ih, not_or]
      by_cases e : k0 = k
      · subst e
        simp only [find, if_true]
        constructor
        · rintro (⟨_, hv⟩ | ⟨⟨hne, _⟩, _⟩)
          · exact ⟨hk0, by rw [hv]⟩
          · exact absurd trivial hne
        · rintro ⟨_, hv⟩
          exact Or.inl ⟨trivial, (Option.some.inj hv).symm⟩
      · simp only [find, e, if_false]
        have e' : ¬ k = k0 := fun x => e x.symm
        constructor
        · rintro (⟨hk, _⟩ | ⟨⟨_, h1⟩, h2⟩)
          · exact absurd hk e'
          · exact ⟨h1, h2⟩
        · rintro ⟨h1, h2⟩
          exact Or.inr ⟨⟨e', h1⟩, h2⟩

theorem mem_entries (m : Map κ ν) (k : κ) (v : ν) : (k, v) ∈ entries m ↔ m.find k = some v := by
  unfold entries
  rw [mem_entriesAux]
  simp

theorem entriesAux_pairwise (m : Map κ ν) : ∀ (seen : List κ),
    (entriesAux seen m).Pairwise (fun e f => e.1 ≠ f.1) := by
  induction m with
  | nil => intro _; exact List.Pairwise.nil
  | cons e t ih =>
    obtain ⟨k0, v0⟩ := e
    intro seen
    unfold entriesAux
    split
    · exact ih seen
    · refine List.pairwise_cons.mpr ⟨?_, ih _⟩
      intro f hf
      obtain ⟨k, v⟩ := f
      have := ((mem_entriesAux t (k0 :: seen) k v).mp hf).1
      intro e
      have e : k0 = k := e
      exact this (by rw [← e]; exact List.mem_cons_self ..)

theorem entries_pairwise (m : Map κ ν) : (entries m).Pairwise (fun e f => e.1 ≠ f.1) := entriesAux_pairwise m []

end Map

open Map

section
variable {Id : Type} [DecidableEq Id]

/-! ### the property -/

/-- The registry is self-consistent (the statement of C12):
every pair is found by its contract address and by EACH of its denominations; every address / denomination entry
points to an existing pair that lists it; no contract and no denomination belongs to two pairs. -/
structure Consistent (r : Reg Id) : Prop where
  found : ∀ id p, r.pairs.find id = some p →
      r.byErc.find p.addr = some id ∧ ∀ d, d ∈ p.denoms → r.byDen.find d = some id
  ercOk : ∀ a id, r.byErc.find a = some id → ∃ p, r.pairs.find id = some p ∧ p.addr = a
  denOk : ∀ d id, r.byDen.find d = some id → ∃ p, r.pairs.find id = some p ∧ d ∈ p.denoms
  disjoint : ∀ id₁ id₂ p₁ p₂, r.pairs.find id₁ = some p₁ → r.pairs.find id₂ = some p₂ →
      (p₁.addr = p₂.addr ∨ ∃ d, d ∈ p₁.denoms ∧ d ∈ p₂.denoms) → id₁ = id₂

/-- collision freeness of the id hash on `address | denomination` strings (explicit assumption) -/
def HashInj (H : String → Denom → Id) : Prop := ∀ a d a' d', H a d = H a' d' → a = a' ∧ d = d'

variable (H : String → Denom → Id)

/-- The inductive invariant: consistency, every pair is stored under its own id (`GetID`), and every registered
denomination has bank metadata (this is what makes the `IsDenomRegistered(Name)` guard of RegisterCoin / AddCoin
sufficient: `verifyMetadata` rejects a coin whose metadata exists). -/
structure Inv (r : Reg Id) : Prop where
  found : ∀ id p, r.pairs.find id = some p →
      r.byErc.find p.addr = some id ∧ ∀ d, d ∈ p.denoms → r.byDen.find d = some id
  ercOk : ∀ a id, r.byErc.find a = some id → ∃ p, r.pairs.find id = some p ∧ p.addr = a
  denOk : ∀ d id, r.byDen.find d = some id → ∃ p, r.pairs.find id = some p ∧ d ∈ p.denoms
  keyed : ∀ id p, r.pairs.find id = some p → getID H p = some id
  backed : ∀ d id, r.byDen.find d = some id → (r.metas.find d).isSome = true

theorem Inv.consistent {r : Reg Id} (h : Inv H r) : Consistent r where
  found := h.found
  ercOk := h.ercOk
  denOk := h.denOk
  disjoint := by
    intro id₁ id₂ p₁ p₂ h₁ h₂ hor
    have f₁ := h.found id₁ p₁ h₁
    have f₂ := h.found id₂ p₂ h₂
    rcases hor with ha | ⟨d, hd₁, hd₂⟩
    · have := f₁.1; rw [ha, f₂.1] at this; exact (Option.some.inj this).symm
    · have e₁ := f₁.2 d hd₁; rw [f₂.2 d hd₂] at e₁; exact (Option.some.inj e₁).symm

theorem inv_empty : Inv H ({} : Reg Id) where
  found := by intro id p h; simp [Map.find] at h
  ercOk := by intro a id h; simp [Map.find] at h
  denOk := by intro a id h; simp [Map.find] at h
  keyed := by intro id p h; simp [Map.find] at h
  backed := by intro a id h; simp [Map.find] at h

omit [DecidableEq Id] in
theorem getID_some {p : Pair} {id : Id} (h : getID H p = some id) : ∃ d ds, p.denoms = d :: ds ∧ id = H p.addrStr d := by
  unfold getID at h
  split at h
  · simp at h
  · next d ds hd => exact ⟨d, ds, hd, (Option.some.inj h).symm⟩

/-! ### the three registry transformations every action is made of -/

/-- a new pair (address string `s` spelling the contract `a`) with an unregistered contract and unregistered
denominations -/
theorem inv_insert (hH : HashInj H) {r : Reg Id} (h : Inv H r) (a : Addr) (s : String) (hs : addrOf s = a) (d0 : Denom) (ds : List Denom) (en : Bool) (ow : Nat)
    (metas' : Map Denom Meta)
    (ha : r.byErc.find a = none) (hds : ∀ d, d ∈ d0 :: ds → r.byDen.find d = none)
    (hm1 : ∀ d, (r.metas.find d).isSome = true → (metas'.find d).isSome = true)
    (hm2 : ∀ d, d ∈ d0 :: ds → (metas'.find d).isSome = true) :
    Inv H { r with metas := metas', pairs := r.pairs.ins (H s d0) ⟨s, d0 :: ds, en, ow⟩,
                   byDen := r.byDen.insAll (d0 :: ds) (H s d0), byErc := r.byErc.ins a (H s d0) } := by
  have fresh : ∀ id p, r.pairs.find id = some p → H s d0 ≠ id := by
    intro id p hp e
    obtain ⟨d, ds', _, hid⟩ := getID_some H (h.keyed id p hp)
    have := (hH s d0 p.addrStr d (e.trans hid)).1
    have f := (h.found id p hp).1
    have hpa : p.addr = a := by unfold Pair.addr; rw [← this]; exact hs
    rw [hpa, ha] at f; cases f
  constructor
  · intro id p hp
    simp only [find_ins] at hp
    by_cases e : H s d0 = id
    · simp only [e, if_true] at hp
      have := Option.some.inj hp; subst this
      subst e
      have hna : Pair.addr ⟨s, d0 :: ds, en, ow⟩ = a := hs
      simp only [find_ins, find_insAll, hna, ↓reduceIte]
      exact ⟨trivial, fun d hd => by simp [hd]⟩
    · simp only [e, if_false] at hp
      have f := h.found id p hp
      simp only [find_ins, find_insAll]
      constructor
      · by_cases e2 : a = p.addr
        · rw [← e2, ha] at f; cases f.1
        · simp only [e2, if_false]; exact f.1
      · intro d hd
        have := f.2 d hd
        by_cases e3 : d ∈ d0 :: ds
        · rw [hds d e3] at this; cases this
        · simp only [e3, if_false]; exact this
  · intro a' id hid
    simp only [find_ins] at hid ⊢
    by_cases e : a = a'
    · subst e
      simp only [↓reduceIte] at hid
      have := Option.some.inj hid; subst this
      exact ⟨⟨s, d0 :: ds, en, ow⟩, by simp, hs⟩
    · simp only [e, if_false] at hid
      obtain ⟨p, hp, hpa⟩ := h.ercOk a' id hid
      have := fresh id p hp
      exact ⟨p, by simp [this, hp], hpa⟩
  · intro d id hid
    simp only [find_insAll, find_ins] at hid ⊢
    by_cases e : d ∈ d0 :: ds
    · simp only [e, if_true] at hid
      have := Option.some.inj hid; subst this
      exact ⟨⟨s, d0 :: ds, en, ow⟩, by simp, e⟩
    · simp only [e, if_false] at hid
      obtain ⟨p, hp, hpd⟩ := h.denOk d id hid
      have := fresh id p hp
      exact ⟨p, by simp [this, hp], hpd⟩
  · intro id p hp
    simp only [find_ins] at hp
    by_cases e : H s d0 = id
    · simp only [e, if_true] at hp
      have := Option.some.inj hp; subst this
      simp [getID, e]
    · simp only [e, if_false] at hp
      exact h.keyed id p hp
  · intro d id hid
    simp only [find_insAll] at hid
    by_cases e : d ∈ d0 :: ds
    · exact hm2 d e
    · simp only [e, if_false] at hid
      exact hm1 d (h.backed d id hid)

/-- `DeleteTokenPair` of a stored pair: nothing of it is left, everything else is untouched -/
theorem inv_delete {r : Reg Id} (h : Inv H r) (id : Id) (p : Pair) (hp : r.pairs.find id = some p) :
    Inv H { r with pairs := r.pairs.del id, byErc := r.byErc.del p.addr, byDen := r.byDen.delAll p.denoms } := by
  have fp := h.found id p hp
  constructor
  · intro id' p' hp'
    simp only [find_del] at hp'
    by_cases e : id = id'
    · simp [e] at hp'
    · simp only [e, if_false] at hp'
      have f := h.found id' p' hp'
      simp only [find_del, find_delAll]
      constructor
      · by_cases e2 : p.addr = p'.addr
        · have := fp.1; rw [e2, f.1] at this; exact absurd (Option.some.inj this).symm e
        · simp only [e2, if_false]; exact f.1
      · intro d hd
        by_cases e3 : d ∈ p.denoms
        · have := fp.2 d e3; rw [f.2 d hd] at this; exact absurd (Option.some.inj this).symm e
        · simp only [e3, if_false]; exact f.2 d hd
  · intro a' id' hid
    simp only [find_del] at hid ⊢
    by_cases e : p.addr = a'
    · simp [e] at hid
    · simp only [e, if_false] at hid
      obtain ⟨p', hp', hpa⟩ := h.ercOk a' id' hid
      by_cases e2 : id = id'
      · subst e2; rw [hp] at hp'; have := Option.some.inj hp'; subst this; exact absurd hpa e
      · exact ⟨p', by simp [e2, hp'], hpa⟩
  · intro d id' hid
    simp only [find_delAll, find_del] at hid ⊢
    by_cases e : d ∈ p.denoms
    · simp [e] at hid
    · simp only [e, if_false] at hid
      obtain ⟨p', hp', hpd⟩ := h.denOk d id' hid
      by_cases e2 : id = id'
      · subst e2; rw [hp] at hp'; have := Option.some.inj hp'; subst this; exact absurd hpd e
      · exact ⟨p', by simp [e2, hp'], hpd⟩
  · intro id' p' hp'
    simp only [find_del] at hp'
    by_cases e : id = id'
    · simp [e] at hp'
    · simp only [e, if_false] at hp'; exact h.keyed id' p' hp'
  · intro d id' hid
    simp only [find_delAll] at hid
    by_cases e : d ∈ p.denoms
    · simp [e] at hid
    · simp only [e, if_false] at hid; exact h.backed d id' hid

/-- a stored pair is overwritten by one with the same address string and the same denominations (ToggleRelay) -/
theorem inv_replace {r : Reg Id} (h : Inv H r) (id : Id) (p p' : Pair) (hp : r.pairs.find id = some p)
    (hstr : p'.addrStr = p.addrStr) (hd : p'.denoms = p.denoms) :
    Inv H { r with pairs := r.pairs.ins id p' } := by
  have ha : p'.addr = p.addr := by unfold Pair.addr; rw [hstr]
  have fp := h.found id p hp
  have kp := h.keyed id p hp
  constructor
  · intro id' q hq
    simp only [find_ins] at hq
    by_cases e : id = id'
    · subst e; simp only [↓reduceIte] at hq; have := Option.some.inj hq; subst this
      rw [ha, hd]; exact fp
    · simp only [e, if_false] at hq; exact h.found id' q hq
  · intro a' id' hid
    obtain ⟨q, hq, hqa⟩ := h.ercOk a' id' hid
    simp only [find_ins]
    by_cases e : id = id'
    · subst e; rw [hp] at hq; have := Option.some.inj hq; subst this
      exact ⟨p', by simp, by rw [ha, hqa]⟩
    · exact ⟨q, by simp [e, hq], hqa⟩
  · intro d id' hid
    obtain ⟨q, hq, hqd⟩ := h.denOk d id' hid
    simp only [find_ins]
    by_cases e : id = id'
    · subst e; rw [hp] at hq; have := Option.some.inj hq; subst this
      exact ⟨p', by simp, by rw [hd]; exact hqd⟩
    · exact ⟨q, by simp [e, hq], hqd⟩
  · intro id' q hq
    simp only [find_ins] at hq
    by_cases e : id = id'
    · subst e; simp only [↓reduceIte] at hq; have := Option.some.inj hq; subst this
      unfold getID at kp ⊢; rw [hstr, hd]; exact kp
    · simp only [e, if_false] at hq; exact h.keyed id' q hq
  · exact h.backed

/-- one more (unregistered, metadata-backed) denomination is appended to a stored pair (AddCoin) -/
theorem inv_extend {r : Reg Id} (h : Inv H r) (id : Id) (p : Pair) (b : Denom) (metas' : Map Denom Meta)
    (hp : r.pairs.find id = some p) (hb : r.byDen.find b = none)
    (hm1 : ∀ d, (r.metas.find d).isSome = true → (metas'.find d).isSome = true)
    (hm2 : (metas'.find b).isSome = true) :
    Inv H { r with metas := metas', pairs := r.pairs.ins id { p with denoms := p.denoms ++ [b] },
                   byDen := r.byDen.ins b id } := by
  have fp := h.found id p hp
  have kp := h.keyed id p hp
  constructor
  · intro id' q hq
    simp only [find_ins] at hq
    by_cases e : id = id'
    · subst e; simp only [↓reduceIte] at hq; have := Option.some.inj hq; subst this
      refine ⟨fp.1, ?_⟩
      intro d hd
      simp only [List.mem_append, List.mem_singleton] at hd
      simp only [find_ins]
      by_cases e2 : b = d
      · simp [e2]
      · simp only [e2, if_false]
        rcases hd with hd | hd
        · exact fp.2 d hd
        · exact absurd hd.symm e2
    · simp only [e, if_false] at hq
      have f := h.found id' q hq
      refine ⟨f.1, ?_⟩
      intro d hd
      simp only [find_ins]
      by_cases e2 : b = d
      · subst e2; have := f.2 b hd; rw [hb] at this; cases this
      · simp only [e2, if_false]; exact f.2 d hd
  · intro a' id' hid
    obtain ⟨q, hq, hqa⟩ := h.ercOk a' id' hid
    simp only [find_ins]
    by_cases e : id = id'
    · subst e; rw [hp] at hq; have := Option.some.inj hq; subst this
      exact ⟨{ p with denoms := p.denoms ++ [b] }, by simp, hqa⟩
    · exact ⟨q, by simp [e, hq], hqa⟩
  · intro d id' hid
    simp only [find_ins] at hid ⊢
    by_cases e2 : b = d
    · subst e2; simp only [↓reduceIte] at hid; have := Option.some.inj hid; subst this
      exact ⟨{ p with denoms := p.denoms ++ [b] }, by simp, by simp⟩
    · simp only [e2, if_false] at hid
      obtain ⟨q, hq, hqd⟩ := h.denOk d id' hid
      by_cases e : id = id'
      · subst e; rw [hp] at hq; have := Option.some.inj hq; subst this
        exact ⟨{ p with denoms := p.denoms ++ [b] }, by simp, by simp [hqd]⟩
      · exact ⟨q, by simp [e, hq], hqd⟩
  · intro id' q hq
    simp only [find_ins] at hq
    by_cases e : id = id'
    · subst e; simp only [↓reduceIte] at hq; have := Option.some.inj hq; subst this
      obtain ⟨d, ds, hds, hid⟩ := getID_some H kp
      simp [getID, hds, hid]
    · simp only [e, if_false] at hq; exact h.keyed id' q hq
  · intro d id' hid
    simp only [find_ins] at hid
    by_cases e2 : b = d
    · subst e2; exact hm2
    · simp only [e2, if_false] at hid; exact hm1 d (h.backed d id' hid)

/-! ### the actions preserve the invariant -/

theorem verifyMetadata_some {metas metas' : Map Denom Meta} {m : Meta} (h : verifyMetadata metas m = some metas') :
    (∀ d, (metas.find d).isSome = true → (metas'.find d).isSome = true) ∧ (metas'.find m.base).isSome = true ∧
    (hasDisplayUnit m = true → metas.find m.base = none) := by
  unfold verifyMetadata at h
  split at h
  · next hn =>
    have := Option.some.inj h; subst this
    refine ⟨?_, by simp [find_ins], fun _ => hn⟩
    intro d hd
    simp only [find_ins]
    by_cases e : m.base = d
    · simp [e]
    · simp only [e, if_false]; exact hd
  · next st hs =>
    split at h
    · next heq =>
      have := Option.some.inj h; subst this
      refine ⟨fun _ hd => hd, by simp [hs], ?_⟩
      intro hdu
      exfalso
      unfold equalMetadata at heq
      split at heq
      · split at heq
        · cases heq
        · next hlen =>
          have hlen : st.units.length = m.units.length := Classical.not_not.mp hlen
          have : m.units = [] := by
            have h0 : st.units = [] := by simpa using heq
            rw [h0] at hlen
            exact List.eq_nil_of_length_eq_zero hlen.symm
          simp [hasDisplayUnit, this] at hdu
      · cases heq
    · cases h

theorem registerCoin_inv (hH : HashInj H) {r : Reg Id} (h : Inv H r) (vb hs ev dk : Bool) (a : Addr) (s : String) (m : Meta)
    (hfresh : dk = true → r.byErc.find a = none ∧ addrOf s = a) : Inv H (registerCoin H r vb hs ev dk a s m).1 := by
  unfold registerCoin
  repeat' split
  all_goals try exact h
  rename_i hvb hen hev hname hsup _o metas' hvm _l u us hu hdk
  obtain ⟨hm1, hm2, hm3⟩ := verifyMetadata_some hvm
  have hdu : hasDisplayUnit m = true := by
    cases hd : hasDisplayUnit m with
    | true => rfl
    | false => simp [hd] at hvb
  have hbase : r.byDen.find m.base = none := by
    cases hb : r.byDen.find m.base with
    | none => rfl
    | some id => have := h.backed _ _ hb; rw [hm3 hdu] at this; cases this
  have hdk' : dk = true := by simpa using hdk
  exact inv_insert H hH h a s (hfresh hdk').2 m.base [] true 1 metas' (hfresh hdk').1
    (by intro d hd; simp at hd; subst hd; exact hbase) hm1 (by intro d hd; simp at hd; subst hd; exact hm2)

theorem eq_none_of_not_isSome {α : Type} {o : Option α} (h : ¬ o.isSome = true) : o = none := by
  cases o with
  | none => rfl
  | some _ => simp at h

theorem hasDisplayUnit_of_vb {vb : Bool} {m : Meta} (h : ¬(!(vb && hasDisplayUnit m)) = true) : hasDisplayUnit m = true := by
  cases hd : hasDisplayUnit m with
  | true => rfl
  | false => simp [hd] at h

theorem addCoin_inv {r : Reg Id} (h : Inv H r) (vb hs ev : Bool) (c : String) (m : Meta) :
    Inv H (addCoin H r vb hs ev c m).1 := by
  unfold addCoin
  repeat' split
  all_goals try exact h
  rename_i hvb _ a ha hen hev hname hsup _ metas' hvm _ id hid _ p hp
  obtain ⟨hm1, hm2, hm3⟩ := verifyMetadata_some hvm
  have hdu := hasDisplayUnit_of_vb hvb
  have hbase : r.byDen.find m.base = none := by
    cases hb : r.byDen.find m.base with
    | none => rfl
    | some id => have := h.backed _ _ hb; rw [hm3 hdu] at this; cases this
  obtain ⟨d, ds, hds, hidd⟩ := getID_some H (h.keyed id p hp)
  have hg : getID H { p with denoms := p.denoms ++ [m.base] } = some id := by simp [getID, hds, hidd]
  simp only [hg, ne_eq, not_true_eq_false, ↓reduceIte]
  exact inv_extend H h id p m.base metas' hp hbase hm1 hm2

theorem registerERC20_inv (hH : HashInj H) {r : Reg Id} (h : Inv H r) (vb : Bool) (a : Addr) (s : String) (hs : addrOf s = a)
    (q : Option ERC20Data) (san den desc : String) (mv : Bool) : Inv H (registerERC20 H r vb a s q san den desc mv).1 := by
  unfold registerERC20
  repeat' split
  all_goals try exact h
  all_goals
    rename_i hvb hen ha _ e hmeta hden hdec hmv
    refine inv_insert H hH h a s hs den [] true 2 _ (eq_none_of_not_isSome ha)
      (by intro d hd; simp at hd; subst hd; exact eq_none_of_not_isSome hden) ?_ ?_
    · intro d hd
      simp only [find_ins]
      by_cases e2 : den = d
      · simp [e2]
      · simp only [e2, if_false]; exact hd
    · intro d hd; simp at hd; subst hd; simp [find_ins]

theorem toggleRelay_inv {r : Reg Id} (h : Inv H r) (vb : Bool) (t : String) : Inv H (toggleRelay H r vb t).1 := by
  unfold toggleRelay
  repeat' split
  all_goals try exact h
  rename_i hvb _ id hid _ p hp
  have kp := h.keyed id p hp
  have hg : getID H { p with enabled := !p.enabled } = some id := by unfold getID at kp ⊢; exact kp
  simp only [hg]
  exact inv_replace H h id p _ hp rfl rfl

theorem deleteTokenPair_stored {r : Reg Id} (h : Inv H r) {id : Id} {p : Pair} (hp : r.pairs.find id = some p) :
    deleteTokenPair H r p =
      some { r with pairs := r.pairs.del id, byErc := r.byErc.del p.addr, byDen := r.byDen.delAll p.denoms } := by
  unfold deleteTokenPair
  rw [h.keyed id p hp]

theorem updateERC20_inv (hH : HashInj H) {r : Reg Id} (h : Inv H r) (vb : Bool) (o n : Addr) (ns : String) (hns : addrOf ns = n)
    (q : Option ERC20Data) (d1 d2 : String) : Inv H (updateERC20 H r vb o n ns q d1 d2).1 := by
  unfold updateERC20
  repeat' split
  all_goals try exact h
  rename_i hvb _ id hid _ p hp hn _ d0 tl hds _ md hchk
  have hdel : deleteTokenPair H { r with metas := r.metas.ins md.base { md with desc := d2 } } p =
      some { r with metas := r.metas.ins md.base { md with desc := d2 }, pairs := r.pairs.del id,
                    byErc := r.byErc.del p.addr, byDen := r.byDen.delAll p.denoms } := by
    unfold deleteTokenPair
    rw [h.keyed id p hp]
  simp only [hdel]
  have hdI := inv_delete H h id p hp
  have fp := h.found id p hp
  rw [hds] at fp hdI
  simp only [hds]
  refine inv_insert H hH hdI n ns hns d0 tl p.enabled p.owner (r.metas.ins md.base { md with desc := d2 }) ?_ ?_ ?_ ?_
  · simp only [find_del]
    by_cases e : p.addr = n
    · simp [e]
    · simp only [e, if_false]; exact eq_none_of_not_isSome hn
  · intro d hd
    simp only [find_delAll, hd, if_true]
  · intro d hd
    simp only [find_ins]
    by_cases e2 : md.base = d
    · simp [e2]
    · simp only [e2, if_false]; exact hd
  · intro d hd
    have := h.backed d id (fp.2 d hd)
    simp only [find_ins]
    by_cases e2 : md.base = d
    · simp [e2]
    · simp only [e2, if_false]; exact this

theorem mintingEnabled_some {r : Reg Id} {t d : String} {p : Pair} (h : mintingEnabled r t d = some p) :
    ∃ id, r.pairs.find id = some p ∧ tokenPairID r t = some id ∧ tokenPairID r d = some id := by
  unfold mintingEnabled at h
  split at h
  · cases h
  · simp only at h
    split at h
    · cases h
    · next heq =>
      split at h
      · cases h
      · next id hid =>
        split at h
        · cases h
        · next p' hp' =>
          split at h
          · cases h
          · have := Option.some.inj h; subst this
            refine ⟨id, hp', hid, ?_⟩
            have := Classical.not_not.mp heq
            rw [this, hid]

theorem convert_inv {r : Reg Id} (h : Inv H r) (vb : Bool) (t d : String) (l : List Addr) : Inv H (convert H r vb t d l).1 := by
  unfold convert
  repeat' split
  all_goals try exact h
  rename_i _ _ p hme hl _ r2 hdel
  obtain ⟨id, hp, _, _⟩ := mintingEnabled_some hme
  rw [deleteTokenPair_stored H h hp] at hdel
  have := Option.some.inj hdel; subst this
  exact inv_delete H h id p hp

/-! ### restart of the module from its own export is the identity -/

/-- two registries with the same content (as key-value stores) -/
structure Equiv (r r' : Reg Id) : Prop where
  enabled : r'.enabled = r.enabled
  metas : r'.metas = r.metas
  pairs : ∀ id, r'.pairs.find id = r.pairs.find id
  byErc : ∀ a, r'.byErc.find a = r.byErc.find a
  byDen : ∀ d, r'.byDen.find d = r.byDen.find d

theorem Inv.of_equiv {r r' : Reg Id} (h : Inv H r) (e : Equiv r r') : Inv H r' where
  found := by intro id p hp; rw [e.pairs] at hp; have := h.found id p hp; rw [e.byErc]; exact ⟨this.1, fun d hd => by rw [e.byDen]; exact this.2 d hd⟩
  ercOk := by intro a id ha; rw [e.byErc] at ha; obtain ⟨p, hp, hpa⟩ := h.ercOk a id ha; exact ⟨p, by rw [e.pairs]; exact hp, hpa⟩
  denOk := by intro d id hd; rw [e.byDen] at hd; obtain ⟨p, hp, hpd⟩ := h.denOk d id hd; exact ⟨p, by rw [e.pairs]; exact hp, hpd⟩
  keyed := by intro id p hp; rw [e.pairs] at hp; exact h.keyed id p hp
  backed := by intro d id hd; rw [e.byDen] at hd; rw [e.metas]; exact h.backed d id hd

/-- what `InitGenesis` of a list of pairs with pairwise different ids, contracts and denominations writes -/
theorem initGenesis_spec (ps : List Pair) : ∀ (q : Reg Id),
    (∀ p, p ∈ ps → p.denoms ≠ []) →
    ps.Pairwise (fun p p' => p.addr ≠ p'.addr ∧ (∀ d, d ∈ p.denoms → d ∉ p'.denoms) ∧ getID H p ≠ getID H p') →
    ∃ q', initGenesis H q ps = some q' ∧ q'.enabled = q.enabled ∧ q'.metas = q.metas ∧
      (∀ p, p ∈ ps → ∀ id, getID H p = some id →
          q'.pairs.find id = some p ∧ q'.byErc.find p.addr = some id ∧ ∀ d, d ∈ p.denoms → q'.byDen.find d = some id) ∧
      (∀ id, (∀ p, p ∈ ps → getID H p ≠ some id) → q'.pairs.find id = q.pairs.find id) ∧
      (∀ a, (∀ p, p ∈ ps → p.addr ≠ a) → q'.byErc.find a = q.byErc.find a) ∧
      (∀ d, (∀ p, p ∈ ps → d ∉ p.denoms) → q'.byDen.find d = q.byDen.find d) := by
  induction ps with
  | nil =>
    intro q _ _
    exact ⟨q, rfl, rfl, rfl, fun _ hp => (nomatch hp), fun _ _ => rfl, fun _ _ => rfl, fun _ _ => rfl⟩
  | cons p ps ih =>
    intro q hne hpw
    obtain ⟨hhead, htail⟩ := List.pairwise_cons.mp hpw
    have hpne := hne p (List.mem_cons_self ..)
    cases hdl : p.denoms with
    | nil => exact absurd hdl hpne
    | cons d0 ds =>
      have hgid : getID H p = some (H p.addrStr d0) := by simp [getID, hdl]
      let q1 : Reg Id := { q with pairs := q.pairs.ins (H p.addrStr d0) p, byDen := q.byDen.insAll p.denoms (H p.addrStr d0),
                                  byErc := q.byErc.ins p.addr (H p.addrStr d0) }
      obtain ⟨q', hq', he, hm, ha, hb, hc, hd⟩ := ih q1 (fun x hx => hne x (List.mem_cons_of_mem _ hx)) htail
      refine ⟨q', ?_, he, hm, ?_, ?_, ?_, ?_⟩
      · simp only [initGenesis, hgid]; exact hq'
      · intro x hx id hid
        rcases List.mem_cons.mp hx with rfl | hx
        · rw [hgid] at hid; have := Option.some.inj hid; subst this
          refine ⟨?_, ?_, ?_⟩
          · rw [hb _ (fun y hy e => (hhead y hy).2.2 (by rw [hgid, e]))]; simp [q1, find_ins]
          · rw [hc _ (fun y hy e => (hhead y hy).1 e.symm)]; simp [q1, find_ins]
          · intro d hdm
            rw [hd _ (fun y hy hin => (hhead y hy).2.1 d hdm hin)]
            simp [q1, find_insAll, hdm]
        · exact ha x hx id hid
      · intro id hall
        rw [hb id (fun y hy => hall y (List.mem_cons_of_mem _ hy))]
        have : ¬ H p.addrStr d0 = id := fun e => hall p (List.mem_cons_self ..) (by rw [hgid, e])
        simp [q1, find_ins, this]
      · intro a hall
        rw [hc a (fun y hy => hall y (List.mem_cons_of_mem _ hy))]
        have : ¬ p.addr = a := hall p (List.mem_cons_self ..)
        simp [q1, find_ins, this]
      · intro d hall
        rw [hd d (fun y hy => hall y (List.mem_cons_of_mem _ hy))]
        have : d ∉ p.denoms := hall p (List.mem_cons_self ..)
        simp [q1, find_insAll, this]

/-- **RESTART.** Export → empty store → `InitGenesis` of a registry satisfying the invariant does not panic and gives the
same registry back (as key-value content): a restart in the middle of a history changes nothing the property talks about. -/
theorem restart_identity {r : Reg Id} (h : Inv H r) : ∃ r', restart H r = some r' ∧ Equiv r r' := by
  have hmem : ∀ p, p ∈ exportGenesis r ↔ ∃ id, r.pairs.find id = some p := by
    intro p
    unfold exportGenesis
    simp only [List.mem_map]
    constructor
    · rintro ⟨⟨k, v⟩, hm, rfl⟩; exact ⟨k, (mem_entries _ k v).mp hm⟩
    · rintro ⟨id, hp⟩; exact ⟨(id, p), (mem_entries _ id p).mpr hp, rfl⟩
  have hne : ∀ p, p ∈ exportGenesis r → p.denoms ≠ [] := by
    intro p hp
    obtain ⟨id, hid⟩ := (hmem p).mp hp
    obtain ⟨d, ds, hds, _⟩ := getID_some H (h.keyed id p hid)
    rw [hds]; exact List.cons_ne_nil _ _
  have hpw : (exportGenesis r).Pairwise
      (fun p p' => p.addr ≠ p'.addr ∧ (∀ d, d ∈ p.denoms → d ∉ p'.denoms) ∧ getID H p ≠ getID H p') := by
    unfold exportGenesis
    rw [List.pairwise_map]
    refine List.Pairwise.imp_of_mem ?_ (entries_pairwise r.pairs)
    intro e f he hf hkey
    obtain ⟨k, p⟩ := e
    obtain ⟨k', p'⟩ := f
    have hp := (mem_entries _ k p).mp he
    have hp' := (mem_entries _ k' p').mp hf
    have hdis := (h.consistent).disjoint k k' p p' hp hp'
    refine ⟨fun e => hkey (hdis (Or.inl e)), fun d hd hd' => hkey (hdis (Or.inr ⟨d, hd, hd'⟩)), ?_⟩
    rw [h.keyed k p hp, h.keyed k' p' hp']
    intro e; exact hkey (Option.some.inj e)
  obtain ⟨r', hr', he, hm, ha, hb, hc, hd⟩ := initGenesis_spec H (exportGenesis r) (wipe r) hne hpw
  refine ⟨r', hr', ⟨he, hm, ?_, ?_, ?_⟩⟩
  · intro id
    cases hf : r.pairs.find id with
    | some p => exact (ha p ((hmem p).mpr ⟨id, hf⟩) id (h.keyed id p hf)).1
    | none =>
      rw [hb id]
      · rfl
      · intro p hp e
        obtain ⟨k, hk⟩ := (hmem p).mp hp
        have := h.keyed k p hk
        rw [e] at this; have := Option.some.inj this; subst this
        rw [hf] at hk; cases hk
  · intro a
    cases hf : r.byErc.find a with
    | some id =>
      obtain ⟨p, hp, hpa⟩ := h.ercOk a id hf
      have := (ha p ((hmem p).mpr ⟨id, hp⟩) id (h.keyed id p hp)).2.1
      rw [hpa] at this; exact this
    | none =>
      rw [hc a]
      · rfl
      · intro p hp e
        obtain ⟨k, hk⟩ := (hmem p).mp hp
        have := (h.found k p hk).1
        rw [e, hf] at this; cases this
  · intro d
    cases hf : r.byDen.find d with
    | some id =>
      obtain ⟨p, hp, hpd⟩ := h.denOk d id hf
      exact (ha p ((hmem p).mpr ⟨id, hp⟩) id (h.keyed id p hp)).2.2 d hpd
    | none =>
      rw [hd d]
      · rfl
      · intro p hp hin
        obtain ⟨k, hk⟩ := (hmem p).mp hp
        have := (h.found k p hk).2 d hin
        rw [hf] at this; cases this

theorem restart_inv {r : Reg Id} (h : Inv H r) : Inv H (step H r .restart).1 := by
  obtain ⟨r', hr', he⟩ := restart_identity H h
  show Inv H (match restart H r with | some r' => (r', Status.ok) | none => (r, Status.panic)).1
  rw [hr']
  exact h.of_equiv H he

/-! ### all action sequences -/

/-- Assumptions about the environment of one action:
* the EVM (CREATE never returns an address that is in use): the address a successful `DeployERC20Contract` returns is
  not a registered contract;
* go-ethereum: the string `common.Address.String()` / `.Hex()` that an action stores in the pair parses back
  (`common.HexToAddress`) to the address it was made from. -/
def ActionFresh (r : Reg Id) : Action → Prop
  | .registerCoin _ _ _ dk addr str _ => dk = true → r.byErc.find addr = none ∧ addrOf str = addr
  | .registerERC20 _ addr str _ _ _ _ _ => addrOf str = addr
  | .update _ _ new newStr _ _ _ => addrOf newStr = new
  | _ => True

def FreshDeploys : Reg Id → List Action → Prop
  | _, [] => True
  | r, a :: as => ActionFresh r a ∧ FreshDeploys (step H r a).1 as

theorem step_inv (hH : HashInj H) {r : Reg Id} (h : Inv H r) (a : Action) (hf : ActionFresh r a) :
    Inv H (step H r a).1 := by
  cases a with
  | setParams b => exact ⟨h.found, h.ercOk, h.denOk, h.keyed, h.backed⟩
  | bankMeta m =>
    refine ⟨h.found, h.ercOk, h.denOk, h.keyed, ?_⟩
    intro d id hd
    have := h.backed d id hd
    show ((r.metas.ins m.base m).find d).isSome = true
    simp only [find_ins]
    by_cases e : m.base = d
    · simp [e]
    · simp only [e, if_false]; exact this
  | registerCoin vb hs ev dk addr str m => exact registerCoin_inv H hH h vb hs ev dk addr str m hf
  | addCoin vb hs ev c m => exact addCoin_inv H h vb hs ev c m
  | registerERC20 vb a str q s d ds mv => exact registerERC20_inv H hH h vb a str hf q s d ds mv
  | toggle vb t => exact toggleRelay_inv H h vb t
  | update vb o n ns q d1 d2 => exact updateERC20_inv H hH h vb o n ns hf q d1 d2
  | convert vb t d l => exact convert_inv H h vb t d l
  | restart => exact restart_inv H h

theorem inv_run (hH : HashInj H) (as : List Action) : ∀ {r : Reg Id}, Inv H r → FreshDeploys H r as → Inv H (run H r as) := by
  induction as with
  | nil => intro r h _; exact h
  | cons a as ih =>
    intro r h hf
    exact ih (step_inv H hH h a hf.1) hf.2

/-- **C12.** Every sequence of governance actions and conversion messages (with the repaired UpdateTokenPairERC20)
leads from a consistent registry to a consistent registry. -/
theorem consistent_run (hH : HashInj H) {r₀ : Reg Id} (as : List Action) (h₀ : Inv H r₀) (hf : FreshDeploys H r₀ as) :
    Consistent (run H r₀ as) :=
  (inv_run H hH as h₀ hf).consistent

/-- in particular from the empty registry of a new chain -/
theorem consistent_from_genesis (hH : HashInj H) (as : List Action) (hf : FreshDeploys H ({} : Reg Id) as) :
    Consistent (run H ({} : Reg Id) as) :=
  consistent_run H hH as (inv_empty H) hf

/-! ### a convertible coin stays convertible -/

/-- lookup by denomination and by contract address lead to the same pair, which lists the denomination
(what `MintingEnabled` needs from the registry) -/
def Convertible (r : Reg Id) (d : Denom) : Prop :=
  ∃ id p, r.byDen.find d = some id ∧ r.pairs.find id = some p ∧ d ∈ p.denoms ∧ r.byErc.find p.addr = some id

/-- the action is the self-destruct clean-up of the pair that lists `d` -/
def Deletes (r : Reg Id) (a : Action) (d : Denom) : Prop :=
  match a with
  | .convert _ t dn l => ∃ p, mintingEnabled r t dn = some p ∧ l.contains p.addr = false ∧ d ∈ p.denoms
  | _ => False

def NoDelete (d : Denom) : Reg Id → List Action → Prop
  | _, [] => True
  | r, a :: as => ¬ Deletes r a d ∧ NoDelete d (step H r a).1 as

theorem convertible_iff {r : Reg Id} (h : Inv H r) (d : Denom) : Convertible r d ↔ ∃ id, r.byDen.find d = some id := by
  constructor
  · rintro ⟨id, _, hd, _⟩; exact ⟨id, hd⟩
  · rintro ⟨id, hd⟩
    obtain ⟨p, hp, hpd⟩ := h.denOk d id hd
    exact ⟨id, p, hd, hp, hpd, (h.found id p hp).1⟩

theorem step_keeps_denom {r : Reg Id} (h : Inv H r) (a : Action) (d : Denom) (id : Id) (hd : r.byDen.find d = some id)
    (hn : ¬ Deletes r a d) : ∃ id', (step H r a).1.byDen.find d = some id' := by
  cases a with
  | setParams b => exact ⟨id, hd⟩
  | bankMeta m => exact ⟨id, hd⟩
  | registerCoin vb hs ev dk addr str m =>
    show ∃ id', (registerCoin H r vb hs ev dk addr str m).1.byDen.find d = some id'
    unfold registerCoin
    repeat' (first | split | (dsimp only; split))
    all_goals try exact ⟨id, hd⟩
    dsimp only
    simp only [find_insAll]
    by_cases e : d ∈ [m.base]
    · simp [e]
    · simp only [e, if_false]; exact ⟨id, hd⟩
  | addCoin vb hs ev c m =>
    show ∃ id', (addCoin H r vb hs ev c m).1.byDen.find d = some id'
    unfold addCoin
    repeat' (first | split | (dsimp only; split))
    all_goals try exact ⟨id, hd⟩
    dsimp only
    simp only [find_ins]
    by_cases e : m.base = d
    · simp [e]
    · simp only [e, if_false]; exact ⟨id, hd⟩
  | registerERC20 vb a str q s dn ds mv =>
    show ∃ id', (registerERC20 H r vb a str q s dn ds mv).1.byDen.find d = some id'
    unfold registerERC20
    repeat' (first | split | (dsimp only; split))
    all_goals try exact ⟨id, hd⟩
    all_goals
      dsimp only
      simp only [find_insAll]
      by_cases e : d ∈ [dn]
      · simp [e]
      · simp only [e, if_false]; exact ⟨id, hd⟩
  | toggle vb t =>
    show ∃ id', (toggleRelay H r vb t).1.byDen.find d = some id'
    unfold toggleRelay
    repeat' (first | split | (dsimp only; split))
    all_goals exact ⟨id, hd⟩
  | update vb o n ns q d1 d2 =>
    show ∃ id', (updateERC20 H r vb o n ns q d1 d2).1.byDen.find d = some id'
    unfold updateERC20
    repeat' (first | split | (dsimp only; split))
    all_goals try exact ⟨id, hd⟩
    rename_i r2 hdel
    unfold deleteTokenPair at hdel
    split at hdel
    · cases hdel
    · have := Option.some.inj hdel; subst this
      dsimp only
      simp only [find_insAll, find_delAll]
      rename_i p _ _ _ _ _ _ _ _ _ _ _ _ _
      by_cases e : d ∈ p.denoms
      · simp [e]
      · simp only [e, if_false]; exact ⟨id, hd⟩
  | restart =>
    obtain ⟨r', hr', he⟩ := restart_identity H h
    show ∃ id', (match restart H r with | some r' => (r', Status.ok) | none => (r, Status.panic)).1.byDen.find d = some id'
    rw [hr']
    exact ⟨id, by rw [he.byDen]; exact hd⟩
  | convert vb t dn l =>
    show ∃ id', (convert H r vb t dn l).1.byDen.find d = some id'
    unfold convert
    repeat' (first | split | (dsimp only; split))
    all_goals try exact ⟨id, hd⟩
    rename_i _ _ p hme hl _ r2 hdel
    unfold deleteTokenPair at hdel
    split at hdel
    · cases hdel
    · have := Option.some.inj hdel; subst this
      dsimp only
      simp only [find_delAll]
      have hnot : d ∉ p.denoms := by
        intro hin
        apply hn
        exact ⟨p, hme, by simpa using hl, hin⟩
      simp only [hnot, if_false]; exact ⟨id, hd⟩

/-- **C12, consequence.** A coin that could be converted before a sequence of registry changes which does not delete its
pair (self-destruct clean-up) can still be converted afterwards: its denomination and the (possibly new) contract
address of its pair lead to the same pair, and that pair lists it. -/
theorem convertible_back (hH : HashInj H) (d : Denom) (as : List Action) :
    ∀ {r : Reg Id}, Inv H r → FreshDeploys H r as → Convertible r d → NoDelete H d r as → Convertible (run H r as) d := by
  induction as with
  | nil => intro r _ _ hc _; exact hc
  | cons a as ih =>
    intro r h hf hc hn
    have h' := step_inv H hH h a hf.1
    obtain ⟨id, hd⟩ := (convertible_iff H h d).mp hc
    have hc' := (convertible_iff H h' d).mpr (step_keeps_denom H h a d id hd hn.1)
    exact ih h' hf.2 hc' hn.2

/-! ### no action panics on a consistent registry (`Denoms[0]` in GetID / UpdateTokenPairERC20, `DenomUnits[0]` in
DeployERC20Contract are the index expressions a governance handler could die on) -/

theorem step_never_panics {r : Reg Id} (h : Inv H r) (a : Action) : (step H r a).2 ≠ Status.panic := by
  cases a with
  | setParams b => intro hc; cases hc
  | bankMeta m => intro hc; cases hc
  | registerCoin vb hs ev dk addr str m =>
    show (registerCoin H r vb hs ev dk addr str m).2 ≠ Status.panic
    unfold registerCoin
    repeat' (first | split | (dsimp only; split))
    all_goals try (intro hc; cases hc; done)
    rename_i hvb _ _ _ _ _ _ _ _ hu
    have := hasDisplayUnit_of_vb hvb
    simp [hasDisplayUnit, hu] at this
  | addCoin vb hs ev c m =>
    show (addCoin H r vb hs ev c m).2 ≠ Status.panic
    unfold addCoin
    repeat' (first | split | (dsimp only; split))
    all_goals try (intro hc; cases hc; done)
    rename_i p hp _ hg
    obtain ⟨d, ds, hds, _⟩ := getID_some H (h.keyed _ p hp)
    simp [getID, hds] at hg
  | registerERC20 vb a str q s dn ds mv =>
    show (registerERC20 H r vb a str q s dn ds mv).2 ≠ Status.panic
    unfold registerERC20
    repeat' (first | split | (dsimp only; split))
    all_goals (intro hc; cases hc; done)
  | toggle vb t =>
    show (toggleRelay H r vb t).2 ≠ Status.panic
    unfold toggleRelay
    repeat' (first | split | (dsimp only; split))
    all_goals try (intro hc; cases hc; done)
    rename_i p hp _ hg
    have kp := h.keyed _ p hp
    unfold getID at kp hg
    rw [hg] at kp; cases kp
  | update vb o n ns q d1 d2 =>
    show (updateERC20 H r vb o n ns q d1 d2).2 ≠ Status.panic
    unfold updateERC20
    repeat' (first | split | (dsimp only; split))
    all_goals try (intro hc; cases hc; done)
    · rename_i p hp _ _ hds
      obtain ⟨d, ds, hds', _⟩ := getID_some H (h.keyed _ p hp)
      rw [hds] at hds'; cases hds'
    · rename_i p hp _ _ _ _ _ _ _ _ _ hdel
      unfold deleteTokenPair at hdel
      rw [h.keyed _ p hp] at hdel
      cases hdel
  | restart =>
    obtain ⟨r', hr', _⟩ := restart_identity H h
    show (match restart H r with | some r' => (r', Status.ok) | none => (r, Status.panic)).2 ≠ Status.panic
    rw [hr']
    intro hc; cases hc
  | convert vb t dn l =>
    show (convert H r vb t dn l).2 ≠ Status.panic
    unfold convert
    repeat' (first | split | (dsimp only; split))
    all_goals try (intro hc; cases hc; done)
    rename_i _ _ p hme _ _ hdel
    obtain ⟨id, hp, _, _⟩ := mintingEnabled_some hme
    rw [deleteTokenPair_stored H h hp] at hdel
    cases hdel

/-! ### genesis import -/

/-- What a genesis file must satisfy with respect to the registry it is imported into (the export of a consistent
registry, plus the bank genesis, does): every pair has a denomination; contracts — compared as 20-byte ADDRESSES
(`Pair.addr = HexToAddress(ERC20Address)`), whatever their spelling — and denominations are new and pairwise disjoint;
every denomination has bank metadata. NOTHING is required of the spelling of an address string (lower case, upper case,
with or without `0x`): `InitGenesis` computes the id from the string as written and stores the pair with the same string.
`GenesisState.Validate` checks much less (duplicates of the address STRING and of `Denoms[0]` only). -/
def GenesisOk (r : Reg Id) (ps : List Pair) : Prop :=
  (∀ p, p ∈ ps → p.denoms ≠ [] ∧ r.byErc.find p.addr = none ∧
      ∀ d, d ∈ p.denoms → r.byDen.find d = none ∧ (r.metas.find d).isSome = true) ∧
  ps.Pairwise (fun p q => p.addr ≠ q.addr ∧ ∀ d, d ∈ p.denoms → d ∉ q.denoms)

/-- **Genesis import, every spelling.** `InitGenesis` of a `GenesisOk` file does not panic and keeps the invariant —
in particular a pair written with a non-checksummed address is found by its contract address and by every denomination,
and (by `consistent_run` / `convertible_back` from the resulting state) stays so under all later actions. -/
theorem initGenesis_inv (hH : HashInj H) (ps : List Pair) :
    ∀ {r : Reg Id}, Inv H r → GenesisOk r ps → ∃ r', initGenesis H r ps = some r' ∧ Inv H r' := by
  induction ps with
  | nil => intro r h _; exact ⟨r, rfl, h⟩
  | cons p ps ih =>
    intro r h hg
    obtain ⟨hall, hpw⟩ := hg
    obtain ⟨hne, hfa, hfd⟩ := hall p (List.mem_cons_self ..)
    obtain ⟨s, dl, en, ow⟩ := p
    cases dl with
    | nil => exact absurd rfl hne
    | cons d0 ds =>
      have hpw' := List.pairwise_cons.mp hpw
      have h1 := inv_insert H hH h (addrOf s) s rfl d0 ds en ow r.metas hfa (fun d hd => (hfd d hd).1) (fun _ hd => hd)
        (fun d hd => (hfd d hd).2)
      have hg1 : GenesisOk
          { r with metas := r.metas, pairs := r.pairs.ins (H s d0) ⟨s, d0 :: ds, en, ow⟩,
                   byDen := r.byDen.insAll (d0 :: ds) (H s d0), byErc := r.byErc.ins (addrOf s) (H s d0) } ps := by
        refine ⟨?_, hpw'.2⟩
        intro q hq
        obtain ⟨qne, qfa, qfd⟩ := hall q (List.mem_cons_of_mem _ hq)
        have hdis := hpw'.1 q hq
        refine ⟨qne, ?_, ?_⟩
        · simp only [find_ins]
          have : ¬ addrOf s = q.addr := hdis.1
          simp only [this, if_false]; exact qfa
        · intro d hd
          simp only [find_insAll]
          have : d ∉ d0 :: ds := fun hin => hdis.2 d hin hd
          simp only [this, if_false]
          exact qfd d hd
      obtain ⟨r', hr', hI⟩ := ih h1 hg1
      refine ⟨r', ?_, hI⟩
      simp only [initGenesis, getID]
      exact hr'

/-- the same from the registry a chain starts with (only bank metadata) -/
theorem initGenesis_consistent (hH : HashInj H) (ps : List Pair) (metas : Map Denom Meta)
    (hg : GenesisOk ({ metas := metas } : Reg Id) ps) :
    ∃ r', initGenesis H ({ metas := metas } : Reg Id) ps = some r' ∧ Consistent r' := by
  have h0 : Inv H ({ metas := metas } : Reg Id) := by
    constructor <;> intro _ _ h <;> simp [Map.find] at h
  obtain ⟨r', hr', hI⟩ := initGenesis_inv H hH ps h0 hg
  exact ⟨r', hr', hI.consistent⟩

/-! ### the repaired `GenesisState.Validate` implies what the import needs -/

omit [DecidableEq Id] in
theorem addDenoms_some {seen seen' : List Denom} {ds : List Denom} (h : addDenoms seen ds = some seen') :
    (∀ d, d ∈ ds → d ∉ seen) ∧ ds.Nodup ∧ (∀ x, x ∈ seen' ↔ x ∈ seen ∨ x ∈ ds) := by
  induction ds generalizing seen with
  | nil =>
    have := Option.some.inj h; subst this
    exact ⟨fun _ hd => (nomatch hd), List.nodup_nil, fun x => by simp⟩
  | cons d ds ih =>
    unfold addDenoms at h
    split at h
    · cases h
    · next hc =>
      have hd : d ∉ seen := by simpa using hc
      obtain ⟨h1, h2, h3⟩ := ih h
      refine ⟨?_, ?_, ?_⟩
      · intro x hx
        rcases List.mem_cons.mp hx with rfl | hx
        · exact hd
        · intro hs; exact h1 x hx (List.mem_cons_of_mem _ hs)
      · refine List.nodup_cons.mpr ⟨?_, h2⟩
        intro hin; exact h1 d hin (List.mem_cons_self ..)
      · intro x
        rw [h3 x]
        simp only [List.mem_cons]
        constructor
        · rintro ((rfl | hx) | hx)
          · exact Or.inr (Or.inl rfl)
          · exact Or.inl hx
          · exact Or.inr (Or.inr hx)
        · rintro (hx | rfl | hx)
          · exact Or.inl (Or.inr hx)
          · exact Or.inl (Or.inl rfl)
          · exact Or.inr hx

omit [DecidableEq Id] in
theorem validateStrictAux_ok (ps : List Pair) : ∀ (seenE : List Addr) (seenD : List Denom),
    validateGenesisStrictAux seenE seenD ps = true →
    (∀ p, p ∈ ps → p.denoms ≠ [] ∧ p.addr ∉ seenE ∧ ∀ d, d ∈ p.denoms → d ∉ seenD) ∧
    ps.Pairwise (fun p q => p.addr ≠ q.addr ∧ ∀ d, d ∈ p.denoms → d ∉ q.denoms) := by
  induction ps with
  | nil => intro _ _ _; exact ⟨fun _ hp => (nomatch hp), List.Pairwise.nil⟩
  | cons p ps ih =>
    intro seenE seenD h
    unfold validateGenesisStrictAux at h
    split at h
    · cases h
    · next hne =>
      split at h
      · cases h
      · split at h
        · cases h
        · next hE =>
          split at h
          · cases h
          · next seenD' hadd =>
            obtain ⟨a1, _, a3⟩ := addDenoms_some hadd
            obtain ⟨i1, i2⟩ := ih _ _ h
            have hpE : p.addr ∉ seenE := by simpa using hE
            have hpne : p.denoms ≠ [] := by intro e; simp [e] at hne
            refine ⟨?_, List.pairwise_cons.mpr ⟨?_, i2⟩⟩
            · intro q hq
              rcases List.mem_cons.mp hq with rfl | hq
              · exact ⟨hpne, hpE, a1⟩
              · obtain ⟨q1, q2, q3⟩ := i1 q hq
                refine ⟨q1, fun hin => q2 (List.mem_cons_of_mem _ hin), ?_⟩
                intro d hd hs
                exact q3 d hd ((a3 d).mpr (Or.inl hs))
            · intro q hq
              obtain ⟨_, q2, q3⟩ := i1 q hq
              refine ⟨fun e => q2 (by rw [← e]; exact List.mem_cons_self ..), ?_⟩
              intro d hd hdq
              exact q3 d hdq ((a3 d).mpr (Or.inr hd))

/-- A genesis file that the REPAIRED `Validate` accepts, whose denominations have bank metadata, is imported into a
consistent registry — whatever the spelling of its addresses. (For the `Validate` of the unchanged tree this is false:
`Witness.validate_accepts_two_spellings`, `Witness.badGenesis`.) -/
theorem validateStrict_import_consistent (hH : HashInj H) (ps : List Pair) (metas : Map Denom Meta)
    (hv : validateGenesisStrict ps = true)
    (hm : ∀ p, p ∈ ps → ∀ d, d ∈ p.denoms → (metas.find d).isSome = true) :
    ∃ r', initGenesis H ({ metas := metas } : Reg Id) ps = some r' ∧ Consistent r' := by
  obtain ⟨h1, h2⟩ := validateStrictAux_ok ps [] [] hv
  refine initGenesis_consistent H hH ps metas ⟨?_, h2⟩
  intro p hp
  obtain ⟨q1, _, _⟩ := h1 p hp
  exact ⟨q1, rfl, fun d hd => ⟨rfl, hm p hp d hd⟩⟩

end

/-! ### the unrepaired UpdateTokenPairERC20 violates the property (finding F6), concrete witnesses;
    non-vacuity of the hypotheses of the theorems above -/

namespace Witness

/-- ids modelled by their preimage (address string as stored, denomination): trivially collision free -/
def Hp (a : String) (d : Denom) : String × Denom := (a, d)

theorem hp_inj : HashInj Hp := by
  intro a d a' d' h
  exact ⟨congrArg Prod.fst h, congrArg Prod.snd h⟩

abbrev R := Reg (String × Denom)

def e1 : Addr := "1111111111111111111111111111111111111111"
def e2 : Addr := "2222222222222222222222222222222222222222"
def e3 : Addr := "3333333333333333333333333333333333333333"
/-- `Address.String()` of the above (no letters: the EIP-55 spelling is the plain one) -/
def s1 : String := "0x1111111111111111111111111111111111111111"
def s2 : String := "0x2222222222222222222222222222222222222222"
def s3 : String := "0x3333333333333333333333333333333333333333"
/-- the string "0x1111111111111111111111111111111111111111" in the hex form of the line protocol -/
def e1Str : String := "307831313131313131313131313131313131313131313131313131313131313131313131313131313131"
def usdx : ERC20Data := ⟨"usdx", "USDX", 6⟩
def ccoin : Meta := { base := "ccoin", name := "ccoin", symbol := "CCOIN", display := "ccoin", desc := "c", units := [("ccoin", 0)] }

example : addrOf s1 = e1 ∧ addrOf s2 = e2 ∧ addrOf s3 = e3 := by decide

/-- RegisterERC20(e1); AddCoin(ccoin → e1); UpdateTokenPairERC20(e1 → e3) -/
def multiDenom : List Action :=
  [ .registerERC20 true e1 s1 (some usdx) "usdx" "agg/e1" "desc/e1" true,
    .addCoin true true false e1Str ccoin,
    .update true e1 e3 s3 (some usdx) "desc/e1" "desc/e3" ]

/-- RegisterERC20(e1); RegisterERC20(e2); UpdateTokenPairERC20(e1 → e2) -/
def registeredTarget : List Action :=
  [ .registerERC20 true e1 s1 (some usdx) "usdx" "agg/e1" "desc/e1" true,
    .registerERC20 true e2 s2 (some usdx) "usdx" "agg/e2" "desc/e2" true,
    .update true e1 e2 s2 (some usdx) "desc/e1" "desc/e2" ]

theorem fresh_multiDenom : FreshDeploys Hp ({} : R) multiDenom := by
  refine ⟨?_, True.intro, ?_, True.intro⟩
  · show addrOf s1 = e1; decide
  · show addrOf s3 = e3; decide

theorem fresh_registeredTarget : FreshDeploys Hp ({} : R) registeredTarget := by
  refine ⟨?_, ?_, ?_, True.intro⟩
  · show addrOf s1 = e1; decide
  · show addrOf s2 = e2; decide
  · show addrOf s2 = e2; decide

/-- F6 (a): the code as it was dropped the index entries of `Denoms[1..]`: the updated pair lists `ccoin`, the denomination
index does not know `ccoin` any more. -/
theorem updateOrig_drops_denominations : ¬ Consistent (runOrig Hp ({} : R) multiDenom) := by
  intro hc
  have h := (hc.found (s3, "agg/e1") ⟨s3, ["agg/e1", "ccoin"], true, 2⟩ (by decide)).2 "ccoin" (by decide)
  revert h
  decide

/-- … and the coin that was convertible before the update is not convertible afterwards (no pair was deleted) -/
theorem updateOrig_loses_convertibility :
    Convertible (runOrig Hp ({} : R) (multiDenom.take 2)) "ccoin" ∧
    ¬ Convertible (runOrig Hp ({} : R) multiDenom) "ccoin" := by
  constructor
  · exact ⟨(s1, "agg/e1"), ⟨s1, ["agg/e1", "ccoin"], true, 2⟩, by decide, by decide, by decide, by decide⟩
  · rintro ⟨id, p, h, _⟩
    have hn : (runOrig Hp ({} : R) multiDenom).byDen.find "ccoin" = none := by decide
    rw [hn] at h; cases h

/-- F6 (b): the code as it was accepted a new address that already belongs to another pair: contract `e2` ends up in two
pairs. -/
theorem updateOrig_accepts_registered_address : ¬ Consistent (runOrig Hp ({} : R) registeredTarget) := by
  intro hc
  have h := hc.disjoint (s2, "agg/e1") (s2, "agg/e2") ⟨s2, ["agg/e1"], true, 2⟩ ⟨s2, ["agg/e2"], true, 2⟩
    (by decide) (by decide) (Or.inl rfl)
  revert h
  decide

/-- the same histories with the repaired function: the update of the multi-denomination pair succeeds and `ccoin` is
still found; the update onto a registered address is rejected (state unchanged). Consistency of both is an instance
of `consistent_run`. -/
example : Consistent (run Hp ({} : R) multiDenom) :=
  consistent_from_genesis Hp hp_inj multiDenom fresh_multiDenom

example : (run Hp ({} : R) multiDenom).byDen.find "ccoin" = some (s3, "agg/e1") := by decide
example : (run Hp ({} : R) multiDenom).byErc.find e3 = some (s3, "agg/e1") := by decide
example : (run Hp ({} : R) multiDenom).byErc.find e1 = none := by decide

example : Convertible (run Hp ({} : R) multiDenom) "ccoin" :=
  convertible_back Hp hp_inj "ccoin" [multiDenom.getLast (by decide)]
    (inv_run Hp hp_inj (multiDenom.take 2) (inv_empty Hp) ⟨(by show addrOf s1 = e1; decide), True.intro, True.intro⟩)
    ⟨(by show addrOf s3 = e3; decide), True.intro⟩
    ⟨(s1, "agg/e1"), ⟨s1, ["agg/e1", "ccoin"], true, 2⟩, by decide, by decide, by decide, by decide⟩
    (by simp [NoDelete, Deletes, multiDenom])

example : (step Hp (run Hp ({} : R) (registeredTarget.take 2)) (registeredTarget.getLast (by decide))).2 = Status.err := by
  decide

/-- the masked hole: RegisterCoin / AddCoin test `IsDenomRegistered(Name)`, not `Base`; a coin whose BASE is registered
(under another name) is still rejected, because `verifyMetadata` fails on every denomination that has metadata -/
example : (step Hp (run Hp ({} : R) (multiDenom.take 2))
    (.registerCoin true true false true e2 s2 { ccoin with name := "other" })).2 = Status.err := by decide

/-- a restart in the middle of a history (non-vacuity of `restart_identity`; the histories of `consistent_run` may
contain `.restart` anywhere): after RegisterERC20, AddCoin, update the restarted registry answers as before, and a history
with a restart between every two actions is covered by `consistent_from_genesis`. -/
example : (restart Hp (run Hp ({} : R) multiDenom)).map (fun r => (r.byDen.find "ccoin", r.byErc.find e3, r.pairs.find (s3, "agg/e1")))
    = some (some (s3, "agg/e1"), some (s3, "agg/e1"), some ⟨s3, ["agg/e1", "ccoin"], true, 2⟩) := by decide

def multiDenomRestarts : List Action :=
  [ .registerERC20 true e1 s1 (some usdx) "usdx" "agg/e1" "desc/e1" true, .restart,
    .addCoin true true false e1Str ccoin, .restart,
    .update true e1 e3 s3 (some usdx) "desc/e1" "desc/e3", .restart ]

example : Consistent (run Hp ({} : R) multiDenomRestarts) :=
  consistent_from_genesis Hp hp_inj multiDenomRestarts
    ⟨(by show addrOf s1 = e1; decide), True.intro, True.intro, True.intro, (by show addrOf s3 = e3; decide), True.intro, True.intro⟩

example : (run Hp ({} : R) multiDenomRestarts).byDen.find "ccoin" = some (s3, "agg/e1") := by decide

/-! #### genesis files: spellings of an address -/

/-- one contract, four spellings that `IsHexAddress` accepts -/
def ea : Addr := "abcdefabcdefabcdefabcdefabcdefabcdefabcd"
def eaLower : String := "0xabcdefabcdefabcdefabcdefabcdefabcdefabcd"
def eaUpper : String := "0XABCDEFABCDEFABCDEFABCDEFABCDEFABCDEFABCD"
def eaMixed : String := "0xabcdefABCDEFabcdefABCDEFabcdefABCDEFabcd"
def eaBare : String := "ABCDEFabcdefabcdefabcdefabcdefabcdefabcd"
/-- the token string "0xABCDEF…" (upper-case digits) in the hex form of the line protocol: what a proposal may use -/
def eaTokenUpper : String :=
  "307841424344454641424344454641424344454641424344454641424344454641424344454641424344"

example : [eaLower, eaUpper, eaMixed, eaBare].map addrOf = [ea, ea, ea, ea] := by decide
example : [eaLower, eaUpper, eaMixed, eaBare].all isHexAddressStr = true := by decide
example : hexAddr? eaTokenUpper = some ea := by decide

def metasAB : Map Denom Meta := [("acoin", ccoin), ("bcoin", ccoin)]

/-- a two-denomination pair written with a lower-case address: the file is `GenesisOk`, so `initGenesis_inv` applies;
concretely the pair is stored under hash(string as written), found by the 20-byte address and by both denominations,
a proposal that spells the address differently toggles it, and an address update re-spells it. -/
def lowerGenesis : List Pair := [⟨eaLower, ["acoin", "bcoin"], true, 1⟩]

example : validateGenesis lowerGenesis = some true := by decide
example : GenesisOk ({ metas := metasAB } : R) lowerGenesis := by unfold GenesisOk; decide

def lowerImported : R := ((initGenesis Hp ({ metas := metasAB } : R) lowerGenesis).getD {})

example : lowerImported.pairs.find (eaLower, "acoin") = some ⟨eaLower, ["acoin", "bcoin"], true, 1⟩ ∧
    lowerImported.byErc.find ea = some (eaLower, "acoin") ∧ lowerImported.byDen.find "bcoin" = some (eaLower, "acoin") := by
  decide

example : (step Hp lowerImported (.toggle true eaTokenUpper)).2 = Status.ok ∧
    (step Hp lowerImported (.toggle true eaTokenUpper)).1.pairs.find (eaLower, "acoin")
      = some ⟨eaLower, ["acoin", "bcoin"], false, 1⟩ := by decide

/-- The class of change this part of the check is designed to catch: an import that stores the pair under another
spelling than the one the id was computed from ("normalise the address before SetTokenPair"). `canon` = the
re-spelling. The index entries then point to an id under which nothing is stored. -/
def initGenesisRespelled (canon : String → String) (r : R) : List Pair → Option R
  | [] => some r
  | p :: ps =>
    match getID Hp p with
    | none => none
    | some id =>
      let p' : Pair := { p with addrStr := canon p.addrStr }
      match getID Hp p' with
      | none => none
      | some id' =>
        initGenesisRespelled canon
          { r with pairs := r.pairs.ins id' p', byDen := r.byDen.insAll p.denoms id, byErc := r.byErc.ins p.addr id } ps

theorem respelled_import_inconsistent :
    ∃ r, initGenesisRespelled (fun _ => eaMixed) ({ metas := metasAB } : R) lowerGenesis = some r ∧ ¬ Consistent r := by
  refine ⟨_, rfl, ?_⟩
  intro hc
  have h := (hc.found (eaMixed, "acoin") ⟨eaMixed, ["acoin", "bcoin"], true, 1⟩ (by decide)).1
  revert h
  decide

/-- `GenesisState.Validate` compares address STRINGS: the same contract in two spellings passes, and the import puts the
contract into two pairs (the first is no longer found by its address). The file is not `GenesisOk` (addresses are
compared as 20 bytes there). -/
def twoSpellings : List Pair := [⟨eaLower, ["acoin"], true, 1⟩, ⟨eaUpper, ["bcoin"], true, 1⟩]

example : validateGenesis twoSpellings = some true := by decide
example : validateGenesisStrict twoSpellings = false := by decide
example : validateGenesisStrict lowerGenesis = true := by decide

theorem validate_accepts_two_spellings :
    validateGenesis twoSpellings = some true ∧
    ∃ r, initGenesis Hp ({ metas := metasAB } : R) twoSpellings = some r ∧ ¬ Consistent r := by
  refine ⟨by decide, _, rfl, ?_⟩
  intro hc
  have h := (hc.found (eaLower, "acoin") ⟨eaLower, ["acoin"], true, 1⟩ (by decide)).1
  revert h
  decide

/-- `GenesisState.Validate` accepts a file in which a denomination occurs twice (not in first position); importing it
gives an inconsistent registry: pair (e1) lists `shared`, the index sends `shared` to pair (e2). (Not a governance
action; genesis files are C13's subject. Recorded here because `consistent_run` needs a consistent start.) -/
def badGenesis : List Pair := [⟨s1, ["acoin", "shared"], true, 1⟩, ⟨s2, ["bcoin", "shared"], true, 1⟩]

example : validateGenesis badGenesis = some true := by decide
example : validateGenesisStrict badGenesis = false := by decide

example : ∃ r, initGenesis Hp ({} : R) badGenesis = some r ∧
    r.pairs.find (s1, "acoin") = some ⟨s1, ["acoin", "shared"], true, 1⟩ ∧ r.byDen.find "shared" = some (s2, "bcoin") :=
  ⟨_, rfl, by decide, by decide⟩

/-- a disjoint genesis with metadata is imported into a consistent registry (non-vacuity of `initGenesis_inv`) -/
example : GenesisOk ({ metas := metasAB } : R) [⟨s1, ["acoin"], true, 1⟩, ⟨eaBare, ["bcoin"], false, 2⟩] := by
  unfold GenesisOk
  decide

end Witness

end TM.Registry
