import TeleportModel.Model.GenesisKv
/-
C13 — lemmas about the key-ordered store, big-endian / decimal encodings and key splitting
(helpers of Proofs/C13.lean). Core Lean only.
-/
namespace TM.GKv
open TM

/-! ### the byte order -/

theorem blt_irrefl (a : Bytes) : blt a a = false := by
  induction a with
  | nil => rfl
  | cons x xs ih => simp [blt, ih]

theorem blt_trans {a b c : Bytes} : blt a b = true → blt b c = true → blt a c = true := by
  induction a generalizing b c with
  | nil =>
    cases b with
    | nil => simp [blt]
    | cons y ys => cases c with
      | nil => simp [blt]
      | cons z zs => simp [blt]
  | cons x xs ih =>
    cases b with
    | nil => simp [blt]
    | cons y ys =>
      cases c with
      | nil => simp [blt]
      | cons z zs =>
        simp only [blt]
        intro h1 h2
        split at h1
        · split at h2
          · have : x.toNat < z.toNat := by omega
            simp [this]
          · split at h2
            · simp at h2
            · have : x.toNat < z.toNat := by omega
              simp [this]
        · split at h1
          · simp at h1
          · split at h2
            · have : x.toNat < z.toNat := by omega
              simp [this]
            · split at h2
              · simp at h2
              · have h3 : ¬ x.toNat < z.toNat := by omega
                have h4 : ¬ z.toNat < x.toNat := by omega
                simp only [h3, h4, if_false]
                exact ih h1 h2

theorem blt_asymm {a b : Bytes} : blt a b = true → blt b a = false := by
  intro h
  cases hb : blt b a with
  | false => rfl
  | true =>
    have := blt_trans h hb
    rw [blt_irrefl] at this
    exact absurd this (by simp)

theorem blt_trichotomy (a b : Bytes) : blt a b = true ∨ a = b ∨ blt b a = true := by
  induction a generalizing b with
  | nil => cases b with
    | nil => simp
    | cons y ys => simp [blt]
  | cons x xs ih =>
    cases b with
    | nil => simp [blt]
    | cons y ys =>
      simp only [blt]
      by_cases h1 : x.toNat < y.toNat
      · simp [h1]
      · by_cases h2 : y.toNat < x.toNat
        · simp [h1, h2]
        · have hxy : x = y := UInt8.toNat_inj.mp (by omega)
          subst hxy
          simp only [h1, if_false]
          rcases ih ys with h | h | h
          · exact Or.inl h
          · exact Or.inr (Or.inl (by rw [h]))
          · exact Or.inr (Or.inr h)

theorem blt_ne {a b : Bytes} (h : blt a b = true) : a ≠ b := by
  intro e; subst e; rw [blt_irrefl] at h; exact absurd h (by simp)

/-! ### the store -/

theorem sorted_cons {a : Bytes × Bytes} {r : Store} :
    Sorted (a :: r) ↔ (∀ b ∈ r, blt a.1 b.1 = true) ∧ Sorted r := by
  unfold Sorted; exact List.pairwise_cons

theorem sorted_nil : Sorted [] := List.Pairwise.nil

theorem sorted_tail {a : Bytes × Bytes} {r : Store} (h : Sorted (a :: r)) : Sorted r := (sorted_cons.mp h).2

theorem sortedB_iff (s : Store) : sortedB s = true ↔ Sorted s := by
  induction s with
  | nil => simp [sortedB, sorted_nil]
  | cons a r ih =>
    cases r with
    | nil => simp [sortedB, sorted_cons, sorted_nil]
    | cons b r' =>
      simp only [sortedB, Bool.and_eq_true, ih]
      constructor
      · intro ⟨h1, h2⟩
        refine sorted_cons.mpr ⟨?_, h2⟩
        intro c hc
        rcases List.mem_cons.mp hc with e | hc'
        · subst e; exact h1
        · exact blt_trans h1 ((sorted_cons.mp h2).1 c hc')
      · intro h
        have := sorted_cons.mp h
        exact ⟨this.1 b (List.mem_cons_self ..), this.2⟩

theorem get_none_of_lt {r : Store} {k : Bytes} (h : ∀ b ∈ r, blt k b.1 = true) : get r k = none := by
  induction r with
  | nil => rfl
  | cons a r ih =>
    obtain ⟨k', v'⟩ := a
    have h1 := h (k', v') (List.mem_cons_self ..)
    have hne : k' ≠ k := fun e => blt_ne h1 e.symm
    simp only [get, hne, if_false]
    exact ih (fun b hb => h b (List.mem_cons_of_mem _ hb))

theorem get_some_mem {s : Store} {k v : Bytes} (h : get s k = some v) : (k, v) ∈ s := by
  induction s with
  | nil => simp [get] at h
  | cons a r ih =>
    obtain ⟨k', v'⟩ := a
    simp only [get] at h
    split at h
    · next e => subst e; simp at h; subst h; exact List.mem_cons_self ..
    · exact List.mem_cons_of_mem _ (ih h)

theorem mem_iff_get {s : Store} (h : Sorted s) (k v : Bytes) : (k, v) ∈ s ↔ get s k = some v := by
  constructor
  · intro hm
    induction s with
    | nil => simp at hm
    | cons a r ih =>
      obtain ⟨k', v'⟩ := a
      have hs := sorted_cons.mp h
      rcases List.mem_cons.mp hm with e | hm'
      · injection e with e1 e2; subst e1; subst e2; simp [get]
      · have hlt := hs.1 (k, v) hm'
        have hne : k' ≠ k := blt_ne hlt
        simp only [get, hne, if_false]
        exact ih hs.2 hm'
  · exact get_some_mem

theorem mem_unique {s : Store} (h : Sorted s) {k v v' : Bytes} (h1 : (k, v) ∈ s) (h2 : (k, v') ∈ s) : v = v' := by
  have a := (mem_iff_get h k v).mp h1
  have b := (mem_iff_get h k v').mp h2
  rw [a] at b; injection b

theorem mem_set_sub {s : Store} {k v : Bytes} {kv : Bytes × Bytes} (h : kv ∈ set s k v) : kv = (k, v) ∨ kv ∈ s := by
  induction s with
  | nil => simp [set] at h; exact Or.inl h
  | cons a r ih =>
    obtain ⟨k', v'⟩ := a
    simp only [set] at h
    split at h
    · rcases List.mem_cons.mp h with e | h'
      · exact Or.inl e
      · exact Or.inr (List.mem_cons_of_mem _ h')
    · split at h
      · rcases List.mem_cons.mp h with e | h'
        · exact Or.inl e
        · exact Or.inr h'
      · rcases List.mem_cons.mp h with e | h'
        · exact Or.inr (e ▸ List.mem_cons_self ..)
        · rcases ih h' with e | h''
          · exact Or.inl e
          · exact Or.inr (List.mem_cons_of_mem _ h'')

theorem sorted_set {s : Store} (h : Sorted s) (k v : Bytes) : Sorted (set s k v) := by
  induction s with
  | nil => exact sorted_cons.mpr ⟨by simp, sorted_nil⟩
  | cons a r ih =>
    obtain ⟨k', v'⟩ := a
    have hs := sorted_cons.mp h
    simp only [set]
    split
    · next e => subst e; exact sorted_cons.mpr ⟨hs.1, hs.2⟩
    · next hne =>
      split
      · next hlt =>
        refine sorted_cons.mpr ⟨?_, h⟩
        intro b hb
        rcases List.mem_cons.mp hb with e | hb'
        · subst e; exact hlt
        · exact blt_trans hlt (hs.1 b hb')
      · next hnlt =>
        have hgt : blt k' k = true := by
          rcases blt_trichotomy k' k with h1 | h1 | h1
          · exact h1
          · exact absurd h1 hne
          · exact absurd h1 hnlt
        refine sorted_cons.mpr ⟨?_, ih hs.2⟩
        intro b hb
        rcases mem_set_sub hb with e | hb'
        · subst e; exact hgt
        · exact hs.1 b hb'

theorem get_set {s : Store} (h : Sorted s) (k v k' : Bytes) :
    get (set s k v) k' = if k = k' then some v else get s k' := by
  induction s with
  | nil =>
    simp only [set, get]
  | cons a r ih =>
    obtain ⟨k0, v0⟩ := a
    have hs := sorted_cons.mp h
    simp only [set]
    split
    · next e =>
      subst e
      simp only [get]
      by_cases e : k0 = k' <;> simp [e]
    · next hne =>
      split
      · next hlt =>
        simp only [get]
      · next hnlt =>
        simp only [get]
        rw [ih hs.2]
        by_cases e : k0 = k'
        · subst e
          have : ¬ k = k0 := fun e => hne e.symm
          simp [this]
        · simp [e]

theorem mem_del_sub {s : Store} {k : Bytes} {b : Bytes × Bytes} (h : b ∈ del s k) : b ∈ s := by
  induction s with
  | nil => simp [del] at h
  | cons a r ih =>
    obtain ⟨k0, v0⟩ := a
    simp only [del] at h
    split at h
    · exact List.mem_cons_of_mem _ h
    · rcases List.mem_cons.mp h with e | h'
      · exact e ▸ List.mem_cons_self ..
      · exact List.mem_cons_of_mem _ (ih h')

theorem sorted_del {s : Store} (h : Sorted s) (k : Bytes) : Sorted (del s k) := by
  induction s with
  | nil => exact sorted_nil
  | cons a r ih =>
    obtain ⟨k0, v0⟩ := a
    have hs := sorted_cons.mp h
    simp only [del]
    split
    · exact hs.2
    · refine sorted_cons.mpr ⟨?_, ih hs.2⟩
      intro b hb
      exact hs.1 b (mem_del_sub hb)

theorem get_del {s : Store} (h : Sorted s) (k k' : Bytes) :
    get (del s k) k' = if k = k' then none else get s k' := by
  induction s with
  | nil => simp [del, get]
  | cons a r ih =>
    obtain ⟨k0, v0⟩ := a
    have hs := sorted_cons.mp h
    simp only [del]
    split
    · next e =>
      subst e
      simp only [get]
      by_cases e : k0 = k'
      · subst e
        simp only [if_true]
        exact get_none_of_lt hs.1
      · simp [e]
    · next hne =>
      simp only [get]
      rw [ih hs.2]
      by_cases e : k0 = k'
      · subst e
        have : ¬ k = k0 := fun e => hne e.symm
        simp [this]
      · simp [e]

theorem ext {s t : Store} (hs : Sorted s) (ht : Sorted t) (h : ∀ k, get s k = get t k) : s = t := by
  induction s generalizing t with
  | nil =>
    cases t with
    | nil => rfl
    | cons b t' =>
      obtain ⟨k, v⟩ := b
      have := h k
      simp [get] at this
  | cons a r ih =>
    obtain ⟨k0, v0⟩ := a
    have hs' := sorted_cons.mp hs
    cases t with
    | nil =>
      have := h k0
      simp [get] at this
    | cons b t' =>
      obtain ⟨k1, v1⟩ := b
      have ht' := sorted_cons.mp ht
      -- heads have the same key
      have hk : k0 = k1 := by
        rcases blt_trichotomy k0 k1 with hlt | e | hgt
        · -- k0 < k1: k0 is not in t
          have h0 := h k0
          have hne : k1 ≠ k0 := fun e => blt_ne hlt e.symm
          simp only [get, if_true, hne, if_false] at h0
          have : get t' k0 = none := get_none_of_lt (fun b hb => blt_trans hlt (ht'.1 b hb))
          rw [this] at h0
          exact absurd h0 (by simp)
        · exact e
        · have h1 := h k1
          have hne : k0 ≠ k1 := fun e => blt_ne hgt e.symm
          simp only [get, if_true, hne, if_false] at h1
          have : get r k1 = none := get_none_of_lt (fun b hb => blt_trans hgt (hs'.1 b hb))
          rw [this] at h1
          exact absurd h1.symm (by simp)
      subst hk
      have hv : v0 = v1 := by
        have := h k0
        simp [get] at this
        exact this
      subst hv
      congr 1
      apply ih hs'.2 ht'.2
      intro k
      have hk := h k
      simp only [get] at hk
      by_cases e : k0 = k
      · subst e
        rw [get_none_of_lt hs'.1, get_none_of_lt ht'.1]
      · simpa [e] using hk

/-! ### writing lists of entries -/

theorem sorted_setAll {s : Store} (h : Sorted s) (l : List (Bytes × Bytes)) : Sorted (setAll s l) := by
  induction l generalizing s with
  | nil => exact h
  | cons a l ih => exact ih (sorted_set h a.1 a.2)

theorem setAll_append (s : Store) (l1 l2 : List (Bytes × Bytes)) : setAll s (l1 ++ l2) = setAll (setAll s l1) l2 := by
  simp [setAll, List.foldl_append]

/-- writes that are all already present leave a sorted store unchanged -/
theorem setAll_absorb {s : Store} (hs : Sorted s) (l : List (Bytes × Bytes)) (h1 : ∀ kv, kv ∈ l → kv ∈ s) :
    setAll s l = s := by
  induction l with
  | nil => rfl
  | cons a l ih =>
    obtain ⟨k, v⟩ := a
    have hm : (k, v) ∈ s := h1 _ (List.mem_cons_self ..)
    have e : set s k v = s := by
      apply ext (sorted_set hs k v) hs
      intro k'
      rw [get_set hs]
      by_cases e : k = k'
      · subst e; simp [(mem_iff_get hs k v).mp hm]
      · simp [e]
    show setAll (set s k v) l = s
    rw [e]
    exact ih (fun kv hkv => h1 kv (List.mem_cons_of_mem _ hkv))

/-- a value read after a list of writes was either written or was there before -/
theorem get_setAll_some {s : Store} (hs : Sorted s) (l : List (Bytes × Bytes)) {k v : Bytes}
    (h : get (setAll s l) k = some v) : (k, v) ∈ l ∨ get s k = some v := by
  induction l generalizing s with
  | nil => exact Or.inr h
  | cons a l ih =>
    obtain ⟨k0, v0⟩ := a
    rcases ih (sorted_set hs k0 v0) h with h' | h'
    · exact Or.inl (List.mem_cons_of_mem _ h')
    · rw [get_set hs] at h'
      by_cases e : k0 = k
      · subst e; simp at h'; subst h'; exact Or.inl (List.mem_cons_self ..)
      · simp [e] at h'; exact Or.inr h'

/-- a written entry is read back if every write to its key carries the same value -/
theorem get_setAll_mem {s : Store} (hs : Sorted s) (l : List (Bytes × Bytes)) {k v : Bytes}
    (hm : (k, v) ∈ l) (hu : ∀ kv ∈ l, kv.1 = k → kv.2 = v) : get (setAll s l) k = some v := by
  induction l generalizing s with
  | nil => simp at hm
  | cons a l ih =>
    obtain ⟨k0, v0⟩ := a
    have hs' := sorted_set hs k0 v0
    by_cases hl : (k, v) ∈ l
    · exact ih hs' hl (fun kv hkv => hu kv (List.mem_cons_of_mem _ hkv))
    · rcases List.mem_cons.mp hm with e | hm'
      · injection e with e1 e2; subst e1; subst e2
        -- no later write touches k unless with the same value; show by a generalised statement
        have : ∀ (t : Store), Sorted t → get t k = some v → ∀ l', (∀ kv ∈ l', kv.1 = k → kv.2 = v) → get (setAll t l') k = some v := by
          intro t ht hg l'
          induction l' generalizing t with
          | nil => intro _; exact hg
          | cons b l' ih' =>
            intro hu'
            obtain ⟨k1, v1⟩ := b
            apply ih' (set t k1 v1) (sorted_set ht k1 v1)
            · rw [get_set ht]
              by_cases e : k1 = k
              · have := hu' (k1, v1) (List.mem_cons_self ..) e
                simp at this; subst this; simp [e]
              · simp [e, hg]
            · exact fun kv hkv => hu' kv (List.mem_cons_of_mem _ hkv)
        apply this _ hs' _ l (fun kv hkv => hu kv (List.mem_cons_of_mem _ hkv))
        rw [get_set hs]; simp
      · exact absurd hm' hl

/-- the key lemma of the genesis round trip: writing (in ANY order, with repetitions) exactly the entries of a
sorted store into the empty store rebuilds it -/
theorem setAll_nil_eq {s : Store} (hs : Sorted s) (l : List (Bytes × Bytes))
    (h1 : ∀ kv, kv ∈ l → kv ∈ s) (h2 : ∀ kv, kv ∈ s → kv ∈ l) : setAll [] l = s := by
  apply ext (sorted_setAll sorted_nil l) hs
  intro k
  cases hg : get s k with
  | some v =>
    have hm : (k, v) ∈ l := h2 _ ((mem_iff_get hs k v).mpr hg)
    apply get_setAll_mem sorted_nil l hm
    intro kv hkv e
    have := h1 kv hkv
    obtain ⟨k', v'⟩ := kv
    simp at e; subst e
    exact mem_unique hs this ((mem_iff_get hs _ v).mpr hg)
  | none =>
    cases hg' : get (setAll [] l) k with
    | none => rfl
    | some v =>
      rcases get_setAll_some sorted_nil l hg' with h | h
      · have := (mem_iff_get hs k v).mp (h1 _ h)
        rw [hg] at this; exact absurd this (by simp)
      · simp [get] at h

/-! ### prefixes and prefix iteration -/

theorem isPrefixOf_iff (p k : Bytes) : p.isPrefixOf k = true ↔ ∃ r, k = p ++ r := by
  induction p generalizing k with
  | nil => simp
  | cons a p ih =>
    cases k with
    | nil => simp [List.isPrefixOf]
    | cons b k =>
      simp only [List.isPrefixOf, Bool.and_eq_true, beq_iff_eq, ih, List.cons_append, List.cons.injEq]
      constructor
      · rintro ⟨e, r, hr⟩; exact ⟨r, e.symm, hr⟩
      · rintro ⟨r, e, hr⟩; exact ⟨e.symm, r, hr⟩

theorem isPrefixOf_append (p r : Bytes) : p.isPrefixOf (p ++ r) = true := (isPrefixOf_iff p _).mpr ⟨r, rfl⟩

theorem isPrefixOf_drop {p k : Bytes} (h : p.isPrefixOf k = true) : p ++ k.drop p.length = k := by
  obtain ⟨r, e⟩ := (isPrefixOf_iff p k).mp h
  subst e; simp

theorem isPrefixOf_trans {p q k : Bytes} (h1 : p.isPrefixOf q = true) (h2 : q.isPrefixOf k = true) : p.isPrefixOf k = true := by
  obtain ⟨r1, e1⟩ := (isPrefixOf_iff p q).mp h1
  obtain ⟨r2, e2⟩ := (isPrefixOf_iff q k).mp h2
  exact (isPrefixOf_iff p k).mpr ⟨r1 ++ r2, by rw [e2, e1, List.append_assoc]⟩

/-- two prefixes of the same key are comparable -/
theorem isPrefixOf_comparable {p q k : Bytes} (h1 : p.isPrefixOf k = true) (h2 : q.isPrefixOf k = true) :
    p.isPrefixOf q = true ∨ q.isPrefixOf p = true := by
  induction p generalizing q k with
  | nil => exact Or.inl (by simp)
  | cons a p ih =>
    cases q with
    | nil => exact Or.inr (by simp)
    | cons b q =>
      cases k with
      | nil => simp [List.isPrefixOf] at h1
      | cons c k =>
        simp only [List.isPrefixOf, Bool.and_eq_true, beq_iff_eq] at h1 h2 ⊢
        obtain ⟨e1, h1⟩ := h1
        obtain ⟨e2, h2⟩ := h2
        subst e1; subst e2
        rcases ih h1 h2 with h | h
        · exact Or.inl ⟨rfl, h⟩
        · exact Or.inr ⟨rfl, h⟩

theorem isSuffix_iff (suf k : Bytes) : isSuffix suf k = true ↔ ∃ r, k = r ++ suf := by
  unfold isSuffix
  rw [isPrefixOf_iff]
  constructor
  · rintro ⟨r, e⟩
    refine ⟨r.reverse, ?_⟩
    have := congrArg List.reverse e
    simpa using this
  · rintro ⟨r, e⟩
    exact ⟨r.reverse, by subst e; simp⟩

theorem mem_iter (s : Store) (p : Bytes) (kv : Bytes × Bytes) : kv ∈ iter s p ↔ (kv ∈ s ∧ p.isPrefixOf kv.1 = true) := by
  simp [iter, List.mem_filter]

theorem sorted_iter {s : Store} (h : Sorted s) (p : Bytes) : Sorted (iter s p) := by
  unfold Sorted iter
  exact List.Pairwise.sublist List.filter_sublist h

/-! ### big-endian uint64 -/

theorem be64_length (n : UInt64) : (be64 n).length = 8 := by simp [be64]

theorem be64_u64OfBE8 (b0 b1 b2 b3 b4 b5 b6 b7 : UInt8) :
    be64 (u64OfBE [b0, b1, b2, b3, b4, b5, b6, b7]) = [b0, b1, b2, b3, b4, b5, b6, b7] := by
  have h0 := UInt8.toNat_lt b0
  have h1 := UInt8.toNat_lt b1
  have h2 := UInt8.toNat_lt b2
  have h3 := UInt8.toNat_lt b3
  have h4 := UInt8.toNat_lt b4
  have h5 := UInt8.toNat_lt b5
  have h6 := UInt8.toNat_lt b6
  have h7 := UInt8.toNat_lt b7
  simp only [be64, u64OfBE, natOfBE, List.foldl, List.map, UInt64.toNat_ofNat']
  have e0 : (((((((((0 * 256 + b0.toNat) * 256 + b1.toNat) * 256 + b2.toNat) * 256 + b3.toNat) * 256 + b4.toNat) * 256 + b5.toNat) * 256 + b6.toNat) * 256 + b7.toNat) % 2 ^ 64) / 2 ^ 56 % 256 = b0.toNat := by omega
  have e1 : (((((((((0 * 256 + b0.toNat) * 256 + b1.toNat) * 256 + b2.toNat) * 256 + b3.toNat) * 256 + b4.toNat) * 256 + b5.toNat) * 256 + b6.toNat) * 256 + b7.toNat) % 2 ^ 64) / 2 ^ 48 % 256 = b1.toNat := by omega
  have e2 : (((((((((0 * 256 + b0.toNat) * 256 + b1.toNat) * 256 + b2.toNat) * 256 + b3.toNat) * 256 + b4.toNat) * 256 + b5.toNat) * 256 + b6.toNat) * 256 + b7.toNat) % 2 ^ 64) / 2 ^ 40 % 256 = b2.toNat := by omega
  have e3 : (((((((((0 * 256 + b0.toNat) * 256 + b1.toNat) * 256 + b2.toNat) * 256 + b3.toNat) * 256 + b4.toNat) * 256 + b5.toNat) * 256 + b6.toNat) * 256 + b7.toNat) % 2 ^ 64) / 2 ^ 32 % 256 = b3.toNat := by omega
  have e4 : (((((((((0 * 256 + b0.toNat) * 256 + b1.toNat) * 256 + b2.toNat) * 256 + b3.toNat) * 256 + b4.toNat) * 256 + b5.toNat) * 256 + b6.toNat) * 256 + b7.toNat) % 2 ^ 64) / 2 ^ 24 % 256 = b4.toNat := by omega
  have e5 : (((((((((0 * 256 + b0.toNat) * 256 + b1.toNat) * 256 + b2.toNat) * 256 + b3.toNat) * 256 + b4.toNat) * 256 + b5.toNat) * 256 + b6.toNat) * 256 + b7.toNat) % 2 ^ 64) / 2 ^ 16 % 256 = b5.toNat := by omega
  have e6 : (((((((((0 * 256 + b0.toNat) * 256 + b1.toNat) * 256 + b2.toNat) * 256 + b3.toNat) * 256 + b4.toNat) * 256 + b5.toNat) * 256 + b6.toNat) * 256 + b7.toNat) % 2 ^ 64) / 2 ^ 8 % 256 = b6.toNat := by omega
  have e7 : (((((((((0 * 256 + b0.toNat) * 256 + b1.toNat) * 256 + b2.toNat) * 256 + b3.toNat) * 256 + b4.toNat) * 256 + b5.toNat) * 256 + b6.toNat) * 256 + b7.toNat) % 2 ^ 64) / 2 ^ 0 % 256 = b7.toNat := by omega
  rw [e0, e1, e2, e3, e4, e5, e6, e7]
  simp only [UInt8.ofNat_toNat]

/-- every 8-byte pattern is the big-endian encoding of the number it decodes to -/
theorem be64_u64OfBE (bs : Bytes) (h : bs.length = 8) : be64 (u64OfBE bs) = bs := by
  match bs, h with
  | [b0, b1, b2, b3, b4, b5, b6, b7], _ => exact be64_u64OfBE8 ..

theorem be_arith (N : Nat) (hn : N < 2^64) :
    ((((((((0 * 256 + N / 2 ^ 56 % 256 % 2 ^ 8) * 256 + N / 2 ^ 48 % 256 % 2 ^ 8) * 256 + N / 2 ^ 40 % 256 % 2 ^ 8) * 256 + N / 2 ^ 32 % 256 % 2 ^ 8) * 256 + N / 2 ^ 24 % 256 % 2 ^ 8) * 256 + N / 2 ^ 16 % 256 % 2 ^ 8) * 256 + N / 2 ^ 8 % 256 % 2 ^ 8) * 256 + N / 2 ^ 0 % 256 % 2 ^ 8) % 2 ^ 64 = N := by
  have f0 : N / 2^0 = (N / 2^8) * 256 + N / 2^0 % 256 := by omega
  have f1 : N / 2^8 = (N / 2^16) * 256 + N / 2^8 % 256 := by omega
  have f2 : N / 2^16 = (N / 2^24) * 256 + N / 2^16 % 256 := by omega
  have f3 : N / 2^24 = (N / 2^32) * 256 + N / 2^24 % 256 := by omega
  have f4 : N / 2^32 = (N / 2^40) * 256 + N / 2^32 % 256 := by omega
  have f5 : N / 2^40 = (N / 2^48) * 256 + N / 2^40 % 256 := by omega
  have f6 : N / 2^48 = (N / 2^56) * 256 + N / 2^48 % 256 := by omega
  have f7 : N / 2^56 = N / 2^56 % 256 := by omega
  have g0 : N / 2^0 = N := by simp
  have b0 : N / 2^0 % 256 < 256 := Nat.mod_lt _ (by decide)
  have b1 : N / 2^8 % 256 < 256 := Nat.mod_lt _ (by decide)
  have b2 : N / 2^16 % 256 < 256 := Nat.mod_lt _ (by decide)
  have b3 : N / 2^24 % 256 < 256 := Nat.mod_lt _ (by decide)
  have b4 : N / 2^32 % 256 < 256 := Nat.mod_lt _ (by decide)
  have b5 : N / 2^40 % 256 < 256 := Nat.mod_lt _ (by decide)
  have b6 : N / 2^48 % 256 < 256 := Nat.mod_lt _ (by decide)
  have b7 : N / 2^56 % 256 < 256 := Nat.mod_lt _ (by decide)
  generalize N / 2^0 % 256 = r0 at *
  generalize N / 2^8 % 256 = r1 at *
  generalize N / 2^16 % 256 = r2 at *
  generalize N / 2^24 % 256 = r3 at *
  generalize N / 2^32 % 256 = r4 at *
  generalize N / 2^40 % 256 = r5 at *
  generalize N / 2^48 % 256 = r6 at *
  generalize N / 2^56 % 256 = r7 at *
  generalize N / 2^0 = q0 at *
  generalize N / 2^8 = q1 at *
  generalize N / 2^16 = q2 at *
  generalize N / 2^24 = q3 at *
  generalize N / 2^32 = q4 at *
  generalize N / 2^40 = q5 at *
  generalize N / 2^48 = q6 at *
  generalize N / 2^56 = q7 at *
  omega

theorem u64OfBE_be64 (n : UInt64) : u64OfBE (be64 n) = n := by
  have hn := UInt64.toNat_lt n
  apply UInt64.toNat_inj.mp
  simp only [be64, u64OfBE, natOfBE, List.foldl, List.map, UInt64.toNat_ofNat', UInt8.toNat_ofNat']
  exact be_arith n.toNat hn

theorem be64_inj {a b : UInt64} (h : be64 a = be64 b) : a = b := by
  rw [← u64OfBE_be64 a, ← u64OfBE_be64 b, h]

/-! ### decimal -/

theorem digit_toNat (n : Nat) : (digit n).toNat = 48 + n % 10 := by
  simp only [digit, UInt8.toNat_ofNat']
  omega

theorem parseDecAux_digit (n : Nat) (acc : Bytes) (a : Nat) :
    parseDecAux (digit n :: acc) a = parseDecAux acc (a * 10 + n % 10) := by
  have := digit_toNat n
  simp only [parseDecAux, this]
  have h : 48 ≤ 48 + n % 10 ∧ 48 + n % 10 ≤ 57 := by omega
  simp only [h, and_self, if_true]
  congr 1
  omega

theorem parse_toDecAux (fuel : Nat) : ∀ n, n < 10 ^ fuel →
    ∃ m, ∀ acc a, parseDecAux (toDecAux fuel n acc) a = parseDecAux acc (a * m + n) := by
  induction fuel with
  | zero =>
    intro n hn
    refine ⟨1, fun acc a => ?_⟩
    have : n = 0 := by simpa using hn
    subst this
    simp [toDecAux]
  | succ f ih =>
    intro n hn
    by_cases h10 : n < 10
    · refine ⟨10, fun acc a => ?_⟩
      simp only [toDecAux, h10, if_true]
      rw [parseDecAux_digit]
      congr 1
      omega
    · have hq : n / 10 < 10 ^ f := by
        rw [Nat.pow_succ] at hn
        omega
      obtain ⟨m, hm⟩ := ih (n / 10) hq
      refine ⟨m * 10, fun acc a => ?_⟩
      simp only [toDecAux, h10, if_false]
      rw [hm, parseDecAux_digit]
      congr 1
      have : a * (m * 10) = a * m * 10 := by rw [Nat.mul_assoc]
      omega

theorem toDecAux_length (fuel : Nat) : ∀ n acc, acc.length < (toDecAux (fuel + 1) n acc).length := by
  induction fuel with
  | zero =>
    intro n acc
    simp only [toDecAux]
    split <;> simp
  | succ f ih =>
    intro n acc
    rw [toDecAux]
    split
    · simp
    · have := ih (n / 10) (digit (n % 10) :: acc)
      simp only [List.length_cons] at this
      omega

theorem toDec_ne_nil (n : Nat) : toDec n ≠ [] := by
  intro h
  have := toDecAux_length 19 n []
  unfold toDec at h
  rw [h] at this
  simp at this

theorem parseDec_toDec (n : Nat) (h : n < 2 ^ 64) : parseDec (toDec n) = some n := by
  have hn : n < 10 ^ 20 := by omega
  obtain ⟨m, hm⟩ := parse_toDecAux 20 n hn
  unfold parseDec
  simp only [toDec_ne_nil, if_false]
  have := hm [] 0
  unfold toDec
  rw [this]
  simp [parseDecAux, h]

theorem toDecAux_digits (fuel : Nat) : ∀ n acc x, x ∈ toDecAux fuel n acc → x ∈ acc ∨ (48 ≤ x.toNat ∧ x.toNat ≤ 57) := by
  induction fuel with
  | zero => intro n acc x hx; exact Or.inl hx
  | succ f ih =>
    intro n acc x hx
    simp only [toDecAux] at hx
    split at hx
    · rcases List.mem_cons.mp hx with e | hx'
      · subst e; right; rw [digit_toNat]; omega
      · exact Or.inl hx'
    · rcases ih _ _ _ hx with h | h
      · rcases List.mem_cons.mp h with e | h'
        · subst e; right; rw [digit_toNat]; omega
        · exact Or.inl h'
      · exact Or.inr h

theorem toDec_noSlash (n : Nat) : slash ∉ toDec n := by
  intro h
  rcases toDecAux_digits 20 n [] slash h with h | h
  · simp at h
  · simp [slash] at h

/-! ### splitting -/

theorem splitOn_noSep {sep : UInt8} {a : Bytes} (h : sep ∉ a) : splitOn sep a = [a] := by
  induction a with
  | nil => rfl
  | cons c r ih =>
    have hc : c ≠ sep := fun e => h (e ▸ List.mem_cons_self ..)
    have hr : sep ∉ r := fun m => h (List.mem_cons_of_mem _ m)
    simp [splitOn, hc, ih hr]

theorem splitOn_append {sep : UInt8} {a : Bytes} (h : sep ∉ a) (b : Bytes) :
    splitOn sep (a ++ sep :: b) = a :: splitOn sep b := by
  induction a with
  | nil => simp [splitOn]
  | cons c r ih =>
    have hc : c ≠ sep := fun e => h (e ▸ List.mem_cons_self ..)
    have hr : sep ∉ r := fun m => h (List.mem_cons_of_mem _ m)
    simp [splitOn, hc, ih hr]

theorem splitOn_ne_nil (sep : UInt8) (k : Bytes) : splitOn sep k ≠ [] := by
  cases k with
  | nil => simp [splitOn]
  | cons c r =>
    simp only [splitOn]
    split
    · simp
    · split <;> simp

theorem splitOn_noSep_mem {sep : UInt8} (k : Bytes) : ∀ x ∈ splitOn sep k, sep ∉ x := by
  induction k with
  | nil => intro x hx; simp [splitOn] at hx; subst hx; simp
  | cons c r ih =>
    intro x hx
    simp only [splitOn] at hx
    split at hx
    · rcases List.mem_cons.mp hx with e | hx'
      · subst e; simp
      · exact ih x hx'
    · next hc =>
      split at hx
      · simp at hx; subst hx; simp; exact fun e => hc e.symm
      · next hd tl heq =>
        rcases List.mem_cons.mp hx with e | hx'
        · subst e
          have := ih hd (heq ▸ List.mem_cons_self ..)
          intro hm
          rcases List.mem_cons.mp hm with e | hm'
          · exact hc e.symm
          · exact this hm'
        · exact ih x (heq ▸ List.mem_cons_of_mem _ hx')

theorem joinSlash_cons_cons (a b : Bytes) (r : List Bytes) : joinSlash (a :: b :: r) = a ++ slash :: joinSlash (b :: r) := rfl

theorem joinSlash_splitOn (k : Bytes) : joinSlash (splitOn slash k) = k := by
  induction k with
  | nil => rfl
  | cons c r ih =>
    simp only [splitOn]
    split
    · next e =>
      subst e
      cases hs : splitOn slash r with
      | nil => exact absurd hs (splitOn_ne_nil _ _)
      | cons h t =>
        rw [joinSlash_cons_cons, ← hs, ih]; rfl
    · split
      · next heq => exact absurd heq (splitOn_ne_nil _ _)
      · next hd tl heq =>
        rw [heq] at ih
        cases tl with
        | nil => simp [joinSlash] at ih ⊢; exact ih
        | cons t2 tl' =>
          rw [joinSlash_cons_cons] at ih ⊢
          simp [← ih]

theorem breakAt_some {sep : UInt8} {k a b : Bytes} (h : breakAt sep k = some (a, b)) : k = a ++ sep :: b ∧ sep ∉ a := by
  induction k generalizing a with
  | nil => simp [breakAt] at h
  | cons c r ih =>
    simp only [breakAt] at h
    split at h
    · next e => simp at h; obtain ⟨h1, h2⟩ := h; subst h1; subst h2; subst e; simp
    · next hc =>
      split at h
      · simp at h
      · next a' b' heq =>
        simp at h; obtain ⟨h1, h2⟩ := h; subst h1; subst h2
        obtain ⟨e, hn⟩ := ih heq
        refine ⟨by rw [e]; rfl, ?_⟩
        intro hm
        rcases List.mem_cons.mp hm with e' | hm'
        · exact hc e'.symm
        · exact hn hm'

theorem breakAt_append {sep : UInt8} {a : Bytes} (h : sep ∉ a) (b : Bytes) : breakAt sep (a ++ sep :: b) = some (a, b) := by
  induction a with
  | nil => simp [breakAt]
  | cons c r ih =>
    have hc : c ≠ sep := fun e => h (e ▸ List.mem_cons_self ..)
    have hr : sep ∉ r := fun m => h (List.mem_cons_of_mem _ m)
    simp [breakAt, hc, ih hr]

end TM.GKv
