import TeleportModel.Model.Determinism
/-
C14 — order-independence theorems. For every map iteration of /repo that feeds state, events or results, the
computation (modelled over the list of entries in iteration order) gives the same result for every permutation
of the entries — i.e. for every iteration order the Go runtime may choose.
-/
namespace TM.Determinism

theorem inj_of_nodup_map {α β : Type} (f : α → β) {l : List α} (nodup : (l.map f).Nodup) {a b : α}
    (ha : a ∈ l) (hb : b ∈ l) (hf : f a = f b) : a = b := by
  induction l with
  | nil => cases ha
  | cons x rest ih =>
    simp only [List.map_cons, List.nodup_cons, List.mem_map, not_exists, not_and] at nodup
    rcases List.mem_cons.mp ha with rfl | ha' <;> rcases List.mem_cons.mp hb with rfl | hb'
    · rfl
    · exact absurd hf.symm (nodup.1 b hb')
    · exact absurd hf (nodup.1 a ha')
    · exact ih nodup.2 ha' hb'

/-! ### sorting makes the iteration order irrelevant -/

theorem leB_trans (a b c : Nat) : leB a b = true → leB b c = true → leB a c = true := by
  simp only [leB, decide_eq_true_eq]; omega

theorem leB_total (a b : Nat) : (leB a b || leB b a) = true := by
  simp only [leB, Bool.or_eq_true, decide_eq_true_eq]; omega

/-- sorting a permutation of the keys gives the same slice (`sort.Sort` over distinct or equal numbers) -/
theorem sortAddrs_perm {l₁ l₂ : List Addr} (h : l₁.Perm l₂) : sortAddrs l₁ = sortAddrs l₂ := by
  unfold sortAddrs
  have p : (l₁.mergeSort leB).Perm (l₂.mergeSort leB) :=
    (List.mergeSort_perm l₁ leB).trans (h.trans (List.mergeSort_perm l₂ leB).symm)
  refine List.Perm.eq_of_pairwise (le := fun a b => leB a b = true) ?_
    (List.pairwise_mergeSort leB_trans leB_total l₁) (List.pairwise_mergeSort leB_trans leB_total l₂) p
  intro a b _ _ hab hba
  simp only [leB, decide_eq_true_eq] at hab hba
  omega

/-- the result of the sort is THE ascending arrangement of the keys -/
theorem sortAddrs_eq_of_sorted {l s : List Addr} (hp : l.Perm s) (hs : s.Pairwise (fun a b => a ≤ b)) : sortAddrs l = s := by
  unfold sortAddrs
  refine List.Perm.eq_of_pairwise (le := fun a b => a ≤ b) ?_ ?_ hs ((List.mergeSort_perm l leB).trans hp)
  · intro a b _ _ hab hba; exact Nat.le_antisymm hab hba
  · have := List.pairwise_mergeSort leB_trans leB_total l
    exact this.imp (fun h => by simpa [leB] using h)

/-- bsc `(*snapshot).validators()`: the sorted validator slice does not depend on the map iteration order -/
theorem bsc_validators_perm {l₁ l₂ : List Addr} (h : l₁.Perm l₂) : validators l₁ = validators l₂ :=
  sortAddrs_perm h

/-- bsc `(*snapshot).inturn`: same in-turn answer (and same panic behaviour) for every iteration order -/
theorem bsc_inturn_perm {l₁ l₂ : List Addr} (h : l₁.Perm l₂) (number : Nat) (v : Addr) :
    inturn l₁ number v = inturn l₂ number v := by
  unfold inturn
  rw [bsc_validators_perm h]

/-- the sorted slice is a permutation of the keys: sorting loses / invents no validator -/
theorem validators_perm_keys (l : List Addr) : (validators l).Perm l := List.mergeSort_perm l leB

/-! ### early return of a constant -/

theorem firstHit_eq_any {α ε : Type} (hit : α → Bool) (e : ε) (l : List α) :
    firstHit hit e l = if l.any hit then some e else none := by
  induction l with
  | nil => simp [firstHit]
  | cons a rest ih =>
    simp only [firstHit, List.any_cons]
    by_cases ha : hit a = true
    · simp [ha]
    · simp only [ha, Bool.false_eq_true, ↓reduceIte, Bool.false_or]
      exact ih

/-- a range loop that returns the same constant on every hit is insensitive to the iteration order -/
theorem firstHit_perm {α ε : Type} (hit : α → Bool) (e : ε) {l₁ l₂ : List α} (h : l₁.Perm l₂) :
    firstHit hit e l₁ = firstHit hit e l₂ := by
  rw [firstHit_eq_any, firstHit_eq_any, h.any_eq]

/-- bsc `verifySeal`: "signer among the recents and not shifted out" does not depend on the order in which
    `snap.Recents` is visited -/
theorem bsc_recents_perm {r₁ r₂ : List (Nat × Addr)} (h : r₁.Perm r₂) (signer : Addr) (shifted : Nat → Bool) :
    recentlySigned r₁ signer shifted = recentlySigned r₂ signer shifted :=
  firstHit_perm _ _ h

/-- maps used as sets (maccPerms, blocked addresses, allowed receivers, relayer chains): membership only -/
theorem membership_perm {l₁ l₂ : List Nat} (h : l₁.Perm l₂) (k : Nat) : member l₁ k = member l₂ k := by
  unfold member
  exact h.contains_eq

theorem hasDup_iff (l : List Nat) : hasDup l = true ↔ ¬ l.Nodup := by
  induction l with
  | nil => simp [hasDup]
  | cons a rest ih =>
    simp only [hasDup, Bool.or_eq_true, List.contains_iff_mem, List.nodup_cons, ih]
    constructor
    · intro h hh
      rcases h with h | h
      · exact hh.1 h
      · exact h hh.2
    · intro h
      by_cases ha : a ∈ rest
      · exact Or.inl ha
      · exact Or.inr (fun hn => h ⟨ha, hn⟩)

/-- genesis validation duplicate checks (`seen` maps): the verdict depends on the multiset of identifiers only -/
theorem genesis_dup_perm {l₁ l₂ : List Nat} (h : l₁.Perm l₂) : hasDup l₁ = hasDup l₂ := by
  have h1 := hasDup_iff l₁
  have h2 := hasDup_iff l₂
  have hn := h.nodup_iff
  cases e1 : hasDup l₁ <;> cases e2 : hasDup l₂ <;> simp_all

/-! ### tables built by insertion -/

theorem insert_comm {κ ν : Type} [DecidableEq κ] (t : Table κ ν) (k₁ k₂ : κ) (v₁ v₂ : ν) (hne : k₁ ≠ k₂) :
    (t.insert k₁ v₁).insert k₂ v₂ = (t.insert k₂ v₂).insert k₁ v₁ := by
  funext k'
  simp only [Table.insert]
  by_cases h1 : k' = k₁ <;> by_cases h2 : k' = k₂ <;> simp_all

/-- `for k, v := range m { m2[k] = v }` with distinct keys (they are the keys of a map): the table built does not
    depend on the iteration order -/
theorem table_build_perm {κ ν : Type} [DecidableEq κ] {l₁ l₂ : List (κ × ν)} (h : l₁.Perm l₂)
    (nodup : (l₁.map Prod.fst).Nodup) : buildTable l₁ = buildTable l₂ := by
  unfold buildTable
  refine h.foldl_eq' ?_ _
  intro x hx y hy z
  by_cases hxy : x = y
  · subst hxy; rfl
  · have hk : x.1 ≠ y.1 := by
      intro hk
      apply hxy
      exact inj_of_nodup_map Prod.fst nodup hx hy hk
    exact insert_comm z x.1 y.1 x.2 y.2 hk

theorem foldl_insert_not_mem {κ ν : Type} [DecidableEq κ] (l : List (κ × ν)) (t : Table κ ν) (k : κ)
    (h : k ∉ l.map Prod.fst) : (l.foldl (fun t e => t.insert e.1 e.2) t) k = t k := by
  induction l generalizing t with
  | nil => rfl
  | cons e rest ih =>
    simp only [List.map_cons, List.mem_cons, not_or] at h
    simp only [List.foldl_cons]
    rw [ih _ h.2]
    simp [Table.insert, h.1]

theorem foldl_insert_mem {κ ν : Type} [DecidableEq κ] (l : List (κ × ν)) (t : Table κ ν) (k : κ) (v : ν)
    (nodup : (l.map Prod.fst).Nodup) (h : (k, v) ∈ l) : (l.foldl (fun t e => t.insert e.1 e.2) t) k = some v := by
  induction l generalizing t with
  | nil => cases h
  | cons e rest ih =>
    simp only [List.map_cons, List.nodup_cons] at nodup
    simp only [List.foldl_cons]
    rcases List.mem_cons.mp h with rfl | h'
    · rw [foldl_insert_not_mem rest _ _ nodup.1]
      simp [Table.insert]
    · exact ih _ nodup.2 h'

/-- a table built from distinct keys returns exactly the inserted value -/
theorem buildTable_mem {κ ν : Type} [DecidableEq κ] (l : List (κ × ν)) (k : κ) (v : ν)
    (nodup : (l.map Prod.fst).Nodup) (h : (k, v) ∈ l) : buildTable l k = some v :=
  foldl_insert_mem l _ k v nodup h

/-- `adapter.Manager.InitGenesis`: every adapter is initialised exactly once, in the order of the arguments of
    `NewManager` — the map only serves as a lookup table -/
theorem adapter_manager_order {α : Type} (adapters : List (Nat × α)) (nodup : (adapters.map Prod.fst).Nodup) :
    managerInit adapters = adapters.map Prod.snd := by
  unfold managerInit
  have key : ∀ sub : List (Nat × α), (∀ e ∈ sub, e ∈ adapters) →
      (sub.map Prod.fst).filterMap (buildTable adapters) = sub.map Prod.snd := by
    intro sub
    induction sub with
    | nil => intro _; rfl
    | cons e rest ih =>
      intro hsub
      have he : buildTable adapters e.1 = some e.2 := buildTable_mem adapters e.1 e.2 nodup (hsub e (List.mem_cons_self))
      simp only [List.map_cons, List.filterMap_cons, he]
      rw [ih (fun x hx => hsub x (List.mem_cons_of_mem _ hx))]
  exact key adapters (fun _ h => h)

theorem filterMap_key_nodup {η : Type} (known : Nat → Option η) (events : List (Nat × Nat))
    (nodup : (events.map Prod.snd).Nodup) :
    ((events.filterMap (fun e => (known e.1).map (fun h => (e.2, h)))).map Prod.fst).Nodup := by
  induction events with
  | nil => simp
  | cons e rest ih =>
    simp only [List.map_cons, List.nodup_cons] at nodup
    simp only [List.filterMap_cons]
    cases hk : known e.1 with
    | none => simpa [hk] using ih nodup.2
    | some hd =>
      simp only [Option.map_some, List.map_cons, List.nodup_cons]
      refine ⟨?_, ih nodup.2⟩
      intro hm
      apply nodup.1
      simp only [List.mem_map, List.mem_filterMap] at hm
      obtain ⟨p, ⟨e', he', hp⟩, hfst⟩ := hm
      cases hk' : known e'.1 with
      | none => simp [hk'] at hp
      | some h' =>
        simp only [hk', Option.map_some, Option.some.injEq] at hp
        subst hp
        exact List.mem_map.mpr ⟨e', he', hfst⟩

/-- adapter `NewHookAdapter` (gov and staking): for event ids that are distinct, the handler table — and whether
    construction panics on an unknown event name — is the same for every iteration order of `parsed.Events` -/
theorem handler_table_perm {η : Type} (known : Nat → Option η) {e₁ e₂ : List (Nat × Nat)} (h : e₁.Perm e₂)
    (nodup : (e₁.map Prod.snd).Nodup) : hookTable known e₁ = hookTable known e₂ := by
  unfold hookTable
  rw [h.any_eq]
  split
  · rfl
  · congr 1
    exact table_build_perm (h.filterMap _) (filterMap_key_nodup known e₁ nodup)

/-! ### typed event attributes -/

theorem attrLe_trans (a b c : Attr) : attrLe a b = true → attrLe b c = true → attrLe a c = true := by
  simp only [attrLe, decide_eq_true_eq]; omega

theorem attrLe_total (a b : Attr) : (attrLe a b || attrLe b a) = true := by
  simp only [attrLe, Bool.or_eq_true, decide_eq_true_eq]; omega

/-- fix `C14-typed-event-order`: cosmos-sdk hands over the attributes of a typed event in map order (keys are the
    JSON field names: distinct); after sorting by key the emitted attribute list is the same for every order -/
theorem typed_event_sorted_perm {l₁ l₂ : List Attr} (h : l₁.Perm l₂) (nodup : (l₁.map Attr.key).Nodup) :
    sortAttrs l₁ = sortAttrs l₂ := by
  unfold sortAttrs
  have p1 := List.mergeSort_perm l₁ attrLe
  have p2 := List.mergeSort_perm l₂ attrLe
  have p : (l₁.mergeSort attrLe).Perm (l₂.mergeSort attrLe) := p1.trans (h.trans p2.symm)
  refine List.Perm.eq_of_pairwise (le := fun a b => attrLe a b = true) ?_
    (List.pairwise_mergeSort attrLe_trans attrLe_total l₁) (List.pairwise_mergeSort attrLe_trans attrLe_total l₂) p
  intro a b ha hb hab hba
  simp only [attrLe, decide_eq_true_eq] at hab hba
  have hk : a.key = b.key := by omega
  have ha' : a ∈ l₁ := p1.mem_iff.mp ha
  have hb' : b ∈ l₁ := h.mem_iff.mpr (p2.mem_iff.mp hb)
  exact inj_of_nodup_map Attr.key nodup ha' hb' hk

/-- without the sort the emitted list IS order dependent: two orders of the same two attributes differ -/
theorem typed_event_unsorted_differs :
    ∃ l₁ l₂ : List Attr, l₁.Perm l₂ ∧ l₁ ≠ l₂ :=
  ⟨[⟨1, 10⟩, ⟨2, 20⟩], [⟨2, 20⟩, ⟨1, 10⟩], List.Perm.swap _ _ _, by decide⟩

/-! ### integer accumulation -/

theorem sumAll_eq_sum (l : List Nat) : sumAll l = l.sum := by
  unfold sumAll
  have : ∀ (acc : Nat), l.foldl (· + ·) acc = acc + l.sum := by
    induction l with
    | nil => intro acc; simp
    | cons a rest ih => intro acc; simp only [List.foldl_cons, List.sum_cons, ih]; omega
  simpa using this 0

/-- `for _, v := range m { total += v }` over integers -/
theorem sum_perm {l₁ l₂ : List Nat} (h : l₁.Perm l₂) : sumAll l₁ = sumAll l₂ := by
  rw [sumAll_eq_sum, sumAll_eq_sum, h.sum_nat]

/-! ### the replay model -/

/-- stated for completeness: the replay model is a function of its inputs (true by construction of any Lean
    function; the content of C14 is in the permutation theorems and the site inventory) -/
theorem run_deterministic (s₁ s₂ : Replay) (o₁ o₂ : List Op) (hs : s₁ = s₂) (ho : o₁ = o₂) : run s₁ o₁ = run s₂ o₂ := by
  subst hs; subst ho; rfl

/-- once diverged, always diverged; a history without disagreeing observation is never marked diverged -/
theorem run_diverged_iff (s : Replay) (ops : List Op) :
    (run s ops).1.diverged = (s.diverged || ops.any (fun o => match o with | .obs a b => decide (a ≠ b) | _ => false)) := by
  induction ops generalizing s with
  | nil => simp [run]
  | cons o rest ih =>
    simp only [run, List.any_cons]
    rw [ih]
    cases o with
    | obs a b =>
      simp only [stepOp]
      by_cases h : a = b
      · simp [h]
      · simp [h]
    | fin na nb => simp [stepOp]
    | other => simp [stepOp]


/-! ### the probe models (tied to the real functions by harness/c14_probe_test.go) -/

theorem mem_dedupSorted (a : Nat) (l : List Nat) : a ∈ dedupSorted l ↔ a ∈ l := by
  fun_induction dedupSorted l <;> simp_all

/-- the snapshot's validator set contains exactly the addresses of the stored slice (duplicates collapse) -/
theorem mem_validatorSet (a : Addr) (l : List Addr) : a ∈ validatorSet l ↔ a ∈ l := by
  unfold validatorSet
  rw [mem_dedupSorted]
  exact (List.mergeSort_perm l leB).mem_iff

/-- the validator set (keys of the map, sorted) does not depend on the order of `ClientState.Validators` nor on the
    order in which the map hands out its keys -/
theorem validatorSet_perm {l₁ l₂ : List Addr} (h : l₁.Perm l₂) : validatorSet l₁ = validatorSet l₂ := by
  unfold validatorSet
  rw [sortAddrs_perm h]

/-- bsc `verifySeal`: the verdict on a header (unauthorized / recently signed / wrong difficulty / ok) is the same
    for every order of the validator slice and every visiting order of the recents map -/
theorem bsc_verdict_perm {v₁ v₂ : List Addr} {r₁ r₂ : List (Nat × Addr)} (hv : v₁.Perm v₂) (hr : r₁.Perm r₂)
    (number : Nat) (signer : Addr) (claim : Bool) :
    bscVerdict v₁ r₁ number signer claim = bscVerdict v₂ r₂ number signer claim := by
  unfold bscVerdict
  simp only [validatorSet_perm hv, hr.any_eq]

/-- relayer registry: a chain is authorised iff some address is found for it (first match), when the two slices
    have the same length (checked by `RegisterRelayerProposal.ValidateBasic`) -/
theorem relayerAddr_isSome (chains addrs : List String) (c : String) (hl : chains.length = addrs.length) :
    (relayerAddr chains addrs c).isSome = relayerAuth chains c := by
  induction chains generalizing addrs with
  | nil => cases addrs <;> simp [relayerAddr, relayerAuth]
  | cons ch cs ih =>
    cases addrs with
    | nil => simp at hl
    | cons a as =>
      simp only [List.length_cons, Nat.add_right_cancel_iff] at hl
      simp only [relayerAddr, relayerAuth, List.contains_cons]
      by_cases h : ch = c
      · simp [h]
      · have h' : (c == ch) = false := by simp [Ne.symm h]
        simp only [h, ↓reduceIte, h', Bool.false_or]
        exact ih as hl

/-- the eth future-block verdict is a function of the block time and the two header times only — no wall clock -/
theorem eth_time_future_iff (bt pt ht : Nat) : ethTimeVerdict bt pt ht = "future" ↔ ht > bt + 15 := by
  unfold ethTimeVerdict
  by_cases h : ht > bt + 15
  · simp [h]
  · by_cases h2 : ht ≤ pt <;> simp [h, h2]

example : validatorSet [5, 3, 5, 9, 3] = [3, 5, 9] := by
  have h : sortAddrs [5, 3, 5, 9, 3] = [3, 3, 5, 5, 9] := sortAddrs_eq_of_sorted (by decide) (by decide)
  simp [validatorSet, h, dedupSorted]


/-! ### replicas: discarded executions do not influence later committed results -/

/-- FRAME LEMMA: a discarded execution is the identity on the node (its committed state is all there is) -/
theorem discard_frame {σ β ρ : Type} (m : Machine σ β ρ) (n : Node σ) (b : β) : m.discard n b = n := rfl

/-- the result of a block does not depend on the call path by which the node reached its execution (obligation of the
    implementation: no stack trace, caller, build path or executable name may flow into results — site kind
    `execution-context-capture`, twins / replicas reached through different call paths) -/
theorem step_callpath_irrelevant {σ β ρ : Type} (m : Machine σ β ρ) (p q : List String) (n : Node σ) (b : β) :
    m.execVia p n b = m.execVia q n b := rfl

/-- a fresh fork has the committed state of its origin -/
theorem fork_committed {σ : Type} (n : Node σ) : (Machine.forkOf n).committed = n.committed := rfl

/-- a block's outcome is a function of (committed state, block): nodes with equal committed state agree on the new
    committed state and on everything they report -/
theorem exec_congr {σ β ρ : Type} (m : Machine σ β ρ) (n₁ n₂ : Node σ) (b : β) (h : n₁.committed = n₂.committed) :
    (m.exec n₁ b).1.committed = (m.exec n₂ b).1.committed ∧ (m.exec n₁ b).2 = (m.exec n₂ b).2 := by
  unfold Machine.exec
  simp [h]

/-- two nodes with equal committed state reached through different call paths agree -/
theorem exec_via_congr {σ β ρ : Type} (m : Machine σ β ρ) (p q : List String) (n₁ n₂ : Node σ) (b : β)
    (h : n₁.committed = n₂.committed) :
    (m.execVia p n₁ b).1.committed = (m.execVia q n₂ b).1.committed ∧ (m.execVia p n₁ b).2 = (m.execVia q n₂ b).2 :=
  exec_congr m n₁ n₂ b h

/-- the result of a block does not depend on the node's local configuration (obligation of the implementation: no value of
    AppOptions / viper / flags / server config may reach consensus code — site kind `node-local-config`, twins / replicas
    constructed with different configurations) -/
theorem step_config_irrelevant {σ β ρ : Type} (m : Machine σ β ρ) (c₁ c₂ : List (String × String)) (n : Node σ) (b : β) :
    m.execWith c₁ n b = m.execWith c₂ n b := rfl

/-- two nodes with equal committed state and different configurations agree -/
theorem exec_with_congr {σ β ρ : Type} (m : Machine σ β ρ) (c₁ c₂ : List (String × String)) (n₁ n₂ : Node σ) (b : β)
    (h : n₁.committed = n₂.committed) :
    (m.execWith c₁ n₁ b).1.committed = (m.execWith c₂ n₂ b).1.committed ∧ (m.execWith c₁ n₁ b).2 = (m.execWith c₂ n₂ b).2 :=
  exec_congr m n₁ n₂ b h

/-- every replica operation preserves "the two nodes have the same committed state" and a block reports equal results -/
theorem repStep_agree {σ β ρ : Type} (m : Machine σ β ρ) (p : Node σ × Node σ) (o : RepOp β)
    (h : p.1.committed = p.2.committed) :
    (repStep m p o).1.1.committed = (repStep m p o).1.2.committed ∧
    (∀ r, (repStep m p o).2 = some r → r.1 = r.2) := by
  cases o with
  | block b =>
    have := exec_congr m p.1 p.2 b h
    refine ⟨this.1, ?_⟩
    intro r hr
    simp only [repStep, Option.some.injEq] at hr
    rw [← hr]
    exact this.2
  | fork => exact ⟨rfl, by intro r hr; simp [repStep] at hr⟩
  | discard₁ b => exact ⟨h, by intro r hr; simp [repStep] at hr⟩
  | discard₂ b => exact ⟨h, by intro r hr; simp [repStep] at hr⟩

/-- REPLICA THEOREM, for all histories: starting from equal committed state, after any sequence of blocks, forks and
    discarded executions on either node (CheckTx, Simulate, queries, dropped cache contexts, rolled-back transactions)
    the two nodes have equal committed state and reported equal results for EVERY block of the history -/
theorem replicas_agree {σ β ρ : Type} (m : Machine σ β ρ) (ops : List (RepOp β)) (p : Node σ × Node σ)
    (h : p.1.committed = p.2.committed) :
    (repRun m p ops).1.1.committed = (repRun m p ops).1.2.committed ∧ ∀ r ∈ (repRun m p ops).2, r.1 = r.2 := by
  induction ops generalizing p with
  | nil => exact ⟨h, by intro r hr; simp [repRun] at hr⟩
  | cons o rest ih =>
    have hs := repStep_agree m p o h
    have hr := ih (repStep m p o).1 hs.1
    refine ⟨hr.1, ?_⟩
    intro r hmem
    simp only [repRun] at hmem
    cases hopt : (repStep m p o).2 with
    | none =>
      rw [hopt] at hmem
      exact hr.2 r hmem
    | some x =>
      rw [hopt] at hmem
      rcases List.mem_cons.mp hmem with rfl | h'
      · exact hs.2 r hopt
      · exact hr.2 r h'

/-- corollary in the shape of the harness scenario: fork, any discarded executions on node 1, then one block — equal results -/
theorem discarded_then_block_agree {σ β ρ : Type} (m : Machine σ β ρ) (n : Node σ) (ds : List β) (b : β) :
    ∀ r ∈ (repRun m (n, n) (RepOp.fork :: ds.map RepOp.discard₁ ++ [RepOp.block b])).2, r.1 = r.2 :=
  (replicas_agree m _ (n, n) rfl).2

/-- the hypothesis "step takes only (committed, block)" is what carries the theorem: with process-local memory that a
    discarded execution can change (the memo of seed C14-4) a polluted node and a fresh fork disagree on the next block -/
theorem memo_breaks_replicas :
    ∃ (n : MemoNode) (h : Nat), (memoDiscard n h).committed = n.committed ∧
      (memoExec (memoDiscard n h) h).2 ≠ (memoExec { committed := n.committed, memo := none } h).2 :=
  ⟨{ committed := 5, memo := none }, 7, rfl, by decide⟩

example : (repRun (⟨fun s b => (s + b, s * b)⟩ : Machine Nat Nat Nat) (⟨3⟩, ⟨3⟩)
    [.discard₁ 9, .fork, .block 2, .discard₂ 4, .block 5]).2 = [(6, 6), (25, 25)] := by decide

/-! ### non-vacuity -/

example : validators [5, 3, 9] = [3, 5, 9] := sortAddrs_eq_of_sorted (by decide) (by decide)
example : validators [9, 5, 3] = validators [5, 3, 9] := bsc_validators_perm (by decide)
example : inturn [5, 3, 9] 0 5 = some true := by
  have h : validators [5, 3, 9] = [3, 5, 9] := sortAddrs_eq_of_sorted (by decide) (by decide)
  simp [inturn, h]
example : inturn [] 0 5 = none := by
  have h : validators [] = [] := sortAddrs_eq_of_sorted (by decide) (by decide)
  simp [inturn, h]
example : recentlySigned [(7, 1), (8, 2)] 2 (fun s => decide (s > 5)) = some "ErrRecentlySigned" := by decide
example : recentlySigned [(7, 1), (8, 2)] 3 (fun s => decide (s > 5)) = none := by decide
example : hasDup [1, 2, 1] = true := by decide
example : sortAttrs [⟨2, 20⟩, ⟨1, 10⟩] = sortAttrs [⟨1, 10⟩, ⟨2, 20⟩] := typed_event_sorted_perm (by decide) (by decide)

end TM.Determinism
