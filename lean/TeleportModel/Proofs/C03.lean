import TeleportModel.Model.World
/-
C03 — cross-chain value conservation: delivered or refunded, never both.
Theorems about `TM.World` (Model/World.lean), for every world satisfying the invariant and every list of steps.
-/
namespace TM.World

/-! ### finite-map helpers -/

theorem upd1_eq {α} (f : Nat → α) (k : Nat) (v : α) : upd1 f k v k = v := by simp [upd1]
theorem upd1_ne {α} (f : Nat → α) {k x : Nat} (v : α) (h : x ≠ k) : upd1 f k v x = f x := by simp [upd1, h]
theorem upd2_app {α} (f : Nat → Nat → α) (a b : Nat) (v : α) (x y : Nat) :
    upd2 f a b v x y = if x = a ∧ y = b then v else f x y := rfl

/-! ### what a packet moves -/

/-- amount of origin token `T` escrowed on the source by packet `p` -/
def fwdAmt (p : Packet) (T : Token) : Nat :=
  match p.transfer with
  | some t => if t.ori = none ∧ t.token = T then t.amount else 0
  | none => 0

/-- amount of bound token `V` burnt on the source by packet `p` (going back to its origin) -/
def backAmt (p : Packet) (V : Token) : Nat :=
  match p.transfer with
  | some t => if t.ori ≠ none ∧ t.token = V then t.amount else 0
  | none => 0

/-- amount of origin token `T` released on the origin chain when `p` is executed there -/
def relAmt (p : Packet) (T : Token) : Nat :=
  match p.transfer with
  | some t => if t.ori = some T then t.amount else 0
  | none => 0

/-- amount of bound token `V` minted on the destination when `p` is executed there -/
def crdAmt (cfg : Cfg) (p : Packet) (V : Token) : Nat :=
  match p.transfer with
  | some t => if t.ori = none ∧ cfg.trace p.src t.token = some V then t.amount else 0
  | none => 0

/-- contribution of a committed packet to "in flight towards `B`": counted unless `B` wrote a success acknowledgement -/
def term (acks : Nat → Option Nat) (B : ChainId) (f : Packet → Nat) (p : Packet) : Nat :=
  if p.dst = B ∧ acks p.seq ≠ some 0 then f p else 0

def flight (acks : Nat → Option Nat) (B : ChainId) (f : Packet → Nat) (l : List Packet) : Nat :=
  (l.map (term acks B f)).sum

/-- The conservation equation for the ordered pair (A,B) and token `T` of `A`:
escrowed on A towards B = in flight A→B + (minted on B for A + bound tokens burnt on B in flight back to A).
`bindings.amount` is kept in bound units, 10^scale of them per origin unit, so the origin-unit quantities are
multiplied by k = 10^scale; a token without binding on B is only ever in flight. -/
def eqn (cfgB : Cfg) (cA cB : Chain) (A B : ChainId) (T : Token) : Prop :=
  match cfgB.trace A T with
  | some V =>
    10 ^ cfgB.scale V A * cA.evm.out T B =
      10 ^ cfgB.scale V A * flight (cB.acks A) B (fun p => fwdAmt p T) cA.commits +
      (cB.evm.bindAmt V A + 10 ^ cfgB.scale V A * flight (cA.acks B) A (fun p => backAmt p V) cB.commits)
  | none => cA.evm.out T B = flight (cB.acks A) B (fun p => fwdAmt p T) cA.commits

theorem mul_of_add {k a b c : Nat} (h : a + b = c) : k * a + k * b = k * c := by rw [← h, Nat.mul_add]

def Conserved (w : World) : Prop := ∀ A B T, A ≠ B → eqn (w.cfg B) (w.chains A) (w.chains B) A B T

def PktWF (cfg : Cfg) (A : ChainId) (nextSeq : ChainId → Nat) (p : Packet) : Prop :=
  p.src = A ∧ p.dst ≠ A ∧ p.seq < nextSeq p.dst ∧ ∀ t, p.transfer = some t → t.ori = cfg.ori t.token p.dst

def KeysDistinct (l : List Packet) : Prop := l.Pairwise (fun p q => p.dst ≠ q.dst ∨ p.seq ≠ q.seq)

/-- Well-formedness of a world (established by the fresh world, preserved by every step). -/
structure WF (w : World) : Prop where
  cfg : ∀ B A T V, (w.cfg B).trace A T = some V ↔ (w.cfg B).ori V A = some T
  pkt : ∀ A p, p ∈ (w.chains A).commits → PktWF (w.cfg A) A (w.chains A).nextSeq p
  keys : ∀ A, KeysDistinct (w.chains A).commits
  acks : ∀ A B s, (w.chains B).acks A s ≠ none → (w.chains B).receipts A s = true
  rcpt : ∀ A B s, (w.chains B).receipts A s = true → s < (w.chains A).nextSeq B

/-! ### sums over the commitment list -/

theorem flight_cons (acks : Nat → Option Nat) (B : ChainId) (f : Packet → Nat) (p : Packet) (l : List Packet) :
    flight acks B f (p :: l) = term acks B f p + flight acks B f l := by
  simp [flight]

theorem flight_erase (acks : Nat → Option Nat) (B : ChainId) (f : Packet → Nat) (p : Packet) :
    ∀ l : List Packet, p ∈ l → flight acks B f (l.erase p) + term acks B f p = flight acks B f l
  | [], h => by cases h
  | x :: xs, h => by
    by_cases hx : x = p
    · subst hx; simp [flight_cons]; omega
    · have hp : p ∈ xs := by
        cases h with
        | head => exact absurd rfl hx
        | tail _ h => exact h
      have ih := flight_erase acks B f p xs hp
      have : (x :: xs).erase p = x :: xs.erase p := by
        simp [hx]
      rw [this, flight_cons, flight_cons]; omega

/-- two summand functions that agree on every packet whose key differs from `p`'s -/
theorem flight_change (g g' : Packet → Nat) (p : Packet) :
    ∀ l : List Packet, KeysDistinct l → p ∈ l →
      (∀ y, (y.dst ≠ p.dst ∨ y.seq ≠ p.seq) → g' y = g y) →
      (l.map g').sum + g p = (l.map g).sum + g' p
  | [], _, h, _ => by cases h
  | x :: xs, hk, h, hg => by
    have hk' : KeysDistinct xs := (List.pairwise_cons.mp hk).2
    have hx : ∀ y ∈ xs, x.dst ≠ y.dst ∨ x.seq ≠ y.seq := (List.pairwise_cons.mp hk).1
    by_cases hxp : x = p
    · subst hxp
      have same : ∀ l : List Packet, (∀ y ∈ l, x.dst ≠ y.dst ∨ x.seq ≠ y.seq) → (l.map g').sum = (l.map g).sum := by
        intro l
        induction l with
        | nil => intro _; rfl
        | cons a as ih =>
          intro h
          have ha := h a (List.mem_cons_self)
          have : g' a = g a := hg a (by rcases ha with h | h; exact Or.inl (Ne.symm h); exact Or.inr (Ne.symm h))
          simp [this, ih (fun y hy => h y (List.mem_cons_of_mem _ hy))]
      simp [same xs hx]; omega
    · have hp : p ∈ xs := by
        cases h with
        | head => exact absurd rfl hxp
        | tail _ h => exact h
      have ih := flight_change g g' p xs hk' hp hg
      have : g' x = g x := hg x (hx p hp)
      simp [this]; omega

/-! ### replacing one chain -/

theorem set_chains_eq (w : World) (X : ChainId) (c : Chain) : (w.set X c).chains X = c := by simp [World.set, upd1]
theorem set_chains_ne (w : World) {X Y : ChainId} (c : Chain) (h : Y ≠ X) : (w.set X c).chains Y = w.chains Y := by
  simp [World.set, upd1, h]
theorem set_cfg (w : World) (X : ChainId) (c : Chain) : (w.set X c).cfg = w.cfg := rfl
theorem set_set (w : World) (X : ChainId) (c c' : Chain) : (w.set X c).set X c' = w.set X c' := by
  simp only [World.set]
  congr 1
  funext y
  simp only [upd1]
  split <;> rfl

theorem conserved_set (w : World) (X : ChainId) (c' : Chain) (hc : Conserved w)
    (hsrc : ∀ B T, B ≠ X → eqn (w.cfg B) c' (w.chains B) X B T)
    (hdst : ∀ A T, A ≠ X → eqn (w.cfg X) (w.chains A) c' A X T) : Conserved (w.set X c') := by
  intro A B T hne
  rw [set_cfg]
  by_cases hA : A = X
  · subst hA
    have hB : B ≠ A := fun h => hne h.symm
    rw [set_chains_eq, set_chains_ne _ _ hB]
    exact hsrc B T hB
  · by_cases hB : B = X
    · subst hB
      rw [set_chains_eq, set_chains_ne _ _ hA]
      exact hdst A T hA
    · rw [set_chains_ne _ _ hA, set_chains_ne _ _ hB]
      exact hc A B T hne

/-- the key of a committed packet has never been acknowledged or received beyond the next sequence -/
theorem fresh_ack (w : World) (h : WF w) (A B : ChainId) (s : Nat) (hs : (w.chains A).nextSeq B ≤ s) :
    (w.chains B).acks A s = none := by
  apply Classical.byContradiction
  intro hn
  have := h.rcpt A B s (h.acks A B s hn)
  omega

/-- relay fee of packet `p` in token `F` as recorded in the packet contract's `packetFees` -/
def feeAt (e : Evm) (p : Packet) (F : Token) : Nat :=
  if (e.fee p.dst p.seq).1 = F then (e.fee p.dst p.seq).2 else 0

/-! ### effect of a send on the sending chain -/

structure SendEff (cfg : Cfg) (me : ChainId) (c c' : Chain) (p : Packet) : Prop where
  commits : c'.commits = p :: c.commits
  acks : c'.acks = c.acks
  receipts : c'.receipts = c.receipts
  nextSeq : c'.nextSeq = upd1 c.nextSeq p.dst (p.seq + 1)
  seq : p.seq = c.nextSeq p.dst
  src : p.src = me
  dst : p.dst ≠ me
  ori : ∀ t, p.transfer = some t → t.ori = cfg.ori t.token p.dst
  out : ∀ T D, c'.evm.out T D = c.evm.out T D + (if D = p.dst then fwdAmt p T else 0)
  bind : ∀ V D, c'.evm.bindAmt V D + (if D = p.dst then 10 ^ cfg.scale V D * backAmt p V else 0) = c.evm.bindAmt V D
  cred : c'.evm.credited = c.evm.credited
  refd : c'.evm.refunded = c.evm.refunded
  fpd : c'.evm.feePaid = c.evm.feePaid
  feeKey : ∀ D q, ¬ (D = p.dst ∧ q = p.seq) → c'.evm.fee D q = c.evm.fee D q
  esc : ∀ F, c.evm.bal F acPacket + feeAt c'.evm p F ≤ c'.evm.bal F acPacket

theorem nextSeq_mono {c c' : Chain} {p : Packet} (hn : c'.nextSeq = upd1 c.nextSeq p.dst (p.seq + 1))
    (hs : p.seq = c.nextSeq p.dst) (D : ChainId) : c.nextSeq D ≤ c'.nextSeq D := by
  rw [hn]; unfold upd1; split
  · next h => subst h; omega
  · exact Nat.le_refl _

theorem wf_send (w : World) (X : ChainId) (c' : Chain) (p : Packet) (h : WF w)
    (e : SendEff (w.cfg X) X (w.chains X) c' p) : WF (w.set X c') := by
  have mono := nextSeq_mono e.nextSeq e.seq
  refine ⟨h.cfg, ?_, ?_, ?_, ?_⟩
  · intro A q hq
    rw [set_cfg]
    by_cases hA : A = X
    · subst hA
      rw [set_chains_eq] at hq ⊢
      rw [e.commits] at hq
      rcases List.mem_cons.mp hq with hq | hq
      · subst hq
        refine ⟨e.src, e.dst, ?_, e.ori⟩
        rw [e.nextSeq, upd1_eq]; omega
      · obtain ⟨h1, h2, h3, h4⟩ := h.pkt A q hq
        exact ⟨h1, h2, Nat.lt_of_lt_of_le h3 (mono _), h4⟩
    · rw [set_chains_ne _ _ hA] at hq ⊢
      exact h.pkt A q hq
  · intro A
    by_cases hA : A = X
    · subst hA
      rw [set_chains_eq, e.commits]
      refine List.pairwise_cons.mpr ⟨?_, h.keys A⟩
      intro q hq
      obtain ⟨_, _, h3, _⟩ := h.pkt A q hq
      by_cases hd : p.dst = q.dst
      · right; rw [e.seq, hd]; omega
      · left; exact hd
    · rw [set_chains_ne _ _ hA]; exact h.keys A
  · intro A B s
    by_cases hB : B = X
    · subst hB; rw [set_chains_eq, e.acks, e.receipts]; exact h.acks A B s
    · rw [set_chains_ne _ _ hB]; exact h.acks A B s
  · intro A B s hr
    have hr' : (w.chains B).receipts A s = true := by
      by_cases hB : B = X
      · subst hB; rw [set_chains_eq, e.receipts] at hr; exact hr
      · rw [set_chains_ne _ _ hB] at hr; exact hr
    have := h.rcpt A B s hr'
    by_cases hA : A = X
    · subst hA; rw [set_chains_eq]; exact Nat.lt_of_lt_of_le this (mono _)
    · rw [set_chains_ne _ _ hA]; exact this

theorem conserved_send (w : World) (X : ChainId) (c' : Chain) (p : Packet) (h : WF w) (hc : Conserved w)
    (e : SendEff (w.cfg X) X (w.chains X) c' p) : Conserved (w.set X c') := by
  apply conserved_set w X c' hc
  · -- X as the source
    intro B T hB
    have h0 := hc X B T (Ne.symm hB)
    unfold eqn at h0 ⊢
    have ht : term ((w.chains B).acks X) B (fun p => fwdAmt p T) p = (if B = p.dst then fwdAmt p T else 0) := by
      unfold term
      by_cases hd : p.dst = B
      · subst hd
        have := fresh_ack w h X p.dst p.seq (by rw [e.seq]; exact Nat.le_refl _)
        simp [this]
      · have : ¬ B = p.dst := fun h => hd h.symm
        simp [hd, this]
    have hout := e.out T B
    cases htr : (w.cfg B).trace X T with
    | none =>
      rw [htr] at h0; simp only at h0 ⊢
      rw [e.commits, flight_cons, ht, hout, h0]; omega
    | some V =>
      rw [htr] at h0; simp only at h0 ⊢
      rw [e.commits, flight_cons, e.acks, ht, hout, Nat.mul_add, Nat.mul_add, h0]; omega
  · -- X as the destination (holder of bound tokens)
    intro A T hA
    have h0 := hc A X T hA
    unfold eqn at h0 ⊢
    cases htr : (w.cfg X).trace A T with
    | none => rw [htr] at h0; simp only at h0 ⊢; rw [e.acks]; exact h0
    | some V =>
      rw [htr] at h0; simp only at h0 ⊢
      rw [e.acks, e.commits, flight_cons, h0]
      have hb := e.bind V A
      have ht : term ((w.chains A).acks X) A (fun p => backAmt p V) p = (if A = p.dst then backAmt p V else 0) := by
        unfold term
        by_cases hd : p.dst = A
        · subst hd
          have := fresh_ack w h X p.dst p.seq (by rw [e.seq]; exact Nat.le_refl _)
          simp [this]
        · have : ¬ A = p.dst := fun h => hd h.symm
          simp [hd, this]
      rw [ht, Nat.mul_add]
      by_cases hd : A = p.dst
      · simp only [hd, ↓reduceIte] at hb ⊢; omega
      · simp only [hd, ↓reduceIte, Nat.mul_zero] at hb ⊢; omega

/-! ### effect of a receive on the destination chain -/

structure RecvEff (cfg : Cfg) (c c' : Chain) (p : Packet) (code : Nat) : Prop where
  commits : c'.commits = c.commits
  nextSeq : c'.nextSeq = c.nextSeq
  receipts : c'.receipts = upd2 c.receipts p.src p.seq true
  acks : c'.acks = upd2 c.acks p.src p.seq (some code)
  out : ∀ T D, c'.evm.out T D + (if D = p.src ∧ code = 0 then relAmt p T else 0) = c.evm.out T D
  bind : ∀ V D, c'.evm.bindAmt V D = c.evm.bindAmt V D + (if D = p.src ∧ code = 0 then 10 ^ cfg.scale V D * crdAmt cfg p V else 0)
  bound : code = 0 → ∀ t, p.transfer = some t → t.ori = none → cfg.trace p.src t.token ≠ none
  cred : c'.evm.credited =
    if code = 0 then upd2 c.evm.credited p.src p.seq (c.evm.credited p.src p.seq + 1) else c.evm.credited
  refd : c'.evm.refunded = c.evm.refunded
  fpd : c'.evm.feePaid = c.evm.feePaid
  feeMap : c'.evm.fee = c.evm.fee
  esc : ∀ F, c.evm.bal F acPacket ≤ c'.evm.bal F acPacket

theorem rel_eq_back (cfgS : Cfg) (hcfg : ∀ A T V, cfgS.trace A T = some V ↔ cfgS.ori V A = some T)
    (p : Packet) (hp : ∀ t, p.transfer = some t → t.ori = cfgS.ori t.token p.dst) (T V : Token)
    (htr : cfgS.trace p.dst T = some V) : relAmt p T = backAmt p V := by
  unfold relAmt backAmt
  cases ht : p.transfer with
  | none => rfl
  | some t =>
    simp only
    have ho := hp t ht
    by_cases hv : t.token = V
    · have : t.ori = some T := by rw [ho, hv]; exact (hcfg _ _ _).mp htr
      simp [this, hv]
    · have : t.ori ≠ some T := by
        intro h
        rw [ho] at h
        have := (hcfg _ _ _).mpr h
        rw [htr] at this
        exact hv (Option.some.inj this).symm
      simp [this, hv]

theorem rel_zero (cfgS : Cfg) (hcfg : ∀ A T V, cfgS.trace A T = some V ↔ cfgS.ori V A = some T)
    (p : Packet) (hp : ∀ t, p.transfer = some t → t.ori = cfgS.ori t.token p.dst) (T : Token)
    (htr : cfgS.trace p.dst T = none) : relAmt p T = 0 := by
  unfold relAmt
  cases ht : p.transfer with
  | none => rfl
  | some t =>
    simp only
    have ho := hp t ht
    have : t.ori ≠ some T := by
      intro h
      rw [ho] at h
      have := (hcfg _ _ _).mpr h
      rw [htr] at this
      cases this
    simp [this]

theorem crd_eq_fwd (cfgX : Cfg) (hcfg : ∀ A T V, cfgX.trace A T = some V ↔ cfgX.ori V A = some T)
    (p : Packet) (T V : Token) (htr : cfgX.trace p.src T = some V) : crdAmt cfgX p V = fwdAmt p T := by
  unfold crdAmt fwdAmt
  cases ht : p.transfer with
  | none => rfl
  | some t =>
    simp only
    by_cases hv : t.token = T
    · simp [hv, htr]
    · have : cfgX.trace p.src t.token ≠ some V := by
        intro h
        have h1 := (hcfg _ _ _).mp h
        have h2 := (hcfg _ _ _).mp htr
        rw [h1] at h2
        exact hv (Option.some.inj h2)
      simp [this, hv]

theorem fwd_zero (cfgX : Cfg) (p : Packet) (T : Token)
    (hb : ∀ t, p.transfer = some t → t.ori = none → cfgX.trace p.src t.token ≠ none)
    (htr : cfgX.trace p.src T = none) : fwdAmt p T = 0 := by
  unfold fwdAmt
  cases ht : p.transfer with
  | none => rfl
  | some t =>
    simp only
    by_cases h : t.ori = none ∧ t.token = T
    · exfalso
      have := hb t ht h.1
      rw [h.2] at this
      exact this htr
    · simp [h]

theorem wf_recv (w : World) (X : ChainId) (cR : Chain) (p : Packet) (code : Nat) (h : WF w)
    (hp : p ∈ (w.chains p.src).commits) (hd : p.dst = X)
    (e : RecvEff (w.cfg X) (w.chains X) cR p code) : WF (w.set X cR) := by
  obtain ⟨_, _, hseq, _⟩ := h.pkt p.src p hp
  refine ⟨h.cfg, ?_, ?_, ?_, ?_⟩
  · intro A q hq
    rw [set_cfg]
    by_cases hA : A = X
    · subst hA
      rw [set_chains_eq] at hq ⊢
      rw [e.commits] at hq
      rw [e.nextSeq]
      exact h.pkt A q hq
    · rw [set_chains_ne _ _ hA] at hq ⊢
      exact h.pkt A q hq
  · intro A
    by_cases hA : A = X
    · subst hA; rw [set_chains_eq, e.commits]; exact h.keys A
    · rw [set_chains_ne _ _ hA]; exact h.keys A
  · intro A B s
    by_cases hB : B = X
    · subst hB
      rw [set_chains_eq, e.acks, e.receipts, upd2_app, upd2_app]
      split
      · intro _; rfl
      · exact h.acks A B s
    · rw [set_chains_ne _ _ hB]; exact h.acks A B s
  · intro A B s hr
    have key : s < (w.chains A).nextSeq B := by
      by_cases hB : B = X
      · subst hB
        rw [set_chains_eq, e.receipts, upd2_app] at hr
        split at hr
        · next hc => obtain ⟨h1, h2⟩ := hc; subst h1; subst h2; rw [← hd]; exact hseq
        · exact h.rcpt A B s hr
      · rw [set_chains_ne _ _ hB] at hr; exact h.rcpt A B s hr
    by_cases hA : A = X
    · subst hA; rw [set_chains_eq, e.nextSeq]; exact key
    · rw [set_chains_ne _ _ hA]; exact key

/-- a committed, not yet received packet: the acknowledgement write changes exactly its own term -/
theorem flight_ackwrite (w : World) (h : WF w) (X : ChainId) (cR : Chain) (p : Packet) (code : Nat)
    (hp : p ∈ (w.chains p.src).commits) (hd : p.dst = X)
    (hr : (w.chains X).receipts p.src p.seq = false)
    (hacks : cR.acks = upd2 (w.chains X).acks p.src p.seq (some code)) (f : Packet → Nat) :
    flight (cR.acks p.src) X f (w.chains p.src).commits + f p =
      flight ((w.chains X).acks p.src) X f (w.chains p.src).commits + (if code = 0 then 0 else f p) := by
  have hnone : (w.chains X).acks p.src p.seq = none := by
    apply Classical.byContradiction
    intro hn
    have := h.acks p.src X p.seq hn
    rw [hr] at this
    cases this
  have := flight_change (term ((w.chains X).acks p.src) X f) (term (cR.acks p.src) X f) p
    (w.chains p.src).commits (h.keys p.src) hp (by
      intro y hy
      unfold term
      rw [hacks, upd2_app]
      by_cases hyd : y.dst = X
      · have : y.seq ≠ p.seq := by
          rcases hy with hy | hy
          · exact absurd (hyd.trans hd.symm) hy
          · exact hy
        simp [this]
      · simp [hyd])
  unfold flight
  have hg : term ((w.chains X).acks p.src) X f p = f p := by
    unfold term; simp [hd, hnone]
  have hg' : term (cR.acks p.src) X f p = (if code = 0 then 0 else f p) := by
    unfold term; rw [hacks, upd2_app]; simp [hd]
  rw [hg, hg'] at this
  exact this

theorem conserved_recv (w : World) (X : ChainId) (cR : Chain) (p : Packet) (code : Nat) (h : WF w) (hc : Conserved w)
    (hp : p ∈ (w.chains p.src).commits) (hd : p.dst = X)
    (hr : (w.chains X).receipts p.src p.seq = false)
    (e : RecvEff (w.cfg X) (w.chains X) cR p code) : Conserved (w.set X cR) := by
  obtain ⟨_, hne, _, hori⟩ := h.pkt p.src p hp
  apply conserved_set w X cR hc
  · -- X as the source side of a pair: it is the origin chain releasing escrowed tokens
    intro B T hB
    have h0 := hc X B T (Ne.symm hB)
    unfold eqn at h0 ⊢
    rw [e.commits]
    have hout := e.out T B
    by_cases hBS : B = p.src
    · subst hBS
      cases htr : (w.cfg p.src).trace X T with
      | none =>
        rw [htr] at h0; simp only at h0 ⊢
        have := rel_zero (w.cfg p.src) (h.cfg p.src) p hori T (by rw [hd]; exact htr)
        rw [this] at hout; simp at hout; omega
      | some V =>
        rw [htr] at h0; simp only at h0 ⊢
        have hrb := rel_eq_back (w.cfg p.src) (h.cfg p.src) p hori T V (by rw [hd]; exact htr)
        have hfl := flight_ackwrite w h X cR p code hp hd hr e.acks (fun q => backAmt q V)
        rw [hrb] at hout
        by_cases hc0 : code = 0
        · simp [hc0] at hout hfl
          have m1 := mul_of_add (k := 10 ^ (w.cfg p.src).scale V X) hout
          have m2 := mul_of_add (k := 10 ^ (w.cfg p.src).scale V X) hfl
          omega
        · simp [hc0] at hout hfl
          rw [hout, hfl]; exact h0
    · have hacks : cR.acks B = (w.chains X).acks B := by
        rw [e.acks]; funext s; rw [upd2_app]; simp [hBS]
      simp [hBS] at hout
      cases htr : (w.cfg B).trace X T with
      | none => rw [htr] at h0; simp only at h0 ⊢; rw [hout]; exact h0
      | some V => rw [htr] at h0; simp only at h0 ⊢; rw [hacks, hout]; exact h0
  · -- X as the destination side of a pair: it mints bound tokens
    intro A T hA
    have h0 := hc A X T hA
    unfold eqn at h0 ⊢
    rw [e.commits]
    by_cases hAS : A = p.src
    · subst hAS
      have hfl := flight_ackwrite w h X cR p code hp hd hr e.acks (fun q => fwdAmt q T)
      cases htr : (w.cfg X).trace p.src T with
      | none =>
        rw [htr] at h0; simp only at h0 ⊢
        by_cases hc0 : code = 0
        · have := fwd_zero (w.cfg X) p T (e.bound hc0) htr
          simp [hc0, this] at hfl; omega
        · simp [hc0] at hfl; omega
      | some V =>
        rw [htr] at h0; simp only at h0 ⊢
        have hb := e.bind V p.src
        have := crd_eq_fwd (w.cfg X) (h.cfg X) p T V htr
        rw [this] at hb
        by_cases hc0 : code = 0
        · simp [hc0] at hb hfl
          have m2 := mul_of_add (k := 10 ^ (w.cfg X).scale V p.src) hfl
          omega
        · simp [hc0] at hb hfl
          rw [hb, hfl]; exact h0
    · have hacks : cR.acks A = (w.chains X).acks A := by
        rw [e.acks]; funext s; rw [upd2_app]; simp [hAS]
      cases htr : (w.cfg X).trace A T with
      | none => rw [htr] at h0; simp only at h0 ⊢; rw [hacks]; exact h0
      | some V =>
        rw [htr] at h0; simp only at h0 ⊢
        have hb := e.bind V A
        simp [hAS] at hb
        rw [hacks, hb]; exact h0

/-! ### effect of an acknowledgement on the source chain -/

structure AckEff (cfg : Cfg) (c c' : Chain) (p : Packet) (code : Nat) : Prop where
  mem : p ∈ c.commits
  commits : c'.commits = c.commits.erase p
  nextSeq : c'.nextSeq = c.nextSeq
  receipts : c'.receipts = c.receipts
  acks : c'.acks = c.acks
  out : ∀ T D, c'.evm.out T D + (if D = p.dst ∧ code ≠ 0 then fwdAmt p T else 0) = c.evm.out T D
  bind : ∀ V D, c'.evm.bindAmt V D = c.evm.bindAmt V D + (if D = p.dst ∧ code ≠ 0 then 10 ^ cfg.scale V D * backAmt p V else 0)
  cred : c'.evm.credited = c.evm.credited
  refd : c'.evm.refunded =
    if code = 0 then c.evm.refunded else upd2 c.evm.refunded p.dst p.seq (c.evm.refunded p.dst p.seq + 1)
  fpd : c'.evm.feePaid = upd2 c.evm.feePaid p.dst p.seq (c.evm.feePaid p.dst p.seq + 1)
  feeMap : c'.evm.fee = c.evm.fee
  esc : ∀ F, c.evm.bal F acPacket ≤ c'.evm.bal F acPacket + feeAt c.evm p F

theorem wf_ack (w : World) (X : ChainId) (c' : Chain) (p : Packet) (code : Nat) (h : WF w)
    (e : AckEff (w.cfg X) (w.chains X) c' p code) : WF (w.set X c') := by
  refine ⟨h.cfg, ?_, ?_, ?_, ?_⟩
  · intro A q hq
    rw [set_cfg]
    by_cases hA : A = X
    · subst hA
      rw [set_chains_eq] at hq ⊢
      rw [e.commits] at hq
      rw [e.nextSeq]
      exact h.pkt A q (List.mem_of_mem_erase hq)
    · rw [set_chains_ne _ _ hA] at hq ⊢
      exact h.pkt A q hq
  · intro A
    by_cases hA : A = X
    · subst hA; rw [set_chains_eq, e.commits]
      exact List.Pairwise.sublist List.erase_sublist (h.keys A)
    · rw [set_chains_ne _ _ hA]; exact h.keys A
  · intro A B s
    by_cases hB : B = X
    · subst hB; rw [set_chains_eq, e.acks, e.receipts]; exact h.acks A B s
    · rw [set_chains_ne _ _ hB]; exact h.acks A B s
  · intro A B s hr
    have hr' : (w.chains B).receipts A s = true := by
      by_cases hB : B = X
      · subst hB; rw [set_chains_eq, e.receipts] at hr; exact hr
      · rw [set_chains_ne _ _ hB] at hr; exact hr
    have := h.rcpt A B s hr'
    by_cases hA : A = X
    · subst hA; rw [set_chains_eq, e.nextSeq]; exact this
    · rw [set_chains_ne _ _ hA]; exact this

theorem conserved_ack (w : World) (X : ChainId) (c' : Chain) (p : Packet) (code : Nat) (hc : Conserved w)
    (hack : (w.chains p.dst).acks X p.seq = some code)
    (e : AckEff (w.cfg X) (w.chains X) c' p code) : Conserved (w.set X c') := by
  apply conserved_set w X c' hc
  · intro B T hB
    have h0 := hc X B T (Ne.symm hB)
    unfold eqn at h0 ⊢
    have hfl := flight_erase ((w.chains B).acks X) B (fun q => fwdAmt q T) p _ e.mem
    have hout := e.out T B
    have hterm : term ((w.chains B).acks X) B (fun q => fwdAmt q T) p = (if B = p.dst ∧ code ≠ 0 then fwdAmt p T else 0) := by
      unfold term
      by_cases hd : p.dst = B
      · subst hd; rw [hack]; by_cases hc0 : code = 0 <;> simp [hc0]
      · have : ¬ B = p.dst := fun h => hd h.symm
        simp [hd, this]
    rw [hterm] at hfl
    cases htr : (w.cfg B).trace X T with
    | none =>
      rw [htr] at h0; simp only at h0 ⊢
      rw [e.commits]; omega
    | some V =>
      rw [htr] at h0; simp only at h0 ⊢
      rw [e.commits, e.acks]
      have m1 := mul_of_add (k := 10 ^ (w.cfg B).scale V X) hfl
      have m2 := mul_of_add (k := 10 ^ (w.cfg B).scale V X) hout
      omega
  · intro A T hA
    have h0 := hc A X T hA
    unfold eqn at h0 ⊢
    rw [e.acks]
    cases htr : (w.cfg X).trace A T with
    | none => rw [htr] at h0; exact h0
    | some V =>
      rw [htr] at h0; simp only at h0 ⊢
      rw [e.commits]
      have hfl := flight_erase ((w.chains A).acks X) A (fun q => backAmt q V) p _ e.mem
      have hb := e.bind V A
      have hterm : term ((w.chains A).acks X) A (fun q => backAmt q V) p = (if A = p.dst ∧ code ≠ 0 then backAmt p V else 0) := by
        unfold term
        by_cases hd : p.dst = A
        · subst hd; rw [hack]; by_cases hc0 : code = 0 <;> simp [hc0]
        · have : ¬ A = p.dst := fun h => hd h.symm
          simp [hd, this]
      rw [hterm] at hfl
      have m1 := mul_of_add (k := 10 ^ (w.cfg X).scale V A) hfl
      by_cases hk : A = p.dst ∧ code ≠ 0
      · obtain ⟨h1, h2⟩ := hk
        subst h1
        have h3 : (True ∧ code ≠ 0) := ⟨trivial, h2⟩
        simp only [true_and, h2, ne_eq, not_false_eq_true, ↓reduceIte] at hb m1 ⊢
        omega
      · simp only [hk, ↓reduceIte, Nat.mul_zero, Nat.add_zero] at hb m1 ⊢
        omega

/-! ### a step that does not touch the bridge bookkeeping of its chain -/

theorem inv_frame (w : World) (X : ChainId) (c' : Chain) (h : WF w) (hc : Conserved w)
    (h1 : c'.commits = (w.chains X).commits) (h2 : c'.nextSeq = (w.chains X).nextSeq)
    (h3 : c'.receipts = (w.chains X).receipts) (h4 : c'.acks = (w.chains X).acks)
    (h5 : c'.evm.out = (w.chains X).evm.out) (h6 : c'.evm.bindAmt = (w.chains X).evm.bindAmt) :
    WF (w.set X c') ∧ Conserved (w.set X c') := by
  constructor
  · refine ⟨h.cfg, ?_, ?_, ?_, ?_⟩
    · intro A q hq
      rw [set_cfg]
      by_cases hA : A = X
      · subst hA; rw [set_chains_eq] at hq ⊢; rw [h1] at hq; rw [h2]; exact h.pkt A q hq
      · rw [set_chains_ne _ _ hA] at hq ⊢; exact h.pkt A q hq
    · intro A
      by_cases hA : A = X
      · subst hA; rw [set_chains_eq, h1]; exact h.keys A
      · rw [set_chains_ne _ _ hA]; exact h.keys A
    · intro A B s
      by_cases hB : B = X
      · subst hB; rw [set_chains_eq, h4, h3]; exact h.acks A B s
      · rw [set_chains_ne _ _ hB]; exact h.acks A B s
    · intro A B s hr
      have hr' : (w.chains B).receipts A s = true := by
        by_cases hB : B = X
        · subst hB; rw [set_chains_eq, h3] at hr; exact hr
        · rw [set_chains_ne _ _ hB] at hr; exact hr
      have := h.rcpt A B s hr'
      by_cases hA : A = X
      · subst hA; rw [set_chains_eq, h2]; exact this
      · rw [set_chains_ne _ _ hA]; exact this
  · apply conserved_set w X c' hc
    · intro B T hB
      have h0 := hc X B T (Ne.symm hB)
      unfold eqn at h0 ⊢
      rw [h1, h4, h5]; exact h0
    · intro A T hA
      have h0 := hc A X T hA
      unfold eqn at h0 ⊢
      rw [h1, h4, h6]; exact h0

/-! ### the handlers have these effects -/

theorem debit_some {e e' : Evm} {t : Token} {a : Acct} {n : Nat} (h : debit e t a n = some e') :
    e' = { e with bal := upd2 e.bal t a (e.bal t a - n) } := by
  unfold debit at h
  split at h
  · cases h
  · exact (Option.some.inj h).symm

/-- two EVM states that agree on everything the bridge bookkeeping looks at (they may differ in allowances,
agent data, supplies, ack status) -/
structure BridgeEq (e e' : Evm) : Prop where
  out : e'.out = e.out
  bindAmt : e'.bindAmt = e.bindAmt
  credited : e'.credited = e.credited
  refunded : e'.refunded = e.refunded
  feePaid : e'.feePaid = e.feePaid
  fee : e'.fee = e.fee
  bal : e'.bal = e.bal

theorem bridgeEq_allow (e : Evm) (al : Token → Acct → Nat) : BridgeEq e { e with allow := al } :=
  ⟨rfl, rfl, rfl, rfl, rfl, rfl, rfl⟩
theorem bridgeEq_agentData (e : Evm) (ad : ChainId → Nat → Option (Token × Nat × Acct)) :
    BridgeEq e { e with agentData := ad } := ⟨rfl, rfl, rfl, rfl, rfl, rfl, rfl⟩

theorem pull_some {e e' : Evm} {t : Token} {a : Acct} {n : Nat} (h : pull e t a n = some e') :
    ∃ al, e' = { e with allow := al, bal := upd2 e.bal t a (e.bal t a - n) } := by
  unfold pull spend at h
  by_cases ht : t = 0
  · simp only [ht, ↓reduceIte] at h ⊢
    exact ⟨e.allow, debit_some h⟩
  · simp only [ht, ↓reduceIte] at h ⊢
    split at h
    · cases h
    · rename_i e1 hs
      split at hs
      · cases hs
      · split at hs
        · have := (Option.some.inj hs).symm
          subst this
          exact ⟨_, debit_some h⟩
        · have := (Option.some.inj hs).symm
          subst this
          have := debit_some h
          exact ⟨_, this⟩

structure SendEvmEff (cfg : Cfg) (me : ChainId) (seq : Nat) (e e' : Evm) (a : SendArgs) (p : Packet) : Prop where
  src : p.src = me
  dstEq : p.dst = a.dst
  dst : a.dst ≠ me
  seq : p.seq = seq
  ori : ∀ t, p.transfer = some t → t.ori = cfg.ori t.token p.dst
  out : ∀ T D, e'.out T D = e.out T D + (if D = p.dst then fwdAmt p T else 0)
  bind : ∀ V D, e'.bindAmt V D + (if D = p.dst then 10 ^ cfg.scale V D * backAmt p V else 0) = e.bindAmt V D
  cred : e'.credited = e.credited
  refd : e'.refunded = e.refunded
  fpd : e'.feePaid = e.feePaid
  feeKey : ∀ D q, ¬ (D = p.dst ∧ q = p.seq) → e'.fee D q = e.fee D q
  esc : ∀ F, e.bal F acPacket + feeAt e' p F ≤ e'.bal F acPacket

theorem SendEvmEff.congr {cfg : Cfg} {me : ChainId} {seq : Nat} {e0 e e' e'' : Evm} {a : SendArgs} {p : Packet}
    (h0 : BridgeEq e0 e) (h1 : BridgeEq e' e'') (he : SendEvmEff cfg me seq e e' a p) :
    SendEvmEff cfg me seq e0 e'' a p := by
  refine ⟨he.src, he.dstEq, he.dst, he.seq, he.ori, ?_, ?_, ?_, ?_, ?_, ?_, ?_⟩
  · intro T D; rw [h1.out, ← h0.out]; exact he.out T D
  · intro V D; rw [h1.bindAmt, ← h0.bindAmt]; exact he.bind V D
  · rw [h1.credited, ← h0.credited]; exact he.cred
  · rw [h1.refunded, ← h0.refunded]; exact he.refd
  · rw [h1.feePaid, ← h0.feePaid]; exact he.fpd
  · intro D q hk; rw [h1.fee, ← h0.fee]; exact he.feeKey D q hk
  · intro F
    have := he.esc F
    unfold feeAt at this ⊢
    rw [h1.fee, h1.bal, ← h0.bal]; exact this

theorem sendEvm_eff {cfg : Cfg} {me : ChainId} {seq : Nat} {e e' : Evm} {sender : Acct} {a : SendArgs} {p : Packet}
    (hs : sender ≠ acPacket)
    (h : sendEvm cfg me seq e sender a = some (e', p)) : SendEvmEff cfg me seq e e' a p := by
  have hpe : acEndpoint ≠ acPacket := by decide
  have hpe' : ¬ acPacket = acEndpoint := by decide
  have hs2 : ¬ acPacket = sender := fun h => hs h.symm
  unfold sendEvm at h
  split at h
  · cases h
  rename_i hme
  split at h
  · cases h
  split at h
  · cases h
  rename_i e1 hfee
  obtain ⟨al1, h1⟩ := pull_some hfee
  subst h1
  simp only at h
  split at h
  · -- no transfer data
    have h' := Option.some.inj h
    have hp : p = _ := (Prod.mk.inj h').2.symm
    have he : e' = _ := (Prod.mk.inj h').1.symm
    subst hp; subst he
    refine ⟨rfl, rfl, hme, rfl, ?_, ?_, ?_, rfl, rfl, rfl, ?_, ?_⟩
    · intro t ht; cases ht
    · intro T D; simp [fwdAmt, credit]
    · intro V D; simp [backAmt, credit]
    · intro D q hk; simp [credit, upd2_app, hk]
    · intro F
      simp only [feeAt, credit, upd2_app]
      by_cases hF : a.feeToken = F
      · subst hF; simp [hs, hs2, hpe, hpe']
      · have hF' : ¬ F = a.feeToken := fun h => hF h.symm
        simp [hF, hF', hs, hs2, hpe, hpe']
  · split at h
    · -- bound token going back
      rename_i o ho
      split at h
      · cases h
      rename_i hliq
      split at h
      · cases h
      rename_i e2 hdeb
      obtain ⟨al2, h2⟩ := pull_some hdeb
      subst h2
      have h' := Option.some.inj h
      have hp : p = _ := (Prod.mk.inj h').2.symm
      have he : e' = _ := (Prod.mk.inj h').1.symm
      subst hp; subst he
      refine ⟨rfl, rfl, hme, rfl, ?_, ?_, ?_, rfl, rfl, rfl, ?_, ?_⟩
      · intro t ht
        have := Option.some.inj ht
        subst this
        simp [ho]
      · intro T D; simp [fwdAmt, credit]
      · intro V D
        simp only [backAmt, credit, upd2_app]
        by_cases hk : V = a.token ∧ D = a.dst
        · obtain ⟨hV, hD⟩ := hk
          subst hV; subst hD
          simp only [credit] at hliq
          simp at hliq ⊢
          rw [Nat.mul_comm (10 ^ _)]
          omega
        · by_cases hD : D = a.dst
          · have hV : ¬ a.token = V := fun h => hk ⟨h.symm, hD⟩
            have hV' : ¬ V = a.token := fun h => hk ⟨h, hD⟩
            simp [hD, hV, hV']
          · simp [hD]
      · intro D q hk; simp [credit, upd2_app, hk]
      · intro F
        simp only [feeAt, credit, upd2_app]
        by_cases hF : a.feeToken = F
        · subst hF; simp [hs, hs2, hpe, hpe']
        · have hF' : ¬ F = a.feeToken := fun h => hF h.symm
          simp [hF, hF', hs, hs2, hpe, hpe']
    · -- origin token: escrow
      rename_i ho
      split at h
      · cases h
      rename_i e2 hdeb
      obtain ⟨al2, h2⟩ := pull_some hdeb
      subst h2
      have h' := Option.some.inj h
      have hp : p = _ := (Prod.mk.inj h').2.symm
      have he : e' = _ := (Prod.mk.inj h').1.symm
      subst hp; subst he
      refine ⟨rfl, rfl, hme, rfl, ?_, ?_, ?_, rfl, rfl, rfl, ?_, ?_⟩
      · intro t ht
        have := Option.some.inj ht
        subst this
        simp [ho]
      · intro T D
        simp only [fwdAmt, credit, upd2_app]
        by_cases hk : T = a.token ∧ D = a.dst
        · obtain ⟨hT, hD⟩ := hk
          subst hT; subst hD
          simp
        · by_cases hD : D = a.dst
          · have hT : ¬ a.token = T := fun h => hk ⟨h.symm, hD⟩
            have hT' : ¬ T = a.token := fun h => hk ⟨h, hD⟩
            simp [hD, hT, hT']
          · simp [hD]
      · intro V D; simp [backAmt, credit]
      · intro D q hk; simp [credit, upd2_app, hk]
      · intro F
        simp only [feeAt, credit, upd2_app]
        by_cases hF : a.feeToken = F
        · subst hF; simp [hs, hs2, hpe, hpe']
        · have hF' : ¬ F = a.feeToken := fun h => hF h.symm
          simp [hF, hF', hs, hs2, hpe, hpe']

theorem sendKeeper_eff {cfg : Cfg} {me : ChainId} {c0 : Chain} {e' : Evm} {a : SendArgs} {p : Packet} {c' : Chain} {sq : Nat}
    (hsq : sq = c0.nextSeq p.dst) (he : SendEvmEff cfg me sq c0.evm e' a p)
    (hk : sendKeeper cfg { c0 with evm := e' } p = some c') : SendEff cfg me c0 c' p := by
  unfold sendKeeper at hk
  split at hk
  · have := Option.some.inj hk; subst this
    refine ⟨rfl, rfl, rfl, rfl, ?_, he.src, ?_, he.ori, he.out, he.bind, he.cred, he.refd, he.fpd, he.feeKey, he.esc⟩
    · rw [he.seq, hsq]
    · rw [he.dstEq]; exact he.dst
  · cases hk

theorem send_eff {cfg : Cfg} {me : ChainId} {c : Chain} {sender : Acct} {a : SendArgs} {c' : Chain}
    (h : send cfg me c sender a = some c') : ∃ p, SendEff cfg me c c' p := by
  unfold send at h
  split at h
  · cases h
  rename_i hs
  split at h
  · cases h
  rename_i e p hse
  have hs' : sender ≠ acPacket := fun h => hs (Or.inr h)
  have he := sendEvm_eff hs' hse
  exact ⟨p, sendKeeper_eff (by rw [he.dstEq]) he h⟩

theorem recvTransfer_eff {cfg : Cfg} {e e1 : Evm} {p : Packet} {tok : Token} {k : Nat}
    (h : recvTransfer cfg e p = some (e1, tok, k)) :
    (∀ T D, e1.out T D + (if D = p.src then relAmt p T else 0) = e.out T D) ∧
    (∀ V D, e1.bindAmt V D = e.bindAmt V D + (if D = p.src then 10 ^ cfg.scale V D * crdAmt cfg p V else 0)) ∧
    (∀ t, p.transfer = some t → t.ori = none → cfg.trace p.src t.token ≠ none) ∧
    e1.credited = upd2 e.credited p.src p.seq (e.credited p.src p.seq + 1) ∧ e1.refunded = e.refunded ∧
    e1.feePaid = e.feePaid ∧ e1.fee = e.fee ∧ (∀ F, e.bal F acPacket ≤ e1.bal F acPacket) := by
  have hpe : ¬ acPacket = acEndpoint := by decide
  unfold recvTransfer at h
  split at h
  · -- no transfer data
    rename_i ht
    have he : e1 = _ := (Prod.mk.inj (Option.some.inj h)).1.symm
    subst he
    refine ⟨?_, ?_, ?_, rfl, rfl, rfl, rfl, fun F => Nat.le_refl _⟩
    · intro T D; simp [relAmt, ht]
    · intro V D; simp [crdAmt, ht]
    · intro t h1; rw [ht] at h1; cases h1
  · rename_i t ht
    split at h
    · -- forward: mint the bound token
      rename_i hori
      split at h
      · cases h
      rename_i v hv
      split at h
      · cases h
      have he : e1 = _ := (Prod.mk.inj (Option.some.inj h)).1.symm
      subst he
      refine ⟨?_, ?_, ?_, rfl, rfl, rfl, rfl, ?_⟩
      · intro T D; simp [relAmt, ht, hori, credit]
      · intro V D
        simp only [crdAmt, ht, hori, credit, upd2_app]
        by_cases hk : V = v ∧ D = p.src
        · obtain ⟨h1, h2⟩ := hk; subst h1; subst h2; simp [hv, Nat.mul_comm]
        · by_cases hD : D = p.src
          · have h1 : ¬ V = v := fun h => hk ⟨h, hD⟩
            have h2 : ¬ v = V := fun h => hk ⟨h.symm, hD⟩
            simp [hD, h1, hv, h2]
          · simp [hD]
      · intro t' h1 _
        rw [ht] at h1
        have := Option.some.inj h1; subst this
        rw [hv]; exact Option.some_ne_none v
      · intro F
        simp only [credit, upd2_app]
        split
        · rename_i hc; rw [hc.1, hc.2]; omega
        · exact Nat.le_refl _
    · -- back at the origin: release
      rename_i o hori
      split at h
      · cases h
      rename_i hlock
      split at h
      · cases h
      rename_i e2 hdeb
      have h2 := debit_some hdeb
      subst h2
      have he : e1 = _ := (Prod.mk.inj (Option.some.inj h)).1.symm
      subst he
      refine ⟨?_, ?_, ?_, rfl, rfl, rfl, rfl, ?_⟩
      · intro T D
        simp only [relAmt, ht, hori, credit, upd2_app]
        by_cases hk : T = o ∧ D = p.src
        · obtain ⟨h1, h2⟩ := hk; subst h1; subst h2
          simp at hlock ⊢
          omega
        · by_cases hD : D = p.src
          · have h1 : ¬ T = o := fun h => hk ⟨h, hD⟩
            have h2 : ¬ o = T := fun h => hk ⟨h.symm, hD⟩
            simp [hD, h1, h2]
          · simp [hD]
      · intro V D; simp [crdAmt, ht, hori, credit]
      · intro t' h1 h2
        rw [ht] at h1
        have := Option.some.inj h1; subst this
        rw [hori] at h2; cases h2
      · intro F
        simp only [credit, upd2_app]
        split
        · rename_i hc; obtain ⟨h1, h2⟩ := hc; subst h1; rw [← h2]; simp [hpe]
        · simp [hpe]

theorem onRecv_err {cfg : Cfg} {me : ChainId} {c c2 : Chain} {p : Packet} {code : Nat}
    (h : onRecv cfg me c p = .errorResult code c2) : code ≠ 0 := by
  unfold onRecv at h
  split at h
  · injection h with h1 _; omega
  · simp only at h
    split at h
    · cases h
    split at h
    · cases h
    · cases h
    · injection h with h1 _; omega
    · cases h
    · cases h
    · split at h
      · injection h with h1 _; omega
      · split at h
        · injection h with h1 _; omega
        · split at h
          · injection h with h1 _; omega
          · split at h <;> cases h

theorem onRecv_ok {cfg : Cfg} {me : ChainId} {c c2 : Chain} {p : Packet}
    (h : onRecv cfg me c p = .ok c2) :
    ∃ e tok k, recvTransfer cfg c.evm p = some (e, tok, k) ∧
      (c2 = { c with evm := e } ∨
       ∃ (a : SendArgs) (e3 : Evm) (p2 : Packet) (sq : Nat), sq = c.nextSeq p2.dst ∧
         SendEvmEff cfg me sq e e3 a p2 ∧ sendKeeper cfg { c with evm := e3 } p2 = some c2) := by
  unfold onRecv at h
  split at h
  · cases h
  · rename_i e tok k hrt
    refine ⟨e, tok, k, hrt, ?_⟩
    simp only at h
    split at h
    · cases h
    split at h
    · injection h with h1; exact Or.inl h1.symm
    · injection h with h1; exact Or.inl h1.symm
    · cases h
    · cases h
    · cases h
    · split at h
      · cases h
      · split at h
        · cases h
        · split at h
          · cases h
          · rename_i e2 p2 hs
            split at h
            · cases h
            · rename_i c3 hk
              injection h with h1
              subst h1
              have he := sendEvm_eff (by decide : acAgent ≠ acPacket) hs
              exact Or.inr ⟨_, _, p2, _, by rw [he.dstEq], SendEvmEff.congr (bridgeEq_allow e _) (bridgeEq_agentData e2 _) he, hk⟩

theorem refund_eff {cfg : Cfg} {e e' : Evm} {p : Packet} (h : refund cfg e p = some e') :
    (∀ T D, e'.out T D + (if D = p.dst then fwdAmt p T else 0) = e.out T D) ∧
    (∀ V D, e'.bindAmt V D = e.bindAmt V D + (if D = p.dst then 10 ^ cfg.scale V D * backAmt p V else 0)) ∧
    e'.credited = e.credited ∧ e'.refunded = upd2 e.refunded p.dst p.seq (e.refunded p.dst p.seq + 1) ∧
    e'.feePaid = e.feePaid ∧ e'.fee = e.fee ∧ (∀ F, e.bal F acPacket ≤ e'.bal F acPacket) := by
  have hpe : ¬ acPacket = acEndpoint := by decide
  unfold refund at h
  split at h
  · cases h
  rename_i t ht
  split at h
  · rename_i o hori
    split at h
    · cases h
    have he := (Option.some.inj h).symm
    subst he
    refine ⟨?_, ?_, rfl, rfl, rfl, rfl, ?_⟩
    · intro T D; simp [fwdAmt, ht, hori, credit]
    · intro V D
      simp only [backAmt, ht, hori, credit, upd2_app]
      by_cases hk : V = t.token ∧ D = p.dst
      · obtain ⟨h1, h2⟩ := hk; subst h1; subst h2; simp [Nat.mul_comm]
      · by_cases hD : D = p.dst
        · have h1 : ¬ V = t.token := fun h => hk ⟨h, hD⟩
          have h2 : ¬ t.token = V := fun h => hk ⟨h.symm, hD⟩
          simp [hD, h1, h2]
        · simp [hD]
    · intro F
      simp only [credit, upd2_app]
      split
      · rename_i hc; rw [hc.1, hc.2]; omega
      · exact Nat.le_refl _
  · rename_i hori
    split at h
    · cases h
    rename_i hlock
    split at h
    · cases h
    rename_i e2 hdeb
    have h2 := debit_some hdeb
    subst h2
    have he := (Option.some.inj h).symm
    subst he
    refine ⟨?_, ?_, rfl, rfl, rfl, rfl, ?_⟩
    · intro T D
      simp only [fwdAmt, ht, hori, credit, upd2_app]
      by_cases hk : T = t.token ∧ D = p.dst
      · obtain ⟨h1, h2⟩ := hk; subst h1; subst h2
        simp at hlock ⊢
        omega
      · by_cases hD : D = p.dst
        · have h1 : ¬ T = t.token := fun h => hk ⟨h, hD⟩
          have h2 : ¬ t.token = T := fun h => hk ⟨h.symm, hD⟩
          simp [hD, h1, h2]
        · simp [hD]
    · intro V D; simp [backAmt, ht, hori, credit]
    · intro F
      simp only [credit, upd2_app]
      split
      · rename_i hc; obtain ⟨h1, h2⟩ := hc; subst h1; rw [← h2]; simp [hpe]
      · simp [hpe]

theorem agentCallback_eff {e e' : Evm} {p : Packet} (h : agentCallback e p = some e') :
    e'.out = e.out ∧ e'.bindAmt = e.bindAmt ∧ e'.credited = e.credited ∧ e'.refunded = e.refunded ∧
    e'.feePaid = e.feePaid ∧ e'.fee = e.fee ∧ (∀ F, e.bal F acPacket ≤ e'.bal F acPacket) := by
  have hpa : ¬ acPacket = acAgent := by decide
  unfold agentCallback at h
  split at h
  · cases h
  split at h
  · cases h
  rename_i e2 hdeb
  have h2 := debit_some hdeb
  subst h2
  have he := (Option.some.inj h).symm
  subst he
  refine ⟨rfl, rfl, rfl, rfl, rfl, rfl, ?_⟩
  intro F
  simp only [credit, upd2_app]
  split
  · rename_i hc; obtain ⟨h1, h2⟩ := hc; subst h1; rw [← h2]; simp [hpa]
  · simp [hpa]

theorem debit_le {e e' : Evm} {t : Token} {a : Acct} {n : Nat} (h : debit e t a n = some e') : n ≤ e.bal t a := by
  unfold debit at h
  split at h
  · cases h
  · omega

/-- paying the relay fee out of the packet contract's escrow lowers its balance by exactly the fee -/
theorem feePay_bal (bal : Token → Acct → Nat) (ft : Token) (fa : Nat) (r : Acct) (hle : fa ≤ bal ft acPacket) (F : Token) :
    bal F acPacket ≤
      upd2 (upd2 bal ft acPacket (bal ft acPacket - fa)) ft r
        (upd2 bal ft acPacket (bal ft acPacket - fa) ft r + fa) F acPacket + (if ft = F then fa else 0) := by
  by_cases hpr : acPacket = r
  · subst hpr
    simp only [upd2_app]
    by_cases hF : ft = F
    · subst hF; simp; omega
    · have hF' : ¬ F = ft := fun h => hF h.symm
      simp [hF, hF']
  · simp only [upd2_app, hpr, and_false, ↓reduceIte, and_true]
    by_cases hF : ft = F
    · subst hF; simp; omega
    · have hF' : ¬ F = ft := fun h => hF h.symm
      simp [hF, hF']

theorem ack_eff {cfg : Cfg} {me : ChainId} {c c' : Chain} {p : Packet} {code : Nat} {rel : Option Acct}
    (h : ackHandler cfg me c p code rel = some c') : p.src = me ∧ AckEff cfg c c' p code := by
  unfold ackHandler at h
  split at h
  · cases h
  rename_i hsrc
  split at h
  · cases h
  rename_i hmem
  split at h
  · cases h
  simp only at h
  split at h
  · cases h
  rename_i relayer
  split at h
  · cases h
  rename_i e1 hdeb
  have hle := debit_le hdeb
  have h1 := debit_some hdeb
  subst h1
  have hesc1 := feePay_bal c.evm.bal (c.evm.fee p.dst p.seq).1 (c.evm.fee p.dst p.seq).2 relayer hle
  split at h
  · cases h
  rename_i e2 hr
  split at h
  · cases h
  rename_i e3 hr2
  have hc' := (Option.some.inj h).symm
  subst hc'
  have h32 : e3.out = e2.out ∧ e3.bindAmt = e2.bindAmt ∧ e3.credited = e2.credited ∧ e3.refunded = e2.refunded ∧
      e3.feePaid = e2.feePaid ∧ e3.fee = e2.fee ∧ (∀ F, e2.bal F acPacket ≤ e3.bal F acPacket) := by
    split at hr2
    · exact agentCallback_eff hr2
    · have := (Option.some.inj hr2).symm; subst this; exact ⟨rfl, rfl, rfl, rfl, rfl, rfl, fun F => Nat.le_refl _⟩
  refine ⟨Decidable.of_not_not hsrc, ⟨Decidable.of_not_not hmem, rfl, rfl, rfl, rfl, ?_, ?_, ?_, ?_, ?_, ?_, ?_⟩⟩
  · intro T D
    show e3.out T D + _ = _
    rw [h32.1]
    by_cases hc0 : code = 0
    · simp only [hc0, ↓reduceIte] at hr
      have := (Option.some.inj hr).symm; subst this
      simp [credit, hc0]
    · simp only [hc0, ↓reduceIte] at hr
      have := (refund_eff hr).1 T D
      simp [hc0]
      simpa [credit] using this
  · intro V D
    show e3.bindAmt V D = _
    rw [h32.2.1]
    by_cases hc0 : code = 0
    · simp only [hc0, ↓reduceIte] at hr
      have := (Option.some.inj hr).symm; subst this
      simp [credit, hc0]
    · simp only [hc0, ↓reduceIte] at hr
      have := (refund_eff hr).2.1 V D
      simp [hc0]
      simpa [credit] using this
  · show e3.credited = _
    rw [h32.2.2.1]
    by_cases hc0 : code = 0
    · simp only [hc0, ↓reduceIte] at hr
      have := (Option.some.inj hr).symm; subst this
      rfl
    · simp only [hc0, ↓reduceIte] at hr
      exact (refund_eff hr).2.2.1
  · show e3.refunded = _
    rw [h32.2.2.2.1]
    by_cases hc0 : code = 0
    · simp only [hc0, ↓reduceIte] at hr
      have := (Option.some.inj hr).symm; subst this
      simp [hc0]; rfl
    · simp only [hc0, ↓reduceIte] at hr
      rw [(refund_eff hr).2.2.2.1]
      simp [hc0]; rfl
  · show e3.feePaid = _
    rw [h32.2.2.2.2.1]
    by_cases hc0 : code = 0
    · simp only [hc0, ↓reduceIte] at hr
      have := (Option.some.inj hr).symm; subst this
      rfl
    · simp only [hc0, ↓reduceIte] at hr
      rw [(refund_eff hr).2.2.2.2.1]; rfl
  · show e3.fee = _
    rw [h32.2.2.2.2.2.1]
    by_cases hc0 : code = 0
    · simp only [hc0, ↓reduceIte] at hr
      have := (Option.some.inj hr).symm; subst this
      rfl
    · simp only [hc0, ↓reduceIte] at hr
      rw [(refund_eff hr).2.2.2.2.2.1]; rfl
  · intro F
    have a1 := hesc1 F
    have a3 := h32.2.2.2.2.2.2 F
    by_cases hc0 : code = 0
    · simp only [hc0, ↓reduceIte] at hr
      have := (Option.some.inj hr).symm; subst this
      exact Nat.le_trans a1 (Nat.add_le_add_right a3 _)
    · simp only [hc0, ↓reduceIte] at hr
      have a2 := (refund_eff hr).2.2.2.2.2.2 F
      exact Nat.le_trans a1 (Nat.add_le_add_right (Nat.le_trans a2 a3) _)

/-- the message goes through only if the callback contract does not revert, and then it is the handler's result -/
theorem ackMsg_some {cfg : Cfg} {me : ChainId} {c c' : Chain} {p : Packet} {code : Nat} {rel : Option Acct} {cb : Bool}
    (h : ackMsg cfg me c p code rel cb = some c') :
    ackHandler cfg me c p code rel = some c' ∧ ¬ (p.cbSwitch = true ∧ cb = true) := by
  unfold ackMsg at h
  split at h
  · cases h
  · rename_i hn
    split at h
    · cases h
    · exact ⟨h, hn⟩

theorem ackMsg_of_handler_none {cfg : Cfg} {me : ChainId} {c : Chain} {p : Packet} {code : Nat} {rel : Option Acct} {cb : Bool}
    (h : ackHandler cfg me c p code rel = none) : ackMsg cfg me c p code rel cb = none := by
  unfold ackMsg; split
  · rfl
  · split
    · rfl
    · exact h

theorem recv_eff {cfg : Cfg} {me : ChainId} {c c' : Chain} {p : Packet}
    (h : recvHandler true cfg me c p = some c') :
    p.dst = me ∧ c.receipts p.src p.seq = false ∧
    ∃ code cR, RecvEff cfg c cR p code ∧ (c' = cR ∨ ∃ p2, SendEff cfg me cR c' p2) := by
  unfold recvHandler at h
  split at h
  · cases h
  rename_i hdst
  split at h
  · cases h
  rename_i hrc
  split at h
  · cases h
  simp only [↓reduceIte] at h
  have hd : p.dst = me := Decidable.of_not_not hdst
  have hr : c.receipts p.src p.seq = false := by
    cases hb : c.receipts p.src p.seq
    · rfl
    · exact absurd hb hrc
  refine ⟨hd, hr, ?_⟩
  have nonzeroEff : ∀ code, code ≠ 0 →
      RecvEff cfg c { evm := c.evm, nextSeq := c.nextSeq, commits := c.commits,
                      receipts := upd2 c.receipts p.src p.seq true,
                      acks := upd2 c.acks p.src p.seq (some code) } p code := by
    intro code hc
    refine ⟨rfl, rfl, rfl, rfl, ?_, ?_, ?_, ?_, rfl, rfl, rfl, fun F => Nat.le_refl _⟩
    · intro T D; simp [hc]
    · intro V D; simp [hc]
    · intro h0; exact absurd h0 hc
    · simp [hc]
  split at h
  · rename_i cctx' hcb
    have hc' := (Option.some.inj h).symm
    subst hc'
    obtain ⟨e, tok, k, hrt, hcase⟩ := onRecv_ok hcb
    obtain ⟨ho, hb, hbound, hcr, hrf, hfp, hfee, hbal⟩ := recvTransfer_eff hrt
    refine ⟨0, { evm := e, nextSeq := c.nextSeq, commits := c.commits, receipts := upd2 c.receipts p.src p.seq true,
                 acks := upd2 c.acks p.src p.seq (some 0) }, ⟨rfl, rfl, rfl, rfl, ?_, ?_, fun _ => hbound, ?_, hrf, hfp, hfee, hbal⟩, ?_⟩
    · intro T D; have := ho T D; simpa using this
    · intro V D; have := hb V D; simpa using this
    · simpa using hcr
    · rcases hcase with h1 | ⟨a, e3, p2, sq, hsq, he, hk⟩
      · left; subst h1; rfl
      · right
        have key := sendKeeper_eff (c0 := { evm := e, nextSeq := c.nextSeq, commits := c.commits,
                                            receipts := upd2 c.receipts p.src p.seq true, acks := c.acks }) hsq he hk
        refine ⟨p2, ⟨key.commits, ?_, key.receipts, key.nextSeq, key.seq, key.src, key.dst, key.ori, key.out, key.bind,
          key.cred, key.refd, key.fpd, key.feeKey, key.esc⟩⟩
        show upd2 cctx'.acks p.src p.seq (some 0) = _
        rw [key.acks]
  · have hc' := (Option.some.inj h).symm
    exact ⟨1, _, nonzeroEff 1 (by omega), Or.inl hc'⟩
  · rename_i code c1 hcb
    have hc' := (Option.some.inj h).symm
    exact ⟨code, _, nonzeroEff code (onRecv_err hcb), Or.inl hc'⟩
  · have hc' := (Option.some.inj h).symm
    exact ⟨1, _, nonzeroEff 1 (by omega), Or.inl hc'⟩
  · have hc' := (Option.some.inj h).symm
    exact ⟨1, _, nonzeroEff 1 (by omega), Or.inl hc'⟩


/-! ### batched sends: one transaction, several `crossChainCall`s (all legs committed, or nothing) -/

/-- nothing the bridge bookkeeping looks at changes; the packet contract's balances do not decrease -/
structure BridgeLe (e e' : Evm) : Prop where
  out : e'.out = e.out
  bindAmt : e'.bindAmt = e.bindAmt
  credited : e'.credited = e.credited
  refunded : e'.refunded = e.refunded
  feePaid : e'.feePaid = e.feePaid
  fee : e'.fee = e.fee
  bal : ∀ F, e.bal F acPacket ≤ e'.bal F acPacket

theorem set_self (w : World) (X : ChainId) : w.set X (w.chains X) = w := by
  simp only [World.set]
  congr 1
  funext y
  simp only [upd1]
  split
  · rename_i h; rw [h]
  · rfl

theorem sendKeeper_seq {cfg : Cfg} {c c' : Chain} {p : Packet} (h : sendKeeper cfg c p = some c') :
    p.seq = c.nextSeq p.dst := by
  unfold sendKeeper at h
  split at h
  · rename_i hc; exact hc.2.1
  · cases h

/-- the interleaved reading of a batch: each leg's EVM part (with the sequence numbers read at the START of the
transaction) immediately followed by its hook -/
def batchI (cfg : Cfg) (self : ChainId) (seq0 : ChainId → Nat) (strict : Bool) : Chain → List Leg → Option Chain
  | c, [] => some c
  | c, .approve t n :: ls =>
    batchI cfg self seq0 strict { c with evm := { c.evm with allow := upd2 c.evm.allow t acForwarder n } } ls
  | c, .send a :: ls =>
    match sendEvm cfg self (seq0 a.dst) c.evm acForwarder a with
    | none => if strict then none else batchI cfg self seq0 strict c ls
    | some (e1, p) =>
      match sendKeeper cfg { c with evm := e1 } p with
      | none => none
      | some c1 => batchI cfg self seq0 strict c1 ls
  | c, .fakelog _ :: ls => batchI cfg self seq0 strict c ls     -- a look-alike log of another contract: not a packet

theorem hookPackets_packet (p : Packet) (logs : List SentLog) : hookPackets ((acPacket, p) :: logs) = p :: hookPackets logs := by
  simp [hookPackets]
theorem hookPackets_foreign (a : Acct) (p : Packet) (logs : List SentLog) (h : a ≠ acPacket) :
    hookPackets ((a, p) :: logs) = hookPackets logs := by
  simp [hookPackets, h]

/-- the transaction as `ApplyTransaction` runs it: the whole EVM execution first, then the hook over all events -/
def twoPhase (cfg : Cfg) (self : ChainId) (seq0 : ChainId → Nat) (strict : Bool) (c : Chain) (legs : List Leg) : Option Chain :=
  match batchEvm cfg self seq0 strict c.evm legs with
  | none => none
  | some (e, logs) => batchKeeper cfg { c with evm := e } (hookPackets logs)

/-- **EVM-then-hooks = leg by leg**: because the hook handles every `PacketSent` event in order and fails on the first
failing `SendPacket`, running the hooks after the whole EVM execution commits exactly what a leg-by-leg execution
would (and fails exactly when it would). -/
theorem twoPhase_eq_batchI (cfg : Cfg) (self : ChainId) (seq0 : ChainId → Nat) (strict : Bool) :
    ∀ (legs : List Leg) (c : Chain), twoPhase cfg self seq0 strict c legs = batchI cfg self seq0 strict c legs
  | [], c => by simp [twoPhase, batchEvm, batchKeeper, batchI, hookPackets]
  | .approve t n :: ls, c => by
    have ih := twoPhase_eq_batchI cfg self seq0 strict ls
      { c with evm := { c.evm with allow := upd2 c.evm.allow t acForwarder n } }
    simp only [twoPhase, batchEvm, batchI] at ih ⊢
    exact ih
  | .send a :: ls, c => by
    simp only [twoPhase, batchEvm, batchI]
    cases hs : sendEvm cfg self (seq0 a.dst) c.evm acForwarder a with
    | none =>
      simp only
      by_cases hst : strict = true
      · simp [hst]
      · have hf : strict = false := by simpa using hst
        subst hf
        have ih := twoPhase_eq_batchI cfg self seq0 false ls c
        simp only [twoPhase] at ih
        simpa using ih
    | some r =>
      obtain ⟨e1, p⟩ := r
      simp only
      by_cases hk : cfg.clients p.dst = true ∧ p.seq = c.nextSeq p.dst ∧ p.seq + 1 < U64
      · have hk1 : sendKeeper cfg { c with evm := e1 } p =
            some { c with evm := e1, nextSeq := upd1 c.nextSeq p.dst (p.seq + 1), commits := p :: c.commits } := by
          unfold sendKeeper; rw [if_pos hk]
        rw [hk1]
        have ih := twoPhase_eq_batchI cfg self seq0 strict ls
          { c with evm := e1, nextSeq := upd1 c.nextSeq p.dst (p.seq + 1), commits := p :: c.commits }
        simp only [twoPhase] at ih
        simp only
        rw [← ih]
        cases hb : batchEvm cfg self seq0 strict e1 ls with
        | none => rfl
        | some r2 =>
          obtain ⟨e2, ps⟩ := r2
          simp only [hookPackets_packet, batchKeeper, sendKeeper, if_pos hk]
      · have hk1 : ∀ e, sendKeeper cfg { c with evm := e } p = none := by
          intro e; simp [sendKeeper, hk]
        rw [hk1]
        cases hb : batchEvm cfg self seq0 strict e1 ls with
        | none => rfl
        | some r2 =>
          obtain ⟨e2, ps⟩ := r2
          simp only [hookPackets_packet, batchKeeper, hk1]
  | .fakelog q :: ls, c => by
    have ih := twoPhase_eq_batchI cfg self seq0 strict ls c
    simp only [twoPhase, batchEvm, batchI] at ih ⊢
    rw [← ih]
    cases hb : batchEvm cfg self seq0 strict c.evm ls with
    | none => rfl
    | some r2 =>
      obtain ⟨e2, ps⟩ := r2
      simp only [hookPackets_foreign acEmitter q ps (by decide)]

/-- generic preservation: a world property that survives (a) a complete single send on chain `X` and (b) a change of
chain `X`'s EVM state that the bridge bookkeeping does not see, survives every batch on `X`. -/
theorem batchI_preserves (P : World → Prop) (X : ChainId) (seq0 : ChainId → Nat) (strict : Bool)
    (hsend : ∀ w c' p, P w → SendEff (w.cfg X) X (w.chains X) c' p → P (w.set X c'))
    (hframe : ∀ w e', P w → BridgeLe (w.chains X).evm e' → P (w.set X { (w.chains X) with evm := e' })) :
    ∀ (legs : List Leg) (w : World) (c' : Chain), P w →
      batchI (w.cfg X) X seq0 strict (w.chains X) legs = some c' → P (w.set X c')
  | [], w, c', hP, h => by
    simp only [batchI] at h
    have := (Option.some.inj h).symm; subst this
    rw [set_self]; exact hP
  | .approve t n :: ls, w, c', hP, h => by
    simp only [batchI] at h
    have h1 := hframe w { (w.chains X).evm with allow := upd2 (w.chains X).evm.allow t acForwarder n } hP
      ⟨rfl, rfl, rfl, rfl, rfl, rfl, fun _ => Nat.le_refl _⟩
    have := batchI_preserves P X seq0 strict hsend hframe ls _ c' h1 (by rw [set_cfg, set_chains_eq]; exact h)
    rw [set_set] at this; exact this
  | .fakelog _ :: ls, w, c', hP, h => by
    simp only [batchI] at h
    exact batchI_preserves P X seq0 strict hsend hframe ls w c' hP h
  | .send a :: ls, w, c', hP, h => by
    simp only [batchI] at h
    split at h
    · split at h
      · cases h
      · exact batchI_preserves P X seq0 strict hsend hframe ls w c' hP h
    · rename_i e1 p hs
      split at h
      · cases h
      · rename_i c1 hk
        have he := sendEvm_eff (by decide : acForwarder ≠ acPacket) hs
        have hseq := sendKeeper_seq hk
        have eff : SendEff (w.cfg X) X (w.chains X) c1 p :=
          sendKeeper_eff (c0 := w.chains X) (by rw [← he.seq]; exact hseq) he hk
        have h1 := hsend w c1 p hP eff
        have := batchI_preserves P X seq0 strict hsend hframe ls _ c' h1 (by rw [set_cfg, set_chains_eq]; exact h)
        rw [set_set] at this; exact this

theorem batch_some {cfg : Cfg} {me : ChainId} {c c' : Chain} {sender : Acct} {strict : Bool} {legs : List Leg}
    (hb : batch cfg me c sender strict legs = some c') :
    ∃ e0, BridgeLe c.evm e0 ∧ twoPhase cfg me c.nextSeq strict { c with evm := e0 } legs = some c' := by
  unfold batch at hb
  split at hb
  · cases hb
  rename_i hsys
  split at hb
  · cases hb
  rename_i e0 hd
  have hde := debit_some hd
  subst hde
  have hsp : ¬ acPacket = sender := fun h => hsys (Or.inr h.symm)
  have hpf : ¬ acPacket = acForwarder := by decide
  refine ⟨?w, ?h1, ?h2⟩
  case h2 => unfold twoPhase; exact hb
  case h1 =>
    refine ⟨rfl, rfl, rfl, rfl, rfl, rfl, ?_⟩
    intro F
    simp only [credit, upd2_app]
    simp [hsp, hpf]

/-- … and so does the property survive the `batch` transaction itself (value transfer to the forwarder, EVM, hooks). -/
theorem batch_preserves (P : World → Prop) (X : ChainId)
    (hsend : ∀ w c' p, P w → SendEff (w.cfg X) X (w.chains X) c' p → P (w.set X c'))
    (hframe : ∀ w e', P w → BridgeLe (w.chains X).evm e' → P (w.set X { (w.chains X) with evm := e' }))
    (w : World) (sender : Acct) (strict : Bool) (legs : List Leg) (hP : P w) :
    P (step true w (.batch X sender strict legs)) := by
  simp only [step]
  split
  · exact hP
  rename_i c' hb
  obtain ⟨e0, hle, htp⟩ := batch_some hb
  rw [twoPhase_eq_batchI] at htp
  have h1 := hframe w e0 hP hle
  have := batchI_preserves P X (w.chains X).nextSeq strict hsend hframe legs _ c' h1
    (by rw [set_cfg, set_chains_eq]; exact htp)
  rw [set_set] at this; exact this

/-! ### the invariant and the main theorems -/

/-- `Inv` = well-formed + `Conserved`. -/
def Inv (w : World) : Prop := WF w ∧ Conserved w

theorem findPacket_some {l : List Packet} {dst : ChainId} {seq : Nat} {p : Packet}
    (h : findPacket l dst seq = some p) : p ∈ l ∧ p.dst = dst ∧ p.seq = seq := by
  unfold findPacket at h
  have h1 := List.mem_of_find?_eq_some h
  have h2 := List.find?_some h
  simp at h2
  exact ⟨h1, h2.1, h2.2⟩

/-- the invariants look at the configuration and the chains only — not at the relayer registry or at the relayer
names written into acknowledgements -/
theorem inv_ext {w1 w2 : World} (hc : w1.cfg = w2.cfg) (hch : w1.chains = w2.chains) (h : Inv w2) : Inv w1 := by
  obtain ⟨hw, hcons⟩ := h
  refine ⟨⟨?_, ?_, ?_, ?_, ?_⟩, ?_⟩
  · rw [hc]; exact hw.cfg
  · rw [hc, hch]; exact hw.pkt
  · rw [hch]; exact hw.keys
  · rw [hch]; exact hw.acks
  · rw [hch]; exact hw.rcpt
  · intro A B T hne; rw [hc, hch]; exact hcons A B T hne

theorem inv_step (w : World) (s : Step) (h : Inv w) : Inv (step true w s) := by
  cases s with
  | batch i sender strict legs =>
    exact batch_preserves Inv i
      (fun w c' p hw e => ⟨wf_send w i c' p hw.1 e, conserved_send w i c' p hw.1 hw.2 e⟩)
      (fun w e' hw hle => inv_frame w i _ hw.1 hw.2 rfl rfl rfl rfl hle.out hle.bindAmt)
      w sender strict legs h
  | send i sender a =>
    simp only [step]
    split
    · exact h
    · rename_i c hs
      obtain ⟨p, e⟩ := send_eff hs
      exact ⟨wf_send w i c p h.1 e, conserved_send w i c p h.1 h.2 e⟩
  | register i addr rank chains =>
    simp only [step]
    exact inv_ext (w2 := w) rfl rfl h
  | cbset i on =>
    simp only [step]
    exact inv_ext (w2 := w) rfl rfl h
  | restart i whole => exact h
  | discard s => exact h
  | recv src dst seq signer =>
    simp only [step]
    split
    · exact h
    rename_i p hf
    obtain ⟨hmem, hpd, hps⟩ := findPacket_some hf
    split
    · exact h
    rename_i tag htag
    split
    · exact h
    rename_i c hr
    refine inv_ext (w2 := w.set dst c) rfl rfl ?_
    obtain ⟨hd, hrc, code, cR, eR, hfin⟩ := recv_eff hr
    have hsrc : p.src = src := (h.1.pkt src p hmem).1
    have hmem' : p ∈ (w.chains p.src).commits := by rw [hsrc]; exact hmem
    have wf1 := wf_recv w dst cR p code h.1 hmem' hd eR
    have c1 := conserved_recv w dst cR p code h.1 h.2 hmem' hd hrc eR
    rcases hfin with h1 | ⟨p2, e2⟩
    · subst h1; exact ⟨wf1, c1⟩
    · have e2' : SendEff ((w.set dst cR).cfg dst) dst ((w.set dst cR).chains dst) c p2 := by
        rw [set_cfg, set_chains_eq]; exact e2
      have wf2 := wf_send (w.set dst cR) dst c p2 wf1 e2'
      have c2 := conserved_send (w.set dst cR) dst c p2 wf1 c1 e2'
      rw [set_set] at wf2 c2
      exact ⟨wf2, c2⟩
  | ack src dst seq =>
    simp only [step]
    split
    · exact h
    rename_i p hf
    obtain ⟨hmem, hpd, hps⟩ := findPacket_some hf
    split
    · exact h
    rename_i code hcode
    split
    · exact h
    rename_i c ha
    obtain ⟨_, e⟩ := ack_eff (ackMsg_some ha).1
    have hack : (w.chains p.dst).acks src p.seq = some code := by rw [hpd, hps]; exact hcode
    exact ⟨wf_ack w src c p code h.1 e, conserved_ack w src c p code h.2 hack e⟩
  | mint i t who n =>
    simp only [step]
    split
    · exact h
    exact inv_frame w i _ h.1 h.2 rfl rfl rfl rfl rfl rfl
  | approve i t who n =>
    simp only [step]
    exact inv_frame w i _ h.1 h.2 rfl rfl rfl rfl rfl rfl
  | transfer i t src dst n =>
    simp only [step]
    split
    · exact h
    · split
      · exact h
      split
      · exact h
      · rename_i e hd
        have := debit_some hd
        subst this
        exact inv_frame w i _ h.1 h.2 rfl rfl rfl rfl rfl rfl

/-- **Conservation, every history.** From any world satisfying the invariant, after any list of steps
(sends, packet relays, acknowledgement relays on any chains in any interleaving, with any call data),
for every ordered pair of chains and every token: escrowed on the source towards the destination =
minted on the destination for successfully executed packets + in flight. -/
theorem inv_run (steps : List Step) : ∀ w : World, Inv w → Inv (run true w steps) := by
  induction steps with
  | nil => intro w h; exact h
  | cons s rest ih => intro w h; exact ih (step true w s) (inv_step w s h)

theorem conserved_run (w : World) (steps : List Step) (h : Inv w) : Conserved (run true w steps) :=
  (inv_run steps w h).2

/-! ### a concrete world: hypotheses are satisfiable, and the unrepaired handler violates the property -/

def cfgA : Cfg := { clients := fun j => j == 1, trace := fun _ _ => none, ori := fun _ _ => none, scale := fun _ _ => 0 }
/-- chain 1 has bound its token 2 to (chain 0, token 1) -/
def cfgB : Cfg :=
  { clients := fun j => j == 0,
    trace := fun oc ot => if oc = 0 ∧ ot = 1 then some 2 else none,
    ori := fun v oc => if v = 2 ∧ oc = 0 then some 1 else none,
    scale := fun _ _ => 0 }

/-- chain 0: the user (account 0) holds 10000 of token 1 and has approved the endpoint for 100000 -/
def evm0 : Evm :=
  { Evm.empty with
    bal := fun t a => if t = 1 ∧ a = 0 then 10000 else 0
    allow := fun t a => if t = 1 ∧ a = 0 then 100000 else 0 }

/-- relayer registry of the concrete worlds: on chain 0 account 5 is the one to pay for acknowledgements written on
chains 1 and 2 by the relayer that goes by name 7 there; on the other chains account 0 relays for chain 0 as "7" -/
def reg0 : ChainId → Registry := fun i =>
  if i = 0 then [{ addr := acRelayer, rank := 0, chains := [(1, 7), (2, 7)] }]
  else [{ addr := 0, rank := 0, chains := [(0, 7)] }]

def w0 : World :=
  { cfg := fun i => if i = 0 then cfgA else cfgB,
    chains := fun i =>
      if i = 0 then { Chain.empty with evm := evm0 }
      else Chain.empty,
    reg := reg0, ackTag := fun _ _ _ => 0 }

theorem inv_w0 : Inv w0 := by
  refine ⟨⟨?_, ?_, ?_, ?_, ?_⟩, ?_⟩
  · intro B A T V
    unfold w0 cfgA cfgB
    by_cases hB : B = 0
    · simp [hB]
    · simp only [hB, ↓reduceIte]
      constructor
      · intro h
        split at h
        · rename_i hc; cases h; simp [hc.1, hc.2]
        · cases h
      · intro h
        split at h
        · rename_i hc; cases h; simp [hc.1, hc.2]
        · cases h
  · intro A p hp
    unfold w0 at hp
    by_cases hA : A = 0 <;> simp [hA, Chain.empty] at hp
  · intro A
    unfold w0
    by_cases hA : A = 0 <;> simp [hA, Chain.empty, KeysDistinct]
  · intro A B s hn
    unfold w0 at hn
    by_cases hB : B = 0 <;> simp [hB, Chain.empty] at hn
  · intro A B s hr
    unfold w0 at hr
    by_cases hB : B = 0 <;> simp [hB, Chain.empty] at hr
  · intro A B T _
    unfold eqn w0
    by_cases hB : B = 0
    · simp [hB, cfgA]
      by_cases hA : A = 0 <;> simp [hA, Chain.empty, Evm.empty, evm0, flight]
    · simp only [hB, ↓reduceIte, cfgB]
      by_cases hA : A = 0 <;> (split <;> simp [hA, Chain.empty, Evm.empty, evm0, flight])

def sendArgs (call : Call) (receiver : Acct) : SendArgs :=
  { dst := 1, token := 1, amount := 2000, receiver := receiver, call := call, feeToken := 1, feeAmount := 0, callback := false }

/-- F13: call data fails inside the EVM (result code 3, transfer part not reverted). -/
def f13Steps : List Step := [.send 0 0 (sendArgs (.plain .fail) 6), .recv 0 1 1 0, .ack 0 1 1]
/-- F1: a post-transaction hook fails after the EVM commit (staking event with an invalid validator). -/
def f1Steps : List Step := [.send 0 0 (sendArgs (.plain .hookFail) 6), .recv 0 1 1 0, .ack 0 1 1]
/-- F1, the reproduced variant: the call data makes the agent forward the tokens to chain 3, which has no client. -/
def f1AgentSteps : List Step := [.send 0 0 (sendArgs (.agent 0 0 3 1000) acAgent), .recv 0 1 1 0, .ack 0 1 1]

theorem f13_values :
    ((run false w0 f13Steps).chains 0).evm.out 1 1 = 0 ∧ ((run false w0 f13Steps).chains 1).evm.bindAmt 2 0 = 2000 ∧
    ((run false w0 f13Steps).chains 1).evm.bal 2 6 = 2000 ∧ ((run false w0 f13Steps).chains 0).evm.bal 1 0 = 10000 := by
  decide


/-- The handler of the unchanged tree does NOT conserve value: witness F13. -/
theorem unrepaired_not_conserved_F13 : ¬ Conserved (run false w0 f13Steps) := by
  intro h
  have h1 := h 0 1 1 (by decide)
  unfold eqn at h1
  have htr : ((run false w0 f13Steps).cfg 1).trace 0 1 = some 2 := by decide
  rw [htr] at h1
  simp only at h1
  revert h1
  decide

/-- … and the packet is both delivered (effects applied on chain 1) and refunded (on chain 0). -/
theorem unrepaired_double_hold_F13 :
    ((run false w0 f13Steps).chains 1).evm.credited 0 1 = 1 ∧ ((run false w0 f13Steps).chains 0).evm.refunded 1 1 = 1 ∧
    ((run false w0 f13Steps).chains 1).evm.bal 2 6 = 2000 ∧ ((run false w0 f13Steps).chains 0).evm.bal 1 0 = 10000 := by
  decide

/-- The handler of the unchanged tree does NOT conserve value: witness F1 (hook failure after the EVM commit). -/
theorem unrepaired_not_conserved_F1 : ¬ Conserved (run false w0 f1Steps) := by
  intro h
  have h1 := h 0 1 1 (by decide)
  unfold eqn at h1
  have htr : ((run false w0 f1Steps).cfg 1).trace 0 1 = some 2 := by decide
  rw [htr] at h1
  simp only at h1
  revert h1
  decide

theorem unrepaired_double_hold_F1 :
    ((run false w0 f1Steps).chains 1).evm.credited 0 1 = 1 ∧ ((run false w0 f1Steps).chains 0).evm.refunded 1 1 = 1 ∧
    ((run false w0 f1Steps).chains 1).evm.bal 2 6 = 2000 ∧ ((run false w0 f1Steps).chains 0).evm.bal 1 0 = 10000 := by
  decide

/-- F1 as reproduced on the real chains: nested crossChainCall towards a chain without client — 2000 minted on
chain 1 (1000 escrowed towards chain 3, 1000 in fee escrow) and the sender refunded to 10000 on chain 0. -/
theorem unrepaired_not_conserved_F1_agent : ¬ Conserved (run false w0 f1AgentSteps) := by
  intro h
  have h1 := h 0 1 1 (by decide)
  unfold eqn at h1
  have htr : ((run false w0 f1AgentSteps).cfg 1).trace 0 1 = some 2 := by decide
  rw [htr] at h1
  simp only at h1
  revert h1
  decide

theorem unrepaired_values_F1_agent :
    ((run false w0 f1AgentSteps).chains 1).evm.bindAmt 2 0 = 2000 ∧ ((run false w0 f1AgentSteps).chains 1).evm.out 2 3 = 1000 ∧
    ((run false w0 f1AgentSteps).chains 1).evm.bal 2 acPacket = 1000 ∧ ((run false w0 f1AgentSteps).chains 0).evm.bal 1 0 = 10000 ∧
    ((run false w0 f1AgentSteps).chains 0).evm.out 1 1 = 0 := by
  decide

/-- The repaired handler on the same three histories: refunded, nothing left on chain 1. -/
theorem repaired_witnesses :
    ((run true w0 f13Steps).chains 1).evm.bindAmt 2 0 = 0 ∧ ((run true w0 f13Steps).chains 0).evm.bal 1 0 = 10000 ∧
    ((run true w0 f1Steps).chains 1).evm.bindAmt 2 0 = 0 ∧ ((run true w0 f1Steps).chains 0).evm.bal 1 0 = 10000 ∧
    ((run true w0 f1AgentSteps).chains 1).evm.bindAmt 2 0 = 0 ∧ ((run true w0 f1AgentSteps).chains 1).evm.out 2 3 = 0 ∧
    ((run true w0 f1AgentSteps).chains 0).evm.bal 1 0 = 10000 := by
  decide

/-- non-vacuity of `conserved_run`: a non-trivial history from the concrete world -/
example : Conserved (run true w0 (f13Steps ++ [.send 0 0 (sendArgs .none 7), .recv 0 1 2 0, .ack 0 1 2])) :=
  conserved_run w0 _ inv_w0

/-- With the repaired handler an error acknowledgement leaves NO token or contract effect on the destination:
the whole EVM state of the destination chain (balances, supplies, escrow, bindings, packet contract state,
agent state) and its outgoing commitments / sequences are exactly as before; only the receipt and the
acknowledgement are written. -/
theorem recv_error_no_effect (cfg : Cfg) (me : ChainId) (c c' : Chain) (p : Packet)
    (h : recvHandler true cfg me c p = some c') (herr : c'.acks p.src p.seq ≠ some 0) :
    c'.evm = c.evm ∧ c'.commits = c.commits ∧ c'.nextSeq = c.nextSeq := by
  unfold recvHandler at h
  split at h
  · cases h
  split at h
  · cases h
  split at h
  · cases h
  simp only [↓reduceIte] at h
  split at h
  · have := (Option.some.inj h).symm; subst this
    exfalso; apply herr; simp [upd2]
  all_goals
    have := (Option.some.inj h).symm; subst this
    exact ⟨rfl, rfl, rfl⟩

/-- every accepted receive writes an acknowledgement (either handler) -/
theorem recv_writes_ack (cfg : Cfg) (me : ChainId) (c c' : Chain) (p : Packet) (fixed : Bool)
    (h : recvHandler fixed cfg me c p = some c') : (c'.acks p.src p.seq).isSome := by
  unfold recvHandler at h
  split at h
  · cases h
  split at h
  · cases h
  split at h
  · cases h
  simp only at h
  split at h <;> split at h <;> (have := (Option.some.inj h).symm; subst this; simp [upd2])

/-! ### one outcome per packet -/

def Pending (w : World) (S D : ChainId) (q : Nat) : Prop :=
  ∃ p ∈ (w.chains S).commits, p.dst = D ∧ p.seq = q

/-- ghost-counter invariant: `credited` on the destination and `refunded` on the source against the
acknowledgement the destination wrote -/
theorem pending_ext {w1 w2 : World} (hch : w1.chains = w2.chains) (S D : ChainId) (q : Nat) :
    Pending w1 S D q ↔ Pending w2 S D q := by
  unfold Pending; rw [hch]

structure GInv (w : World) : Prop where
  g1 : ∀ S D q, (w.chains D).evm.credited S q = if (w.chains D).acks S q = some 0 then 1 else 0
  g2 : ∀ S D q, (w.chains S).evm.refunded D q ≤ 1 ∧
        ((w.chains S).evm.refunded D q = 1 → ∃ code, code ≠ 0 ∧ (w.chains D).acks S q = some code)
  g3 : ∀ S p, p ∈ (w.chains S).commits → (w.chains S).evm.refunded p.dst p.seq = 0
  g8 : ∀ S D q, (w.chains S).nextSeq D ≤ q → (w.chains S).evm.refunded D q = 0
  g7 : ∀ S D q, (w.cfg S).seq0 D ≤ q → q < (w.chains S).nextSeq D →
        Pending w S D q ∨ (w.chains D).acks S q = some 0 ∨ (w.chains S).evm.refunded D q = 1

theorem ginv_ext {w1 w2 : World} (hc : w1.cfg = w2.cfg) (hch : w1.chains = w2.chains) (g : GInv w2) : GInv w1 := by
  refine ⟨?_, ?_, ?_, ?_, ?_⟩
  · rw [hch]; exact g.g1
  · rw [hch]; exact g.g2
  · rw [hch]; exact g.g3
  · rw [hch]; exact g.g8
  · intro S D q h0 hq
    rw [hc] at h0
    rw [hch] at hq ⊢
    rcases g.g7 S D q h0 hq with h | h | h
    · exact Or.inl ((pending_ext hch S D q).mpr h)
    · exact Or.inr (Or.inl h)
    · exact Or.inr (Or.inr h)

theorem set_proj {α} (w : World) (X : ChainId) (c' : Chain) (f : Chain → α) (hf : f c' = f (w.chains X)) (Y : ChainId) :
    f ((w.set X c').chains Y) = f (w.chains Y) := by
  by_cases h : Y = X
  · subst h; rw [set_chains_eq]; exact hf
  · rw [set_chains_ne _ _ h]

theorem ginv_send (w : World) (X : ChainId) (c' : Chain) (p : Packet) (g : GInv w)
    (e : SendEff (w.cfg X) X (w.chains X) c' p) : GInv (w.set X c') := by
  have hcr : ∀ Y, ((w.set X c').chains Y).evm.credited = (w.chains Y).evm.credited :=
    fun Y => set_proj w X c' (fun c => c.evm.credited) e.cred Y
  have hrf : ∀ Y, ((w.set X c').chains Y).evm.refunded = (w.chains Y).evm.refunded :=
    fun Y => set_proj w X c' (fun c => c.evm.refunded) e.refd Y
  have hak : ∀ Y, ((w.set X c').chains Y).acks = (w.chains Y).acks :=
    fun Y => set_proj w X c' (fun c => c.acks) e.acks Y
  have mono := nextSeq_mono e.nextSeq e.seq
  have hpend : ∀ S D q, Pending w S D q → Pending (w.set X c') S D q := by
    intro S D q ⟨r, hr, h1, h2⟩
    by_cases hS : S = X
    · subst hS; refine ⟨r, ?_, h1, h2⟩; rw [set_chains_eq, e.commits]; exact List.mem_cons_of_mem _ hr
    · refine ⟨r, ?_, h1, h2⟩; rw [set_chains_ne _ _ hS]; exact hr
  refine ⟨?_, ?_, ?_, ?_, ?_⟩
  · intro S D q; rw [hcr, hak]; exact g.g1 S D q
  · intro S D q; rw [hrf, hak]; exact g.g2 S D q
  · intro S r hr
    rw [hrf]
    by_cases hS : S = X
    · subst hS
      rw [set_chains_eq, e.commits] at hr
      rcases List.mem_cons.mp hr with hr | hr
      · subst hr; exact g.g8 S r.dst r.seq (by rw [e.seq]; exact Nat.le_refl _)
      · exact g.g3 S r hr
    · rw [set_chains_ne _ _ hS] at hr; exact g.g3 S r hr
  · intro S D q hq
    rw [hrf]
    by_cases hS : S = X
    · subst hS; rw [set_chains_eq] at hq; exact g.g8 S D q (Nat.le_trans (mono D) hq)
    · rw [set_chains_ne _ _ hS] at hq; exact g.g8 S D q hq
  · intro S D q h0 hq
    rw [hrf, hak]
    by_cases hS : S = X
    · subst hS
      rw [set_chains_eq, e.nextSeq] at hq
      by_cases hk : D = p.dst ∧ q = p.seq
      · left; refine ⟨p, ?_, hk.1.symm, hk.2.symm⟩; rw [set_chains_eq, e.commits]; exact List.mem_cons_self
      · have hq' : q < (w.chains S).nextSeq D := by
          unfold upd1 at hq
          split at hq
          · rename_i hD
            have : q ≠ p.seq := fun h => hk ⟨hD, h⟩
            rw [hD, ← e.seq]; omega
          · exact hq
        rcases g.g7 S D q h0 hq' with h | h | h
        · left; exact hpend _ _ _ h
        · right; left; exact h
        · right; right; exact h
    · rw [set_chains_ne _ _ hS] at hq
      rcases g.g7 S D q h0 hq with h | h | h
      · left; exact hpend _ _ _ h
      · right; left; exact h
      · right; right; exact h

theorem ginv_recv (w : World) (X : ChainId) (cR : Chain) (p : Packet) (code : Nat) (h : WF w) (g : GInv w)
    (hr : (w.chains X).receipts p.src p.seq = false)
    (e : RecvEff (w.cfg X) (w.chains X) cR p code) : GInv (w.set X cR) := by
  have hrf : ∀ Y, ((w.set X cR).chains Y).evm.refunded = (w.chains Y).evm.refunded :=
    fun Y => set_proj w X cR (fun c => c.evm.refunded) e.refd Y
  have hcm : ∀ Y, ((w.set X cR).chains Y).commits = (w.chains Y).commits :=
    fun Y => set_proj w X cR (fun c => c.commits) e.commits Y
  have hns : ∀ Y, ((w.set X cR).chains Y).nextSeq = (w.chains Y).nextSeq :=
    fun Y => set_proj w X cR (fun c => c.nextSeq) e.nextSeq Y
  have hnone : (w.chains X).acks p.src p.seq = none := by
    apply Classical.byContradiction
    intro hn
    have := h.acks p.src X p.seq hn
    rw [hr] at this; cases this
  have hmono : ∀ Y S q v, (w.chains Y).acks S q = some v → ((w.set X cR).chains Y).acks S q = some v := by
    intro Y S q v hv
    by_cases hY : Y = X
    · subst hY
      rw [set_chains_eq, e.acks, upd2_app]
      split
      · rename_i hk; rw [hk.1, hk.2, hnone] at hv; cases hv
      · exact hv
    · rw [set_chains_ne _ _ hY]; exact hv
  have hpend : ∀ S D q, Pending w S D q → Pending (w.set X cR) S D q := by
    intro S D q ⟨r, hr, h1, h2⟩
    exact ⟨r, by rw [hcm]; exact hr, h1, h2⟩
  refine ⟨?_, ?_, ?_, ?_, ?_⟩
  · intro S D q
    by_cases hD : D = X
    · subst hD
      rw [set_chains_eq, e.cred, e.acks, upd2_app]
      have old := g.g1 S D q
      by_cases hk : S = p.src ∧ q = p.seq
      · obtain ⟨h1, h2⟩ := hk; subst h1; subst h2
        rw [hnone] at old
        by_cases hc0 : code = 0
        · simp [hc0, upd2_app]; simpa using old
        · simp [hc0]; simpa using old
      · by_cases hc0 : code = 0
        · simp only [hc0, ↓reduceIte, upd2_app, hk]; exact old
        · simp only [hc0, ↓reduceIte, hk]; exact old
    · rw [set_chains_ne _ _ hD]; exact g.g1 S D q
  · intro S D q
    rw [hrf]
    obtain ⟨o1, o2⟩ := g.g2 S D q
    refine ⟨o1, fun h1 => ?_⟩
    obtain ⟨cd, hcd, hv⟩ := o2 h1
    exact ⟨cd, hcd, hmono D S q cd hv⟩
  · intro S r hr'
    rw [hrf]; rw [hcm] at hr'; exact g.g3 S r hr'
  · intro S D q hq
    rw [hrf]; rw [hns] at hq; exact g.g8 S D q hq
  · intro S D q h0 hq
    rw [hrf]; rw [hns] at hq
    rcases g.g7 S D q h0 hq with h1 | h1 | h1
    · left; exact hpend _ _ _ h1
    · right; left; exact hmono D S q 0 h1
    · right; right; exact h1

theorem erase_key (p r : Packet) : ∀ l : List Packet, KeysDistinct l → p ∈ l → r ∈ l.erase p →
    (r.dst ≠ p.dst ∨ r.seq ≠ p.seq)
  | [], _, hp, _ => by cases hp
  | x :: xs, hk, hp, hr => by
    have hk' : KeysDistinct xs := (List.pairwise_cons.mp hk).2
    have hx : ∀ y ∈ xs, x.dst ≠ y.dst ∨ x.seq ≠ y.seq := (List.pairwise_cons.mp hk).1
    by_cases hxp : x = p
    · subst hxp
      simp at hr
      rcases hx r hr with h | h
      · exact Or.inl (Ne.symm h)
      · exact Or.inr (Ne.symm h)
    · have hp' : p ∈ xs := by
        cases hp with
        | head => exact absurd rfl hxp
        | tail _ h => exact h
      have : (x :: xs).erase p = x :: xs.erase p := by simp [hxp]
      rw [this] at hr
      rcases List.mem_cons.mp hr with hr | hr
      · subst hr; exact hx p hp'
      · exact erase_key p r xs hk' hp' hr

theorem ginv_ack (w : World) (X : ChainId) (c' : Chain) (p : Packet) (code : Nat) (h : WF w) (g : GInv w)
    (hack : (w.chains p.dst).acks X p.seq = some code)
    (e : AckEff (w.cfg X) (w.chains X) c' p code) : GInv (w.set X c') := by
  have hcr : ∀ Y, ((w.set X c').chains Y).evm.credited = (w.chains Y).evm.credited :=
    fun Y => set_proj w X c' (fun c => c.evm.credited) e.cred Y
  have hak : ∀ Y, ((w.set X c').chains Y).acks = (w.chains Y).acks :=
    fun Y => set_proj w X c' (fun c => c.acks) e.acks Y
  have hns : ∀ Y, ((w.set X c').chains Y).nextSeq = (w.chains Y).nextSeq :=
    fun Y => set_proj w X c' (fun c => c.nextSeq) e.nextSeq Y
  obtain ⟨_, _, hseq, _⟩ := h.pkt X p e.mem
  have hold0 := g.g3 X p e.mem
  -- refunded on X after the step
  have hrfX : ∀ D q, c'.evm.refunded D q =
      if code ≠ 0 ∧ D = p.dst ∧ q = p.seq then 1 else (w.chains X).evm.refunded D q := by
    intro D q
    rw [e.refd]
    by_cases hc0 : code = 0
    · simp [hc0]
    · simp only [hc0, ↓reduceIte, upd2_app]
      by_cases hk : D = p.dst ∧ q = p.seq
      · obtain ⟨h1, h2⟩ := hk; subst h1; subst h2; simp [hold0, hc0]
      · simp [hk]
  refine ⟨?_, ?_, ?_, ?_, ?_⟩
  · intro S D q; rw [hcr, hak]; exact g.g1 S D q
  · intro S D q
    rw [hak]
    by_cases hS : S = X
    · subst hS
      rw [set_chains_eq, hrfX]
      split
      · rename_i hk
        obtain ⟨hc, h1, h2⟩ := hk
        subst h1; subst h2
        exact ⟨Nat.le_refl 1, fun _ => ⟨code, hc, hack⟩⟩
      · exact g.g2 S D q
    · rw [set_chains_ne _ _ hS]; exact g.g2 S D q
  · intro S r hr
    by_cases hS : S = X
    · subst hS
      rw [set_chains_eq] at hr ⊢
      rw [e.commits] at hr
      have hk := erase_key p r _ (h.keys S) e.mem hr
      rw [hrfX]
      have : ¬ (code ≠ 0 ∧ r.dst = p.dst ∧ r.seq = p.seq) := by
        intro ⟨_, h1, h2⟩
        rcases hk with hk | hk
        · exact hk h1
        · exact hk h2
      simp only [this, ↓reduceIte]
      exact g.g3 S r (List.mem_of_mem_erase hr)
    · rw [set_chains_ne _ _ hS] at hr ⊢; exact g.g3 S r hr
  · intro S D q hq
    rw [hns] at hq
    by_cases hS : S = X
    · subst hS
      rw [set_chains_eq, hrfX]
      have : ¬ (code ≠ 0 ∧ D = p.dst ∧ q = p.seq) := by
        intro ⟨_, h1, h2⟩
        subst h1; subst h2; omega
      simp only [this, ↓reduceIte]
      exact g.g8 S D q hq
    · rw [set_chains_ne _ _ hS]; exact g.g8 S D q hq
  · intro S D q h0 hq
    rw [hns] at hq
    rw [hak]
    by_cases hS : S = X
    · subst hS
      rw [set_chains_eq, hrfX]
      by_cases hk : D = p.dst ∧ q = p.seq
      · obtain ⟨h1, h2⟩ := hk; subst h1; subst h2
        by_cases hc0 : code = 0
        · right; left; rw [hack, hc0]
        · right; right; simp [hc0]
      · have hne : ¬ (code ≠ 0 ∧ D = p.dst ∧ q = p.seq) := fun ⟨_, h1, h2⟩ => hk ⟨h1, h2⟩
        simp only [hne, ↓reduceIte]
        rcases g.g7 S D q h0 hq with h1 | h1 | h1
        · left
          obtain ⟨r, hr, hr1, hr2⟩ := h1
          refine ⟨r, ?_, hr1, hr2⟩
          rw [set_chains_eq, e.commits]
          have : r ≠ p := by
            intro hrp; subst hrp; exact hk ⟨hr1.symm, hr2.symm⟩
          exact (List.mem_erase_of_ne this).mpr hr
        · right; left; exact h1
        · right; right; exact h1
    · rw [set_chains_ne _ _ hS]
      rcases g.g7 S D q h0 hq with h1 | h1 | h1
      · left
        obtain ⟨r, hr, hr1, hr2⟩ := h1
        exact ⟨r, by rw [set_chains_ne _ _ hS]; exact hr, hr1, hr2⟩
      · right; left; exact h1
      · right; right; exact h1

theorem ginv_frame (w : World) (X : ChainId) (c' : Chain) (g : GInv w)
    (h1 : c'.commits = (w.chains X).commits) (h2 : c'.nextSeq = (w.chains X).nextSeq)
    (h4 : c'.acks = (w.chains X).acks) (h7 : c'.evm.credited = (w.chains X).evm.credited)
    (h8 : c'.evm.refunded = (w.chains X).evm.refunded) : GInv (w.set X c') := by
  have hcr : ∀ Y, ((w.set X c').chains Y).evm.credited = (w.chains Y).evm.credited :=
    fun Y => set_proj w X c' (fun c => c.evm.credited) h7 Y
  have hrf : ∀ Y, ((w.set X c').chains Y).evm.refunded = (w.chains Y).evm.refunded :=
    fun Y => set_proj w X c' (fun c => c.evm.refunded) h8 Y
  have hak : ∀ Y, ((w.set X c').chains Y).acks = (w.chains Y).acks :=
    fun Y => set_proj w X c' (fun c => c.acks) h4 Y
  have hns : ∀ Y, ((w.set X c').chains Y).nextSeq = (w.chains Y).nextSeq :=
    fun Y => set_proj w X c' (fun c => c.nextSeq) h2 Y
  have hcm : ∀ Y, ((w.set X c').chains Y).commits = (w.chains Y).commits :=
    fun Y => set_proj w X c' (fun c => c.commits) h1 Y
  refine ⟨?_, ?_, ?_, ?_, ?_⟩
  · intro S D q; rw [hcr, hak]; exact g.g1 S D q
  · intro S D q; rw [hrf, hak]; exact g.g2 S D q
  · intro S r hr; rw [hrf]; rw [hcm] at hr; exact g.g3 S r hr
  · intro S D q hq; rw [hrf]; rw [hns] at hq; exact g.g8 S D q hq
  · intro S D q h0 hq
    rw [hrf, hak]; rw [hns] at hq
    rcases g.g7 S D q h0 hq with h | h | h
    · left; obtain ⟨r, hr, a, b⟩ := h; exact ⟨r, by rw [hcm]; exact hr, a, b⟩
    · right; left; exact h
    · right; right; exact h

/-- the full invariant: well-formed, conserved, ghost counters consistent -/
def FullInv (w : World) : Prop := Inv w ∧ GInv w

theorem full_step (w : World) (s : Step) (h : FullInv w) : FullInv (step true w s) := by
  refine ⟨inv_step w s h.1, ?_⟩
  obtain ⟨⟨hw, hc⟩, g⟩ := h
  cases s with
  | batch i sender strict legs =>
    exact (batch_preserves FullInv i
      (fun w c' p hw e => ⟨⟨wf_send w i c' p hw.1.1 e, conserved_send w i c' p hw.1.1 hw.1.2 e⟩, ginv_send w i c' p hw.2 e⟩)
      (fun w e' hw hle => ⟨inv_frame w i _ hw.1.1 hw.1.2 rfl rfl rfl rfl hle.out hle.bindAmt,
        ginv_frame w i _ hw.2 rfl rfl rfl hle.credited hle.refunded⟩)
      w sender strict legs ⟨⟨hw, hc⟩, g⟩).2
  | send i sender a =>
    simp only [step]
    split
    · exact g
    · rename_i c hs
      obtain ⟨p, e⟩ := send_eff hs
      exact ginv_send w i c p g e
  | register i addr rank chains =>
    simp only [step]
    exact ginv_ext (w2 := w) rfl rfl g
  | cbset i on =>
    simp only [step]
    exact ginv_ext (w2 := w) rfl rfl g
  | restart i whole => exact g
  | discard s => exact g
  | recv src dst seq signer =>
    simp only [step]
    split
    · exact g
    rename_i p hf
    obtain ⟨hmem, hpd, hps⟩ := findPacket_some hf
    split
    · exact g
    rename_i tag htag
    split
    · exact g
    rename_i c hr
    refine ginv_ext (w2 := w.set dst c) rfl rfl ?_
    obtain ⟨hd, hrc, code, cR, eR, hfin⟩ := recv_eff hr
    have hsrc : p.src = src := (hw.pkt src p hmem).1
    have hmem' : p ∈ (w.chains p.src).commits := by rw [hsrc]; exact hmem
    have g1 := ginv_recv w dst cR p code hw g hrc eR
    rcases hfin with h1 | ⟨p2, e2⟩
    · subst h1; exact g1
    · have e2' : SendEff ((w.set dst cR).cfg dst) dst ((w.set dst cR).chains dst) c p2 := by
        rw [set_cfg, set_chains_eq]; exact e2
      have g2 := ginv_send (w.set dst cR) dst c p2 g1 e2'
      rw [set_set] at g2
      exact g2
  | ack src dst seq =>
    simp only [step]
    split
    · exact g
    rename_i p hf
    obtain ⟨hmem, hpd, hps⟩ := findPacket_some hf
    split
    · exact g
    rename_i code hcode
    split
    · exact g
    rename_i c ha
    obtain ⟨_, e⟩ := ack_eff (ackMsg_some ha).1
    have hack : (w.chains p.dst).acks src p.seq = some code := by rw [hpd, hps]; exact hcode
    exact ginv_ack w src c p code hw g hack e
  | mint i t who n =>
    simp only [step]
    split
    · exact g
    exact ginv_frame w i _ g rfl rfl rfl rfl rfl
  | approve i t who n =>
    simp only [step]
    exact ginv_frame w i _ g rfl rfl rfl rfl rfl
  | transfer i t src dst n =>
    simp only [step]
    split
    · exact g
    · split
      · exact g
      split
      · exact g
      · rename_i e hd
        have := debit_some hd
        subst this
        exact ginv_frame w i _ g rfl rfl rfl rfl rfl

theorem full_run (steps : List Step) : ∀ w : World, FullInv w → FullInv (run true w steps) := by
  induction steps with
  | nil => intro w h; exact h
  | cons s rest ih => intro w h; exact ih (step true w s) (full_step w s h)

/-- not yet acknowledged on the source, never refunded -/
def PendingOnly (w : World) (S D : ChainId) (q : Nat) : Prop :=
  Pending w S D q ∧ (w.chains S).evm.refunded D q = 0

/-- acknowledged; the destination wrote a success acknowledgement and applied the packet exactly once; never refunded -/
def Delivered (w : World) (S D : ChainId) (q : Nat) : Prop :=
  ¬ Pending w S D q ∧ (w.chains D).acks S q = some 0 ∧ (w.chains D).evm.credited S q = 1 ∧
    (w.chains S).evm.refunded D q = 0

/-- acknowledged; the destination wrote an error acknowledgement and applied nothing; refunded exactly once -/
def Refunded (w : World) (S D : ChainId) (q : Nat) : Prop :=
  ¬ Pending w S D q ∧ (∃ code, code ≠ 0 ∧ (w.chains D).acks S q = some code) ∧
    (w.chains D).evm.credited S q = 0 ∧ (w.chains S).evm.refunded D q = 1

theorem outcome_of_inv (w : World) (g : GInv w) (S D : ChainId) (q : Nat) (h0 : (w.cfg S).seq0 D ≤ q)
    (hq : q < (w.chains S).nextSeq D) :
    (PendingOnly w S D q ∧ ¬ Delivered w S D q ∧ ¬ Refunded w S D q) ∨
    (Delivered w S D q ∧ ¬ PendingOnly w S D q ∧ ¬ Refunded w S D q) ∨
    (Refunded w S D q ∧ ¬ PendingOnly w S D q ∧ ¬ Delivered w S D q) := by
  have G1 := g.g1 S D q
  obtain ⟨G2a, G2b⟩ := g.g2 S D q
  by_cases hp : Pending w S D q
  · left
    obtain ⟨r, hr, h1, h2⟩ := hp
    have := g.g3 S r hr
    rw [h1, h2] at this
    exact ⟨⟨⟨r, hr, h1, h2⟩, this⟩, fun d => d.1 ⟨r, hr, h1, h2⟩, fun d => d.1 ⟨r, hr, h1, h2⟩⟩
  · rcases g.g7 S D q h0 hq with h | h | h
    · exact absurd h hp
    · right; left
      have hcr : (w.chains D).evm.credited S q = 1 := by rw [G1, h]; rfl
      have hrf : (w.chains S).evm.refunded D q = 0 := by
        have : (w.chains S).evm.refunded D q ≠ 1 := by
          intro h1
          obtain ⟨cd, hcd, hv⟩ := G2b h1
          rw [h] at hv
          exact hcd (Option.some.inj hv).symm
        omega
      exact ⟨⟨hp, h, hcr, hrf⟩, fun d => hp d.1, fun d => by have := d.2.2.2; omega⟩
    · right; right
      obtain ⟨cd, hcd, hv⟩ := G2b h
      have hcr : (w.chains D).evm.credited S q = 0 := by
        rw [G1, hv]
        have : ¬ (some cd = some 0) := fun h => hcd (Option.some.inj h)
        simp [this]
      exact ⟨⟨hp, ⟨cd, hcd, hv⟩, hcr, h⟩, fun d => hp d.1, fun d => by have := d.2.2.2; omega⟩

/-- **One outcome.** After any history, every packet that was ever sent (sequence `q` below the source's next
sequence towards `D`) is in exactly one of: pending / delivered (success acknowledgement, effects applied once,
never refunded) / refunded once (error acknowledgement, no effect applied on the destination). -/
theorem one_outcome (w : World) (steps : List Step) (h : FullInv w) (S D : ChainId) (q : Nat)
    (h0 : ((run true w steps).cfg S).seq0 D ≤ q) (hq : q < ((run true w steps).chains S).nextSeq D) :
    let w' := run true w steps
    (PendingOnly w' S D q ∧ ¬ Delivered w' S D q ∧ ¬ Refunded w' S D q) ∨
    (Delivered w' S D q ∧ ¬ PendingOnly w' S D q ∧ ¬ Refunded w' S D q) ∨
    (Refunded w' S D q ∧ ¬ PendingOnly w' S D q ∧ ¬ Delivered w' S D q) :=
  outcome_of_inv _ (full_run steps w h).2 S D q h0 hq

/-- **No double hold.** After any history there is no packet whose effects were applied on the destination
(the receiver holds the delivered tokens) and which was also refunded on the source. -/
theorem no_double_hold (w : World) (steps : List Step) (h : FullInv w) (S D : ChainId) (q : Nat) :
    ¬ (1 ≤ ((run true w steps).chains D).evm.credited S q ∧ 1 ≤ ((run true w steps).chains S).evm.refunded D q) := by
  have g := (full_run steps w h).2
  intro ⟨hc, hr⟩
  have G1 := g.g1 S D q
  obtain ⟨G2a, G2b⟩ := g.g2 S D q
  obtain ⟨cd, hcd, hv⟩ := G2b (by omega)
  rw [G1, hv] at hc
  have : ¬ (some cd = some 0) := fun h => hcd (Option.some.inj h)
  simp [this] at hc

theorem ginv_w0 : GInv w0 := by
  refine ⟨?_, ?_, ?_, ?_, ?_⟩
  · intro S D q; unfold w0; by_cases hD : D = 0 <;> simp [hD, Chain.empty, Evm.empty, evm0]
  · intro S D q; unfold w0; by_cases hS : S = 0 <;> simp [hS, Chain.empty, Evm.empty, evm0]
  · intro S r hr; unfold w0 at hr; by_cases hS : S = 0 <;> simp [hS, Chain.empty] at hr
  · intro S D q _; unfold w0; by_cases hS : S = 0 <;> simp [hS, Chain.empty, Evm.empty, evm0]
  · intro S D q h0 hq
    unfold w0 at hq h0
    by_cases hS : S = 0 <;> simp [hS, Chain.empty, cfgA, cfgB] at hq h0 <;> omega

theorem fullinv_w0 : FullInv w0 := ⟨inv_w0, ginv_w0⟩

/-- non-vacuity: after the F13 history (repaired handler) packet 0→1 #1 is `Refunded`; after a plain transfer `Delivered`. -/
example : Refunded (run true w0 f13Steps) 0 1 1 := by
  have := one_outcome w0 f13Steps fullinv_w0 0 1 1 (by decide) (by decide)
  rcases this with h | h | h
  · exact absurd h.1.1 (by
      intro ⟨r, hr, _, _⟩
      revert hr
      have : ((run true w0 f13Steps).chains 0).commits = [] := by decide
      rw [this]; intro hr; cases hr)
  · exact absurd h.1.2.1 (by decide)
  · exact h.1

/-! ### relay fees: escrow solvency and "paid exactly once, at the acknowledgement" -/

/-- sum of the relay fees (in token `F`) of the packets still committed on a chain -/
def escrowFee (c : Chain) (F : Token) : Nat := (c.commits.map (fun p => feeAt c.evm p F)).sum

/-- **Fee escrow is solvent**: on every chain, for every token, the packet contract holds at least the relay fees
of all packets that are not yet acknowledged (the fee of a pending packet is never lost, never paid early). -/
def FeeSolvent (w : World) : Prop := ∀ S F, escrowFee (w.chains S) F ≤ (w.chains S).evm.bal F acPacket

theorem feeSolvent_ext {w1 w2 : World} (hch : w1.chains = w2.chains) (fs : FeeSolvent w2) : FeeSolvent w1 := by
  intro S F; rw [hch]; exact fs S F

theorem sum_map_congr {α} (f g : α → Nat) : ∀ l : List α, (∀ x ∈ l, f x = g x) → (l.map f).sum = (l.map g).sum
  | [], _ => rfl
  | x :: xs, h => by
    simp [h x List.mem_cons_self, sum_map_congr f g xs (fun y hy => h y (List.mem_cons_of_mem _ hy))]

theorem sum_map_erase (f : Packet → Nat) (p : Packet) : ∀ l : List Packet, p ∈ l →
    ((l.erase p).map f).sum + f p = (l.map f).sum
  | [], h => by cases h
  | x :: xs, h => by
    by_cases hx : x = p
    · subst hx; simp; omega
    · have hp : p ∈ xs := by
        cases h with
        | head => exact absurd rfl hx
        | tail _ h => exact h
      have ih := sum_map_erase f p xs hp
      have : (x :: xs).erase p = x :: xs.erase p := by simp [hx]
      rw [this]; simp; omega

theorem fs_send (w : World) (X : ChainId) (c' : Chain) (p : Packet) (h : WF w) (fs : FeeSolvent w)
    (e : SendEff (w.cfg X) X (w.chains X) c' p) : FeeSolvent (w.set X c') := by
  intro S F
  by_cases hS : S = X
  · subst hS
    rw [set_chains_eq]
    have old := fs S F
    have hesc := e.esc F
    unfold escrowFee at old ⊢
    rw [e.commits]
    simp only [List.map_cons, List.sum_cons]
    have hsame : ((w.chains S).commits.map (fun q => feeAt c'.evm q F)).sum =
        ((w.chains S).commits.map (fun q => feeAt (w.chains S).evm q F)).sum := by
      apply sum_map_congr
      intro q hq
      obtain ⟨_, _, hlt, _⟩ := h.pkt S q hq
      unfold feeAt
      rw [e.feeKey q.dst q.seq (by
        intro ⟨h1, h2⟩
        rw [h1, h2, e.seq] at hlt
        exact Nat.lt_irrefl _ hlt)]
    rw [hsame]; omega
  · rw [set_chains_ne _ _ hS]; exact fs S F

theorem fs_recv (w : World) (X : ChainId) (cR : Chain) (p : Packet) (code : Nat) (fs : FeeSolvent w)
    (e : RecvEff (w.cfg X) (w.chains X) cR p code) : FeeSolvent (w.set X cR) := by
  intro S F
  by_cases hS : S = X
  · subst hS
    rw [set_chains_eq]
    have old := fs S F
    have hesc := e.esc F
    unfold escrowFee feeAt at old ⊢
    rw [e.commits, e.feeMap]; omega
  · rw [set_chains_ne _ _ hS]; exact fs S F

theorem fs_ack (w : World) (X : ChainId) (c' : Chain) (p : Packet) (code : Nat) (fs : FeeSolvent w)
    (e : AckEff (w.cfg X) (w.chains X) c' p code) : FeeSolvent (w.set X c') := by
  intro S F
  by_cases hS : S = X
  · subst hS
    rw [set_chains_eq]
    have old := fs S F
    have hesc := e.esc F
    have her := sum_map_erase (fun q => feeAt (w.chains S).evm q F) p _ e.mem
    unfold escrowFee at old ⊢
    have hsame : (c'.commits.map (fun q => feeAt c'.evm q F)).sum =
        (((w.chains S).commits.erase p).map (fun q => feeAt (w.chains S).evm q F)).sum := by
      rw [e.commits]
      apply sum_map_congr
      intro q _
      unfold feeAt; rw [e.feeMap]
    rw [hsame]; omega
  · rw [set_chains_ne _ _ hS]; exact fs S F

theorem fs_frame (w : World) (X : ChainId) (c' : Chain) (fs : FeeSolvent w)
    (h1 : c'.commits = (w.chains X).commits) (h2 : c'.evm.fee = (w.chains X).evm.fee)
    (h3 : ∀ F, (w.chains X).evm.bal F acPacket ≤ c'.evm.bal F acPacket) : FeeSolvent (w.set X c') := by
  intro S F
  by_cases hS : S = X
  · subst hS
    rw [set_chains_eq]
    have old := fs S F
    have := h3 F
    unfold escrowFee feeAt at old ⊢
    rw [h1, h2]; omega
  · rw [set_chains_ne _ _ hS]; exact fs S F

theorem fs_step (w : World) (s : Step) (h : Inv w) (fs : FeeSolvent w) : FeeSolvent (step true w s) := by
  have hpa : ¬ acPacket = acAgent := by decide
  cases s with
  | batch i sender strict legs =>
    exact (batch_preserves (fun w => Inv w ∧ FeeSolvent w) i
      (fun w c' p hw e => ⟨⟨wf_send w i c' p hw.1.1 e, conserved_send w i c' p hw.1.1 hw.1.2 e⟩, fs_send w i c' p hw.1.1 hw.2 e⟩)
      (fun w e' hw hle => ⟨inv_frame w i _ hw.1.1 hw.1.2 rfl rfl rfl rfl hle.out hle.bindAmt,
        fs_frame w i _ hw.2 rfl hle.fee hle.bal⟩)
      w sender strict legs ⟨h, fs⟩).2
  | send i sender a =>
    simp only [step]
    split
    · exact fs
    · rename_i c hs
      obtain ⟨p, e⟩ := send_eff hs
      exact fs_send w i c p h.1 fs e
  | register i addr rank chains =>
    simp only [step]
    exact feeSolvent_ext (w2 := w) rfl fs
  | cbset i on =>
    simp only [step]
    exact feeSolvent_ext (w2 := w) rfl fs
  | restart i whole => exact fs
  | discard s => exact fs
  | recv src dst seq signer =>
    simp only [step]
    split
    · exact fs
    rename_i p hf
    obtain ⟨hmem, hpd, hps⟩ := findPacket_some hf
    split
    · exact fs
    rename_i tag htag
    split
    · exact fs
    rename_i c hr
    refine feeSolvent_ext (w2 := w.set dst c) rfl ?_
    obtain ⟨hd, hrc, code, cR, eR, hfin⟩ := recv_eff hr
    have hsrc : p.src = src := (h.1.pkt src p hmem).1
    have hmem' : p ∈ (w.chains p.src).commits := by rw [hsrc]; exact hmem
    have wf1 := wf_recv w dst cR p code h.1 hmem' hd eR
    have f1 := fs_recv w dst cR p code fs eR
    rcases hfin with h1 | ⟨p2, e2⟩
    · subst h1; exact f1
    · have e2' : SendEff ((w.set dst cR).cfg dst) dst ((w.set dst cR).chains dst) c p2 := by
        rw [set_cfg, set_chains_eq]; exact e2
      have f2 := fs_send (w.set dst cR) dst c p2 wf1 f1 e2'
      rw [set_set] at f2
      exact f2
  | ack src dst seq =>
    simp only [step]
    split
    · exact fs
    rename_i p hf
    split
    · exact fs
    rename_i code hcode
    split
    · exact fs
    rename_i c ha
    obtain ⟨_, e⟩ := ack_eff (ackMsg_some ha).1
    exact fs_ack w src c p code fs e
  | mint i t who n =>
    simp only [step]
    split
    · exact fs
    refine fs_frame w i _ fs rfl rfl ?_
    intro F
    simp only [credit, upd2_app]
    split
    · rename_i hc; rw [hc.1, hc.2]; omega
    · exact Nat.le_refl _
  | approve i t who n =>
    simp only [step]
    exact fs_frame w i _ fs rfl rfl (fun F => Nat.le_refl _)
  | transfer i t src dst n =>
    simp only [step]
    split
    · exact fs
    · rename_i hsys
      split
      · exact fs
      split
      · exact fs
      · rename_i e hd
        have := debit_some hd
        subst this
        refine fs_frame w i _ fs rfl rfl ?_
        intro F
        have hsp : ¬ acPacket = src := fun h => hsys (Or.inr h.symm)
        simp only [credit, upd2_app]
        split
        · rename_i hc; obtain ⟨h1, h2⟩ := hc; subst h1; rw [← h2]; simp [hsp]
        · simp [hsp]

/-- **Fee escrow solvency, every history.** -/
theorem fee_solvent_run (steps : List Step) : ∀ w : World, Inv w → FeeSolvent w → FeeSolvent (run true w steps) := by
  induction steps with
  | nil => intro w _ fs; exact fs
  | cons s rest ih => intro w h fs; exact ih (step true w s) (inv_step w s h) (fs_step w s h fs)

/-! ### the relay fee is paid exactly once, at the acknowledgement; every accepted receive leaves an acknowledgement -/

structure FInv (w : World) : Prop where
  f1 : ∀ S p, p ∈ (w.chains S).commits → (w.chains S).evm.feePaid p.dst p.seq = 0
  f2 : ∀ S D q, (w.chains S).nextSeq D ≤ q → (w.chains S).evm.feePaid D q = 0
  f3 : ∀ S D q, (w.chains S).evm.feePaid D q ≤ 1
  f4 : ∀ S D q, (w.cfg S).seq0 D ≤ q → q < (w.chains S).nextSeq D → Pending w S D q ∨ (w.chains S).evm.feePaid D q = 1
  gR : ∀ S D q, (w.chains D).receipts S q = true → (w.chains D).acks S q ≠ none

theorem finv_ext {w1 w2 : World} (hc : w1.cfg = w2.cfg) (hch : w1.chains = w2.chains) (g : FInv w2) : FInv w1 := by
  refine ⟨?_, ?_, ?_, ?_, ?_⟩
  · rw [hch]; exact g.f1
  · rw [hch]; exact g.f2
  · rw [hch]; exact g.f3
  · intro S D q h0 hq
    rw [hc] at h0
    rw [hch] at hq ⊢
    rcases g.f4 S D q h0 hq with h | h
    · exact Or.inl ((pending_ext hch S D q).mpr h)
    · exact Or.inr h
  · rw [hch]; exact g.gR

theorem finv_send (w : World) (X : ChainId) (c' : Chain) (p : Packet) (g : FInv w)
    (e : SendEff (w.cfg X) X (w.chains X) c' p) : FInv (w.set X c') := by
  have hfp : ∀ Y, ((w.set X c').chains Y).evm.feePaid = (w.chains Y).evm.feePaid :=
    fun Y => set_proj w X c' (fun c => c.evm.feePaid) e.fpd Y
  have hak : ∀ Y, ((w.set X c').chains Y).acks = (w.chains Y).acks :=
    fun Y => set_proj w X c' (fun c => c.acks) e.acks Y
  have hrc : ∀ Y, ((w.set X c').chains Y).receipts = (w.chains Y).receipts :=
    fun Y => set_proj w X c' (fun c => c.receipts) e.receipts Y
  have mono := nextSeq_mono e.nextSeq e.seq
  have hpend : ∀ S D q, Pending w S D q → Pending (w.set X c') S D q := by
    intro S D q ⟨r, hr, h1, h2⟩
    by_cases hS : S = X
    · subst hS; refine ⟨r, ?_, h1, h2⟩; rw [set_chains_eq, e.commits]; exact List.mem_cons_of_mem _ hr
    · refine ⟨r, ?_, h1, h2⟩; rw [set_chains_ne _ _ hS]; exact hr
  refine ⟨?_, ?_, ?_, ?_, ?_⟩
  · intro S r hr
    rw [hfp]
    by_cases hS : S = X
    · subst hS
      rw [set_chains_eq, e.commits] at hr
      rcases List.mem_cons.mp hr with hr | hr
      · subst hr; exact g.f2 S r.dst r.seq (by rw [e.seq]; exact Nat.le_refl _)
      · exact g.f1 S r hr
    · rw [set_chains_ne _ _ hS] at hr; exact g.f1 S r hr
  · intro S D q hq
    rw [hfp]
    by_cases hS : S = X
    · subst hS; rw [set_chains_eq] at hq; exact g.f2 S D q (Nat.le_trans (mono D) hq)
    · rw [set_chains_ne _ _ hS] at hq; exact g.f2 S D q hq
  · intro S D q; rw [hfp]; exact g.f3 S D q
  · intro S D q h0 hq
    rw [hfp]
    by_cases hS : S = X
    · subst hS
      rw [set_chains_eq, e.nextSeq] at hq
      by_cases hk : D = p.dst ∧ q = p.seq
      · left; refine ⟨p, ?_, hk.1.symm, hk.2.symm⟩; rw [set_chains_eq, e.commits]; exact List.mem_cons_self
      · have hq' : q < (w.chains S).nextSeq D := by
          unfold upd1 at hq
          split at hq
          · rename_i hD
            have : q ≠ p.seq := fun h => hk ⟨hD, h⟩
            rw [hD, ← e.seq]; omega
          · exact hq
        rcases g.f4 S D q h0 hq' with h | h
        · left; exact hpend _ _ _ h
        · right; exact h
    · rw [set_chains_ne _ _ hS] at hq
      rcases g.f4 S D q h0 hq with h | h
      · left; exact hpend _ _ _ h
      · right; exact h
  · intro S D q hr
    rw [hak]; rw [hrc] at hr; exact g.gR S D q hr

theorem finv_recv (w : World) (X : ChainId) (cR : Chain) (p : Packet) (code : Nat) (g : FInv w)
    (e : RecvEff (w.cfg X) (w.chains X) cR p code) : FInv (w.set X cR) := by
  have hfp : ∀ Y, ((w.set X cR).chains Y).evm.feePaid = (w.chains Y).evm.feePaid :=
    fun Y => set_proj w X cR (fun c => c.evm.feePaid) e.fpd Y
  have hcm : ∀ Y, ((w.set X cR).chains Y).commits = (w.chains Y).commits :=
    fun Y => set_proj w X cR (fun c => c.commits) e.commits Y
  have hns : ∀ Y, ((w.set X cR).chains Y).nextSeq = (w.chains Y).nextSeq :=
    fun Y => set_proj w X cR (fun c => c.nextSeq) e.nextSeq Y
  refine ⟨?_, ?_, ?_, ?_, ?_⟩
  · intro S r hr; rw [hfp]; rw [hcm] at hr; exact g.f1 S r hr
  · intro S D q hq; rw [hfp]; rw [hns] at hq; exact g.f2 S D q hq
  · intro S D q; rw [hfp]; exact g.f3 S D q
  · intro S D q h0 hq
    rw [hfp]; rw [hns] at hq
    rcases g.f4 S D q h0 hq with h | h
    · left; obtain ⟨r, hr, a, b⟩ := h; exact ⟨r, by rw [hcm]; exact hr, a, b⟩
    · right; exact h
  · intro S D q hr
    by_cases hD : D = X
    · subst hD
      rw [set_chains_eq] at hr ⊢
      rw [e.acks, upd2_app]
      rw [e.receipts, upd2_app] at hr
      split
      · exact Option.some_ne_none _
      · rename_i hk
        simp only [hk, ↓reduceIte] at hr
        exact g.gR S D q hr
    · rw [set_chains_ne _ _ hD] at hr ⊢; exact g.gR S D q hr

theorem finv_ack (w : World) (X : ChainId) (c' : Chain) (p : Packet) (code : Nat) (h : WF w) (g : FInv w)
    (e : AckEff (w.cfg X) (w.chains X) c' p code) : FInv (w.set X c') := by
  have hak : ∀ Y, ((w.set X c').chains Y).acks = (w.chains Y).acks :=
    fun Y => set_proj w X c' (fun c => c.acks) e.acks Y
  have hrc : ∀ Y, ((w.set X c').chains Y).receipts = (w.chains Y).receipts :=
    fun Y => set_proj w X c' (fun c => c.receipts) e.receipts Y
  have hns : ∀ Y, ((w.set X c').chains Y).nextSeq = (w.chains Y).nextSeq :=
    fun Y => set_proj w X c' (fun c => c.nextSeq) e.nextSeq Y
  obtain ⟨_, _, hseq, _⟩ := h.pkt X p e.mem
  have hold0 := g.f1 X p e.mem
  have hfpX : ∀ D q, c'.evm.feePaid D q =
      if D = p.dst ∧ q = p.seq then 1 else (w.chains X).evm.feePaid D q := by
    intro D q
    rw [e.fpd, upd2_app]
    by_cases hk : D = p.dst ∧ q = p.seq
    · obtain ⟨h1, h2⟩ := hk; subst h1; subst h2; simp [hold0]
    · simp [hk]
  refine ⟨?_, ?_, ?_, ?_, ?_⟩
  · intro S r hr
    by_cases hS : S = X
    · subst hS
      rw [set_chains_eq] at hr ⊢
      rw [e.commits] at hr
      have hk := erase_key p r _ (h.keys S) e.mem hr
      rw [hfpX]
      have : ¬ (r.dst = p.dst ∧ r.seq = p.seq) := by
        intro ⟨h1, h2⟩
        rcases hk with hk | hk
        · exact hk h1
        · exact hk h2
      simp only [this, ↓reduceIte]
      exact g.f1 S r (List.mem_of_mem_erase hr)
    · rw [set_chains_ne _ _ hS] at hr ⊢; exact g.f1 S r hr
  · intro S D q hq
    rw [hns] at hq
    by_cases hS : S = X
    · subst hS
      rw [set_chains_eq, hfpX]
      have : ¬ (D = p.dst ∧ q = p.seq) := by
        intro ⟨h1, h2⟩
        subst h1; subst h2; omega
      simp only [this, ↓reduceIte]
      exact g.f2 S D q hq
    · rw [set_chains_ne _ _ hS]; exact g.f2 S D q hq
  · intro S D q
    by_cases hS : S = X
    · subst hS
      rw [set_chains_eq, hfpX]
      split
      · exact Nat.le_refl 1
      · exact g.f3 S D q
    · rw [set_chains_ne _ _ hS]; exact g.f3 S D q
  · intro S D q h0 hq
    rw [hns] at hq
    by_cases hS : S = X
    · subst hS
      rw [set_chains_eq, hfpX]
      by_cases hk : D = p.dst ∧ q = p.seq
      · right; simp [hk]
      · simp only [hk, ↓reduceIte]
        rcases g.f4 S D q h0 hq with h1 | h1
        · left
          obtain ⟨r, hr, hr1, hr2⟩ := h1
          refine ⟨r, ?_, hr1, hr2⟩
          rw [set_chains_eq, e.commits]
          have : r ≠ p := by
            intro hrp; subst hrp; exact hk ⟨hr1.symm, hr2.symm⟩
          exact (List.mem_erase_of_ne this).mpr hr
        · right; exact h1
    · rw [set_chains_ne _ _ hS]
      rcases g.f4 S D q h0 hq with h1 | h1
      · left
        obtain ⟨r, hr, hr1, hr2⟩ := h1
        exact ⟨r, by rw [set_chains_ne _ _ hS]; exact hr, hr1, hr2⟩
      · right; exact h1
  · intro S D q hr
    rw [hak]; rw [hrc] at hr; exact g.gR S D q hr

theorem finv_frame (w : World) (X : ChainId) (c' : Chain) (g : FInv w)
    (h1 : c'.commits = (w.chains X).commits) (h2 : c'.nextSeq = (w.chains X).nextSeq)
    (h3 : c'.receipts = (w.chains X).receipts) (h4 : c'.acks = (w.chains X).acks)
    (h5 : c'.evm.feePaid = (w.chains X).evm.feePaid) : FInv (w.set X c') := by
  have hfp : ∀ Y, ((w.set X c').chains Y).evm.feePaid = (w.chains Y).evm.feePaid :=
    fun Y => set_proj w X c' (fun c => c.evm.feePaid) h5 Y
  have hak : ∀ Y, ((w.set X c').chains Y).acks = (w.chains Y).acks :=
    fun Y => set_proj w X c' (fun c => c.acks) h4 Y
  have hrc : ∀ Y, ((w.set X c').chains Y).receipts = (w.chains Y).receipts :=
    fun Y => set_proj w X c' (fun c => c.receipts) h3 Y
  have hns : ∀ Y, ((w.set X c').chains Y).nextSeq = (w.chains Y).nextSeq :=
    fun Y => set_proj w X c' (fun c => c.nextSeq) h2 Y
  have hcm : ∀ Y, ((w.set X c').chains Y).commits = (w.chains Y).commits :=
    fun Y => set_proj w X c' (fun c => c.commits) h1 Y
  refine ⟨?_, ?_, ?_, ?_, ?_⟩
  · intro S r hr; rw [hfp]; rw [hcm] at hr; exact g.f1 S r hr
  · intro S D q hq; rw [hfp]; rw [hns] at hq; exact g.f2 S D q hq
  · intro S D q; rw [hfp]; exact g.f3 S D q
  · intro S D q h0 hq
    rw [hfp]; rw [hns] at hq
    rcases g.f4 S D q h0 hq with h | h
    · left; obtain ⟨r, hr, a, b⟩ := h; exact ⟨r, by rw [hcm]; exact hr, a, b⟩
    · right; exact h
  · intro S D q hr; rw [hak]; rw [hrc] at hr; exact g.gR S D q hr

theorem finv_step (w : World) (s : Step) (h : Inv w) (g : FInv w) : FInv (step true w s) := by
  cases s with
  | batch i sender strict legs =>
    exact (batch_preserves (fun w => Inv w ∧ FInv w) i
      (fun w c' p hw e => ⟨⟨wf_send w i c' p hw.1.1 e, conserved_send w i c' p hw.1.1 hw.1.2 e⟩, finv_send w i c' p hw.2 e⟩)
      (fun w e' hw hle => ⟨inv_frame w i _ hw.1.1 hw.1.2 rfl rfl rfl rfl hle.out hle.bindAmt,
        finv_frame w i _ hw.2 rfl rfl rfl rfl hle.feePaid⟩)
      w sender strict legs ⟨h, g⟩).2
  | send i sender a =>
    simp only [step]
    split
    · exact g
    · rename_i c hs
      obtain ⟨p, e⟩ := send_eff hs
      exact finv_send w i c p g e
  | register i addr rank chains =>
    simp only [step]
    exact finv_ext (w2 := w) rfl rfl g
  | cbset i on =>
    simp only [step]
    exact finv_ext (w2 := w) rfl rfl g
  | restart i whole => exact g
  | discard s => exact g
  | recv src dst seq signer =>
    simp only [step]
    split
    · exact g
    rename_i p hf
    split
    · exact g
    rename_i tag htag
    split
    · exact g
    rename_i c hr
    refine finv_ext (w2 := w.set dst c) rfl rfl ?_
    obtain ⟨hd, hrc, code, cR, eR, hfin⟩ := recv_eff hr
    have g1 := finv_recv w dst cR p code g eR
    rcases hfin with h1 | ⟨p2, e2⟩
    · subst h1; exact g1
    · have e2' : SendEff ((w.set dst cR).cfg dst) dst ((w.set dst cR).chains dst) c p2 := by
        rw [set_cfg, set_chains_eq]; exact e2
      have g2 := finv_send (w.set dst cR) dst c p2 g1 e2'
      rw [set_set] at g2
      exact g2
  | ack src dst seq =>
    simp only [step]
    split
    · exact g
    rename_i p hf
    split
    · exact g
    rename_i code hcode
    split
    · exact g
    rename_i c ha
    obtain ⟨_, e⟩ := ack_eff (ackMsg_some ha).1
    exact finv_ack w src c p code h.1 g e
  | mint i t who n =>
    simp only [step]
    split
    · exact g
    exact finv_frame w i _ g rfl rfl rfl rfl rfl
  | approve i t who n =>
    simp only [step]
    exact finv_frame w i _ g rfl rfl rfl rfl rfl
  | transfer i t src dst n =>
    simp only [step]
    split
    · exact g
    · split
      · exact g
      split
      · exact g
      · rename_i e hd
        have := debit_some hd
        subst this
        exact finv_frame w i _ g rfl rfl rfl rfl rfl

theorem finv_run (steps : List Step) : ∀ w : World, Inv w → FInv w → FInv (run true w steps) := by
  induction steps with
  | nil => intro w _ g; exact g
  | cons s rest ih => intro w h g; exact ih (step true w s) (inv_step w s h) (finv_step w s h g)

/-- **The relay fee is paid exactly once, at the acknowledgement.** After any history, for every packet ever sent:
either it is still pending and its fee has not been paid, or it is acknowledged and its fee has been paid exactly
once; nothing is ever paid for a sequence that was not sent. -/
theorem fee_paid_exactly_once (w : World) (steps : List Step) (h : Inv w) (g : FInv w) (S D : ChainId) (q : Nat) :
    let w' := run true w steps
    ((w'.chains S).nextSeq D ≤ q → (w'.chains S).evm.feePaid D q = 0) ∧
    (Pending w' S D q → (w'.chains S).evm.feePaid D q = 0) ∧
    ((w'.cfg S).seq0 D ≤ q → q < (w'.chains S).nextSeq D → ¬ Pending w' S D q → (w'.chains S).evm.feePaid D q = 1) ∧
    (w'.chains S).evm.feePaid D q ≤ 1 := by
  have g' := finv_run steps w h g
  refine ⟨g'.f2 S D q, ?_, ?_, g'.f3 S D q⟩
  · intro ⟨r, hr, h1, h2⟩
    have := g'.f1 S r hr
    rw [h1, h2] at this; exact this
  · intro h0 hq hp
    rcases g'.f4 S D q h0 hq with h1 | h1
    · exact absurd h1 hp
    · exact h1

/-- **Every accepted receive has an acknowledgement, and its code tells what happened**: after any history, if the
destination holds a receipt for (S, q) then it holds an acknowledgement for it, and the packet's effects have been
applied exactly once if the code is 0 and not at all otherwise. -/
theorem received_has_ack_and_code_decides (w : World) (steps : List Step) (h : FullInv w) (g : FInv w)
    (S D : ChainId) (q : Nat) (hr : ((run true w steps).chains D).receipts S q = true) :
    ∃ code, ((run true w steps).chains D).acks S q = some code ∧
      (code = 0 → ((run true w steps).chains D).evm.credited S q = 1) ∧
      (code ≠ 0 → ((run true w steps).chains D).evm.credited S q = 0) := by
  have g' := finv_run steps w h.1 g
  have gg := (full_run steps w h).2
  have hne := g'.gR S D q hr
  cases hack : ((run true w steps).chains D).acks S q with
  | none => exact absurd hack hne
  | some code =>
    refine ⟨code, rfl, ?_, ?_⟩
    · intro hc; rw [gg.g1 S D q, hack, hc]; rfl
    · intro hc
      rw [gg.g1 S D q, hack]
      have : ¬ (some code = some 0) := fun h => hc (Option.some.inj h)
      simp [this]

/-! ### the acknowledgement code, outcome by outcome (repaired `msg_server.RecvPacket`)

`ctxOf c p` is `ctx` after `PacketKeeper.RecvPacket` (receipt written); the callback runs on a branch of it. -/

def ctxOf (c : Chain) (p : Packet) : Chain := { c with receipts := upd2 c.receipts p.src p.seq true }
def withAck (x : Chain) (p : Packet) (code : Nat) : Chain := { x with acks := upd2 x.acks p.src p.seq (some code) }

/-- the receive is accepted at all: packet for this chain, not yet received, client of the source exists -/
def RecvAccepts (cfg : Cfg) (me : ChainId) (c : Chain) (p : Packet) : Prop :=
  p.dst = me ∧ c.receipts p.src p.seq = false ∧ cfg.clients p.src = true

theorem recvHandler_eq (cfg : Cfg) (me : ChainId) (c : Chain) (p : Packet) (ha : RecvAccepts cfg me c p) :
    recvHandler true cfg me c p =
      match onRecv cfg me (ctxOf c p) p with
      | .ok cctx' => some (withAck cctx' p 0)
      | .evmRevert => some (withAck (ctxOf c p) p 1)
      | .errorResult code _ => some (withAck (ctxOf c p) p code)
      | .hookFail _ => some (withAck (ctxOf c p) p 1)
      | .commitFail _ => some (withAck (ctxOf c p) p 1) := by
  obtain ⟨h1, h2, h3⟩ := ha
  unfold recvHandler ctxOf withAck
  simp [h1, h2, h3]
  generalize onRecv cfg me _ p = r
  cases r <;> rfl

/-- outcome 1 — the callback returned result code 0: success acknowledgement (code 0) and the callback's state,
written back from the cache context, is the chain's state. -/
theorem recv_outcome_ok (cfg : Cfg) (me : ChainId) (c c2 : Chain) (p : Packet) (ha : RecvAccepts cfg me c p)
    (hcb : onRecv cfg me (ctxOf c p) p = .ok c2) : recvHandler true cfg me c p = some (withAck c2 p 0) := by
  rw [recvHandler_eq cfg me c p ha, hcb]

/-- outcome 2 — the EVM call reverted: error acknowledgement code 1, nothing but receipt and acknowledgement written. -/
theorem recv_outcome_evmRevert (cfg : Cfg) (me : ChainId) (c : Chain) (p : Packet) (ha : RecvAccepts cfg me c p)
    (hcb : onRecv cfg me (ctxOf c p) p = .evmRevert) : recvHandler true cfg me c p = some (withAck (ctxOf c p) p 1) := by
  rw [recvHandler_eq cfg me c p ha, hcb]

/-- outcome 3 — the packet contract RETURNED a non-zero result code (with whatever state): the acknowledgement
carries exactly that code, the code is not 0, and the returned state is discarded. -/
theorem recv_outcome_errorResult (cfg : Cfg) (me : ChainId) (c c2 : Chain) (p : Packet) (code : Nat)
    (ha : RecvAccepts cfg me c p) (hcb : onRecv cfg me (ctxOf c p) p = .errorResult code c2) :
    recvHandler true cfg me c p = some (withAck (ctxOf c p) p code) ∧ code ≠ 0 := by
  refine ⟨?_, onRecv_err hcb⟩
  rw [recvHandler_eq cfg me c p ha, hcb]

/-- outcome 4 — a post-transaction hook failed after the EVM had committed into the cache context: error
acknowledgement code 1, the committed state is discarded with the cache context. -/
theorem recv_outcome_hookFail (cfg : Cfg) (me : ChainId) (c c2 : Chain) (p : Packet) (ha : RecvAccepts cfg me c p)
    (hcb : onRecv cfg me (ctxOf c p) p = .hookFail c2) : recvHandler true cfg me c p = some (withAck (ctxOf c p) p 1) := by
  rw [recvHandler_eq cfg me c p ha, hcb]

/-- a result code 0 is produced only by a callback whose transfer part was applied (exactly one more `credited`) -/
theorem onRecv_ok_credited {cfg : Cfg} {me : ChainId} {c c2 : Chain} {p : Packet} (h : onRecv cfg me c p = .ok c2) :
    c2.evm.credited = upd2 c.evm.credited p.src p.seq (c.evm.credited p.src p.seq + 1) ∧ c2.acks = c.acks ∧
    c2.receipts = c.receipts := by
  obtain ⟨e, tok, k, hrt, hcase⟩ := onRecv_ok h
  obtain ⟨_, _, _, hcr, _⟩ := recvTransfer_eff hrt
  rcases hcase with h1 | ⟨a, e3, p2, sq, hsq, he, hk⟩
  · subst h1; exact ⟨hcr, rfl, rfl⟩
  · have key := sendKeeper_eff (c0 := { c with evm := e }) hsq he hk
    exact ⟨by rw [key.cred]; exact hcr, key.acks, key.receipts⟩

/-- **The acknowledgement code decides, whatever the callback did.** Every accepted receive writes an
acknowledgement; code 0 ⇔ the packet's effects were applied exactly once (one more `credited`);
code ≠ 0 ⇔ nothing of the callback is left (EVM state, commitments, sequences as before). -/
theorem recv_code_decides (cfg : Cfg) (me : ChainId) (c c' : Chain) (p : Packet)
    (h : recvHandler true cfg me c p = some c') :
    ∃ code, c'.acks p.src p.seq = some code ∧ c'.receipts p.src p.seq = true ∧
      (code = 0 → c'.evm.credited p.src p.seq = c.evm.credited p.src p.seq + 1) ∧
      (code ≠ 0 → c'.evm = c.evm ∧ c'.commits = c.commits ∧ c'.nextSeq = c.nextSeq) ∧
      (c'.evm.credited p.src p.seq = c.evm.credited p.src p.seq + 1 → code = 0) := by
  have ha : RecvAccepts cfg me c p := by
    unfold recvHandler at h
    split at h
    · cases h
    rename_i h1
    split at h
    · cases h
    rename_i h2
    split at h
    · cases h
    rename_i h3
    refine ⟨Decidable.of_not_not h1, ?_, ?_⟩
    · cases hb : c.receipts p.src p.seq
      · rfl
      · exact absurd hb h2
    · cases hb : cfg.clients p.src
      · simp [hb] at h3
      · rfl
  rw [recvHandler_eq cfg me c p ha] at h
  split at h
  · rename_i c2 hcb
    have := (Option.some.inj h).symm; subst this
    obtain ⟨hcr, hak, hrc⟩ := onRecv_ok_credited hcb
    refine ⟨0, by simp [withAck, upd2], ?_, ?_, fun h => absurd rfl h, fun _ => rfl⟩
    · show c2.receipts p.src p.seq = true
      rw [hrc]; simp [ctxOf, upd2]
    · intro _
      show c2.evm.credited p.src p.seq = _
      rw [hcr]; simp [upd2, ctxOf]
  · have := (Option.some.inj h).symm; subst this
    refine ⟨1, by simp [withAck, upd2], by simp [withAck, ctxOf, upd2], fun h => by omega, fun _ => ⟨rfl, rfl, rfl⟩, ?_⟩
    intro h; simp [withAck, ctxOf] at h
  · rename_i code c2 hcb
    have := (Option.some.inj h).symm; subst this
    have hne := onRecv_err hcb
    refine ⟨code, by simp [withAck, upd2], by simp [withAck, ctxOf, upd2], fun h => absurd h hne, fun _ => ⟨rfl, rfl, rfl⟩, ?_⟩
    intro h; simp [withAck, ctxOf] at h
  · have := (Option.some.inj h).symm; subst this
    refine ⟨1, by simp [withAck, upd2], by simp [withAck, ctxOf, upd2], fun h => by omega, fun _ => ⟨rfl, rfl, rfl⟩, ?_⟩
    intro h; simp [withAck, ctxOf] at h
  · have := (Option.some.inj h).symm; subst this
    refine ⟨1, by simp [withAck, upd2], by simp [withAck, ctxOf, upd2], fun h => by omega, fun _ => ⟨rfl, rfl, rfl⟩, ?_⟩
    intro h; simp [withAck, ctxOf] at h

/-! ### the source's decision uses exactly the destination's code -/

theorem refund_ackStatus {cfg : Cfg} {e e' : Evm} {p : Packet} (h : refund cfg e p = some e') : e'.ackStatus = e.ackStatus := by
  unfold refund at h
  split at h
  · cases h
  split at h
  · split at h
    · cases h
    have := (Option.some.inj h).symm; subst this; rfl
  · split at h
    · cases h
    split at h
    · cases h
    rename_i e2 hd
    have := debit_some hd; subst this
    have := (Option.some.inj h).symm; subst this; rfl

theorem agentCallback_ackStatus {e e' : Evm} {p : Packet} (h : agentCallback e p = some e') : e'.ackStatus = e.ackStatus := by
  unfold agentCallback at h
  split at h
  · cases h
  split at h
  · cases h
  rename_i e2 hd
  have := debit_some hd; subst this
  have := (Option.some.inj h).symm; subst this; rfl

/-- **The source settles by the code it is given**: code 0 ⇒ status 1, no refund, escrow and bindings untouched;
code ≠ 0 ⇒ status 2 and the error settlement (refund of the transfer, if there is one) executed exactly once more;
in both cases the relay fee is paid once and the commitment is cleared. -/
theorem ack_settles_by_code (cfg : Cfg) (me : ChainId) (c c' : Chain) (p : Packet) (code : Nat) (rel : Option Acct)
    (h : ackHandler cfg me c p code rel = some c') :
    c'.commits = c.commits.erase p ∧
    c'.evm.feePaid p.dst p.seq = c.evm.feePaid p.dst p.seq + 1 ∧
    c'.evm.ackStatus p.dst p.seq = (if code = 0 then 1 else 2) ∧
    (code = 0 → c'.evm.refunded = c.evm.refunded ∧ c'.evm.out = c.evm.out ∧ c'.evm.bindAmt = c.evm.bindAmt) ∧
    (code ≠ 0 → c'.evm.refunded p.dst p.seq = c.evm.refunded p.dst p.seq + 1 ∧
      (∀ T, c'.evm.out T p.dst + fwdAmt p T = c.evm.out T p.dst) ∧
      (∀ V, c'.evm.bindAmt V p.dst = c.evm.bindAmt V p.dst + 10 ^ cfg.scale V p.dst * backAmt p V)) := by
  obtain ⟨_, e⟩ := ack_eff h
  refine ⟨e.commits, ?_, ?_, ?_, ?_⟩
  · rw [e.fpd]; simp [upd2]
  · -- the status written by setAckStatus survives the rest of the transaction
    unfold ackHandler at h
    split at h
    · cases h
    split at h
    · cases h
    split at h
    · cases h
    simp only at h
    split at h
    · cases h
    split at h
    · cases h
    rename_i e1 hdeb
    have h1 := debit_some hdeb
    subst h1
    split at h
    · cases h
    rename_i e2 hr
    split at h
    · cases h
    rename_i e3 hr2
    have := (Option.some.inj h).symm; subst this
    have h32 : e3.ackStatus = e2.ackStatus := by
      split at hr2
      · exact agentCallback_ackStatus hr2
      · have := (Option.some.inj hr2).symm; subst this; rfl
    show e3.ackStatus p.dst p.seq = _
    rw [h32]
    by_cases hc0 : code = 0
    · simp only [hc0, ↓reduceIte] at hr
      have := (Option.some.inj hr).symm; subst this
      simp [credit, upd2, hc0]
    · simp only [hc0, ↓reduceIte] at hr
      rw [refund_ackStatus hr]
      simp [credit, upd2, hc0]
  · intro hc0
    refine ⟨by rw [e.refd]; simp [hc0], ?_, ?_⟩
    · funext T D; have := e.out T D; simp [hc0] at this; exact this
    · funext V D; have := e.bind V D; simp [hc0] at this; exact this
  · intro hc0
    refine ⟨by rw [e.refd]; simp [hc0, upd2], ?_, ?_⟩
    · intro T; have := e.out T p.dst; simpa [hc0] using this
    · intro V; have := e.bind V p.dst; simpa [hc0] using this

/-- the relayer step hands the source exactly the code the destination stored (ideal light client), and the relayer
to be paid is the one the SOURCE chain's registry resolves the name written into the acknowledgement to -/
theorem ack_step_uses_destination_code (w : World) (s d : ChainId) (q : Nat) :
    step true w (.ack s d q) = w ∨
    ∃ p code c', findPacket (w.chains s).commits d q = some p ∧ (w.chains d).acks s q = some code ∧
      ackHandler (w.cfg s) s (w.chains s) p code ((w.reg s).onTeleport d (w.ackTag d s q)) = some c' ∧
      ¬ (p.cbSwitch = true ∧ w.cbFail s = true) ∧
      step true w (.ack s d q) = w.set s c' := by
  simp only [step]
  split
  · exact Or.inl rfl
  rename_i p hf
  split
  · exact Or.inl rfl
  rename_i code hcode
  split
  · exact Or.inl rfl
  rename_i c' ha
  exact Or.inr ⟨p, code, c', hf, hcode, (ackMsg_some ha).1, (ackMsg_some ha).2, rfl⟩

/-- **Observation outside C03, modelled as it is**: the error acknowledgement of a packet WITHOUT transfer data is
rejected by the source every time (`OnAcknowledgePacket` reverts — the endpoint decodes the empty transfer data — and
with it the whole `MsgAcknowledgement`): nothing changes, … -/
theorem ack_call_only_error_rejected (cfg : Cfg) (me : ChainId) (c : Chain) (p : Packet) (code : Nat) (rel : Option Acct)
    (hcode : code ≠ 0) (ht : p.transfer = none) : ackHandler cfg me c p code rel = none := by
  unfold ackHandler refund
  simp only [ht, hcode, ↓reduceIte]
  split
  · rfl
  split
  · rfl
  split
  · rfl
  split
  · rfl
  split <;> rfl

/-- **An acknowledgement whose relayer the source chain can not resolve is rejected**: the handler fails as a whole
(`ErrRelayerNotFound`) although the keeper had already deleted the commitment and the status had been set — one
transaction, nothing of it stays. -/
theorem ack_unknown_relayer_rejected (cfg : Cfg) (me : ChainId) (c : Chain) (p : Packet) (code : Nat) :
    ackHandler cfg me c p code none = none := by
  unfold ackHandler
  split
  · rfl
  split
  · rfl
  split <;> rfl

/-- … hence the relayer step leaves the WHOLE world unchanged — commitment, escrow, bindings, status, fee escrow —
whatever the code (error: the refund stays possible; success: the fee stays payable), the packet stays `Pending`,
and the same acknowledgement is processed once the registry resolves the name again (`step` is a function of the
current registry: nothing else remembers the failed attempt). -/
theorem ack_unknown_relayer_unchanged (w : World) (s d : ChainId) (q : Nat)
    (hrel : (w.reg s).onTeleport d (w.ackTag d s q) = none) : step true w (.ack s d q) = w := by
  simp only [step]
  split
  · rfl
  split
  · rfl
  rw [hrel, ackMsg_of_handler_none (ack_unknown_relayer_rejected _ _ _ _ _)]

/-- a receive relayed by an account that is not registered as a relayer for the source chain is rejected and
changes nothing (no receipt, no acknowledgement): another relayer can deliver the packet -/
theorem recv_unregistered_signer_unchanged (w : World) (s d : ChainId) (q : Nat) (signer : Acct)
    (hsig : (w.reg d).onOther s signer = none) : step true w (.recv s d q signer) = w := by
  simp only [step]
  split
  · rfl
  rw [hsig]

/-- registry changes touch nothing but the registry -/
theorem register_only_registry (w : World) (i : ChainId) (a : Acct) (rank : Nat) (cts : List (ChainId × Nat)) :
    (step true w (.register i a rank cts)).chains = w.chains ∧ (step true w (.register i a rank cts)).cfg = w.cfg ∧
    (step true w (.register i a rank cts)).ackTag = w.ackTag := ⟨rfl, rfl, rfl⟩

/-- … so the relayer step leaves the whole world unchanged: commitment, fee escrow, fee-paid counter and status stay
as they are, the packet stays `Pending` (conservation and fee solvency are not affected — the fee of a packet that
is never acknowledged stays in escrow). -/
theorem ack_call_only_error_rejected_unchanged (w : World) (s d : ChainId) (q : Nat) (p : Packet) (code : Nat)
    (hf : findPacket (w.chains s).commits d q = some p) (hack : (w.chains d).acks s q = some code)
    (hcode : code ≠ 0) (ht : p.transfer = none) :
    step true w (.ack s d q) = w ∧ Pending w s d q := by
  obtain ⟨hm, hd, hq⟩ := findPacket_some hf
  refine ⟨?_, ⟨p, hm, hd, hq⟩⟩
  simp only [step, hf, hack, ackMsg_of_handler_none (ack_call_only_error_rejected (w.cfg s) s (w.chains s) p code _ hcode ht)]



/-! ### non-vacuity of the fee / completeness theorems -/

theorem finv_w0 : FInv w0 := by
  refine ⟨?_, ?_, ?_, ?_, ?_⟩
  · intro S r hr; unfold w0 at hr; by_cases hS : S = 0 <;> simp [hS, Chain.empty] at hr
  · intro S D q _; unfold w0; by_cases hS : S = 0 <;> simp [hS, Chain.empty, Evm.empty, evm0]
  · intro S D q; unfold w0; by_cases hS : S = 0 <;> simp [hS, Chain.empty, Evm.empty, evm0]
  · intro S D q h0 hq
    unfold w0 at hq h0
    by_cases hS : S = 0 <;> simp [hS, Chain.empty, cfgA, cfgB] at hq h0 <;> omega
  · intro S D q hr; unfold w0 at hr; by_cases hD : D = 0 <;> simp [hD, Chain.empty] at hr

theorem feeSolvent_w0 : FeeSolvent w0 := by
  intro S F
  unfold escrowFee w0
  by_cases hS : S = 0 <;> simp [hS, Chain.empty]

/-- a call-only packet whose call data fails: error acknowledgement on the destination; the source rejects the
acknowledgement, the packet stays committed with its fee in escrow and unpaid -/
def callOnlySteps : List Step :=
  [.send 0 0 { dst := 1, token := 1, amount := 0, receiver := 0, call := .plain .fail, feeToken := 1, feeAmount := 9, callback := false },
   .recv 0 1 1 0, .ack 0 1 1]

example : ((run true w0 callOnlySteps).chains 0).commits.length = 1 ∧
    ((run true w0 callOnlySteps).chains 0).evm.feePaid 1 1 = 0 ∧
    ((run true w0 callOnlySteps).chains 0).evm.bal 1 acRelayer = 0 ∧
    ((run true w0 callOnlySteps).chains 0).evm.bal 1 acPacket = 9 ∧
    ((run true w0 callOnlySteps).chains 0).evm.ackStatus 1 1 = 0 ∧
    ((run true w0 callOnlySteps).chains 1).acks 0 1 = some 3 := by decide

example : FeeSolvent (run true w0 (f13Steps ++ callOnlySteps)) :=
  fee_solvent_run _ w0 inv_w0 feeSolvent_w0

/-! ### batches are atomic -/

def Leg.isSend : Leg → Bool
  | .send _ => true
  | .approve _ _ => false
  | .fakelog _ => false

theorem batchI_strict_commits (cfg : Cfg) (self : ChainId) (seq0 : ChainId → Nat) :
    ∀ (legs : List Leg) (c c' : Chain), batchI cfg self seq0 true c legs = some c' →
      c'.commits.length = c.commits.length + (legs.filter Leg.isSend).length
  | [], c, c', h => by
    simp only [batchI] at h
    have := (Option.some.inj h).symm; subst this; simp
  | .approve t n :: ls, c, c', h => by
    simp only [batchI] at h
    have := batchI_strict_commits cfg self seq0 ls _ c' h
    simpa [Leg.isSend] using this
  | .fakelog _ :: ls, c, c', h => by
    simp only [batchI] at h
    have := batchI_strict_commits cfg self seq0 ls c c' h
    simpa [Leg.isSend] using this
  | .send a :: ls, c, c', h => by
    simp only [batchI] at h
    split at h
    · simp at h
    · rename_i e1 p hs
      split at h
      · cases h
      · rename_i c1 hk
        have := batchI_strict_commits cfg self seq0 ls c1 c' h
        have h1 : c1.commits = p :: c.commits := by
          unfold sendKeeper at hk
          split at hk
          · have := (Option.some.inj hk).symm; subst this; rfl
          · cases hk
        rw [this, h1]
        have : (List.filter Leg.isSend (Leg.send a :: ls)).length = (List.filter Leg.isSend ls).length + 1 := by
          simp [List.filter, Leg.isSend]
        rw [this]; simp; omega

theorem batchI_strict_no_client (cfg : Cfg) (self : ChainId) (seq0 : ChainId → Nat) (a : SendArgs)
    (hc : cfg.clients a.dst = false) :
    ∀ (legs : List Leg) (c : Chain), Leg.send a ∈ legs → batchI cfg self seq0 true c legs = none
  | [], _, h => by cases h
  | .approve t n :: ls, c, h => by
    simp only [batchI]
    cases h with
    | tail _ h => exact batchI_strict_no_client cfg self seq0 a hc ls _ h
  | .fakelog _ :: ls, c, h => by
    simp only [batchI]
    cases h with
    | tail _ h => exact batchI_strict_no_client cfg self seq0 a hc ls c h
  | .send b :: ls, c, h => by
    simp only [batchI]
    cases hs : sendEvm cfg self (seq0 b.dst) c.evm acForwarder b with
    | none => simp
    | some r =>
      obtain ⟨e1, p⟩ := r
      simp only
      cases hk : sendKeeper cfg { c with evm := e1 } p with
      | none => rfl
      | some c1 =>
        simp only
        cases h with
        | head =>
          exfalso
          have he := sendEvm_eff (by decide : acForwarder ≠ acPacket) hs
          unfold sendKeeper at hk
          rw [he.dstEq, hc] at hk
          simp at hk
        | tail _ h => exact batchI_strict_no_client cfg self seq0 a hc ls c1 h

/-- **A strict batch is all-or-nothing.** Either the transaction changes nothing, or EVERY `crossChainCall` leg of it
has its packet committed (exactly one new commitment per leg) — there is no outcome in which the endpoint has
escrowed or burnt for a leg whose packet the keeper does not hold. -/
theorem batch_strict_all_or_nothing (w : World) (i : ChainId) (sender : Acct) (legs : List Leg) :
    step true w (.batch i sender true legs) = w ∨
    ((step true w (.batch i sender true legs)).chains i).commits.length =
      (w.chains i).commits.length + (legs.filter Leg.isSend).length := by
  simp only [step]
  split
  · exact Or.inl rfl
  · rename_i c' hb
    right
    obtain ⟨e0, _, htp⟩ := batch_some hb
    rw [twoPhase_eq_batchI] at htp
    rw [set_chains_eq]
    exact batchI_strict_commits _ _ _ legs { (w.chains i) with evm := e0 } c' htp

/-- **A batch with a leg towards a chain without client changes nothing** (the post-transaction hook fails on that
leg's `SendPacket`, `ApplyTransaction` reverts the EVM state of ALL legs). -/
theorem batch_leg_without_client_unchanged (w : World) (i : ChainId) (sender : Acct) (legs : List Leg) (a : SendArgs)
    (hmem : Leg.send a ∈ legs) (hc : (w.cfg i).clients a.dst = false) :
    step true w (.batch i sender true legs) = w := by
  simp only [step]
  split
  · rfl
  · rename_i c' hb
    exfalso
    obtain ⟨e0, _, htp⟩ := batch_some hb
    rw [twoPhase_eq_batchI, batchI_strict_no_client _ _ _ a hc legs _ hmem] at htp
    cases htp

/-! a concrete batch: chain 0 with clients of chains 1 and 2 -/

def cfgA3 : Cfg := { clients := fun j => j == 1 || j == 2, trace := fun _ _ => none, ori := fun _ _ => none, scale := fun _ _ => 0 }
def w3 : World :=
  { cfg := fun i => if i = 0 then cfgA3 else cfgB,
    chains := fun i => if i = 0 then { Chain.empty with evm := evm0 } else Chain.empty,
    reg := reg0, ackTag := fun _ _ _ => 0 }

def leg (dst : ChainId) (amt fee : Nat) : Leg :=
  .send { dst := dst, token := 1, amount := amt, receiver := 6, call := .none, feeToken := 1, feeAmount := fee, callback := false }

def batchSteps : List Step :=
  [.transfer 0 1 0 acForwarder 3000,
   .batch 0 0 true [.approve 1 100000, leg 1 300 5, leg 2 200 4],      -- two destinations: both committed
   .batch 0 0 true [leg 1 100 1, leg 3 100 1],                          -- a leg without client: nothing happens
   .batch 0 0 true [leg 1 10 1, leg 1 20 1],                            -- same destination twice: same sequence, nothing happens
   .batch 0 0 false [leg 1 100 1, leg 2 999999 1]]                      -- non-strict: the failing leg alone is skipped

example :
    ((run true w3 batchSteps).chains 0).commits.length = 3 ∧
    ((run true w3 batchSteps).chains 0).evm.out 1 1 = 400 ∧ ((run true w3 batchSteps).chains 0).evm.out 1 2 = 200 ∧
    ((run true w3 batchSteps).chains 0).evm.out 1 3 = 0 ∧
    ((run true w3 batchSteps).chains 0).nextSeq 1 = 3 ∧ ((run true w3 batchSteps).chains 0).nextSeq 2 = 2 ∧
    ((run true w3 batchSteps).chains 0).evm.bal 1 acPacket = 10 ∧
    ((run true w3 batchSteps).chains 0).evm.bal 1 acForwarder = 2390 := by decide


/-! ### a concrete history with a registry change between the receive and the acknowledgement -/

def regSteps1 : List Step :=
  [.send 0 0 (sendArgs (.plain .fail) 6), .recv 0 1 1 0,
   .register 0 acRelayer 0 [(2, 7)],      -- chain 0 no longer resolves the name "7" for chain 1
   .ack 0 1 1]                            -- the error acknowledgement is rejected: nothing changes, the refund stays possible
def regSteps2 : List Step := regSteps1 ++ [.register 0 acRelayer 0 [(1, 7), (2, 7)], .ack 0 1 1]

example :
    ((run true w0 regSteps1).chains 0).commits.length = 1 ∧ ((run true w0 regSteps1).chains 0).evm.out 1 1 = 2000 ∧
    ((run true w0 regSteps1).chains 0).evm.ackStatus 1 1 = 0 ∧ ((run true w0 regSteps1).chains 0).evm.refunded 1 1 = 0 ∧
    ((run true w0 regSteps1).chains 1).acks 0 1 = some 3 ∧
    ((run true w0 regSteps2).chains 0).commits.length = 0 ∧ ((run true w0 regSteps2).chains 0).evm.out 1 1 = 0 ∧
    ((run true w0 regSteps2).chains 0).evm.ackStatus 1 1 = 2 ∧ ((run true w0 regSteps2).chains 0).evm.refunded 1 1 = 1 ∧
    ((run true w0 regSteps2).chains 0).evm.bal 1 0 = 10000 := by decide

example : Conserved (run true w0 regSteps2) := conserved_run w0 _ inv_w0

/-! ### look-alike `PacketSent` logs of other contracts are not packets -/

def Leg.isFakelog : Leg → Bool
  | .fakelog _ => true
  | _ => false

theorem hookPackets_all_foreign (logs : List SentLog) (h : ∀ l ∈ logs, l.1 ≠ acPacket) : hookPackets logs = [] := by
  unfold hookPackets
  have : logs.filter (fun l => l.1 == acPacket) = [] := by
    apply List.filter_eq_nil_iff.mpr
    intro l hl
    simpa using h l hl
  rw [this]; rfl

/-- whatever else a transaction does, the look-alike logs in its receipt change nothing: the transaction commits exactly
what it would commit without them -/
theorem batchI_drop_fakelogs (cfg : Cfg) (self : ChainId) (seq0 : ChainId → Nat) (strict : Bool) :
    ∀ (legs : List Leg) (c : Chain),
      batchI cfg self seq0 strict c legs = batchI cfg self seq0 strict c (legs.filter (fun l => !l.isFakelog))
  | [], c => rfl
  | .approve t n :: ls, c => by
    simp only [batchI, List.filter, Leg.isFakelog, Bool.not_false]
    exact batchI_drop_fakelogs cfg self seq0 strict ls _
  | .fakelog q :: ls, c => by
    simp only [batchI, List.filter, Leg.isFakelog, Bool.not_true]
    exact batchI_drop_fakelogs cfg self seq0 strict ls c
  | .send a :: ls, c => by
    simp only [batchI, List.filter, Leg.isFakelog, Bool.not_false]
    cases sendEvm cfg self (seq0 a.dst) c.evm acForwarder a with
    | none =>
      simp only
      cases strict
      · simp; exact batchI_drop_fakelogs cfg self seq0 false ls c
      · simp
    | some r =>
      obtain ⟨e1, p⟩ := r
      simp only
      cases sendKeeper cfg { c with evm := e1 } p with
      | none => rfl
      | some c1 => simp only; exact batchI_drop_fakelogs cfg self seq0 strict ls c1

theorem batch_drop_fakelogs_twoPhase (cfg : Cfg) (self : ChainId) (seq0 : ChainId → Nat) (strict : Bool) (legs : List Leg) (c : Chain) :
    twoPhase cfg self seq0 strict c legs = twoPhase cfg self seq0 strict c (legs.filter (fun l => !l.isFakelog)) := by
  rw [twoPhase_eq_batchI, twoPhase_eq_batchI]; exact batchI_drop_fakelogs cfg self seq0 strict legs c

/-- **The hook ignores foreign logs.** A transaction whose `PacketSent`-shaped logs all come from other addresses than
the packet contract (here: every frame of the batch is a call to a log-emitting contract, with ANY packets encoded in
the data — right source, right destination, the right next sequence included) commits nothing and changes no counter:
commitments, send sequences, receipts, acknowledgements, escrow, bindings, fee records and ack status are as before. -/
theorem hook_ignores_foreign_logs (w : World) (i : ChainId) (sender : Acct) (strict : Bool) (legs : List Leg)
    (hall : ∀ l ∈ legs, l.isFakelog = true) :
    let w' := step true w (.batch i sender strict legs)
    (w'.chains i).commits = (w.chains i).commits ∧ (w'.chains i).nextSeq = (w.chains i).nextSeq ∧
    (w'.chains i).receipts = (w.chains i).receipts ∧ (w'.chains i).acks = (w.chains i).acks ∧
    (w'.chains i).evm.out = (w.chains i).evm.out ∧ (w'.chains i).evm.bindAmt = (w.chains i).evm.bindAmt ∧
    (w'.chains i).evm.fee = (w.chains i).evm.fee ∧ (w'.chains i).evm.feePaid = (w.chains i).evm.feePaid ∧
    (∀ j, j ≠ i → w'.chains j = w.chains j) ∧ w'.cfg = w.cfg := by
  simp only [step]
  split
  · exact ⟨rfl, rfl, rfl, rfl, rfl, rfl, rfl, rfl, fun _ _ => rfl, rfl⟩
  · rename_i c' hb
    obtain ⟨e0, hle, htp⟩ := batch_some hb
    rw [twoPhase_eq_batchI, batchI_drop_fakelogs] at htp
    have hnil : legs.filter (fun l => !l.isFakelog) = [] := by
      apply List.filter_eq_nil_iff.mpr
      intro l hl
      simp [hall l hl]
    rw [hnil] at htp
    simp only [batchI] at htp
    have := (Option.some.inj htp).symm
    subst this
    refine ⟨?_, ?_, ?_, ?_, ?_, ?_, ?_, ?_, ?_, rfl⟩
    · rw [set_chains_eq]
    · rw [set_chains_eq]
    · rw [set_chains_eq]
    · rw [set_chains_eq]
    · rw [set_chains_eq]; exact hle.out
    · rw [set_chains_eq]; exact hle.bindAmt
    · rw [set_chains_eq]; exact hle.fee
    · rw [set_chains_eq]; exact hle.feePaid
    · intro j hj; exact set_chains_ne _ _ hj

/-- a concrete batch on chain 0 of `w3`: a look-alike log before and after a genuine send, and alone -/
def fakePacket (dst seq : Nat) : Packet :=
  { src := 0, dst := dst, seq := seq, sender := 0,
    transfer := some { token := 0, ori := none, amount := 1000, receiver := 0 }, call := .none, callback := false }

example :
    let w := run true w3 [.transfer 0 1 0 acForwarder 3000,
      .batch 0 0 true [.fakelog (fakePacket 1 1)],                                                  -- alone, with the right next sequence
      .batch 0 0 true [.approve 1 100000, .fakelog (fakePacket 1 1), leg 1 300 5, .fakelog (fakePacket 1 2), .fakelog (fakePacket 2 1)]]
    (w.chains 0).commits.length = 1 ∧ (w.chains 0).nextSeq 1 = 2 ∧ (w.chains 0).nextSeq 2 = 1 ∧
    (w.chains 0).evm.out 1 1 = 300 ∧ (w.chains 0).evm.out 0 1 = 0 := by decide

/-! ### restarts, discarded executions, the callback switch, planted counters, `uint256` bounds -/

/-- **A restart is the identity**: an export → import restart of the xibc module or of the whole application changes
nothing the model talks about (escrow, bindings, fee escrow, ack status, counters, commitments, receipts,
acknowledgements, registry). Every theorem about `run` ranges over histories with restarts at any point. -/
theorem restart_identity (fixed : Bool) (w : World) (c : ChainId) (whole : Bool) : step fixed w (.restart c whole) = w := rfl

/-- **A discarded execution is the identity**: whatever step ran on a dropped context (Simulate, CheckTx, a failed
multi-message transaction), the world — and therefore every later verdict — is as if it had not run. -/
theorem discard_identity (fixed : Bool) (w : World) (s : Step) : step fixed w (.discard s) = w := rfl

theorem discard_then (fixed : Bool) (w : World) (s : Step) (rest : List Step) :
    run fixed w (.discard s :: rest) = run fixed w rest := rfl

/-- no step changes the static configuration -/
theorem step_cfg (fixed : Bool) (w : World) (s : Step) : (step fixed w s).cfg = w.cfg := by
  cases s <;> simp only [step]
  all_goals (repeat' split) <;> rfl

theorem run_cfg (fixed : Bool) (steps : List Step) : ∀ w : World, (run fixed w steps).cfg = w.cfg := by
  induction steps with
  | nil => intro w; rfl
  | cons s rest ih => intro w; exact (ih (step fixed w s)).trans (step_cfg fixed w s)

/-- flipping the callback switch touches nothing but the switch -/
theorem cbset_only_switch (fixed : Bool) (w : World) (i : ChainId) (on : Bool) :
    (step fixed w (.cbset i on)).chains = w.chains ∧ (step fixed w (.cbset i on)).cfg = w.cfg ∧
    (step fixed w (.cbset i on)).reg = w.reg ∧ (step fixed w (.cbset i on)).ackTag = w.ackTag ∧
    (step fixed w (.cbset i on)).cbFail i = on := by
  refine ⟨rfl, rfl, rfl, rfl, ?_⟩
  simp [step, upd1]

/-- **An acknowledgement whose callback contract reverts is rejected as a whole**: whatever the code, the relayer step
leaves the world unchanged — commitment, escrow, bindings, status, fee escrow — and the packet stays `Pending`. -/
theorem ack_callback_reverts_unchanged (w : World) (s d : ChainId) (q : Nat) (p : Packet)
    (hf : findPacket (w.chains s).commits d q = some p) (hcb : p.cbSwitch = true) (hon : w.cbFail s = true) :
    step true w (.ack s d q) = w ∧ Pending w s d q := by
  obtain ⟨hm, hd, hq⟩ := findPacket_some hf
  refine ⟨?_, ⟨p, hm, hd, hq⟩⟩
  simp only [step, hf]
  split
  · rfl
  · simp [ackMsg, hcb, hon]

/-- **… and the retry settles it**: once the callback goes through again (switch off), the same acknowledgement is
processed exactly as the handler prescribes — the failed first delivery left no trace (`step` is a function of the
current world only), so the refund of an error acknowledgement happens then, once. -/
theorem ack_retry_after_callback_failure (w : World) (s d : ChainId) (q : Nat) (p : Packet) (code : Nat)
    (hf : findPacket (w.chains s).commits d q = some p) (hack : (w.chains d).acks s q = some code)
    (hcb : p.cbSwitch = true) (hon : w.cbFail s = true) :
    let w1 := step true w (.ack s d q)               -- first delivery: the callback reverts
    let w2 := step true w1 (.cbset s false)          -- the callback contract is repaired
    w1 = w ∧
    step true w2 (.ack s d q) =
      (match ackMsg (w.cfg s) s (w.chains s) p code ((w.reg s).onTeleport d (w.ackTag d s q)) false with
       | none => w2
       | some c => w2.set s c) := by
  intro w1 w2
  have h1 : w1 = w := (ack_callback_reverts_unchanged w s d q p hf hcb hon).1
  refine ⟨h1, ?_⟩
  have hw2 : w2 = { w with cbFail := upd1 w.cbFail s false } := by
    show step true w1 (.cbset s false) = _
    rw [h1]; rfl
  rw [hw2]
  simp only [step, hf, hack, upd1, ↓reduceIte]
  generalize ackMsg (w.cfg s) s (w.chains s) p code ((w.reg s).onTeleport d (w.ackTag d s q)) false = r
  cases r <;> rfl

/-- `type(uint256).max` is an unlimited allowance: `transferFrom` / `burnFrom` do not consume it -/
theorem unlimited_allowance_not_consumed (e : Evm) (t : Token) (a : Acct) (n : Nat) (ht : t ≠ 0)
    (h : e.allow t a = U256 - 1) (hn : n < U256) : spend e t a n = some e := by
  unfold spend
  have h2 : n ≤ U256 - 1 := by omega
  simp [ht, h, h2]

/-- a transfer whose minted amount (amount·10^scale) or whose new total supply does not fit a `uint256` is not
executed: `recvTransfer` fails, so the destination writes an error acknowledgement and keeps no effect
(`recv_error_no_effect`), and the source refunds -/
theorem recvTransfer_overflow (cfg : Cfg) (e : Evm) (p : Packet) (t : Transfer) (v : Token)
    (ht : p.transfer = some t) (hori : t.ori = none) (hv : cfg.trace p.src t.token = some v)
    (hov : U256 ≤ e.supply v + t.amount * 10 ^ cfg.scale v p.src) : recvTransfer cfg e p = none := by
  unfold recvTransfer
  simp [ht, hori, hv, hov]

/-- minting an origin token beyond 2^256-1 fails and changes nothing -/
theorem mint_overflow_unchanged (fixed : Bool) (w : World) (i : ChainId) (t : Token) (who : Acct) (n : Nat)
    (h : U256 ≤ ((w.chains i).evm.supply t) + n) : step fixed w (.mint i t who n) = w := by
  simp [step, h]

/-! planted counters: a world in which nothing has happened yet satisfies every invariant, wherever its send counters
start (`Cfg.seq0`, e.g. 2^63 or 2^64-2 from an imported genesis) — so `conserved_run`, `one_outcome`, `no_double_hold`,
`fee_solvent_run`, `fee_paid_exactly_once` hold for histories on such chains, "every sequence ever sent" meaning every
sequence from `seq0` up to the counter. -/

structure Pristine (w : World) : Prop where
  cfg : ∀ B A T V, (w.cfg B).trace A T = some V ↔ (w.cfg B).ori V A = some T
  commits : ∀ i, (w.chains i).commits = []
  next : ∀ i d, (w.chains i).nextSeq d = (w.cfg i).seq0 d
  rcpt : ∀ i s q, (w.chains i).receipts s q = false
  acks : ∀ i s q, (w.chains i).acks s q = none
  out : ∀ i t d, (w.chains i).evm.out t d = 0
  bind : ∀ i t d, (w.chains i).evm.bindAmt t d = 0
  cred : ∀ i s q, (w.chains i).evm.credited s q = 0
  refd : ∀ i s q, (w.chains i).evm.refunded s q = 0
  fpd : ∀ i s q, (w.chains i).evm.feePaid s q = 0

theorem pristine_invariants (w : World) (h : Pristine w) : FullInv w ∧ FInv w ∧ FeeSolvent w := by
  refine ⟨⟨⟨⟨h.cfg, ?_, ?_, ?_, ?_⟩, ?_⟩, ⟨?_, ?_, ?_, ?_, ?_⟩⟩, ⟨?_, ?_, ?_, ?_, ?_⟩, ?_⟩
  · intro A p hp; rw [h.commits] at hp; cases hp
  · intro A; rw [h.commits]; exact List.Pairwise.nil
  · intro A B s hn; exact absurd (h.acks B A s) hn
  · intro A B s hr; rw [h.rcpt] at hr; cases hr
  · intro A B T _
    unfold eqn
    split <;> simp [h.commits, h.out, h.bind, flight]
  · intro S D q; rw [h.cred, h.acks]; simp
  · intro S D q; rw [h.refd]; exact ⟨Nat.zero_le _, fun h0 => absurd h0 (by decide)⟩
  · intro S p hp; exact h.refd S _ _
  · intro S D q _; exact h.refd S D q
  · intro S D q h0 hq; rw [h.next] at hq; omega
  · intro S p hp; exact h.fpd S _ _
  · intro S D q _; exact h.fpd S D q
  · intro S D q; rw [h.fpd]; exact Nat.zero_le _
  · intro S D q h0 hq; rw [h.next] at hq; omega
  · intro S D q hr; rw [h.rcpt] at hr; cases hr
  · intro S F; unfold escrowFee; rw [h.commits]; exact Nat.zero_le _

/-- chain 0 with its send counter towards chain 1 planted at 2^63, chain 1 with its counter towards chain 0 at 2^64-2 -/
def cfgAP : Cfg := { cfgA with seq0 := fun d => if d = 1 then 2 ^ 63 else 1 }
def cfgBP : Cfg := { cfgB with seq0 := fun d => if d = 0 then 2 ^ 64 - 2 else 1 }
def wP : World :=
  { cfg := fun i => if i = 0 then cfgAP else cfgBP,
    chains := fun i =>
      if i = 0 then { Chain.empty with evm := evm0, nextSeq := fun d => if d = 1 then 2 ^ 63 else 1 }
      else { Chain.empty with nextSeq := fun d => if d = 0 then 2 ^ 64 - 2 else 1 },
    reg := reg0, ackTag := fun _ _ _ => 0 }

theorem pristine_wP : Pristine wP := by
  refine ⟨?_, ?_, ?_, ?_, ?_, ?_, ?_, ?_, ?_, ?_⟩
  · intro B A T V
    have := inv_w0.1.cfg B A T V
    unfold w0 at this; unfold wP cfgAP cfgBP
    by_cases hB : B = 0 <;> simp only [hB, ↓reduceIte] at this ⊢ <;> exact this
  all_goals intro i
  all_goals unfold wP cfgAP cfgBP
  all_goals by_cases hi : i = 0 <;> simp [hi, Chain.empty, Evm.empty, evm0]

example : Conserved (run true wP [.send 0 0 (sendArgs (.plain .fail) 6), .recv 0 1 (2 ^ 63) 0, .restart 0 true,
    .discard (.ack 0 1 (2 ^ 63)), .ack 0 1 (2 ^ 63)]) :=
  conserved_run wP _ (pristine_invariants wP pristine_wP).1.1

example :
    let w := run true wP [.send 0 0 (sendArgs (.plain .fail) 6), .recv 0 1 (2 ^ 63) 0, .restart 0 true,
      .discard (.ack 0 1 (2 ^ 63)), .ack 0 1 (2 ^ 63)]
    (w.chains 0).nextSeq 1 = 2 ^ 63 + 1 ∧ (w.chains 1).acks 0 (2 ^ 63) = some 3 ∧ (w.chains 0).commits.length = 0 ∧
    (w.chains 0).evm.refunded 1 (2 ^ 63) = 1 ∧ (w.chains 0).evm.out 1 1 = 0 ∧ (w.chains 0).evm.bal 1 0 = 10000 := by decide

/-- a concrete history: the error acknowledgement of a packet whose callback contract reverts is rejected (nothing
changes), the retry after the switch is off refunds once -/
def cbSteps1 : List Step :=
  [.send 0 0 { sendArgs (.plain .fail) 6 with cbSwitch := true }, .recv 0 1 1 0, .cbset 0 true, .ack 0 1 1]
def cbSteps2 : List Step := cbSteps1 ++ [.cbset 0 false, .ack 0 1 1]

example :
    ((run true w0 cbSteps1).chains 0).commits.length = 1 ∧ ((run true w0 cbSteps1).chains 0).evm.out 1 1 = 2000 ∧
    ((run true w0 cbSteps1).chains 0).evm.ackStatus 1 1 = 0 ∧ ((run true w0 cbSteps1).chains 0).evm.refunded 1 1 = 0 ∧
    ((run true w0 cbSteps1).chains 0).evm.feePaid 1 1 = 0 ∧
    ((run true w0 cbSteps2).chains 0).commits.length = 0 ∧ ((run true w0 cbSteps2).chains 0).evm.out 1 1 = 0 ∧
    ((run true w0 cbSteps2).chains 0).evm.ackStatus 1 1 = 2 ∧ ((run true w0 cbSteps2).chains 0).evm.refunded 1 1 = 1 ∧
    ((run true w0 cbSteps2).chains 0).evm.feePaid 1 1 = 1 ∧ ((run true w0 cbSteps2).chains 0).evm.bal 1 0 = 10000 := by decide

/-! ### the receive callback runs on a discardable context for EVERY packet, whatever the class of failure -/

/-- outcome 5 — the EVM run succeeded but writing its state back failed half-way (e.g. the native coin released to a
module account the bank blocks): error acknowledgement code 1; the half-written state is discarded with the cache context. -/
theorem recv_outcome_commitFail (cfg : Cfg) (me : ChainId) (c c2 : Chain) (p : Packet) (ha : RecvAccepts cfg me c p)
    (hcb : onRecv cfg me (ctxOf c p) p = .commitFail c2) : recvHandler true cfg me c p = some (withAck (ctxOf c p) p 1) := by
  rw [recvHandler_eq cfg me c p ha, hcb]

/-- a packet that releases the native coin to a blocked account makes the commit fail — with or without call data (unless
the call data reverts the whole EVM call first) — and the state the callback leaves behind on ITS context is half-written:
`outTokens` already decremented (as in the complete state `e`), the receiver not credited -/
theorem onRecv_blocked_release (cfg : Cfg) (me : ChainId) (c : Chain) (p : Packet) (e : Evm) (tok : Token) (k : Nat)
    (hrt : recvTransfer cfg c.evm p = some (e, tok, k)) (hb : blockedRelease p = true) (hcall : p.call ≠ .plain .revert) :
    ∃ c2, onRecv cfg me c p = .commitFail c2 ∧ c2.evm.out = e.out ∧
      c2.evm.bal 0 (releaseTo p) = c.evm.bal 0 (releaseTo p) ∧ c2.evm.credited = e.credited := by
  refine ⟨{ c with evm := { e with bal := upd2 e.bal 0 (releaseTo p) (c.evm.bal 0 (releaseTo p)) } }, ?_, rfl, ?_, rfl⟩
  · unfold onRecv
    simp only [hrt, hb, hcall, ne_eq, not_false_eq_true, and_self, ↓reduceIte]
  · simp [upd2]

/-- **An error acknowledgement leaves the destination unchanged** — for every packet (with or without call data, with or
without transfer data) and every class of failure (the contract returned a non-zero result code; the EVM call reverted;
a post-transaction hook failed after the EVM state had been written; the write-back of the EVM state itself failed
half-way): after an accepted receive whose acknowledgement is not a success, the WHOLE chain state — EVM state (balances,
escrow, `outTokens`, supplies, bindings, every contract field), commitments, sequences — is the state before the receive;
exactly the receipt and the acknowledgement have been added. -/
theorem recv_error_ack_leaves_destination_unchanged (cfg : Cfg) (me : ChainId) (c c' : Chain) (p : Packet)
    (h : recvHandler true cfg me c p = some c') (herr : c'.acks p.src p.seq ≠ some 0) :
    ∃ code, code ≠ 0 ∧ c' = withAck (ctxOf c p) p code := by
  have ha : RecvAccepts cfg me c p := by
    unfold recvHandler at h
    split at h
    · cases h
    rename_i h1
    split at h
    · cases h
    rename_i h2
    split at h
    · cases h
    rename_i h3
    refine ⟨Decidable.of_not_not h1, ?_, ?_⟩
    · cases hb : c.receipts p.src p.seq
      · rfl
      · exact absurd hb h2
    · cases hb : cfg.clients p.src
      · simp [hb] at h3
      · rfl
  rw [recvHandler_eq cfg me c p ha] at h
  split at h
  · have := (Option.some.inj h).symm; subst this
    exfalso; apply herr; simp [withAck, upd2]
  · exact ⟨1, by omega, (Option.some.inj h).symm⟩
  · rename_i code c2 hcb
    exact ⟨code, onRecv_err hcb, (Option.some.inj h).symm⟩
  · exact ⟨1, by omega, (Option.some.inj h).symm⟩
  · exact ⟨1, by omega, (Option.some.inj h).symm⟩

/-- the relayer step: a receive that ends in an error acknowledgement changes nothing on any chain but the receipt and
the acknowledgement on the destination -/
theorem recv_step_error_ack_unchanged (w : World) (hw : WF w) (s d : ChainId) (q : Nat) (signer : Acct)
    (herr : ((step true w (.recv s d q signer)).chains d).acks s q ≠ some 0) :
    ∀ i, ((step true w (.recv s d q signer)).chains i).evm = (w.chains i).evm ∧
         ((step true w (.recv s d q signer)).chains i).commits = (w.chains i).commits ∧
         ((step true w (.recv s d q signer)).chains i).nextSeq = (w.chains i).nextSeq := by
  intro i
  simp only [step] at herr ⊢
  split
  · exact ⟨rfl, rfl, rfl⟩
  rename_i p hf
  obtain ⟨hmem, hpd, hps⟩ := findPacket_some hf
  have hsrc : p.src = s := (hw.pkt s p hmem).1
  split
  · exact ⟨rfl, rfl, rfl⟩
  rename_i tag htag
  split
  · exact ⟨rfl, rfl, rfl⟩
  rename_i c' hr
  simp only [hf, htag, hr] at herr
  by_cases hi : i = d
  · subst hi
    have herr' : c'.acks p.src p.seq ≠ some 0 := by
      rw [hsrc, hps]
      intro h0; apply herr
      show ((w.set i c').chains i).acks s q = some 0
      rw [set_chains_eq]; exact h0
    obtain ⟨code, _, hc⟩ := recv_error_ack_leaves_destination_unchanged _ _ _ _ p hr herr'
    show (((w.set i c').chains i).evm = _) ∧ _
    rw [set_chains_eq, hc]
    exact ⟨rfl, rfl, rfl⟩
  · show (((w.set d c').chains i).evm = _) ∧ _
    rw [set_chains_ne _ _ hi]
    exact ⟨rfl, rfl, rfl⟩

/-! the change of `seeded/C03-8` in the model: plain transfers (no call data) run on `ctx` itself, everything else on the
cache context — and a concrete packet on which that loses value: 400 of the native coin released to a blocked account -/

def recvHandlerPlainOnCtx (cfg : Cfg) (self : ChainId) (c : Chain) (p : Packet) : Option Chain :=
  if p.call = .none then recvHandler false cfg self c p else recvHandler true cfg self c p

/-- chain 0 holds 1000 of its native coin in escrow for chain 1 -/
def cHome : Chain :=
  { Chain.empty with evm := { Evm.empty with bal := fun t a => if t = 0 ∧ a = acEndpoint then 1000 else 0,
                                             out := fun t d => if t = 0 ∧ d = 1 then 1000 else 0 } }
/-- 400 of the voucher come home from chain 1, to be released to the gov module account (13) -/
def pHome : Packet :=
  { src := 1, dst := 0, seq := 1, sender := 0, transfer := some { token := 2, ori := some 0, amount := 400, receiver := 13 },
    call := .none, callback := false }

example :
    -- repaired handler: error acknowledgement 1, escrow and outTokens untouched
    ((recvHandler true cfgA 0 cHome pHome).map fun c => (c.acks 1 1, c.evm.out 0 1, c.evm.bal 0 acEndpoint, c.evm.bal 0 13))
      = some (some 1, 1000, 1000, 0) ∧
    -- plain transfers on ctx: the same error acknowledgement (the source will refund the 400) — but 400 have left the escrow
    ((recvHandlerPlainOnCtx cfgA 0 cHome pHome).map fun c => (c.acks 1 1, c.evm.out 0 1, c.evm.bal 0 acEndpoint, c.evm.bal 0 13))
      = some (some 1, 600, 600, 0) := by decide

/-- **Module-initiated calls run the packet hook over their logs exactly like user transactions**: whenever the receive
callback (a module-initiated EVM call) succeeds, either it announced no packet and the commitments are as before, or the
packet it announced (the agent's nested `crossChainCall`: escrowed / burnt inside that call) has been committed by the
hook of that very call and the send counter advanced — there is no successful module call whose `PacketSent` event has
no commitment. (The fee payout and the callbacks of an acknowledgement go through the same `CallEVMWithData`; the source
fact that no contract method is exempt from the hooks is the guard fact on `Keeper.CallPacket` / `CallEVMWithData`.) -/
theorem module_call_hooks_run {cfg : Cfg} {me : ChainId} {c c2 : Chain} {p : Packet}
    (h : onRecv cfg me c p = .ok c2) :
    c2.commits = c.commits ∨ ∃ p2, c2.commits = p2 :: c.commits ∧ c2.nextSeq p2.dst = p2.seq + 1 := by
  obtain ⟨e, tok, k, _, hcase⟩ := onRecv_ok h
  rcases hcase with h1 | ⟨a, e3, p2, sq, _, _, hk⟩
  · left; subst h1; rfl
  · right
    unfold sendKeeper at hk
    split at hk
    · have := (Option.some.inj hk).symm; subst this
      exact ⟨p2, rfl, by simp [upd1]⟩
    · cases hk

/-- **An acknowledgement touches only its own packet.** Whatever its outcome (accepted with any code, rejected), the
relay of the acknowledgement of packet (s → d, q) is a frame on every other packet: every other chain is unchanged, and on
the source every commitment other than that of (d, q) is still there — so each of those packets can still be
acknowledged (delivered-and-settled or refunded) later, in whatever order the acknowledgements arrive and however many
packets are in flight on the path; no commitment appears; counters, receipts and acknowledgements of the source are as
before. (Store keys of different sequences never alias in the model: commitments are a set of packets keyed by
(dst, seq); the harness checks the same of the real store, where `…/sequences/1` is a byte prefix of `…/sequences/10`.) -/
theorem ack_touches_only_its_packet (w : World) (s d : ChainId) (q : Nat) :
    let w' := step true w (.ack s d q)
    (∀ i, i ≠ s → w'.chains i = w.chains i) ∧
    (∀ p', p' ∈ (w.chains s).commits → ¬ (p'.dst = d ∧ p'.seq = q) → p' ∈ (w'.chains s).commits) ∧
    (∀ p', p' ∈ (w'.chains s).commits → p' ∈ (w.chains s).commits) ∧
    (w'.chains s).nextSeq = (w.chains s).nextSeq ∧ (w'.chains s).receipts = (w.chains s).receipts ∧
    (w'.chains s).acks = (w.chains s).acks := by
  simp only [step]
  split
  · exact ⟨fun _ _ => rfl, fun _ h _ => h, fun _ h => h, rfl, rfl, rfl⟩
  rename_i p hf
  obtain ⟨_, hpd, hps⟩ := findPacket_some hf
  split
  · exact ⟨fun _ _ => rfl, fun _ h _ => h, fun _ h => h, rfl, rfl, rfl⟩
  split
  · exact ⟨fun _ _ => rfl, fun _ h _ => h, fun _ h => h, rfl, rfl, rfl⟩
  rename_i c ha
  obtain ⟨_, e⟩ := ack_eff (ackMsg_some ha).1
  refine ⟨fun i hi => set_chains_ne _ _ hi, ?_, ?_, ?_, ?_, ?_⟩
  · intro p' hm hne
    rw [set_chains_eq, e.commits]
    have : p' ≠ p := fun h => hne (by rw [h]; exact ⟨hpd, hps⟩)
    exact (List.mem_erase_of_ne this).mpr hm
  · intro p' hm
    rw [set_chains_eq, e.commits] at hm
    exact List.mem_of_mem_erase hm
  · rw [set_chains_eq]; exact e.nextSeq
  · rw [set_chains_eq]; exact e.receipts
  · rw [set_chains_eq]; exact e.acks

/-- … in particular a packet that is `Pending` stays `Pending` through the acknowledgement of any other packet -/
theorem pending_survives_foreign_ack (w : World) (s d : ChainId) (q : Nat) (S D : ChainId) (q' : Nat)
    (hp : Pending w S D q') (hne : ¬ (S = s ∧ D = d ∧ q' = q)) : Pending (step true w (.ack s d q)) S D q' := by
  obtain ⟨p', hm, h1, h2⟩ := hp
  obtain ⟨hother, hkeep, _⟩ := ack_touches_only_its_packet w s d q
  by_cases hS : S = s
  · subst hS
    refine ⟨p', hkeep p' hm ?_, h1, h2⟩
    intro hh; exact hne ⟨rfl, h1 ▸ hh.1, h2 ▸ hh.2⟩
  · refine ⟨p', ?_, h1, h2⟩
    rw [hother S hS]; exact hm

/-! ### module-initiated calls WITHOUT hooks (aggregate conversions of a programmable token) -/

/-- frames that announce no packet leave the bridge bookkeeping alone -/
theorem batchEvm_nosend (cfg : Cfg) (self : ChainId) (seq0 : ChainId → Nat) (strict : Bool) :
    ∀ (legs : List Leg) (e e1 : Evm) (logs : List SentLog), (∀ l ∈ legs, l.isSend = false) →
      batchEvm cfg self seq0 strict e legs = some (e1, logs) → BridgeLe e e1
  | [], e, e1, logs, _, h => by
    simp only [batchEvm] at h
    have := (Prod.mk.inj (Option.some.inj h)).1.symm; subst this
    exact ⟨rfl, rfl, rfl, rfl, rfl, rfl, fun _ => Nat.le_refl _⟩
  | .approve t n :: ls, e, e1, logs, hno, h => by
    simp only [batchEvm] at h
    have ih := batchEvm_nosend cfg self seq0 strict ls _ e1 logs (fun l hl => hno l (List.mem_cons_of_mem _ hl)) h
    exact ⟨ih.out, ih.bindAmt, ih.credited, ih.refunded, ih.feePaid, ih.fee, ih.bal⟩
  | .fakelog q :: ls, e, e1, logs, hno, h => by
    simp only [batchEvm] at h
    split at h
    · cases h
    · rename_i e2 ps hb
      have he : e1 = e2 := (Prod.mk.inj (Option.some.inj h)).1.symm
      subst he
      exact batchEvm_nosend cfg self seq0 strict ls e e1 ps (fun l hl => hno l (List.mem_cons_of_mem _ hl)) hb
  | .send a :: ls, e, e1, logs, hno, _ => by
    have := hno (.send a) (List.mem_cons_self ..)
    simp [Leg.isSend] at this

/-- **Conservation holds across a hook-less module call IF the call announces no packet.** The hypothesis `hno` — the
token's code emits no `PacketSent` inside `transfer` / `mint` / `burn` — is exactly what the code does NOT enforce: the
aggregate keeper commits whatever the token contract did and runs no post-transaction hook (see the witness below and
the standing finding `C03:value-locked-without-commitment:aggregate-conversion:*`). All theorems about `run` are about
histories whose steps are the `Step`s of the model; a conversion of a programmable token is not one of them. -/
theorem conservation_if_module_calls_emit_no_send (w : World) (i : ChainId) (legs : List Leg) (c' : Chain)
    (h : Inv w) (hno : ∀ l ∈ legs, l.isSend = false)
    (hc : moduleCallNoHooks (w.cfg i) i (w.chains i) legs = some c') : Inv (w.set i c') := by
  unfold moduleCallNoHooks at hc
  split at hc
  · cases hc
  · rename_i e1 logs hb
    have := (Option.some.inj hc).symm; subst this
    have hle := batchEvm_nosend _ _ _ _ legs _ e1 logs hno hb
    exact inv_frame w i _ h.1 h.2 rfl rfl rfl rfl hle.out hle.bindAmt

/-- … and without the hypothesis it fails: the token's `transfer` bridges 300 of a token it holds (one `crossChainCall`
frame): escrow and `outTokens` grow by 300, no commitment is stored, the counter does not move — not conserved. -/
def wTok : World := run true w3 [.transfer 0 1 0 acForwarder 3000]

theorem module_call_send_values :
    ((moduleCallNoHooks cfgA3 0 (wTok.chains 0) [.approve 1 100000, leg 1 300 0]).map
      fun c => (c.evm.out 1 1, c.evm.bal 1 acEndpoint, c.commits.length, c.nextSeq 1)) = some (300, 300, 0, 1) := by decide

theorem module_call_send_breaks_conservation :
    ∃ c', moduleCallNoHooks (wTok.cfg 0) 0 (wTok.chains 0) [.approve 1 100000, leg 1 300 0] = some c' ∧
      ¬ Conserved (wTok.set 0 c') := by
  cases hc : moduleCallNoHooks (wTok.cfg 0) 0 (wTok.chains 0) [.approve 1 100000, leg 1 300 0] with
  | none =>
    have hs : (moduleCallNoHooks (wTok.cfg 0) 0 (wTok.chains 0) [.approve 1 100000, leg 1 300 0]).isSome = true := by decide
    rw [hc] at hs; cases hs
  | some c' =>
    refine ⟨c', rfl, ?_⟩
    intro h
    have h1 := h 0 1 1 (by decide)
    unfold eqn at h1
    rw [set_cfg] at h1
    have htr : (wTok.cfg 1).trace 0 1 = some 2 := by decide
    have hsc : (wTok.cfg 1).scale 2 0 = 0 := by decide
    rw [htr] at h1
    simp only [hsc] at h1
    have hv : (c'.evm.out 1 1, c'.commits, (wTok.chains 1).evm.bindAmt 2 0, (wTok.chains 1).commits) = (300, [], 0, []) := by
      have : (some c').map (fun c => (c.evm.out 1 1, c.commits, (wTok.chains 1).evm.bindAmt 2 0, (wTok.chains 1).commits)) = some (300, [], 0, []) := by
        rw [← hc]; decide
      exact Option.some.inj this
    have e1 : c'.evm.out 1 1 = 300 := congrArg (·.1) hv
    have e2 : c'.commits = [] := congrArg (·.2.1) hv
    have e3 : (wTok.chains 1).evm.bindAmt 2 0 = 0 := congrArg (·.2.2.1) hv
    have e4 : (wTok.chains 1).commits = [] := congrArg (·.2.2.2) hv
    have s0 : ((wTok.set 0 c').chains 0) = c' := set_chains_eq _ _ _
    have s1 : ((wTok.set 0 c').chains 1) = wTok.chains 1 := set_chains_ne _ _ (by decide)
    rw [s0, s1, e1, e2, e3, e4] at h1
    simp [flight] at h1

end TM.World
