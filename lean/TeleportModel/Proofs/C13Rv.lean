import TeleportModel.Proofs.C13
/-
C13 — x/rvesting genesis: parameters round-trip (`roundtrip_params`), an export never carries `From`, and InitGenesis with
`From` funding moves exactly `InitReward` from the funding account to the vesting pool or panics.
(The mismatch "ValidateGenesis validated PerBlockReward only when vesting was enabled while SetParamSet always validates" was
repaired under C15: /repo 7695f9c "fix: rvesting genesis validation validates PerBlockReward unconditionally"; parameters are
opaque validated blobs here.)
-/
namespace TM.Genesis
open TM TM.GKv

/-- InitGenesis of an exported rvesting genesis restores the parameters and touches no balance -/
theorem initRvesting_export (pool : Bytes) (bal : Balances) {p : Store} (hp : Sorted p) :
    initRvesting pool bal (exportRvesting p) = .ok { p := p, bal := bal } := by
  simp [initRvesting, exportRvesting, roundtrip_params hp]

theorem foldl_add_acc (l : List (Bytes × Nat)) (a : Nat) :
    l.foldl (fun a c => a + c.2) a = a + l.foldl (fun a c => a + c.2) 0 := by
  induction l generalizing a with
  | nil => simp
  | cons c r ih => simp only [List.foldl_cons]; rw [ih, ih (0 + c.2)]; omega

theorem amountOf_cons (c : Bytes × Nat) (r : List (Bytes × Nat)) (d : Bytes) :
    amountOf (c :: r) d = (if c.1 = d then c.2 else 0) + amountOf r d := by
  unfold amountOf
  by_cases e : c.1 = d
  · simp only [List.filter, e, decide_true, List.foldl_cons, if_true]
    rw [foldl_add_acc]; omega
  · simp [List.filter, e]

theorem amountOf_absent (r : List (Bytes × Nat)) (d : Bytes) (h : d ∉ r.map (·.1)) : amountOf r d = 0 := by
  induction r with
  | nil => rfl
  | cons c r ih =>
    rw [amountOf_cons]
    have h1 : c.1 ≠ d := fun e => h (by simp [e])
    have h2 : d ∉ r.map (·.1) := fun m => h (by simp at m ⊢; exact Or.inr m)
    simp [h1, ih h2]

/-- with distinct denominations (`Coins.Validate`) "every coin is covered" means the whole amount per denomination is covered -/
theorem amountOf_le_of_canPay {bal : Balances} {sender : Bytes} {coins : List (Bytes × Nat)}
    (hnd : (coins.map (·.1)).Nodup) (hpay : canPay bal sender coins = true) (d : Bytes) :
    amountOf coins d ≤ bal sender d := by
  induction coins with
  | nil => simp [amountOf]
  | cons c r ih =>
    simp only [canPay, List.all_cons, Bool.and_eq_true, decide_eq_true_eq] at hpay
    simp only [List.map_cons, List.nodup_cons] at hnd
    rw [amountOf_cons]
    by_cases e : c.1 = d
    · subst e
      rw [amountOf_absent r _ hnd.1]
      simp; exact hpay.1
    · simp only [e, if_false, Nat.zero_add]
      exact ih hnd.2 (by simpa [canPay] using hpay.2)

/-- **InitGenesis with `From` funding**: state after init = the genesis parameters + a pool funded with exactly `InitReward`,
taken from `From`; nobody else's balance moves, nothing is created or destroyed -/
theorem initRvesting_funded (pool : Bytes) (bal : Balances) (g : RvGenesis)
    (hs : g.sender ≠ []) (hv : g.fromValid = true) (hne : g.sender ≠ pool)
    (hnd : (g.initReward.map (·.1)).Nodup) (hpay : canPay bal g.sender g.initReward = true) :
    ∃ st, initRvesting pool bal g = .ok st ∧ st.p = initParams g.params ∧
      (∀ d, st.bal pool d = bal pool d + amountOf g.initReward d) ∧
      (∀ d, st.bal g.sender d + amountOf g.initReward d = bal g.sender d) ∧
      (∀ a d, a ≠ pool → a ≠ g.sender → st.bal a d = bal a d) ∧
      (∀ d, st.bal pool d + st.bal g.sender d = bal pool d + bal g.sender d) := by
  refine ⟨{ p := initParams g.params, bal := sendCoins bal g.sender pool g.initReward }, ?_, rfl, ?_, ?_, ?_, ?_⟩
  · simp [initRvesting, hs, hv, hpay]
  · intro d
    have : pool ≠ g.sender := fun e => hne e.symm
    simp [sendCoins, hne, this]
  · intro d
    have := amountOf_le_of_canPay hnd hpay d
    simp only [sendCoins, hne, if_false, if_true]
    omega
  · intro a d h1 h2
    simp [sendCoins, hne, h1, h2]
  · intro d
    have := amountOf_le_of_canPay hnd hpay d
    have hp : pool ≠ g.sender := fun e => hne e.symm
    simp only [sendCoins, hne, if_false, hp, if_true]
    omega

/-- InitGenesis with `From` panics exactly when the address does not parse or the account cannot pay (a validated genesis can
still panic on the second condition: `ValidateGenesis` cannot see balances) -/
theorem initRvesting_panics_iff (pool : Bytes) (bal : Balances) (g : RvGenesis) (hs : g.sender ≠ []) :
    (initRvesting pool bal g).isPanic = true ↔ (g.fromValid = false ∨ canPay bal g.sender g.initReward = false) := by
  unfold initRvesting
  simp only [hs, if_false]
  cases g.fromValid <;> cases canPay bal g.sender g.initReward <;> simp [Outcome.isPanic]

/-! ## parameters: export / import is the identity on the WHOLE validated domain -/

/-- **rvesting parameters round-trip for every list the module's validator accepts** — unsorted lists, zero amounts (one or
all), one or many denominations, vesting enabled or not: the export carries the parameters as stored, they pass the module's own
genesis validation, and InitGenesis (`SetParamSet`) stores exactly them -/
theorem rv_params_roundtrip (p : RvParams) (h : validateRvParams p = true) :
    validateRvParams (exportRvParams p) = true ∧ setRvParams (exportRvParams p) = .ok p := by
  simp [exportRvParams, setRvParams, h]

/-- what a parameter-change proposal accepts, the genesis path accepts and reproduces -/
theorem rv_update_then_roundtrip (cur p : RvParams) (st : RvParams) (h : updateRvParams cur p = .ok st) :
    setRvParams (exportRvParams st) = .ok st := by
  unfold updateRvParams at h
  split at h
  · next hv =>
    injection h with h; subst h
    exact (rv_params_roundtrip _ hv).2
  · simp at h

theorem sorted_rvParamsKV_store (p : RvParams) : Sorted (setAll [] (rvParamsKV p)) := sorted_setAll sorted_nil _

/-- the same on the level of the parameter subspace entries -/
theorem rv_params_kv_roundtrip (p : RvParams) :
    initParams (exportParams (setAll [] (rvParamsKV p))) = setAll [] (rvParamsKV p) :=
  roundtrip_params (sorted_rvParamsKV_store p)

/-- validated but not canonical: `5zzz,7aaa` (unsorted) and `100atele,0paused` (a zero amount), `0atele` (all zero) -/
def rvUnsorted : RvParams := ⟨true, [⟨"zzz", some 5⟩, ⟨"aaa", some 7⟩]⟩
def rvOneZero : RvParams := ⟨false, [⟨"atele", some 100⟩, ⟨"paused", some 0⟩]⟩
def rvAllZero : RvParams := ⟨true, [⟨"atele", some 0⟩]⟩

/-- why an export that canonicalises the reward list (`sdk.NewCoins`: sort, drop zeros) violates the property: all three lists are
accepted by the validator, the canonical form differs from what is stored, and for the all-zero list the canonical export is
empty and FAILS the module's own genesis validation -/
theorem canonical_export_breaks_roundtrip :
    (validateRvParams rvUnsorted = true ∧ canonCoins rvUnsorted.reward ≠ rvUnsorted.reward) ∧
    (validateRvParams rvOneZero = true ∧ canonCoins rvOneZero.reward ≠ rvOneZero.reward) ∧
    (validateRvParams rvAllZero = true ∧ canonCoins rvAllZero.reward = [] ∧
      validateRvParams { rvAllZero with reward := canonCoins rvAllZero.reward } = false) := by
  decide

end TM.Genesis
