import TeleportModel.Model.Host
import TeleportModel.Generated.HostKeys
import TeleportModel.Generated.Parsers
import TeleportModel.Proofs.C19Host
import TeleportModel.Proofs.C19Cons
/-
C19 (part 8) — builder / parser pairs. Every function that reads a key or a text form back is transcribed by tools/gofacts
into a small record (separator, positions, slice bounds, decoder, number base) whose interpreter lives in Model/Host.lean;
here each interpreter is proved to invert the builder template it is paired with, and the regenerated records / templates
are shown (by `decide`) to be of the shape the round trip needs. A changed formatting verb (Itoa(int(..)) instead of %d),
a TrimRight, a dropped revision or a moved slice changes the record or makes the translator refuse the source.
-/
namespace TM.C19
open TM TM.Host TM.Generated

theorem toDec_noByte (n : UInt64) (c : UInt8) (hc : isDigit c = false) : c ∉ toDec n := by
  intro h
  have := toDecF_digits 20 n.toNat c h
  rw [hc] at this; cases this

/-! ### Height.String / ParseHeight -/

def heightStringShape : Template := { params := [.height], segs := [.decRev 0, .lit [45], .decHeight 0] }
def parseHeightShape : HeightParser := { sep := 45, parts := 2, revIdx := 0, heightIdx := 1, base := 10, bits := 64 }

theorem render_heightString (r h : UInt64) :
    render heightStringShape [.h r h] = some (toDec r ++ 45 :: toDec h) := by
  simp [render, renderSegs, renderSeg, Arg.ty, heightStringShape]

theorem parseHeightP_text (r h : UInt64) : parseHeightP parseHeightShape (toDec r ++ 45 :: toDec h) = some (r, h) := by
  unfold parseHeightP
  have hs : splitOn 45 (toDec r ++ 45 :: toDec h) = [toDec r, toDec h] := by
    rw [splitOn_append 45 _ _ (toDec_noByte r 45 (by decide)), splitOn_noSep 45 _ (toDec_noByte h 45 (by decide))]
  simp [parseHeightShape, hs, parseUintP, dec_roundtrip]

/-- **ParseHeight (Height.String h) = h** for ALL uint64 revision numbers and heights -/
theorem height_text_roundtrip (T : Template) (p : HeightParser) (r h : UInt64) (s : Bytes)
    (hT : T = heightStringShape) (hp : p = parseHeightShape) (hs : render T [.h r h] = some s) :
    parseHeightP p s = some (r, h) := by
  subst hT; subst hp
  rw [render_heightString] at hs; cases hs
  exact parseHeightP_text r h

/-- the `%s` of a Height inside other templates (segment `.heightStr`) is Height.String -/
theorem heightStr_is_heightString (r h : UInt64) :
    renderSeg [.h r h] (.heightStr 0) = render heightStringShape [.h r h] := by
  simp [render_heightString, renderSeg]

/-! ### GetHeightFromIterationKey -/

theorem decodeBE_be8 (d : BEDecoder) (n : UInt64) : decodeBE d (be8 n) = .ok n := by
  have t8 : (be8 n).take 8 = be8 n := by
    have := List.take_length (l := be8 n); rwa [be8_length] at this
  cases d <;> simp [decodeBE, bigEndianToUint64, be8_length, t8, ofBE_be8]

/-- **GetHeightFromIterationKey (key built for h) = h** for every parser record of the transcribed shape and the builder
    template `<skip> ++ 8 bytes revision ++ 8 bytes height` — ALL uint64 revisions and heights -/
theorem iterkey_height_roundtrip (p : IterKeyParser) (T : Template) (r h : UInt64) (k : Bytes)
    (hT : T = { params := [.height], segs := [.lit p.skip, .revBE 0, .heightBE 0] })
    (h0 : p.revLo = 0) (h1 : p.revHi = 8) (h2 : p.heightLo = 8)
    (hk : render T [.h r h] = some k) : heightFromIterKey p k = .ok (r, h) := by
  rw [hT] at hk
  simp [render, renderSegs, renderSeg, Arg.ty] at hk
  subst hk
  have h8 : (be8 r ++ be8 h).take 8 = be8 r := by
    have := List.take_left (l₁ := be8 r) (l₂ := be8 h); rwa [be8_length] at this
  have d8 : (be8 r ++ be8 h).drop 8 = be8 h := by
    have := List.drop_left (l₁ := be8 r) (l₂ := be8 h); rwa [be8_length] at this
  unfold heightFromIterKey
  rw [h0, h1, h2]
  simp [be8_length, h8, d8, decodeBE_be8]

/-! ### iterateHashes / ParsePath -/

def iterateHashesShape : HashKeyParser := { sep := 47, srcIdx := 1, dstIdx := 2, seqFromEnd := 1, base := 10, bits := 64 }
def parsePathShape : PathParser := { sep := 47, minParts := 3, srcIdx := 1, dstIdx := 2 }

theorem getD_last (ks : List Bytes) (h : ks ≠ []) : ks.getD (ks.length - 1) [] = ks.getLastD [] := by
  induction ks with
  | nil => exact absurd rfl h
  | cons a r ih =>
    cases r with
    | nil => simp
    | cons b r' =>
      have := ih (by simp)
      simp at this ⊢
      exact this

/-- the interpreter of the regenerated `iterateHashes` record is the parser all packet-key theorems are about -/
theorem parseHashesKeyP_eq (key : Bytes) : parseHashesKeyP iterateHashesShape key = parseHashesKey key := by
  unfold parseHashesKeyP parseHashesKey
  have hne := splitOn_ne_nil slash key
  simp only [iterateHashesShape, show (47 : UInt8) = slash from rfl, parseUintP, and_self, if_true]
  rw [getD_last _ hne]
  have hl : ¬ (splitOn slash key).length < 1 := by
    cases hs : splitOn slash key with
    | nil => exact absurd hs hne
    | cons a r => simp
  simp only [hl, if_false]

/-- **iterateHashes (key built for (src, dst, seq)) = (src, dst, seq)** — '/'-free names (ending in ANY character,
    the letters of "sequences" included) and ALL uint64 sequences -/
theorem hashkey_parse_roundtrip (p : HashKeyParser) (T : Template) (p0 m0 a b k : Bytes) (n : UInt64)
    (hp : p = iterateHashesShape) (hT : PacketShape T p0 m0)
    (ha : slash ∉ a) (hb : slash ∉ b) (hk : render T [.s a, .s b, .n n] = some k) :
    parseHashesKeyP p k = .ok (a, b, n) := by
  subst hp
  rw [parseHashesKeyP_eq]
  exact packet_key_parses T p0 m0 a b k n hT ha hb hk

theorem parsePathP_eq (path : Bytes) : parsePathP parsePathShape path = parsePath path := by
  unfold parsePathP parsePath
  simp only [parsePathShape, show (47 : UInt8) = slash from rfl]
  rcases hs : splitOn slash path with _ | ⟨a, _ | ⟨b, _ | ⟨c, r⟩⟩⟩ <;> simp

/-- host.ParsePath (next-sequence key of (src, dst)) = (src, dst) -/
theorem path_parse_roundtrip (p : PathParser) (T : Template) (p0 a b k : Bytes) (hp : p = parsePathShape)
    (hT : PairShape T p0) (ha : slash ∉ a) (hb : slash ∉ b) (hk : render T [.s a, .s b] = some k) :
    parsePathP p k = .ok (a, b) := by
  subst hp
  rw [parsePathP_eq]
  exact pair_key_parses T p0 a b k hT ha hb hk

/-! ### bsc recent-signer keys: "<recentSingers>/<height as text>" -/

def SignerKeyShape (T : Template) (pre : Bytes) : Prop :=
  T = { params := [.height], segs := [.lit (pre ++ [slash]), .heightStr 0] } ∧ slash ∉ pre

instance (T : Template) (pre : Bytes) : Decidable (SignerKeyShape T pre) := by unfold SignerKeyShape; infer_instance

/-- **the height read from a recent-signer key is the height it was written for** (GetRecentSigners, DeleteAllSigner),
    for ALL uint64 revision numbers and heights -/
theorem signer_key_roundtrip (T : Template) (pre : Bytes) (sp : SignerKeyParser) (hp : HeightParser) (r h : UInt64)
    (k : Bytes) (hT : SignerKeyShape T pre) (hs : sp.sep = slash) (hi : sp.heightIdx = 1) (hhp : hp = parseHeightShape)
    (hk : render T [.h r h] = some k) : parseSignerKey sp hp k = .ok (r, h) := by
  rw [hT.1] at hk
  simp [render, renderSegs, renderSeg, Arg.ty] at hk
  subst hk; subst hhp
  have hno : slash ∉ toDec r ++ 45 :: toDec h := by
    intro hm
    simp only [List.mem_append, List.mem_cons] at hm
    rcases hm with hm | hm | hm
    · exact toDec_noSlash r hm
    · exact absurd hm (by decide)
    · exact toDec_noSlash h hm
  unfold parseSignerKey
  rw [hs, hi, splitOn_append slash pre _ hT.2, splitOn_noSep slash _ hno]
  simp [parseHeightP_text]

/-! ### obligations over the regenerated records and templates -/

theorem heightString_shape : Parsers.heightString = heightStringShape := by decide
theorem parseHeight_shape : Parsers.parseHeight = parseHeightShape := by decide
theorem iterateHashes_shape : Parsers.iterateHashes = iterateHashesShape := by decide
theorem parsePath_shape : Parsers.parsePath = parsePathShape := by decide

/-- a `GetHeightFromIterationKey` record fits the builder template whose keys it reads -/
def IterKeyFits (p : IterKeyParser) (T : Template) : Prop :=
  T = { params := [.height], segs := [.lit p.skip, .revBE 0, .heightBE 0] } ∧ p.revLo = 0 ∧ p.revHi = 8 ∧ p.heightLo = 8

instance (p : IterKeyParser) (T : Template) : Decidable (IterKeyFits p T) := by unfold IterKeyFits; infer_instance

theorem tmIterKey_fits : IterKeyFits Parsers.tmHeightFromIterKey HostKeys.tm_iterationKey := by decide
theorem bscIterKey_fits : IterKeyFits Parsers.bscHeightFromIterKey HostKeys.consensusStateKey := by decide
theorem ethIterKey_fits : IterKeyFits Parsers.ethHeightFromIterKey HostKeys.consensusStateKey := by decide

theorem signerKey_shape : SignerKeyShape HostKeys.bsc_keyRecentSinger GC.recentSignersPrefix := by decide
/-- SetSigner and DeleteSigner address the same key -/
theorem signerKey_delete_same : HostKeys.bsc_deleteSignerKey = HostKeys.bsc_keyRecentSinger := by decide
theorem signerKeyParsers_wf : ∀ sp ∈ Parsers.signerKeyParsers, sp.sep = slash ∧ sp.heightIdx = 1 := by decide

/-- the statements on the generated records -/
theorem generated_height_text_roundtrip (r h : UInt64) (s : Bytes) (hs : render Parsers.heightString [.h r h] = some s) :
    parseHeightP Parsers.parseHeight s = some (r, h) :=
  height_text_roundtrip _ _ r h s heightString_shape parseHeight_shape hs

theorem generated_tm_iterkey_roundtrip (r h : UInt64) (k : Bytes) (hk : render HostKeys.tm_iterationKey [.h r h] = some k) :
    heightFromIterKey Parsers.tmHeightFromIterKey k = .ok (r, h) :=
  iterkey_height_roundtrip _ _ r h k tmIterKey_fits.1 tmIterKey_fits.2.1 tmIterKey_fits.2.2.1 tmIterKey_fits.2.2.2 hk

theorem generated_bsc_iterkey_roundtrip (r h : UInt64) (k : Bytes) (hk : render HostKeys.consensusStateKey [.h r h] = some k) :
    heightFromIterKey Parsers.bscHeightFromIterKey k = .ok (r, h) :=
  iterkey_height_roundtrip _ _ r h k bscIterKey_fits.1 bscIterKey_fits.2.1 bscIterKey_fits.2.2.1 bscIterKey_fits.2.2.2 hk

theorem generated_eth_iterkey_roundtrip (r h : UInt64) (k : Bytes) (hk : render HostKeys.consensusStateKey [.h r h] = some k) :
    heightFromIterKey Parsers.ethHeightFromIterKey k = .ok (r, h) :=
  iterkey_height_roundtrip _ _ r h k ethIterKey_fits.1 ethIterKey_fits.2.1 ethIterKey_fits.2.2.1 ethIterKey_fits.2.2.2 hk

theorem generated_hashkey_roundtrip (a b k : Bytes) (n : UInt64) (ha : slash ∉ a) (hb : slash ∉ b)
    (hk : render HostKeys.packetCommitmentKey [.s a, .s b, .n n] = some k) :
    parseHashesKeyP Parsers.iterateHashes k = .ok (a, b, n) :=
  hashkey_parse_roundtrip _ _ _ _ a b k n iterateHashes_shape commitmentKey_shape ha hb hk

theorem generated_signer_key_roundtrip (sp : SignerKeyParser) (hsp : sp ∈ Parsers.signerKeyParsers) (r h : UInt64) (k : Bytes)
    (hk : render HostKeys.bsc_keyRecentSinger [.h r h] = some k) :
    parseSignerKey sp Parsers.parseHeight k = .ok (r, h) :=
  signer_key_roundtrip _ _ sp _ r h k signerKey_shape (signerKeyParsers_wf sp hsp).1 (signerKeyParsers_wf sp hsp).2 parseHeight_shape hk

/-! ### the seeded defects as witnesses -/

/-- Itoa(int(2^63)) prints "-9223372036854775808": a text with two '-' has three parts and does not parse -/
theorem negative_text_does_not_parse :
    parseHeightP parseHeightShape ([48, 45] ++ (45 :: toDec 9223372036854775808)) = none := by decide

/-- a parser that ignores the revision half reads (3, 7) back as (0, 7) -/
theorem dropped_revision_misreads :
    heightFromIterKey { skip := [], revLo := 8, revHi := 8, heightLo := 8, decoder := .sdkBE } (be8 3 ++ be8 7) = .ok (0, 7) := by
  decide

end TM.C19
