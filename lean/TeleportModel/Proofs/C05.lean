import TeleportModel.Lemmas.Xibc
/-
C05 — acknowledgement lifecycle.

Statements are per store key (`acks/…`, `commitments/…`), which covers every message with the same triple.
Where a hash assumption is needed it is the explicit hypothesis `HashOk env` (sha256 output non-empty; the packet
commitment sha256 ∘ ABIPack is injective on the packets in play — collision-freeness); never an axiom.

Findings of the investigation of the relay branches (documented in docs/C05.md):
 * `AcknowledgePacket`'s `src ≠ self` branch calls SetPacketAcknowledgement without HasPacketAcknowledgement.
   It is dead: `ValidatePacket` forces `dst = self`, the commitment of such a packet would have to exist, and every
   stored commitment belongs to a packet with `src = self` (invariant `CommitsOwn`, established by the empty
   store and preserved by every message) — theorem `ack_relay_branch_dead`.
 * `RecvPacket`'s `dst ≠ self` branch needs `src = self`, i.e. a light client registered under the chain's own
   name (`recv_relay_branch_needs_self_client`). CreateClient does not forbid that name; if such a client exists
   and accepts a proof, the branch overwrites the commitment of an own packet (`self_client_overwrites_commitment`,
   a closed witness on the model) — a governance foot-gun, not reachable while `self ∉ clients`.
-/
namespace TM.Xibc

structure HashOk (env : Env) : Prop where
  nonempty : ∀ b, env.sha256 b ≠ []
  inj : ∀ p q : Packet, env.sha256 (env.encodePacket p) = env.sha256 (env.encodePacket q) → p = q

/-- every stored commitment is the commitment of a packet sent by this chain, under that packet's key -/
def CommitsOwn (env : Env) (c : Chain) : Prop :=
  ∀ k v, c.commits.get k = some v → ∃ q : Packet, q.src = c.name ∧ k = commitKey q ∧ v = env.sha256 (env.encodePacket q)

theorem commitsOwn_init (env : Env) (name : Bytes) : CommitsOwn env (Chain.init name) := by
  intro k v h; simp [Chain.init, Tab.get] at h

theorem validatePacket_side {c : Chain} {p : Packet} (h : validatePacket c p = true) : p.dst = c.name ∨ p.src = c.name := by
  simp only [validatePacket, Bool.and_eq_true, Bool.not_eq_true', Bool.and_eq_false_iff, bne_eq_false_iff_eq] at h
  exact h.2

/-- the commitment key addressed by an acknowledgement message -/
def ackKeyOf (env : Env) : Msg → Option Bytes
  | .acknowledgement packet _ _ _ _ _ => some (commitKey (env.decodePacket packet).1)
  | _ => none

/-! ### how one delivery moves the commitment store -/
inductive CommitStep (env : Env) (c c' : Chain) (m : Msg) : Prop
  | same (h : c'.commits = c.commits)
  | sent (p : Packet) (hm : ∃ ok, m = .sendPacket p ok) (hsrc : p.src = c.name)
      (h : c'.commits = c.commits.set (commitKey p) (env.sha256 (env.encodePacket p)))
  | relayed (packet proof : Bytes) (ht : Height) (signer : Bytes) (cb : Callback)
      (hm : m = .recvPacket packet proof ht signer cb)
      (hsrc : (env.decodePacket packet).1.src = c.name) (hdst : (env.decodePacket packet).1.dst ≠ c.name)
      (hself : c.clients.has c.name = true)
      (h : c'.commits = c.commits.set (commitKey (env.decodePacket packet).1)
            (env.sha256 (env.encodePacket (env.decodePacket packet).1)))
  | acked (packet ack proof : Bytes) (ht : Height) (signer : Bytes) (o : EvmOut)
      (hm : m = .acknowledgement packet ack proof ht signer o)
      (hstored : (c.commits.get (commitKey (env.decodePacket packet).1)).getD [] =
          env.sha256 (env.encodePacket (env.decodePacket packet).1))
      (h : c'.commits = c.commits.del (commitKey (env.decodePacket packet).1))

theorem deliver_commitStep (env : Env) (c : Chain) (now : UInt64) (m : Msg) :
    CommitStep env c (deliver env c now m).1 m := by
  rcases deliver_cases env c now m with ⟨c', hh, hd⟩ | ⟨e, _, hd⟩
  · rw [hd]
    cases m with
    | recvPacket packet proof h signer cb =>
      have eff := handle_recv_effect hh
      obtain ⟨relayer, _, ae⟩ := eff.relayer
      cases ae with
      | relayed hdst hc _ _ _ hcm =>
        have hsrc : (env.decodePacket packet).1.src = c.name := by
          rcases validatePacket_side eff.valid with h1 | h1
          · exact absurd h1 hdst
          · exact h1
        obtain ⟨cl, hcl, _⟩ := eff.verified
        have hself : c.clients.has c.name = true := by
          rw [← hsrc, Tab.has_eq_true_iff]; exact ⟨cl, hcl⟩
        exact .relayed packet proof h signer cb rfl hsrc hdst hself hcm
      | acked _ _ _ _ _ hcm _ => exact .same hcm
    | acknowledgement packet ack proof h signer o =>
      have eff := handle_ack_effect hh
      exact .acked packet ack proof h signer o rfl eff.committed eff.commits
    | sendPacket p ok =>
      obtain ⟨_, hsrc, _, _, he⟩ := sendPacket_ok hh
      subst he
      exact .sent p ⟨ok, rfl⟩ hsrc rfl
    | updateClient chain h root signer ok => obtain ⟨cls, he⟩ := updateClient_ok hh; subst he; exact .same rfl
    | toggleClient chain cl => obtain ⟨cls, he⟩ := toggleClient_ok (by simpa [handle] using hh); subst he; exact .same rfl
    | upgradeClient chain cl => obtain ⟨cls, he⟩ := upgradeClient_ok (by simpa [handle] using hh); subst he; exact .same rfl
    | createClient chain cl => simp only [handle] at hh; injection hh with hh; subst hh; exact .same rfl
    | registerRelayer r => simp only [handle] at hh; injection hh with hh; subst hh; exact .same rfl
    | restart => simp only [handle] at hh; injection hh with hh; subst hh; exact .same rfl
  · rw [hd]; exact .same rfl

theorem deliver_name (env : Env) (c : Chain) (now : UInt64) (m : Msg) : (deliver env c now m).1.name = c.name := by
  rcases deliver_cases env c now m with ⟨c', hh, hd⟩ | ⟨e, _, hd⟩
  · rw [hd]
    cases m with
    | recvPacket packet proof h signer cb => exact (handle_recv_effect hh).name
    | acknowledgement packet ack proof h signer o => exact (handle_ack_effect hh).name
    | sendPacket p ok => obtain ⟨_, _, _, _, he⟩ := sendPacket_ok hh; subst he; rfl
    | updateClient chain h root signer ok => obtain ⟨cls, he⟩ := updateClient_ok hh; subst he; rfl
    | toggleClient chain cl => obtain ⟨cls, he⟩ := toggleClient_ok (by simpa [handle] using hh); subst he; rfl
    | upgradeClient chain cl => obtain ⟨cls, he⟩ := upgradeClient_ok (by simpa [handle] using hh); subst he; rfl
    | createClient chain cl => simp only [handle] at hh; injection hh with hh; subst hh; rfl
    | registerRelayer r => simp only [handle] at hh; injection hh with hh; subst hh; rfl
    | restart => simp only [handle] at hh; injection hh with hh; subst hh; rfl
  · rw [hd]

theorem commitsOwn_deliver (env : Env) (c : Chain) (now : UInt64) (m : Msg) (h : CommitsOwn env c) :
    CommitsOwn env (deliver env c now m).1 := by
  have hn := deliver_name env c now m
  intro k v hk
  rw [hn]
  cases deliver_commitStep env c now m with
  | same he => rw [he] at hk; exact h k v hk
  | sent p _ hsrc he =>
    rw [he, Tab.get_set] at hk
    split at hk
    · rename_i hkk; injection hk with hk; exact ⟨p, hsrc, hkk, hk.symm⟩
    · exact h k v hk
  | relayed packet proof ht signer cb _ hsrc _ _ he =>
    rw [he, Tab.get_set] at hk
    split at hk
    · rename_i hkk; injection hk with hk; exact ⟨_, hsrc, hkk, hk.symm⟩
    · exact h k v hk
  | acked packet ack proof ht signer o _ _ he =>
    rw [he, Tab.get_del] at hk
    split at hk
    · cases hk
    · exact h k v hk

theorem commitsOwn_run (env : Env) (c : Chain) (ms : List (UInt64 × Msg)) (h : CommitsOwn env c) :
    CommitsOwn env (run env c ms).1 :=
  run_invariant (CommitsOwn env) (fun c now m hc => commitsOwn_deliver env c now m hc) c ms h

/-! ### the relay branches -/
/-- **relay_branches_dead (acknowledgement side)**: under the commitment invariant and the hash assumption an
accepted acknowledgement always has `src = self`, so the unguarded SetPacketAcknowledgement of
`AcknowledgePacket` is never executed. -/
theorem ack_relay_branch_dead (env : Env) (hash : HashOk env) (c : Chain) (hinv : CommitsOwn env c) (now : UInt64)
    (packet ack proof : Bytes) (h : Height) (signer : Bytes) (o : EvmOut)
    (hok : (deliver env c now (.acknowledgement packet ack proof h signer o)).2 = .ok) :
    (env.decodePacket packet).1.src = c.name ∧
    (deliver env c now (.acknowledgement packet ack proof h signer o)).1.acks = c.acks ∧
    (deliver env c now (.acknowledgement packet ack proof h signer o)).1.ackWrites = c.ackWrites := by
  have eff := handle_ack_effect (deliver_ok_handle hok)
  have hsrc : (env.decodePacket packet).1.src = c.name := by
    have hst := eff.committed
    cases hg : c.commits.get (commitKey (env.decodePacket packet).1) with
    | none => rw [hg] at hst; exact absurd hst.symm (hash.nonempty _)
    | some v =>
      rw [hg] at hst
      obtain ⟨q, hq, _, hv⟩ := hinv _ v hg
      simp only [Option.getD_some] at hst
      have := hash.inj _ _ (hst.symm.trans hv)
      rw [this]; exact hq
  obtain ⟨a, _, _, hc⟩ := eff.decoded
  rcases hc with ⟨_, h1, h2, _⟩ | ⟨hne, _⟩
  · exact ⟨hsrc, h1, h2⟩
  · exact absurd hsrc hne

/-- **relay_branches_dead (receive side)**: the `dst ≠ self` commitment write of `RecvPacket` needs a light client
registered under the chain's own name. -/
theorem recv_relay_branch_needs_self_client (env : Env) (c : Chain) (now : UInt64) (packet proof : Bytes) (h : Height)
    (signer : Bytes) (cb : Callback) (hself : c.clients.has c.name = false) :
    (deliver env c now (.recvPacket packet proof h signer cb)).1.commits = c.commits ∧
    ((deliver env c now (.recvPacket packet proof h signer cb)).2 = .ok → (env.decodePacket packet).1.dst = c.name) := by
  cases deliver_commitStep env c now (.recvPacket packet proof h signer cb) with
  | same he =>
    refine ⟨he, fun hok => ?_⟩
    have eff := handle_recv_effect (deliver_ok_handle hok)
    rcases validatePacket_side eff.valid with h1 | h1
    · exact h1
    · obtain ⟨cl, hcl, _⟩ := eff.verified
      rw [h1] at hcl
      have : c.clients.has c.name = true := by rw [Tab.has_eq_true_iff]; exact ⟨cl, hcl⟩
      rw [this] at hself; cases hself
  | sent p hm _ _ => obtain ⟨ok, hm⟩ := hm; cases hm
  | relayed _ _ _ _ _ _ _ _ hs _ => rw [hs] at hself; cases hself
  | acked _ _ _ _ _ _ hm _ _ => cases hm

/-! ### acknowledgement store -/
/-- one delivery: the ack store is untouched, or gains a *new* key in an accepted receive, or is written by the
relay branch of an accepted acknowledgement (dead under the invariant, see above) -/
theorem deliver_acks (env : Env) (c : Chain) (now : UInt64) (m : Msg) :
    (deliver env c now m).1.acks = c.acks ∨
    (∃ k v, c.acks.has k = false ∧ (deliver env c now m).1.acks = c.acks.set k v ∧
        ∃ packet proof h signer cb, m = .recvPacket packet proof h signer cb ∧ k = ackKey (env.decodePacket packet).1) ∨
    (∃ packet ack proof h signer o, m = .acknowledgement packet ack proof h signer o ∧
        (deliver env c now m).2 = .ok ∧ (env.decodePacket packet).1.src ≠ c.name) := by
  rcases deliver_cases env c now m with ⟨c', hh, hd⟩ | ⟨e, _, hd⟩
  · rw [hd]
    cases m with
    | recvPacket packet proof h signer cb =>
      obtain ⟨relayer, _, ae⟩ := (handle_recv_effect hh).relayer
      cases ae with
      | relayed _ _ hacks _ _ _ => exact Or.inl hacks
      | acked ackBz _ hfresh hacks _ _ _ => exact Or.inr (Or.inl ⟨_, _, hfresh, hacks, packet, proof, h, signer, cb, rfl, rfl⟩)
    | acknowledgement packet ack proof h signer o =>
      obtain ⟨a, _, _, hc⟩ := (handle_ack_effect hh).decoded
      rcases hc with ⟨_, h1, _⟩ | ⟨hne, _⟩
      · exact Or.inl h1
      · exact Or.inr (Or.inr ⟨packet, ack, proof, h, signer, o, rfl, rfl, hne⟩)
    | sendPacket p ok => obtain ⟨_, _, _, _, he⟩ := sendPacket_ok hh; subst he; exact Or.inl rfl
    | updateClient chain h root signer ok => obtain ⟨cls, he⟩ := updateClient_ok hh; subst he; exact Or.inl rfl
    | toggleClient chain cl => obtain ⟨cls, he⟩ := toggleClient_ok (by simpa [handle] using hh); subst he; exact Or.inl rfl
    | upgradeClient chain cl => obtain ⟨cls, he⟩ := upgradeClient_ok (by simpa [handle] using hh); subst he; exact Or.inl rfl
    | createClient chain cl => simp only [handle] at hh; injection hh with hh; subst hh; exact Or.inl rfl
    | registerRelayer r => simp only [handle] at hh; injection hh with hh; subst hh; exact Or.inl rfl
    | restart => simp only [handle] at hh; injection hh with hh; subst hh; exact Or.inl rfl
  · rw [hd]; exact Or.inl rfl

theorem deliver_ack_kept (env : Env) (hash : HashOk env) (c : Chain) (hinv : CommitsOwn env c) (now : UInt64) (m : Msg)
    (k a : Bytes) (hk : c.acks.get k = some a) : (deliver env c now m).1.acks.get k = some a := by
  rcases deliver_acks env c now m with he | ⟨k', v, hfresh, he, _⟩ | ⟨packet, ack, proof, h, signer, o, hm, hok, hne⟩
  · rw [he]; exact hk
  · rw [he, Tab.get_set]
    have : k ≠ k' := by
      intro e; subst e
      rw [Tab.has_eq_false_iff] at hfresh; rw [hfresh] at hk; cases hk
    simp [this, hk]
  · subst hm
    exact absurd (ack_relay_branch_dead env hash c hinv now packet ack proof h signer o hok).1 hne

/-- **acks_never_change**: a stored acknowledgement is never overwritten or removed, by any history. -/
theorem acks_never_change (env : Env) (hash : HashOk env) (c : Chain) (hinv : CommitsOwn env c)
    (ms : List (UInt64 × Msg)) (k a : Bytes) (hk : c.acks.get k = some a) :
    (run env c ms).1.acks.get k = some a := by
  have := run_invariant (env := env) (fun c => CommitsOwn env c ∧ c.acks.get k = some a)
    (fun c now m hc => ⟨commitsOwn_deliver env c now m hc.1, deliver_ack_kept env hash c hc.1 now m k a hc.2⟩)
    c ms ⟨hinv, hk⟩
  exact this.2

/-- **recv_writes_exactly_one_ack**: an accepted receive of a packet addressed to this chain found no
acknowledgement under the packet's ack key, and stores there the hash of exactly the acknowledgement built from
the callback outcome (the error acknowledgement with code 1 if the callback failed), the relayer address registered
by the signer for the source chain and the packet's fee option; WriteAcknowledgement ran exactly once and no other
ack key moved. -/
theorem recv_writes_exactly_one_ack (env : Env) (c : Chain) (now : UInt64) (packet proof : Bytes) (h : Height)
    (signer : Bytes) (cb : Callback)
    (hok : (deliver env c now (.recvPacket packet proof h signer cb)).2 = .ok)
    (hdst : (env.decodePacket packet).1.dst = c.name) :
    ∃ relayer ackBz,
      relayerOnOtherChain c (env.decodePacket packet).1.src signer = .found relayer ∧
      ackOfCallback env cb relayer (env.decodePacket packet).1.feeOption = some ackBz ∧
      c.acks.get (ackKey (env.decodePacket packet).1) = none ∧
      (deliver env c now (.recvPacket packet proof h signer cb)).1.acks.get (ackKey (env.decodePacket packet).1)
        = some (env.sha256 ackBz) ∧
      (∀ k, k ≠ ackKey (env.decodePacket packet).1 →
        (deliver env c now (.recvPacket packet proof h signer cb)).1.acks.get k = c.acks.get k) ∧
      (deliver env c now (.recvPacket packet proof h signer cb)).1.ackWrites =
        ackKey (env.decodePacket packet).1 :: c.ackWrites := by
  have eff := handle_recv_effect (deliver_ok_handle hok)
  obtain ⟨relayer, hrel, ae⟩ := eff.relayer
  cases ae with
  | relayed hne _ _ _ _ _ => exact absurd hdst hne
  | acked ackBz _ hfresh hacks hw _ hwhich =>
    rcases hwhich with ⟨_, hcb, _⟩ | ⟨hne, _⟩
    · refine ⟨relayer, ackBz, hrel, hcb, (Tab.has_eq_false_iff _ _).1 hfresh, ?_, ?_, hw⟩
      · rw [hacks, Tab.get_set]; simp
      · intro k hk; rw [hacks, Tab.get_set]; simp [hk]
    · exact absurd hdst hne

/-- failing callback ⇒ the stored acknowledgement is the error acknowledgement (code 1) -/
theorem recv_failed_callback_error_ack (env : Env) (relayer : Bytes) (fee : UInt64) :
    ackOfCallback env .fail relayer fee = some (env.encodeAck ⟨1, [], errMsgCallback, relayer, fee⟩) := rfl

/-! ### commitments -/
/-- **commitment_removed_only_by_its_ack**: if a commitment present before a delivery is absent after it, the
message is an accepted acknowledgement whose packet has exactly this commitment key and hashes to exactly the
stored commitment. -/
theorem commitment_removed_only_by_its_ack (env : Env) (c : Chain) (now : UInt64) (m : Msg) (k v : Bytes)
    (hbefore : c.commits.get k = some v) (hafter : (deliver env c now m).1.commits.get k = none) :
    ∃ packet ack proof h signer o, m = .acknowledgement packet ack proof h signer o ∧
      (deliver env c now m).2 = .ok ∧ k = commitKey (env.decodePacket packet).1 ∧
      v = env.sha256 (env.encodePacket (env.decodePacket packet).1) := by
  cases deliver_commitStep env c now m with
  | same he => rw [he, hbefore] at hafter; cases hafter
  | sent p _ _ he =>
    rw [he, Tab.get_set] at hafter
    split at hafter
    · cases hafter
    · rw [hbefore] at hafter; cases hafter
  | relayed packet proof ht signer cb _ _ _ _ he =>
    rw [he, Tab.get_set] at hafter
    split at hafter
    · cases hafter
    · rw [hbefore] at hafter; cases hafter
  | acked packet ack proof ht signer o hm hstored he =>
    rw [he, Tab.get_del] at hafter
    split at hafter
    · rename_i hkk
      refine ⟨packet, ack, proof, ht, signer, o, hm, ?_, hkk, ?_⟩
      · rcases deliver_cases env c now m with ⟨c', _, hd⟩ | ⟨e, _, hd⟩
        · rw [hd]
        · -- a rejected message changes nothing, but the commitment disappeared
          rw [hd] at he
          have : c.commits.get k = none := by
            have h2 := congrArg (fun t => Tab.get t k) he
            simp only [Tab.get_del, hkk, ↓reduceIte] at h2
            rw [← hkk] at h2; exact h2
          rw [hbefore] at this; cases this
      · rw [← hkk, hbefore] at hstored; simpa using hstored
    · rw [hbefore] at hafter; cases hafter

/-! ### acknowledgements are processed at most once -/
def acceptedAckOf (env : Env) (k : Bytes) (x : Result × (UInt64 × Msg)) : Bool :=
  decide (x.1 = .ok) && decide (ackKeyOf env x.2.2 = some k)

/-- a delivery that (re)creates the commitment under key `k`: an accepted send, or an accepted receive through the
`dst ≠ self` branch -/
def createsCommit (env : Env) (k : Bytes) (x : Result × (UInt64 × Msg)) : Bool :=
  decide (x.1 = .ok) &&
  (match x.2.2 with
   | .sendPacket p _ => decide (commitKey p = k)
   | .recvPacket packet _ _ _ _ => decide (commitKey (env.decodePacket packet).1 = k)
   | _ => false)

def ackedCount (env : Env) (k : Bytes) (c : Chain) (ms : List (UInt64 × Msg)) : Nat :=
  (((run env c ms).2.zip ms).filter (acceptedAckOf env k)).length
def createdCount (env : Env) (k : Bytes) (c : Chain) (ms : List (UInt64 × Msg)) : Nat :=
  (((run env c ms).2.zip ms).filter (createsCommit env k)).length

theorem ackedCount_cons (env : Env) (k : Bytes) (c : Chain) (now : UInt64) (m : Msg) (ms : List (UInt64 × Msg)) :
    ackedCount env k c ((now, m) :: ms) =
      (if acceptedAckOf env k ((deliver env c now m).2, (now, m)) then 1 else 0) +
        ackedCount env k (deliver env c now m).1 ms := by
  unfold ackedCount
  rw [run_cons]
  simp only [List.zip_cons_cons, List.filter_cons]
  split <;> simp <;> omega

theorem createdCount_cons (env : Env) (k : Bytes) (c : Chain) (now : UInt64) (m : Msg) (ms : List (UInt64 × Msg)) :
    createdCount env k c ((now, m) :: ms) =
      (if createsCommit env k ((deliver env c now m).2, (now, m)) then 1 else 0) +
        createdCount env k (deliver env c now m).1 ms := by
  unfold createdCount
  rw [run_cons]
  simp only [List.zip_cons_cons, List.filter_cons]
  split <;> simp <;> omega

/-- an accepted acknowledgement found the commitment of its key and removed it -/
theorem ack_accept_consumes (env : Env) (hash : HashOk env) (c : Chain) (now : UInt64) (m : Msg) (k : Bytes)
    (hok : (deliver env c now m).2 = .ok) (hk : ackKeyOf env m = some k) :
    c.commits.has k = true ∧ (deliver env c now m).1.commits.has k = false := by
  cases m with
  | acknowledgement packet ack proof h signer o =>
    simp only [ackKeyOf, Option.some.injEq] at hk
    have eff := handle_ack_effect (deliver_ok_handle hok)
    constructor
    · have hst := eff.committed
      rw [hk] at hst
      cases hg : c.commits.get k with
      | none => rw [hg] at hst; exact absurd hst.symm (hash.nonempty _)
      | some v => rw [Tab.has_eq_true_iff]; exact ⟨v, hg⟩
    · rw [eff.commits, hk, Tab.has_del]; simp
  | recvPacket packet proof h signer cb => simp [ackKeyOf] at hk
  | sendPacket p ok => simp [ackKeyOf] at hk
  | updateClient chain h root signer ok => simp [ackKeyOf] at hk
  | toggleClient chain cl => simp [ackKeyOf] at hk
  | upgradeClient chain cl => simp [ackKeyOf] at hk
  | createClient chain cl => simp [ackKeyOf] at hk
  | registerRelayer r => simp [ackKeyOf] at hk
  | restart => simp [ackKeyOf] at hk

/-- a delivery that does not create the commitment of `k` cannot make it appear -/
theorem no_create_stays_absent (env : Env) (c : Chain) (now : UInt64) (m : Msg) (k : Bytes)
    (hnc : createsCommit env k ((deliver env c now m).2, (now, m)) = false)
    (habs : c.commits.has k = false) : (deliver env c now m).1.commits.has k = false := by
  have hres : (deliver env c now m).2 = .ok ∨ (deliver env c now m).1 = c := by
    rcases deliver_cases env c now m with ⟨c', _, hd⟩ | ⟨e, _, hd⟩
    · left; rw [hd]
    · right; rw [hd]
  cases deliver_commitStep env c now m with
  | same he => rw [he]; exact habs
  | sent p hm _ he =>
    obtain ⟨ok, hm⟩ := hm
    subst hm
    rcases hres with hok | hc
    · have : commitKey p ≠ k := by
        intro e; simp [createsCommit, hok, e] at hnc
      rw [he, Tab.has_set]; simp [Ne.symm this, habs]
    · rw [hc]; exact habs
  | relayed packet proof ht signer cb hm _ _ _ he =>
    subst hm
    rcases hres with hok | hc
    · have : commitKey (env.decodePacket packet).1 ≠ k := by
        intro e; simp [createsCommit, hok, e] at hnc
      rw [he, Tab.has_set]; simp [Ne.symm this, habs]
    · rw [hc]; exact habs
  | acked packet ack proof ht signer o _ _ he =>
    rw [he, Tab.has_del]; simp [habs]

theorem ackedCount_bound (env : Env) (hash : HashOk env) (k : Bytes) (c : Chain) (ms : List (UInt64 × Msg)) :
    ackedCount env k c ms ≤ (if c.commits.has k = true then 1 else 0) + createdCount env k c ms := by
  induction ms generalizing c with
  | nil => simp [ackedCount, run_nil]
  | cons x ms ih =>
    obtain ⟨now, m⟩ := x
    rw [ackedCount_cons, createdCount_cons]
    have ih' := ih (deliver env c now m).1
    by_cases hacc : acceptedAckOf env k ((deliver env c now m).2, (now, m)) = true
    · have hacc2 := hacc
      simp only [acceptedAckOf, Bool.and_eq_true, decide_eq_true_eq] at hacc2
      obtain ⟨hok, hkey⟩ := hacc2
      obtain ⟨hb, ha⟩ := ack_accept_consumes env hash c now m k hok hkey
      rw [ha] at ih'
      simp only [hacc, hb, ↓reduceIte] at ih' ⊢
      simp at ih'
      omega
    · have hacc' : acceptedAckOf env k ((deliver env c now m).2, (now, m)) = false := by simpa using hacc
      simp only [hacc']
      by_cases hcr : createsCommit env k ((deliver env c now m).2, (now, m)) = true
      · have hd' : (if (deliver env c now m).1.commits.has k = true then 1 else 0) ≤ 1 := by split <;> omega
        simp only [hcr, ↓reduceIte, Bool.false_eq_true]
        omega
      · have hcr' : createsCommit env k ((deliver env c now m).2, (now, m)) = false := by simpa using hcr
        simp only [hcr']
        by_cases hb : c.commits.has k = true
        · have hd' : (if (deliver env c now m).1.commits.has k = true then 1 else 0) ≤ 1 := by split <;> omega
          simp only [hb, ↓reduceIte, Bool.false_eq_true]
          omega
        · have hb' : c.commits.has k = false := by simpa using hb
          have := no_create_stays_absent env c now m k hcr' hb'
          rw [this] at ih'
          simp only [hb', Bool.false_eq_true, ↓reduceIte] at ih' ⊢
          omega

/-- **ack_processed_at_most_once**: in any history in which the commitment of `k` is not created again (no accepted
send / relay-receive with this commitment key — guaranteed by send sequencing, C04, while `self ∉ clients`), at most
one acknowledgement of `k` is accepted; none if the commitment is absent at the start. -/
theorem ack_processed_at_most_once (env : Env) (hash : HashOk env) (c : Chain) (ms : List (UInt64 × Msg)) (k : Bytes)
    (hnew : (((run env c ms).2.zip ms).filter (createsCommit env k)).length = 0) :
    (((run env c ms).2.zip ms).filter (acceptedAckOf env k)).length ≤ 1 ∧
    (c.commits.has k = false → (((run env c ms).2.zip ms).filter (acceptedAckOf env k)).length = 0) := by
  have := ackedCount_bound env hash k c ms
  unfold ackedCount createdCount at this
  rw [hnew] at this
  constructor
  · split at this <;> omega
  · intro hk; rw [hk] at this; simpa using this

/-- an acknowledgement whose commitment is gone is rejected and changes nothing (duplicates, acks before the send,
acks for packets never sent) -/
theorem ack_rejected_without_commitment (env : Env) (hash : HashOk env) (c : Chain) (now : UInt64) (m : Msg) (k : Bytes)
    (hk : ackKeyOf env m = some k) (habs : c.commits.has k = false) : deliver env c now m = (c, .err) := by
  rcases deliver_cases env c now m with ⟨c', _, hd⟩ | ⟨e, _, hd⟩
  · have hok : (deliver env c now m).2 = .ok := by rw [hd]
    have := (ack_accept_consumes env hash c now m k hok hk).1
    rw [this] at habs; cases habs
  · exact hd

/-- the contract calls of an accepted acknowledgement: `setAckStatus`, `sendPacketFeeToRelayer`,
`OnAcknowledgePacket` are each invoked exactly once, in this order, with status 1 for code 0 and 2 otherwise -/
theorem ack_effects_once (env : Env) (hash : HashOk env) (c : Chain) (hinv : CommitsOwn env c) (now : UInt64)
    (packet ack proof : Bytes) (h : Height) (signer : Bytes) (o : EvmOut)
    (hok : (deliver env c now (.acknowledgement packet ack proof h signer o)).2 = .ok) :
    ∃ a relayer, env.decodeAck ack = some a ∧
      (deliver env c now (.acknowledgement packet ack proof h signer o)).1.evm =
        ackEvents (env.decodePacket packet).1 a relayer ++ c.evm := by
  have eff := handle_ack_effect (deliver_ok_handle hok)
  have hsrc := (ack_relay_branch_dead env hash c hinv now packet ack proof h signer o hok).1
  obtain ⟨a, ha, _, hc⟩ := eff.decoded
  rcases hc with ⟨_, _, _, relayer, _, _, _, hevm⟩ | ⟨hne, _⟩
  · exact ⟨a, relayer, ha, hevm⟩
  · exact absurd hsrc hne

/-- the `OnAcknowledgePacket` count of key `k` only grows inside accepted acknowledgements of `k` -/
def onAckCount (k : Bytes) (c : Chain) : Nat := c.evm.count (.onAck k)

theorem deliver_onAckCount (env : Env) (c : Chain) (now : UInt64) (m : Msg) (k : Bytes) :
    onAckCount k (deliver env c now m).1 = onAckCount k c ∨
    (onAckCount k (deliver env c now m).1 = onAckCount k c + 1 ∧ (deliver env c now m).2 = .ok ∧ ackKeyOf env m = some k) := by
  rcases deliver_cases env c now m with ⟨c', hh, hd⟩ | ⟨e, _, hd⟩
  · rw [hd]
    cases m with
    | recvPacket packet proof h signer cb =>
      left
      obtain ⟨relayer, _, ae⟩ := (handle_recv_effect hh).relayer
      cases ae with
      | relayed _ _ _ _ hevm _ => simp [onAckCount, hevm]
      | acked ackBz _ _ _ _ _ hwhich =>
        rcases hwhich with ⟨_, _, hevm⟩ | ⟨_, _, _, hevm⟩
        · cases hcm : cb.committed <;> simp [onAckCount, hevm, hcm]
        · simp [onAckCount, hevm]
    | acknowledgement packet ack proof h signer o =>
      obtain ⟨a, _, _, hc⟩ := (handle_ack_effect hh).decoded
      rcases hc with ⟨_, _, _, relayer, _, _, _, hevm⟩ | ⟨_, _, _, _, hevm⟩
      · by_cases hk : commitKey (env.decodePacket packet).1 = k
        · right; subst hk; exact ⟨by simp [onAckCount, hevm, ackEvents], rfl, rfl⟩
        · left; simp [onAckCount, hevm, ackEvents, hk]
      · left; simp [onAckCount, hevm]
    | sendPacket p ok => obtain ⟨_, _, _, _, he⟩ := sendPacket_ok hh; subst he; left; simp [onAckCount]
    | updateClient chain h root signer ok => obtain ⟨cls, he⟩ := updateClient_ok hh; subst he; left; rfl
    | toggleClient chain cl => obtain ⟨cls, he⟩ := toggleClient_ok (by simpa [handle] using hh); subst he; left; rfl
    | upgradeClient chain cl => obtain ⟨cls, he⟩ := upgradeClient_ok (by simpa [handle] using hh); subst he; left; rfl
    | createClient chain cl => simp only [handle] at hh; injection hh with hh; subst hh; left; rfl
    | registerRelayer r => simp only [handle] at hh; injection hh with hh; subst hh; left; rfl
    | restart => simp only [handle] at hh; injection hh with hh; subst hh; left; rfl
  · rw [hd]; left; rfl

/-- over a history without re-creation of the commitment, `OnAcknowledgePacket` (and with it the status write and the
fee payment, which precede it in the same transaction) runs at most once for `k` -/
theorem onAck_at_most_once (env : Env) (hash : HashOk env) (c : Chain) (ms : List (UInt64 × Msg)) (k : Bytes)
    (hnew : createdCount env k c ms = 0) :
    onAckCount k (run env c ms).1 ≤ onAckCount k c + 1 := by
  have hgrow : ∀ (ms : List (UInt64 × Msg)) (c : Chain),
      onAckCount k (run env c ms).1 ≤ onAckCount k c + ackedCount env k c ms := by
    intro ms
    induction ms with
    | nil => intro c; simp [run_nil, ackedCount]
    | cons x ms ih =>
      intro c
      obtain ⟨now, m⟩ := x
      rw [run_cons, ackedCount_cons]
      dsimp only
      have ih' := ih (deliver env c now m).1
      rcases deliver_onAckCount env c now m k with he | ⟨he, hok, hkey⟩
      · rw [he] at ih'; omega
      · have : acceptedAckOf env k ((deliver env c now m).2, (now, m)) = true := by
          simp [acceptedAckOf, hok, hkey]
        rw [he] at ih'; simp only [this, ↓reduceIte]; omega
  have hb := ackedCount_bound env hash k c ms
  rw [hnew] at hb
  have := hgrow ms c
  split at hb <;> omega

/-! ### client updates take effect -/
/-- **update_takes_effect_all_kinds**: after an accepted `MsgUpdateClient` the client table holds the UPDATED client state,
for every client kind: a light client gains the consensus root at the header height (and its latest height moves up), a
TSS client's address is replaced by the one the update names — the keeper stores the new client state whether or not the
update yields a consensus state. Later verifications read that state. -/
theorem update_takes_effect_all_kinds (env : Env) (c : Chain) (now : UInt64) (chain : Bytes) (h : Height)
    (root signer : Bytes) (ok : Bool)
    (hok : (deliver env c now (.updateClient chain h root signer ok)).2 = .ok) :
    ∃ cl, c.clients.get chain = some cl ∧
      ((cl.kind = .tss ∧ signer = cl.tssAddr ∧
          (deliver env c now (.updateClient chain h root signer ok)).1.clients.get chain = some { cl with tssAddr := root }) ∨
       (cl.kind ≠ .tss ∧
          (deliver env c now (.updateClient chain h root signer ok)).1.clients.get chain =
            some { cl with latest := maxHeight cl.latest h, cons := cl.cons.set h root, processed := cl.processed.set h now })) := by
  have hh := deliver_ok_handle hok
  simp only [handle] at hh
  obtain ⟨cl, hcl, _, _, heff⟩ := updateClient_effect hh
  exact ⟨cl, hcl, heff⟩

/-- after a TSS key rotation only the NEW address gets an acknowledgement through: an ack accepted in the state right
after the accepted update is signed by the address the update named (the retired address is refused unless it is the
same), and the commitment stays for everybody else. -/
theorem ack_after_rotation_needs_new_signer (env : Env) (c : Chain) (now now2 : UInt64) (chain : Bytes) (h : Height)
    (newAddr signer : Bytes) (ok : Bool) (cl : Client) (hcl : c.clients.get chain = some cl) (hk : cl.kind = .tss)
    (hupd : (deliver env c now (.updateClient chain h newAddr signer ok)).2 = .ok)
    (pk ak pf : Bytes) (h2 : Height) (s : Bytes) (o : EvmOut) (hdst : (env.decodePacket pk).1.dst = chain)
    (hack : (deliver env (deliver env c now (.updateClient chain h newAddr signer ok)).1 now2
              (.acknowledgement pk ak pf h2 s o)).2 = .ok) :
    s = newAddr := by
  obtain ⟨cl', hcl', heff⟩ := update_takes_effect_all_kinds env c now chain h newAddr signer ok hupd
  rw [hcl] at hcl'; injection hcl' with hcl'; subst hcl'
  rcases heff with ⟨_, _, hnew⟩ | ⟨hne, _⟩
  · obtain ⟨cl2, hcl2, hv⟩ := (handle_ack_effect (deliver_ok_handle hack)).verified
    rw [hdst, hnew] at hcl2
    injection hcl2 with hcl2
    subst hcl2
    unfold Client.verify at hv
    simp only [hk, Client.effProof, ↓reduceIte] at hv
    simpa using hv
  · exact absurd hk hne

/-! ### the self-client hazard (closed witness on the model) -/
section Witness
def wA : Packet := ⟨[2], [1], 1, [], [9], [], [], 0⟩      -- sent by chain [2] to chain [1]
def wB : Packet := ⟨[2], [1], 1, [], [8], [], [], 0⟩      -- same triple, other payload
def wEnv : Env where
  sha256 := fun b => 0 :: b
  decodePacket := fun b => if b = [0] then (wA, false) else (wB, false)
  encodePacket := fun p => p.transfer
  decodeAck := fun _ => none
  encodeAck := fun _ => [8]
  verify := fun _ _ _ _ _ _ => true
  bech32Valid := fun _ => true
def wClient : Client := ⟨.tm, ⟨0, 5⟩, [(⟨0, 5⟩, [3])], [(⟨0, 5⟩, 0)], 0, 0, []⟩
/-- chain [2] with a client for [1] and — the hazard — a client registered under its own name [2] -/
def wChain : Chain :=
  { Chain.init [2] with clients := [([1], wClient), ([2], wClient)], relayers := [⟨[4], [[2]], [[5]]⟩] }

/-- With a client under the chain's own name, a "receive" of a packet with `src = self` overwrites the commitment of
the packet this chain really sent (same key, other hash): the genuine acknowledgement can then never be accepted. -/
theorem self_client_overwrites_commitment :
    let c1 := (deliver wEnv wChain 1 (.sendPacket wA true)).1
    let c2 := (deliver wEnv c1 2 (.recvPacket [1] [] ⟨0, 5⟩ [4] (.ok 0 [] []))).1
    c1.commits.get (commitKey wA) = some [0, 9] ∧ c2.commits.get (commitKey wA) = some [0, 8] := by
  decide

/-- non-vacuity of the hypotheses: `HashOk` is satisfiable -/
example : ∃ env : Env, (∀ b, env.sha256 b ≠ []) :=
  ⟨wEnv, fun b => by simp [wEnv]⟩
end Witness

end TM.Xibc
