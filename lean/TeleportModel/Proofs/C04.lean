import TeleportModel.Model.Send
/-
C04 — send sequencing (property theorems).
-/
namespace TM.Send

/-! ### helper lemmas -/

theorem sendPacket_ok {env : Env} {c c' : Chain} {p : Packet} (h : sendPacket env c p = .ok c') :
    validateBasic p = true ∧ p.src = c.self ∧ c.clients p.dst = true ∧ p.seq = chainNext c p.dst ∧
    c' = { c with
      nextSeq := upd c.nextSeq p.dst (some (p.seq + 1)),
      cseq := upd c.cseq p.dst (p.seq + 1),
      commits := upd c.commits (p.dst, p.seq) (some (env.sha256 p.bytes)),
      sent := c.sent ++ [p] } := by
  unfold sendPacket at h
  by_cases h1 : validateBasic p = true
  · by_cases h2 : p.src = c.self
    · by_cases h3 : c.clients p.dst = true
      · by_cases h4 : p.seq = chainNext c p.dst
        · by_cases h5 : p.seq + 1 ≥ 2 ^ 64
          · simp [h1, h2, h3, h4] at h
            rw [if_pos (by rw [← h4]; omega)] at h; cases h
          · by_cases h6 : (p.seq = c.cseq p.dst ∨ p.seq = contractNext c p.dst)
            · rw [if_neg (by simp [h1]), if_neg (by simp [h2]), if_neg (by simp [h3]), if_neg (by simp [h4]),
                if_neg h5, if_neg (by simp [h6])] at h
              refine ⟨h1, h2, h3, h4, ?_⟩
              injection h with h; exact h.symm
            · rw [if_neg (by simp [h1]), if_neg (by simp [h2]), if_neg (by simp [h3]), if_neg (by simp [h4]),
                if_neg h5, if_pos (by simpa using h6)] at h
              cases h
        · simp [h1, h2, h3, h4] at h
      · simp [h1, h2, h3] at h
    · simp [h1, h2] at h
  · simp [h1] at h

theorem lockOne_eq (c : Chain) (p : Packet) : ∃ e, lockOne c p = { c with escrow := e } := by
  unfold lockOne
  split
  · exact ⟨_, rfl⟩
  · exact ⟨c.escrow, rfl⟩

theorem evmCommit_eq (c : Chain) (logs : List Log) : ∃ e, evmCommit c logs = { c with escrow := e } := by
  induction logs generalizing c with
  | nil => exact ⟨c.escrow, rfl⟩
  | cons l ls ih =>
    cases l with
    | sent p =>
      obtain ⟨e1, h1⟩ := lockOne_eq c p
      obtain ⟨e2, h2⟩ := ih (lockOne c p)
      refine ⟨e2, ?_⟩
      simp only [evmCommit]; rw [h2, h1]
    | other => simpa [evmCommit] using ih c
    | unknownEvent => simpa [evmCommit] using ih c
    | badData => simpa [evmCommit] using ih c


/-! ### invariants: gap-freedom and agreement of the two counters -/

/-- successful sends towards `d`, oldest first -/
def sentTo (sent : List Packet) (d : Bytes) : List Packet := sent.filter (fun p => p.dst == d)

/-- `b d` = number of packets sent to `d` before the history started (0 on a chain whose counters start at 1, `n - 1`
when the history starts with the counter at `n`, 0 again after a software upgrade). It is a parameter of the
invariant, not a field of the state. -/
def GapFreeF (b : Bytes → Nat) (ns : Bytes → Option Nat) (sent : List Packet) : Prop :=
  ∀ d, (ns d).getD 1 = b d + (sentTo sent d).length + 1 ∧
       (sentTo sent d).map (·.seq) = List.range' (b d + 1) (sentTo sent d).length

/-- per destination: the chain counter is b+k+1 and the successful sends carried b+1, b+2, …, b+k in this order -/
def GapFree (b : Bytes → Nat) (c : Chain) : Prop := GapFreeF b c.nextSeq c.sent

def AgreeF (ns : Bytes → Option Nat) (cs : Bytes → Nat) : Prop :=
  ∀ d, (if cs d = 0 then 1 else cs d) = (ns d).getD 1

/-- chain counter = contract view, for every destination -/
def Agree (c : Chain) : Prop := AgreeF c.nextSeq c.cseq

structure Core (b : Bytes → Nat) (c : Chain) : Prop where
  gap : GapFree b c
  agree : Agree c

variable {b : Bytes → Nat}

theorem sentTo_append_same (sent : List Packet) (p : Packet) :
    sentTo (sent ++ [p]) p.dst = sentTo sent p.dst ++ [p] := by
  simp [sentTo, List.filter_append]

theorem sentTo_append_other (sent : List Packet) (p : Packet) (d : Bytes) (h : d ≠ p.dst) :
    sentTo (sent ++ [p]) d = sentTo sent d := by
  have : (p.dst == d) = false := by simp; exact fun e => h e.symm
  simp [sentTo, List.filter_append, this]

theorem sendPacket_core {env : Env} {c c' : Chain} {p : Packet} (hc : Core b c)
    (h : sendPacket env c p = .ok c') : Core b c' := by
  obtain ⟨_, _, _, hseq, rfl⟩ := sendPacket_ok h
  constructor
  · intro d
    show (upd c.nextSeq p.dst (some (p.seq + 1)) d).getD 1 = _ ∧ _
    by_cases hd : d = p.dst
    · subst hd
      have g := hc.gap p.dst
      unfold chainNext at hseq
      rw [sentTo_append_same]
      simp only [upd_same, Option.getD_some, List.length_append, List.length_singleton, List.map_append,
        List.map_cons, List.map_nil]
      refine ⟨by omega, ?_⟩
      rw [g.2, List.range'_concat]
      simp; omega
    · rw [sentTo_append_other _ _ _ hd, upd_other _ _ _ _ hd]
      exact hc.gap d
  · intro d
    show (if upd c.cseq p.dst (p.seq + 1) d = 0 then 1 else upd c.cseq p.dst (p.seq + 1) d)
      = (upd c.nextSeq p.dst (some (p.seq + 1)) d).getD 1
    by_cases hd : d = p.dst
    · subst hd; simp
    · rw [upd_other _ _ _ _ hd, upd_other _ _ _ _ hd]; exact hc.agree d

theorem hookP_core {env : Env} (logs : List Log) {c : Chain} (hc : Core b c) : Core b (hookP env c logs).1 := by
  induction logs generalizing c with
  | nil => exact hc
  | cons l ls ih =>
    cases l with
    | other => simpa [hookP] using ih hc
    | unknownEvent => simpa [hookP] using hc
    | badData => simpa [hookP] using hc
    | sent p =>
      simp only [hookP]
      cases hs : sendPacket env c p with
      | ok c' => simpa using ih (sendPacket_core hc hs)
      | error e => simpa using hc

theorem core_escrow {c : Chain} (e : Nat × Bytes → Int) (hc : Core b c) : Core b { c with escrow := e } :=
  ⟨hc.gap, hc.agree⟩

theorem evmCommit_core {c : Chain} (logs : List Log) (hc : Core b c) : Core b (evmCommit c logs) := by
  obtain ⟨e, he⟩ := evmCommit_eq c logs
  rw [he]; exact core_escrow e hc

theorem applyTx_core {env : Env} {c : Chain} (v : Bool) (logs : List Log) (hc : Core b c) :
    Core b (applyTx env c v logs).1 := by
  unfold applyTx
  cases v with
  | false => simpa using hc
  | true =>
    simp only [Bool.not_true, Bool.false_eq_true, ↓reduceIte]
    have := hookP_core (env := env) logs (evmCommit_core logs hc)
    generalize hookP env (evmCommit c logs) logs = r at *
    obtain ⟨c', b⟩ := r
    cases b
    · exact hc
    · exact this

theorem callEvm_core {env : Env} {c : Chain} (v : Bool) (logs : List Log) (hc : Core b c) :
    Core b (callEvm env c v logs).1 := by
  unfold callEvm
  cases v with
  | false => simpa using hc
  | true => simpa using hookP_core (env := env) logs (evmCommit_core logs hc)


theorem core_of_fields {c c' : Chain} (h1 : c'.nextSeq = c.nextSeq) (h2 : c'.cseq = c.cseq) (h3 : c'.sent = c.sent)
    (hc : Core b c) : Core b c' := by
  constructor
  · unfold GapFree; rw [h1, h3]; exact hc.gap
  · unfold Agree; rw [h1, h2]; exact hc.agree

theorem recvStore_fields (env : Env) (c : Chain) (p : Packet) :
    (recvStore env c p).nextSeq = c.nextSeq ∧ (recvStore env c p).cseq = c.cseq ∧ (recvStore env c p).sent = c.sent ∧
    (recvStore env c p).self = c.self ∧ (recvStore env c p).clients = c.clients ∧ (recvStore env c p).escrow = c.escrow ∧
    (recvStore env c p).acked = c.acked := by
  unfold recvStore
  split <;> simp

theorem recvStore_core {env : Env} {c : Chain} (p : Packet) (hc : Core b c) : Core b (recvStore env c p) :=
  let f := recvStore_fields env c p
  core_of_fields f.1 f.2.1 f.2.2.1 hc

theorem recvCallback_core {cfg : Cfg} {env : Env} {c2 : Chain} (r : RecvIn) (hc : Core b c2) :
    Core b (recvCallback cfg env c2 r).1 := by
  unfold recvCallback
  have h3 := callEvm_core (env := env) r.cbVmOk r.cbLogs hc
  generalize callEvm env c2 r.cbVmOk r.cbLogs = q at *
  obtain ⟨c3, b⟩ := q
  cases b <;> simp only [] <;> repeat' split
  all_goals first | exact hc | exact h3

theorem recv_core {cfg : Cfg} {env : Env} {c : Chain} (r : RecvIn) (hc : Core b c) : Core b (recv cfg env c r).1 := by
  unfold recv
  repeat' split
  all_goals first | exact hc | exact recvCallback_core r (recvStore_core r.p hc) | exact recvStore_core r.p hc

theorem ack_core {env : Env} {c : Chain} (a : AckIn) (hc : Core b c) : Core b (ack env c a).1 := by
  unfold ack
  repeat' split
  all_goals first | exact hc | exact ⟨hc.gap, hc.agree⟩

theorem createClient_core {cfg : Cfg} {c : Chain} (n : Bytes) (hc : Core b c) : Core b (createClient cfg c n).1 := by
  unfold createClient
  repeat' split
  all_goals first | exact hc | exact ⟨hc.gap, hc.agree⟩

/-- the upgrade handler leaves both counters of every destination unset (next = 1 on both sides) and restarts the
ghost list: the invariant (with base 0) holds afterwards whatever the state was before -/
theorem upgrade_core (c : Chain) : Core (fun _ => 0) (upgrade c).1 := by
  constructor
  · intro d; simp [upgrade, sentTo]
  · intro d; simp [upgrade]

/-- how the base of the invariant evolves: an upgrade restarts the numbering, nothing else touches it -/
def baseStep (b : Bytes → Nat) : Op → (Bytes → Nat)
  | .upgrade => fun _ => 0
  | _ => b

def baseRun (b : Bytes → Nat) (ops : List Op) : Bytes → Nat := ops.foldl baseStep b

theorem baseRun_zero (ops : List Op) : baseRun (fun _ => 0) ops = fun _ => 0 := by
  induction ops with
  | nil => rfl
  | cons o os ih => cases o <;> exact ih

theorem step_core {cfg : Cfg} {env : Env} {c : Chain} (o : Op) (hc : Core b c) :
    Core (baseStep b o) (step cfg env c o).1 := by
  cases o with
  | discarded => exact hc
  | restart => exact hc
  | upgrade => exact upgrade_core c
  | tx v ls => exact applyTx_core v ls hc
  | recv r => exact recv_core r hc
  | ack a => exact ack_core a hc
  | createClient n => exact createClient_core n hc

theorem run_core {cfg : Cfg} {env : Env} (ops : List Op) {b : Bytes → Nat} {c : Chain} (hc : Core b c) :
    Core (baseRun b ops) (run cfg env c ops) := by
  induction ops generalizing c b with
  | nil => exact hc
  | cons o os ih => exact ih (step_core o hc)

/-- base of a chain whose history starts with the counters `seqs` -/
def freshBase (seqs : List (Bytes × Nat)) : Bytes → Nat :=
  fun d => match seqs.find? (fun e => e.1 == d) with
    | some e => e.2 - 1
    | none => 0

theorem fresh_core (self : Bytes) (clients : List Bytes) (seqs : List (Bytes × Nat)) (h : ∀ e ∈ seqs, 1 ≤ e.2) :
    Core (freshBase seqs) (fresh self clients seqs) := by
  constructor
  · intro d
    show (Option.map (·.2) (seqs.find? (fun e => e.1 == d))).getD 1 = freshBase seqs d + (sentTo [] d).length + 1 ∧
      (sentTo [] d).map (·.seq) = List.range' (freshBase seqs d + 1) (sentTo [] d).length
    unfold freshBase
    cases hf : seqs.find? (fun e => e.1 == d) with
    | none => simp [sentTo]
    | some e =>
      have := h e (List.mem_of_find?_eq_some hf)
      simp only [sentTo, List.filter_nil, List.length_nil, List.map_nil, List.range'_zero, Option.map_some,
        Option.getD_some, and_true]
      omega
  · intro d
    show (if (fresh self clients seqs).cseq d = 0 then 1 else (fresh self clients seqs).cseq d)
      = (Option.map (·.2) (seqs.find? (fun e => e.1 == d))).getD 1
    have hcs : (fresh self clients seqs).cseq d = (match seqs.find? (fun e => e.1 == d) with
      | some e => if e.2 = 1 then 0 else e.2
      | none => 0) := rfl
    rw [hcs]
    cases hf : seqs.find? (fun e => e.1 == d) with
    | none => simp
    | some e =>
      have := h e (List.mem_of_find?_eq_some hf)
      by_cases h1 : e.2 = 1
      · simp [h1]
      · have : e.2 ≠ 0 := by omega
        simp [h1, this]

theorem freshBase_ones (seqs : List (Bytes × Nat)) (h : ∀ e ∈ seqs, e.2 = 1) : freshBase seqs = fun _ => 0 := by
  funext d
  unfold freshBase
  cases hf : seqs.find? (fun e => e.1 == d) with
  | none => rfl
  | some e => simp [h e (List.mem_of_find?_eq_some hf)]


/-! ### invariants that need `self ∉ clients`: commitments come from sends only, every send stays committed -/

def FromSends (env : Env) (commits : Key → Option Bytes) (sent : List Packet) : Prop :=
  ∀ d i h, commits (d, i) = some h → ∃ p ∈ sent, p.dst = d ∧ p.seq = i ∧ h = env.sha256 p.bytes

def Committed (env : Env) (commits : Key → Option Bytes) (sent : List Packet) (acked : List Key) : Prop :=
  ∀ p ∈ sent, commits (p.dst, p.seq) = some (env.sha256 p.bytes) ∨ (p.dst, p.seq) ∈ acked

structure Full (b : Bytes → Nat) (env : Env) (c : Chain) : Prop where
  core : Core b c
  /-- the hypothesis `HandleCreateClient` does not establish: no client under the chain's own name -/
  noself : c.clients c.self = false
  fromSends : FromSends env c.commits c.sent
  committed : Committed env c.commits c.sent c.acked

theorem sent_seq_lt {c : Chain} (hc : Core b c) {p : Packet} (hp : p ∈ c.sent) : p.seq < chainNext c p.dst := by
  have g := hc.gap p.dst
  have hm : p ∈ sentTo c.sent p.dst := by simp [sentTo, hp]
  have : p.seq ∈ (sentTo c.sent p.dst).map (·.seq) := List.mem_map_of_mem hm
  rw [g.2, List.mem_range'_1] at this
  unfold chainNext; omega

theorem sendPacket_full {env : Env} {c c' : Chain} {p : Packet} (hf : Full b env c)
    (h : sendPacket env c p = .ok c') : Full b env c' ∧ c'.self = c.self := by
  have hcore := sendPacket_core hf.core h
  obtain ⟨_, _, _, hseq, rfl⟩ := sendPacket_ok h
  refine ⟨⟨hcore, hf.noself, ?_, ?_⟩, rfl⟩
  · intro d i hh hci
    show ∃ q ∈ c.sent ++ [p], _
    have hci : upd c.commits (p.dst, p.seq) (some (env.sha256 p.bytes)) (d, i) = some hh := hci
    by_cases hk : (d, i) = (p.dst, p.seq)
    · rw [hk, upd_same] at hci
      injection hk with h1 h2
      injection hci with hci
      exact ⟨p, by simp, h1.symm, h2.symm, hci.symm⟩
    · rw [upd_other _ _ _ _ hk] at hci
      obtain ⟨q, hq, h1, h2, h3⟩ := hf.fromSends d i hh hci
      exact ⟨q, by simp [hq], h1, h2, h3⟩
  · intro q hq
    have hq : q ∈ c.sent ++ [p] := hq
    show upd c.commits (p.dst, p.seq) (some (env.sha256 p.bytes)) (q.dst, q.seq) = _ ∨ (q.dst, q.seq) ∈ c.acked
    rw [List.mem_append, List.mem_singleton] at hq
    rcases hq with hq | rfl
    · have hlt := sent_seq_lt hf.core hq
      have hk : (q.dst, q.seq) ≠ (p.dst, p.seq) := by
        intro e
        injection e with h1 h2
        rw [h1] at hlt; omega
      rw [upd_other _ _ _ _ hk]
      exact hf.committed q hq
    · left; simp

theorem hookP_full {env : Env} (logs : List Log) {c : Chain} (hf : Full b env c) :
    Full b env (hookP env c logs).1 ∧ (hookP env c logs).1.self = c.self := by
  induction logs generalizing c with
  | nil => exact ⟨hf, rfl⟩
  | cons l ls ih =>
    cases l with
    | other => simpa [hookP] using ih hf
    | unknownEvent => simpa [hookP] using hf
    | badData => simpa [hookP] using hf
    | sent p =>
      simp only [hookP]
      cases hs : sendPacket env c p with
      | ok c' =>
        obtain ⟨h1, h2⟩ := sendPacket_full hf hs
        obtain ⟨h3, h4⟩ := ih h1
        exact ⟨by simpa using h3, by simpa [h2] using h4⟩
      | error e => simpa using hf

theorem full_escrow {env : Env} {c : Chain} (e : Nat × Bytes → Int) (hf : Full b env c) : Full b env { c with escrow := e } :=
  ⟨core_escrow e hf.core, hf.noself, hf.fromSends, hf.committed⟩

theorem evmCommit_full {env : Env} {c : Chain} (logs : List Log) (hf : Full b env c) :
    Full b env (evmCommit c logs) ∧ (evmCommit c logs).self = c.self := by
  obtain ⟨e, he⟩ := evmCommit_eq c logs
  rw [he]; exact ⟨full_escrow e hf, rfl⟩

theorem applyTx_full {env : Env} {c : Chain} (v : Bool) (logs : List Log) (hf : Full b env c) :
    Full b env (applyTx env c v logs).1 ∧ (applyTx env c v logs).1.self = c.self := by
  unfold applyTx
  cases v with
  | false => simpa using hf
  | true =>
    simp only [Bool.not_true, Bool.false_eq_true, ↓reduceIte]
    obtain ⟨h1, h2⟩ := evmCommit_full (env := env) logs hf
    have := hookP_full (env := env) logs h1
    rw [h2] at this
    generalize hookP env (evmCommit c logs) logs = r at *
    obtain ⟨c', b⟩ := r
    cases b
    · exact ⟨hf, rfl⟩
    · exact this

theorem callEvm_full {env : Env} {c : Chain} (v : Bool) (logs : List Log) (hf : Full b env c) :
    Full b env (callEvm env c v logs).1 ∧ (callEvm env c v logs).1.self = c.self := by
  unfold callEvm
  cases v with
  | false => simpa using hf
  | true =>
    obtain ⟨h1, h2⟩ := evmCommit_full (env := env) logs hf
    have := hookP_full (env := env) logs h1
    rw [h2] at this
    simpa using this

/-- **The relay branch of `Keeper.RecvPacket` is unreachable without a client under the chain's own name**:
a packet that passed `ValidatePacket` and the source-client lookup has `dst = self`, so an accepted receive writes
only its receipt (no `commitments/self/…` key). -/
theorem relay_branch_unreachable (env : Env) (c : Chain) (p : Packet) (hns : c.clients c.self = false)
    (hv : validatePacket c p = true) (hcl : c.clients p.src = true) :
    p.dst = c.self ∧ recvStore env c p = { c with receipts := upd c.receipts (p.src, p.dst, p.seq) true } := by
  have hd : p.dst = c.self := by
    unfold validatePacket at hv
    simp only [Bool.and_eq_true, Bool.or_eq_true, beq_iff_eq] at hv
    rcases hv.2 with h | h
    · exact h
    · rw [h, hns] at hcl; cases hcl
  refine ⟨hd, ?_⟩
  unfold recvStore
  simp [hd]

theorem full_receipts {env : Env} {c : Chain} (r : Triple → Bool) (hf : Full b env c) : Full b env { c with receipts := r } :=
  ⟨⟨hf.core.gap, hf.core.agree⟩, hf.noself, hf.fromSends, hf.committed⟩

theorem recvCallback_full {cfg : Cfg} {env : Env} {c2 : Chain} (r : RecvIn) (hf : Full b env c2) :
    Full b env (recvCallback cfg env c2 r).1 ∧ (recvCallback cfg env c2 r).1.self = c2.self := by
  unfold recvCallback
  have h3 := callEvm_full (env := env) r.cbVmOk r.cbLogs hf
  generalize callEvm env c2 r.cbVmOk r.cbLogs = q at *
  obtain ⟨c3, b⟩ := q
  cases b <;> simp only [] <;> repeat' split
  all_goals first | exact ⟨hf, rfl⟩ | exact h3

theorem recv_full {cfg : Cfg} {env : Env} {c : Chain} (r : RecvIn) (hf : Full b env c) :
    Full b env (recv cfg env c r).1 ∧ (recv cfg env c r).1.self = c.self := by
  unfold recv
  by_cases h1 : validatePacket c r.p = true
  · by_cases h2 : c.receipts (r.p.src, r.p.dst, r.p.seq) = true
    · simp [h1, h2]; exact hf
    · by_cases h3 : c.clients r.p.src = true
      · obtain ⟨hd, hs⟩ := relay_branch_unreachable env c r.p hf.noself h1 h3
        have hf2 : Full b env (recvStore env c r.p) := by rw [hs]; exact full_receipts _ hf
        have hs2 : (recvStore env c r.p).self = c.self := by rw [hs]
        simp only [h1, h2, h3, hd, Bool.not_true, Bool.false_eq_true, ↓reduceIte]
        repeat' split
        all_goals first | exact ⟨hf, rfl⟩ | (have := recvCallback_full (cfg := cfg) r hf2; rw [hs2] at this; exact this)
      · simp [h1, h2, h3]; exact hf
  · simp [h1]; exact hf

theorem ack_full {env : Env} {c : Chain} (a : AckIn) (hf : Full b env c) :
    Full b env (ack env c a).1 ∧ (ack env c a).1.self = c.self := by
  have key : Full b env { c with commits := upd c.commits (a.p.dst, a.p.seq) none, acked := (a.p.dst, a.p.seq) :: c.acked } := by
    refine ⟨⟨hf.core.gap, hf.core.agree⟩, hf.noself, ?_, ?_⟩
    · intro d i hh hci
      have hci : upd c.commits (a.p.dst, a.p.seq) none (d, i) = some hh := hci
      by_cases hk : (d, i) = (a.p.dst, a.p.seq)
      · rw [hk, upd_same] at hci; cases hci
      · rw [upd_other _ _ _ _ hk] at hci; exact hf.fromSends d i hh hci
    · intro q hq
      show upd c.commits (a.p.dst, a.p.seq) none (q.dst, q.seq) = _ ∨ (q.dst, q.seq) ∈ (a.p.dst, a.p.seq) :: c.acked
      by_cases hk : (q.dst, q.seq) = (a.p.dst, a.p.seq)
      · right; rw [hk]; simp
      · rw [upd_other _ _ _ _ hk]
        rcases hf.committed q hq with h | h
        · exact Or.inl h
        · exact Or.inr (List.mem_cons_of_mem _ h)
  unfold ack
  repeat' split
  all_goals first | exact ⟨hf, rfl⟩ | exact ⟨key, rfl⟩ | exact ⟨full_escrow _ key, rfl⟩

theorem createClient_full {cfg : Cfg} {env : Env} {c : Chain} (n : Bytes) (hn : cfg.rejectOwnName = true ∨ n ≠ c.self)
    (hf : Full b env c) : Full b env (createClient cfg c n).1 ∧ (createClient cfg c n).1.self = c.self := by
  unfold createClient
  by_cases hs : n = c.self
  · rcases hn with hn | hn
    · simp [hn, hs]; exact hf
    · exact absurd hs hn
  have hn : n ≠ c.self := hs
  have hb : (cfg.rejectOwnName && n == c.self) = false := by simp [hs]
  rw [hb]
  simp only [Bool.false_eq_true, ↓reduceIte]
  split
  · exact ⟨hf, rfl⟩
  · refine ⟨⟨⟨hf.core.gap, hf.core.agree⟩, ?_, hf.fromSends, hf.committed⟩, rfl⟩
    show upd c.clients n true c.self = false
    rw [upd_other _ _ _ _ (fun e => hn e.symm)]; exact hf.noself

/-- the explicit hypothesis on histories: governance never registers a client under the chain's own name
(discharged by the code itself once `HandleCreateClient` rejects the own name: `cfg.rejectOwnName`) -/
def OpOk (cfg : Cfg) (self : Bytes) : Op → Prop
  | .createClient n => cfg.rejectOwnName = true ∨ n ≠ self
  | _ => True

theorem opOk_hardened (cfg : Cfg) (h : cfg.rejectOwnName = true) (self : Bytes) (o : Op) : OpOk cfg self o := by
  cases o <;> simp [OpOk, h]

theorem upgrade_full (env : Env) (c : Chain) : Full (fun _ => 0) env (upgrade c).1 ∧ (upgrade c).1.self = c.self := by
  refine ⟨⟨upgrade_core c, rfl, ?_, ?_⟩, rfl⟩
  · intro d i h hc; simp [upgrade] at hc
  · intro p hp; simp [upgrade] at hp

theorem step_full {cfg : Cfg} {env : Env} {c : Chain} (o : Op) (ho : OpOk cfg c.self o) (hf : Full b env c) :
    Full (baseStep b o) env (step cfg env c o).1 ∧ (step cfg env c o).1.self = c.self := by
  cases o with
  | discarded => exact ⟨hf, rfl⟩
  | restart => exact ⟨hf, rfl⟩
  | upgrade => exact upgrade_full env c
  | tx v ls => exact applyTx_full v ls hf
  | recv r => exact recv_full r hf
  | ack a => exact ack_full a hf
  | createClient n => exact createClient_full n ho hf

theorem run_full {cfg : Cfg} {env : Env} (ops : List Op) {b : Bytes → Nat} {c : Chain}
    (ho : ∀ o ∈ ops, OpOk cfg c.self o)
    (hf : Full b env c) : Full (baseRun b ops) env (run cfg env c ops) := by
  induction ops generalizing c b with
  | nil => exact hf
  | cons o os ih =>
    obtain ⟨h1, h2⟩ := step_full (cfg := cfg) o (ho o (by simp)) hf
    exact ih (fun o' ho' => by rw [h2]; exact ho o' (by simp [ho'])) h1

/-! ### the genuine sends of a log list, and what a committed hook run did with them -/

def sentOf : List Log → List Packet
  | [] => []
  | .sent p :: ls => p :: sentOf ls
  | _ :: ls => sentOf ls

theorem hookP_ok_sent {env : Env} (logs : List Log) {c c' : Chain} (h : hookP env c logs = (c', true)) :
    c'.sent = c.sent ++ sentOf logs := by
  induction logs generalizing c with
  | nil => simp [hookP] at h; subst h; simp [sentOf]
  | cons l ls ih =>
    cases l with
    | other => simpa [hookP, sentOf] using ih h
    | unknownEvent => simp [hookP] at h
    | badData => simp [hookP] at h
    | sent p =>
      simp only [hookP] at h
      cases hs : sendPacket env c p with
      | ok c1 =>
        rw [hs] at h
        have := ih h
        obtain ⟨_, _, _, _, rfl⟩ := sendPacket_ok hs
        simpa [sentOf] using this
      | error e => rw [hs] at h; simp at h

theorem hookP_nosent {env : Env} (logs : List Log) {c : Chain} (hn : sentOf logs = []) : (hookP env c logs).1 = c := by
  induction logs generalizing c with
  | nil => rfl
  | cons l ls ih =>
    cases l with
    | other => simpa [hookP] using ih (by simpa [sentOf] using hn)
    | unknownEvent => rfl
    | badData => rfl
    | sent p => simp [sentOf] at hn

theorem evmCommit_nosent (logs : List Log) {c : Chain} (hn : sentOf logs = []) : evmCommit c logs = c := by
  induction logs generalizing c with
  | nil => rfl
  | cons l ls ih =>
    cases l with
    | other => simpa [evmCommit] using ih (by simpa [sentOf] using hn)
    | unknownEvent => simpa [evmCommit] using ih (by simpa [sentOf] using hn)
    | badData => simpa [evmCommit] using ih (by simpa [sentOf] using hn)
    | sent p => simp [sentOf] at hn

theorem hookP_single {env : Env} (logs : List Log) {c c' : Chain} {p : Packet} (hl : sentOf logs = [p])
    (h : hookP env c logs = (c', true)) : sendPacket env c p = .ok c' := by
  induction logs generalizing c with
  | nil => simp [sentOf] at hl
  | cons l ls ih =>
    cases l with
    | other => exact ih (by simpa [sentOf] using hl) (by simpa [hookP] using h)
    | unknownEvent => simp [hookP] at h
    | badData => simp [hookP] at h
    | sent q =>
      simp only [sentOf, List.cons.injEq] at hl
      obtain ⟨rfl, hn⟩ := hl
      simp only [hookP] at h
      cases hs : sendPacket env c q with
      | ok c1 =>
        rw [hs] at h
        have h : hookP env c1 ls = (c', true) := h
        have := hookP_nosent (env := env) ls (c := c1) hn
        rw [h] at this
        have : c' = c1 := this
        rw [this]
      | error e => rw [hs] at h; simp at h

theorem evmCommit_single (logs : List Log) {c : Chain} {p : Packet} (hl : sentOf logs = [p]) :
    evmCommit c logs = lockOne c p := by
  induction logs generalizing c with
  | nil => simp [sentOf] at hl
  | cons l ls ih =>
    cases l with
    | other => simpa [evmCommit] using ih (by simpa [sentOf] using hl)
    | unknownEvent => simpa [evmCommit] using ih (by simpa [sentOf] using hl)
    | badData => simpa [evmCommit] using ih (by simpa [sentOf] using hl)
    | sent q =>
      simp only [sentOf, List.cons.injEq] at hl
      obtain ⟨rfl, hn⟩ := hl
      simp only [evmCommit]
      exact evmCommit_nosent ls hn

/-! ## The property theorems -/

/-- **Gap-free sequences.** After any history (user transactions with any mix of genuine / forged / malformed logs,
receives with nested sends, acknowledgements, client creations; repaired or unrepaired callback context) started on a
chain that satisfies the invariant, for every destination the chain counter is `k+1`, where `k` is the number of
successful sends to it, and the `i`-th successful send carried sequence `i`. -/
theorem seq_gap_free_from (cfg : Cfg) (env : Env) (c : Chain) (ops : List Op) (hc : Core b c) (d : Bytes) :
    let c' := run cfg env c ops
    let b' := baseRun b ops
    chainNext c' d = b' d + (sentTo c'.sent d).length + 1 ∧
    ∀ i (hi : i < (sentTo c'.sent d).length), ((sentTo c'.sent d)[i]).seq = b' d + i + 1 := by
  intro c' b'
  have g := (run_core (cfg := cfg) (env := env) ops hc).gap d
  refine ⟨g.1, fun i hi => ?_⟩
  have h2 : ((sentTo c'.sent d).map (·.seq))[i]? = (List.range' (b' d + 1) (sentTo c'.sent d).length)[i]? := by rw [g.2]
  simp only [List.getElem?_map, List.getElem?_range', hi] at h2
  simp [List.getElem?_eq_getElem hi] at h2
  omega

/-- `seq_gap_free_from` for a chain on which nothing has been sent yet (counters absent or initialised to 1):
the counter is k+1 and the i-th successful send carried sequence i. -/
theorem seq_gap_free (cfg : Cfg) (env : Env) (self : Bytes) (clients : List Bytes) (seqs : List (Bytes × Nat))
    (h1 : ∀ e ∈ seqs, e.2 = 1) (ops : List Op) (d : Bytes) :
    let c' := run cfg env (fresh self clients seqs) ops
    chainNext c' d = (sentTo c'.sent d).length + 1 ∧
    ∀ i (hi : i < (sentTo c'.sent d).length), ((sentTo c'.sent d)[i]).seq = i + 1 := by
  have hc := fresh_core self clients seqs (fun e he => by rw [h1 e he]; exact Nat.le_refl 1)
  rw [freshBase_ones seqs h1] at hc
  have := seq_gap_free_from cfg env _ ops hc d
  simp only [baseRun_zero, Nat.zero_add] at this
  exact this

/-- **Boundary: a history that starts with the counter of a destination at any `n ≥ 1`** (a chain that has already sent
`n - 1` packets — near 2^63, at 2^64 - 2, …): as long as no upgrade intervenes the counter is `n + k` and the i-th
successful send carried `n + i - 1`; and no send ever carries a sequence ≥ 2^64 - 1 (`send_below_max`): the counter
cannot wrap, a destination whose counter reached 2^64 - 1 is closed. -/
theorem seq_gap_free_planted (cfg : Cfg) (env : Env) (self : Bytes) (clients : List Bytes) (seqs : List (Bytes × Nat))
    (h1 : ∀ e ∈ seqs, 1 ≤ e.2) (ops : List Op) (d : Bytes) :
    let c' := run cfg env (fresh self clients seqs) ops
    let b' := baseRun (freshBase seqs) ops
    chainNext c' d = b' d + (sentTo c'.sent d).length + 1 ∧
    ∀ i (hi : i < (sentTo c'.sent d).length), ((sentTo c'.sent d)[i]).seq = b' d + i + 1 :=
  seq_gap_free_from cfg env _ ops (fresh_core self clients seqs h1) d

/-- the uint64 counter never wraps: a successful send has `seq + 1 < 2^64` (at `seq = 2^64 - 1` the Go increment wraps
to 0 and the packet contract's `setSequence` rejects it, so `SendPacket` fails and the transaction is reverted) -/
theorem send_below_max {env : Env} {c c' : Chain} {p : Packet} (h : sendPacket env c p = .ok c') :
    p.seq + 1 < 2 ^ 64 := by
  unfold sendPacket at h
  by_cases h5 : p.seq + 1 ≥ 2 ^ 64
  · repeat' split at h
    all_goals first | cases h | omega
  · omega

/-- The ghost list `sent` is exactly the genuine `PacketSent` logs of the committed user transactions:
a committed transaction appends its genuine sends in log order, a failed one appends nothing. -/
theorem tx_sends (env : Env) (c : Chain) (v : Bool) (logs : List Log) :
    (applyTx env c v logs).1.sent = c.sent ++ (if (applyTx env c v logs).2 = .ok then sentOf logs else []) := by
  unfold applyTx
  cases v with
  | false => simp
  | true =>
    simp only [Bool.not_true, Bool.false_eq_true, ↓reduceIte]
    obtain ⟨e, he⟩ := evmCommit_eq c logs
    cases hk : hookP env (evmCommit c logs) logs with
    | mk c' b =>
      cases b
      · simp
      · have := hookP_ok_sent logs hk
        rw [he] at this
        simpa using this

/-- **The chain counter and the packet contract's counter agree** for every destination after every history. -/
theorem counters_agree (cfg : Cfg) (env : Env) (c : Chain) (ops : List Op) (hc : Core b c) (d : Bytes) :
    contractNext (run cfg env c ops) d = chainNext (run cfg env c ops) d :=
  (run_core (cfg := cfg) (env := env) ops hc).agree d

/-- **One commitment per send** (keeper level): a successful `SendPacket` of `p` required `p.seq` to be the next
sequence, stores `sha256 p.bytes` under `(self, p.dst, p.seq)`, moves both counters of that destination to
`p.seq + 1`, and changes nothing else. -/
theorem one_commitment_send {env : Env} {c c' : Chain} {p : Packet} (h : sendPacket env c p = .ok c') :
    p.src = c.self ∧ p.seq = chainNext c p.dst ∧
    c'.commits (p.dst, p.seq) = some (env.sha256 p.bytes) ∧
    (∀ k, k ≠ (p.dst, p.seq) → c'.commits k = c.commits k) ∧
    chainNext c' p.dst = p.seq + 1 ∧ contractNext c' p.dst = p.seq + 1 ∧
    (∀ d, d ≠ p.dst → c'.nextSeq d = c.nextSeq d ∧ c'.cseq d = c.cseq d) ∧
    c'.escrow = c.escrow ∧ c'.receipts = c.receipts ∧ c'.clients = c.clients ∧ c'.self = c.self ∧
    c'.acked = c.acked ∧ c'.sent = c.sent ++ [p] := by
  obtain ⟨_, hsrc, _, hseq, rfl⟩ := sendPacket_ok h
  refine ⟨hsrc, hseq, by simp, fun k hk => upd_other _ _ _ _ hk, by simp [chainNext], by simp [contractNext],
    fun d hd => ⟨upd_other _ _ _ _ hd, upd_other _ _ _ _ hd⟩, rfl, rfl, rfl, rfl, rfl, rfl⟩

/-- **One commitment per send** (transaction level): a committed user transaction whose only genuine `PacketSent`
log is `p` (any number of look-alike logs around it) leaves `commits (self, p.dst, p.seq) = sha256 p.bytes`,
changes no other commitment, no counter of another destination, no receipt, and no escrow beyond the lock of that call. -/
theorem one_commitment (env : Env) (c : Chain) (logs : List Log) (p : Packet) (hl : sentOf logs = [p])
    (hok : (applyTx env c true logs).2 = .ok) :
    let c' := (applyTx env c true logs).1
    p.seq = chainNext c p.dst ∧
    c'.commits (p.dst, p.seq) = some (env.sha256 p.bytes) ∧
    (∀ k, k ≠ (p.dst, p.seq) → c'.commits k = c.commits k) ∧
    chainNext c' p.dst = p.seq + 1 ∧ contractNext c' p.dst = p.seq + 1 ∧
    (∀ d, d ≠ p.dst → c'.nextSeq d = c.nextSeq d ∧ c'.cseq d = c.cseq d) ∧
    c'.escrow = (lockOne c p).escrow ∧ c'.receipts = c.receipts ∧ c'.sent = c.sent ++ [p] := by
  intro c'
  have hc' : c' = (applyTx env c true logs).1 := rfl
  unfold applyTx at hok hc'
  simp only [Bool.not_true, Bool.false_eq_true, ↓reduceIte] at hok hc'
  rw [evmCommit_single logs hl] at hok hc'
  cases hk : hookP env (lockOne c p) logs with
  | mk c1 b =>
    rw [hk] at hok hc'
    cases b
    · simp at hok
    · simp only at hc'
      subst hc'
      have hs := hookP_single logs hl hk
      obtain ⟨e, he⟩ := lockOne_eq c p
      have := one_commitment_send hs
      rw [he] at this hs ⊢
      obtain ⟨_, h2, h3, h4, h5, h6, h7, h8, h9, _, _, _, h13⟩ := this
      exact ⟨h2, h3, h4, h5, h6, h7, h8, h9, h13⟩

/-- Under the invariant (in particular `self ∉ clients`) the slot a send writes was empty: commitments are never
overwritten by a send. -/
theorem commitment_slot_fresh {env : Env} {c c' : Chain} {p : Packet} (hf : Full b env c)
    (h : sendPacket env c p = .ok c') : c.commits (p.dst, p.seq) = none := by
  obtain ⟨_, _, _, hseq, _⟩ := sendPacket_ok h
  cases hc : c.commits (p.dst, p.seq) with
  | none => rfl
  | some hh =>
    obtain ⟨q, hq, h1, h2, _⟩ := hf.fromSends p.dst p.seq hh hc
    have := sent_seq_lt hf.core hq
    rw [h1, h2] at this; omega

/-- **Committed sequences are exactly the sent ones** (needs `self ∉ clients` and histories that never create a
client under the chain's own name): after any such history every stored commitment `(d, i)` is the hash of the bytes
of the `i`-th successful send to `d` (`i ≤ k`), and every successful send still has its commitment unless an accepted
acknowledgement removed it. -/
theorem commitments_exact (cfg : Cfg) (env : Env) (c : Chain) (ops : List Op) (hf : Full b env c)
    (ho : ∀ o ∈ ops, OpOk cfg c.self o) :
    let c' := run cfg env c ops
    (∀ d i h, c'.commits (d, i) = some h → ∃ p ∈ c'.sent, p.dst = d ∧ p.seq = i ∧ h = env.sha256 p.bytes ∧ i < chainNext c' d) ∧
    (∀ p ∈ c'.sent, c'.commits (p.dst, p.seq) = some (env.sha256 p.bytes) ∨ (p.dst, p.seq) ∈ c'.acked) := by
  intro c'
  have hf' := run_full (cfg := cfg) ops ho hf
  refine ⟨fun d i h hc => ?_, hf'.committed⟩
  obtain ⟨p, hp, h1, h2, h3⟩ := hf'.fromSends d i h hc
  refine ⟨p, hp, h1, h2, h3, ?_⟩
  have := sent_seq_lt hf'.core hp
  rw [h1, h2] at this; exact this

/-- `commitments_exact` without any hypothesis on the history once `HandleCreateClient` rejects the own name. -/
theorem commitments_exact_hardened (cfg : Cfg) (hh : cfg.rejectOwnName = true) (env : Env) (c : Chain) (ops : List Op)
    (hf : Full b env c) :
    let c' := run cfg env c ops
    (∀ d i h, c'.commits (d, i) = some h → ∃ p ∈ c'.sent, p.dst = d ∧ p.seq = i ∧ h = env.sha256 p.bytes ∧ i < chainNext c' d) ∧
    (∀ p ∈ c'.sent, c'.commits (p.dst, p.seq) = some (env.sha256 p.bytes) ∨ (p.dst, p.seq) ∈ c'.acked) :=
  commitments_exact cfg env c ops hf (fun o _ => opOk_hardened cfg hh c.self o)

/-- **A failed transaction changes nothing** — VM failure or any failing post-processing hook (unknown destination,
wrong sequence, malformed packet, undecodable payload, source ≠ self): store, both counters, escrow, ghost lists. -/
theorem failed_send_noop (env : Env) (c : Chain) (v : Bool) (logs : List Log)
    (h : (applyTx env c v logs).2 ≠ .ok) : (applyTx env c v logs).1 = c := by
  unfold applyTx at *
  cases v with
  | false => simp
  | true =>
    simp only [Bool.not_true, Bool.false_eq_true, ↓reduceIte] at *
    generalize hookP env (evmCommit c logs) logs = r at *
    obtain ⟨c', b⟩ := r
    cases b <;> simp_all

/-- what an accepted receive addressed to this chain writes besides the callback's effects: its receipt -/
def withReceipt (c : Chain) (p : Packet) : Chain := { c with receipts := upd c.receipts (p.src, p.dst, p.seq) true }

theorem recvStore_self (env : Env) (c : Chain) (p : Packet) (hd : p.dst = c.self) : recvStore env c p = withReceipt c p := by
  unfold recvStore withReceipt; simp [hd]

theorem recv_cases (cfg : Cfg) (env : Env) (c : Chain) (r : RecvIn) :
    recv cfg env c r = (c, .err) ∨
    (r.p.dst = c.self ∧ recv cfg env c r = recvCallback cfg env (withReceipt c r.p) r) ∨
    (r.p.dst ≠ c.self ∧ recv cfg env c r = (recvStore env c r.p, if c.clients r.p.dst then .ok else .ackNoRoute)) := by
  unfold recv
  by_cases h1 : (!validatePacket c r.p) = true
  · simp [h1]
  by_cases h2 : c.receipts (r.p.src, r.p.dst, r.p.seq) = true
  · simp [h1, h2]
  by_cases h3 : (!c.clients r.p.src) = true
  · simp [h1, h2, h3]
  by_cases h4 : (!r.verifyOk) = true
  · simp [h1, h2, h3, h4]
  by_cases h5 : (!r.relayerFound) = true
  · simp [h1, h2, h3, h4, h5]
  by_cases hd : r.p.dst = c.self
  · right; left
    refine ⟨hd, ?_⟩
    rw [if_neg h1, if_neg h2, if_neg h3, if_neg h4, if_neg h5, if_pos hd, recvStore_self env c r.p hd]
  · right; right
    refine ⟨hd, ?_⟩
    rw [if_neg h1, if_neg h2, if_neg h3, if_neg h4, if_neg h5, if_neg hd]

/-- **A failed nested send changes nothing** (module-call path, repaired callback context): when the receive callback
fails — EVM failure, or a nested `crossChainCall` whose `SendPacket` fails in the hook — or returns a non-zero result
code, the state after the receive is the state before it plus the receipt: no counter, commitment or escrow change. -/
theorem failed_nested_send_noop (cfg : Cfg) (env : Env) (c : Chain) (r : RecvIn) (hfix : cfg.cbOnCctx = true)
    (h : (recv cfg env c r).2 = .ackErr ∨ ∃ k, k ≠ 0 ∧ (recv cfg env c r).2 = .ackOk k) :
    (recv cfg env c r).1 = withReceipt c r.p := by
  rcases recv_cases cfg env c r with he | ⟨_, he⟩ | ⟨_, he⟩
  · rw [he] at h; exfalso; revert h; first | (split <;> simp) | simp
  · rw [he] at h ⊢
    unfold recvCallback at h ⊢
    generalize callEvm env (withReceipt c r.p) r.cbVmOk r.cbLogs = q at *
    obtain ⟨c3, b⟩ := q
    cases b
    · simp [hfix]
    · simp only [hfix, ↓reduceIte] at h ⊢
      by_cases hk : r.cbCode = 0
      · simp [hk] at h
      · simp [hk]
  · rw [he] at h; exfalso; revert h; first | (split <;> simp) | simp

/-- Unrepaired tree (F1, callback on `ctx`): the same statement is provable only when the callback emitted no genuine
`PacketSent` log. Full statement (`failed_nested_send_noop` with `cbOnCctx = false`) is FALSE — witness below. -/
theorem failed_nested_send_noop_partial (cfg : Cfg) (env : Env) (c : Chain) (r : RecvIn)
    (hn : sentOf r.cbLogs = []) (h : (recv cfg env c r).2 = .ackErr) :
    (recv cfg env c r).1 = withReceipt c r.p := by
  rcases recv_cases cfg env c r with he | ⟨_, he⟩ | ⟨_, he⟩
  · rw [he] at h; exfalso; revert h; first | (split <;> simp) | simp
  · rw [he] at h ⊢
    have hc : (callEvm env (withReceipt c r.p) r.cbVmOk r.cbLogs).1 = withReceipt c r.p := by
      unfold callEvm
      cases r.cbVmOk
      · rfl
      · simp only [Bool.not_true, Bool.false_eq_true, ↓reduceIte]
        rw [evmCommit_nosent _ hn]; exact hookP_nosent _ hn
    unfold recvCallback at h ⊢
    generalize callEvm env (withReceipt c r.p) r.cbVmOk r.cbLogs = q at *
    obtain ⟨c3, b⟩ := q
    simp only at hc; subst hc
    cases b <;> simp only [] <;> repeat' split
    all_goals first | rfl | simp_all
  · rw [he] at h; exfalso; revert h; first | (split <;> simp) | simp

/-- A rejected receive changes nothing at all. -/
theorem rejected_recv_noop (cfg : Cfg) (env : Env) (c : Chain) (r : RecvIn) (h : (recv cfg env c r).2 = .err) :
    (recv cfg env c r).1 = c := by
  rcases recv_cases cfg env c r with he | ⟨_, he⟩ | ⟨_, he⟩
  · rw [he]
  · rw [he] at h
    exfalso; revert h
    unfold recvCallback
    generalize callEvm env (withReceipt c r.p) r.cbVmOk r.cbLogs = q
    obtain ⟨c3, b⟩ := q
    cases b <;> simp only [] <;> repeat' split
    all_goals simp
  · rw [he] at h; exfalso; revert h; first | (split <;> simp) | simp

/-! ### software upgrade (`app/upgrades.go`, handler `v0.2`) -/

/-- What the handler leaves: both counters of every destination at "next = 1", no commitment, no receipt, no client;
the endpoint's escrow is not touched. -/
theorem upgrade_resets (c : Chain) (d : Bytes) (k : Key) (t : Triple) :
    chainNext (upgrade c).1 d = 1 ∧ contractNext (upgrade c).1 d = 1 ∧ (upgrade c).1.commits k = none ∧
    (upgrade c).1.receipts t = false ∧ (upgrade c).1.clients d = false ∧ (upgrade c).1.escrow = c.escrow ∧
    (upgrade c).1.sent = [] := by
  simp [upgrade, chainNext, contractNext]

/-- **The two counters are one counter in every reachable state, upgrades included**: `counters_agree` and
`seq_gap_free_from` quantify over op lists that contain `Op.upgrade` at arbitrary positions (it is a constructor of
`Op`); this corollary says more — the handler *re-establishes* the invariant from ANY state (no hypothesis on `c`), so
after an upgrade followed by any history the chain counter equals the contract counter and the sends since the upgrade
are numbered 1, 2, … per destination. -/
theorem counters_agree_after_upgrade (cfg : Cfg) (env : Env) (c : Chain) (post : List Op) (d : Bytes) :
    let c' := run cfg env c (.upgrade :: post)
    contractNext c' d = chainNext c' d ∧
    chainNext c' d = (sentTo c'.sent d).length + 1 ∧
    ∀ i (hi : i < (sentTo c'.sent d).length), ((sentTo c'.sent d)[i]).seq = i + 1 := by
  intro c'
  have hc : Core (fun _ => 0) (upgrade c).1 := upgrade_core c
  refine ⟨counters_agree cfg env _ post hc d, ?_⟩
  have := seq_gap_free_from cfg env _ post hc d
  simp only [baseRun_zero, Nat.zero_add] at this
  exact this

/-- commitments after an upgrade are exactly those of the sends since the upgrade (again from ANY state before it) -/
theorem commitments_exact_after_upgrade (cfg : Cfg) (env : Env) (c : Chain) (post : List Op)
    (ho : ∀ o ∈ post, OpOk cfg c.self o) :
    let c' := run cfg env c (.upgrade :: post)
    (∀ d i h, c'.commits (d, i) = some h → ∃ p ∈ c'.sent, p.dst = d ∧ p.seq = i ∧ h = env.sha256 p.bytes ∧ i < chainNext c' d) ∧
    (∀ p ∈ c'.sent, c'.commits (p.dst, p.seq) = some (env.sha256 p.bytes) ∨ (p.dst, p.seq) ∈ c'.acked) := by
  obtain ⟨hf, hs⟩ := upgrade_full env c
  exact commitments_exact cfg env (upgrade c).1 post hf (fun o h => by rw [hs]; exact ho o h)

/-- **A successful send carries the value of BOTH counters** (and, by `one_commitment_send`, leaves exactly one
commitment and moves both to `seq + 1`) — in every state satisfying the invariant, hence in every reachable state,
before or after any number of upgrades. -/
theorem send_seq_is_both_counters {env : Env} {c c' : Chain} {p : Packet} (hc : Core b c)
    (h : sendPacket env c p = .ok c') :
    p.seq = chainNext c p.dst ∧ p.seq = contractNext c p.dst ∧
    chainNext c' p.dst = p.seq + 1 ∧ contractNext c' p.dst = p.seq + 1 ∧
    c'.commits (p.dst, p.seq) = some (env.sha256 p.bytes) := by
  obtain ⟨_, h2, h3, _, h5, h6, _⟩ := one_commitment_send h
  exact ⟨h2, by rw [h2]; exact (hc.agree p.dst).symm, h5, h6, h3⟩

/-! ### restart from an exported genesis -/

/-- **A restart from exported state is the identity**: nothing the property talks about changes — not the chain
counters, not the contract counters, no commitment, no receipt, no client, no escrow, and (unlike an upgrade) the
numbering of sends continues. The differential run holds the real export → `NewTeleport` → `InitChain` to this. -/
theorem restart_identity (cfg : Cfg) (env : Env) (c : Chain) :
    (step cfg env c .restart).1 = c ∧ (step cfg env c .restart).2 = .ok := ⟨rfl, rfl⟩

/-- run over a concatenation (used to splice a restart into a history) -/
theorem run_append (cfg : Cfg) (env : Env) (c : Chain) (pre post : List Op) :
    run cfg env c (pre ++ post) = run cfg env (run cfg env c pre) post := by
  induction pre generalizing c with
  | nil => rfl
  | cons o os ih => exact ih _

/-- a restart spliced in anywhere changes no reachable state: the history with the restart ends in exactly the state of
the history without it -/
theorem restart_transparent (cfg : Cfg) (env : Env) (c : Chain) (pre post : List Op) :
    run cfg env c (pre ++ .restart :: post) = run cfg env c (pre ++ post) := by
  rw [run_append, run_append]; rfl

/-- **Sequencing continues across restarts**: `seq_gap_free_from`, `counters_agree`, `commitments_exact` quantify over
op lists containing `Op.restart` anywhere (constructor of `Op`; the inductions have its case); spelled out for one
restart: after `pre`, a restart and `post`, the counter of `d` is (all successful sends to `d`, before AND after the
restart — the ghost list and the base are those of the history without the restart) + base + 1, the i-th of them
carried base + i (base = 0 for counters that started at 1), and the two counters agree. -/
theorem sequencing_across_restart (cfg : Cfg) (env : Env) (c : Chain) (pre post : List Op) (hc : Core b c) (d : Bytes) :
    let c' := run cfg env c (pre ++ .restart :: post)
    let b' := baseRun b (pre ++ .restart :: post)
    contractNext c' d = chainNext c' d ∧
    chainNext c' d = b' d + (sentTo c'.sent d).length + 1 ∧
    (∀ i (hi : i < (sentTo c'.sent d).length), ((sentTo c'.sent d)[i]).seq = b' d + i + 1) ∧
    c' = run cfg env c (pre ++ post) ∧ b' = baseRun b (pre ++ post) := by
  intro c' b'
  refine ⟨counters_agree cfg env c _ hc d, (seq_gap_free_from cfg env c _ hc d).1, (seq_gap_free_from cfg env c _ hc d).2,
    restart_transparent cfg env c pre post, ?_⟩
  show List.foldl baseStep b (pre ++ .restart :: post) = List.foldl baseStep b (pre ++ post)
  simp [List.foldl_append, baseStep]

/-! ### discarded executions, second instances, the codec -/

/-- **A handler run on a dropped context is the identity** (Simulate, CheckTx, a dry run, a failed multi-message
transaction): no counter, commitment, receipt or escrow changes and every later verdict is the one of the history
without it. -/
theorem discarded_identity (cfg : Cfg) (env : Env) (c : Chain) (pre post : List Op) :
    (step cfg env c .discarded).1 = c ∧
    run cfg env c (pre ++ .discarded :: post) = run cfg env c (pre ++ post) := by
  refine ⟨rfl, ?_⟩
  rw [run_append, run_append]; rfl

theorem hookP_frame {env : Env} (logs : List Log) {c : Chain} (d : Bytes) (hd : ∀ p ∈ sentOf logs, p.dst ≠ d) :
    (hookP env c logs).1.nextSeq d = c.nextSeq d ∧ (hookP env c logs).1.cseq d = c.cseq d ∧
    ∀ i, (hookP env c logs).1.commits (d, i) = c.commits (d, i) := by
  induction logs generalizing c with
  | nil => exact ⟨rfl, rfl, fun _ => rfl⟩
  | cons l ls ih =>
    cases l with
    | other => simpa [hookP] using ih (by simpa [sentOf] using hd)
    | unknownEvent => exact ⟨rfl, rfl, fun _ => rfl⟩
    | badData => exact ⟨rfl, rfl, fun _ => rfl⟩
    | sent p =>
      simp only [hookP]
      have hp : p.dst ≠ d := hd p (by simp [sentOf])
      cases hs : sendPacket env c p with
      | error e => exact ⟨rfl, rfl, fun _ => rfl⟩
      | ok c1 =>
        obtain ⟨h1, h2, h3⟩ := ih (c := c1) (fun q hq => hd q (by simp [sentOf, hq]))
        obtain ⟨_, _, _, hk, _, _, hf, _⟩ := one_commitment_send hs
        have hd' : d ≠ p.dst := fun e => hp e.symm
        refine ⟨by simp only; rw [h1, (hf d hd').1], by simp only; rw [h2, (hf d hd').2], fun i => ?_⟩
        simp only; rw [h3 i, hk (d, i) (by intro e; injection e with e1 _; exact hd' e1)]

/-- **Second instance / frame**: a transaction none of whose genuine sends goes to `d` changes neither counter of `d`
nor any commitment under `d` — destinations do not leak into each other, however their names are related
(prefixes, case siblings: the keys are compared as byte strings). -/
theorem tx_frame (env : Env) (c : Chain) (v : Bool) (logs : List Log) (d : Bytes)
    (hd : ∀ p ∈ sentOf logs, p.dst ≠ d) :
    let c' := (applyTx env c v logs).1
    chainNext c' d = chainNext c d ∧ contractNext c' d = contractNext c d ∧ ∀ i, c'.commits (d, i) = c.commits (d, i) := by
  intro c'
  have key : c'.nextSeq d = c.nextSeq d ∧ c'.cseq d = c.cseq d ∧ ∀ i, c'.commits (d, i) = c.commits (d, i) := by
    show (applyTx env c v logs).1.nextSeq d = _ ∧ (applyTx env c v logs).1.cseq d = _ ∧ ∀ i, (applyTx env c v logs).1.commits (d, i) = _
    unfold applyTx
    cases v with
    | false => exact ⟨rfl, rfl, fun _ => rfl⟩
    | true =>
      simp only [Bool.not_true, Bool.false_eq_true, ↓reduceIte]
      have hf := hookP_frame (env := env) logs (c := evmCommit c logs) d hd
      obtain ⟨e, he⟩ := evmCommit_eq c logs
      have e1 : (evmCommit c logs).nextSeq = c.nextSeq := by rw [he]
      have e2 : (evmCommit c logs).cseq = c.cseq := by rw [he]
      have e3 : (evmCommit c logs).commits = c.commits := by rw [he]
      rw [e1, e2, e3] at hf
      generalize hookP env (evmCommit c logs) logs = r at *
      obtain ⟨c1, ok⟩ := r
      cases ok
      · exact ⟨rfl, rfl, fun _ => rfl⟩
      · exact hf
  exact ⟨by simp [chainNext, key.1], by simp [contractNext, key.2.1], key.2.2⟩

/-- The hook decodes the emitted payload and `SendPacket` commits to the RE-ENCODED packet (`CommitPacket(decode raw)`).
`reenc raw` = `ABIPack (ABIDecode raw)`. -/
structure Codec where
  reenc : Bytes → Option Bytes

/-- the round trip the commitment silently relies on: re-encoding the decoded payload gives the emitted bytes back -/
def RoundTrip (k : Codec) (raw : Bytes) : Prop := k.reenc raw = some raw

/-- **The commitment of a successful send is the hash of the bytes the packet contract emitted** — under the explicit
hypothesis that decode-then-encode is the identity on that payload (`RoundTrip`; discharged for the generated ABI tuple
and JSON schema of the packet by `Proofs/C04Codec.lean` from the C19 theorem `packet_decode_encode`). Without it the
commitment is the hash of *another* packet (e.g. a tuple component renamed so that the JSON round trip drops
`fee_option`): `commitment_not_emitted_without_roundtrip`. -/
theorem send_commitment_is_hash_of_emitted {env : Env} {c c' : Chain} {p : Packet} (k : Codec) (raw : Bytes)
    (hdec : k.reenc raw = some p.bytes) (hrt : RoundTrip k raw) (h : sendPacket env c p = .ok c') :
    c'.commits (p.dst, p.seq) = some (env.sha256 raw) := by
  have : p.bytes = raw := by
    unfold RoundTrip at hrt; rw [hrt] at hdec; injection hdec with e; exact e.symm
  rw [← this]; exact (one_commitment_send h).2.2.1

theorem commitment_not_emitted_without_roundtrip {env : Env} {c c' : Chain} {p : Packet} (k : Codec) (raw : Bytes)
    (hdec : k.reenc raw = some p.bytes) (hne : env.sha256 p.bytes ≠ env.sha256 raw) (h : sendPacket env c p = .ok c') :
    c'.commits (p.dst, p.seq) ≠ some (env.sha256 raw) := by
  rw [(one_commitment_send h).2.2.1]; intro e; injection e with e; exact hne e

/-! ### the other hooks of the chain (staking, gov, aggregate run BEFORE the packet hook on the same receipt) -/

/-- A hook earlier in ethermint's `MultiEvmHooks` chain, as far as the packet hook is concerned: `view ls` is what the
SHARED receipt's log list holds after the hook ran on `ls` (Go slices alias: a hook that filters "in place" —
`logs := receipt.Logs[:0]; logs = append(logs, log)` — overwrites entries of the receipt the later hooks read),
`ok ls` whether it returned nil. -/
structure OtherHook where
  view : List Log → List Log
  ok : List Log → Bool

/-- the hook only reads the receipt -/
def ReadOnly (h : OtherHook) : Prop := ∀ ls, h.view ls = ls

/-- the log list the packet hook receives after the earlier hooks of the chain -/
def chainView (hs : List OtherHook) (ls : List Log) : List Log := hs.foldl (fun l h => h.view l) ls

/-- every earlier hook returned nil (each on the list as its predecessors left it) -/
def chainOk : List OtherHook → List Log → Bool
  | [], _ => true
  | h :: hs, ls => h.ok ls && chainOk hs (h.view ls)

/-- `ApplyTransaction` with the whole hook chain: the EVM state committed is that of the logs the EVM produced; the
packet hook consumes the receipt as the earlier hooks left it; any hook error reverts the transaction. -/
def applyTxChain (env : Env) (c : Chain) (hs : List OtherHook) (vmOk : Bool) (logs : List Log) : Chain × Res :=
  if !vmOk then (c, .vmFailed)
  else if !chainOk hs logs then (c, .hookFailed)
  else
    match hookP env (evmCommit c logs) (chainView hs logs) with
    | (c', true) => (c', .ok)
    | (_, false) => (c, .hookFailed)

theorem chainView_readOnly (hs : List OtherHook) (hro : ∀ h ∈ hs, ReadOnly h) (ls : List Log) : chainView hs ls = ls := by
  induction hs generalizing ls with
  | nil => rfl
  | cons h t ih =>
    show chainView t (h.view ls) = ls
    rw [hro h (by simp), ih (fun x hx => hro x (by simp [hx]))]

/-- **Other hooks do not hide sends**: if every hook earlier in the chain only reads the receipt (and returns nil), the
packet hook sees exactly the log list the EVM produced — the transaction behaves as `applyTx` says, so every
`PacketSent` log of the packet contract in the receipt gets its `SendPacket` (commitment, both counters), wherever the
other system contracts' logs stand in the receipt. The hypothesis is a statement about Go slice aliasing in
`adapter/*/hooks.go` and `x/*/keeper/evm_hooks.go`; it is checked on the source by the harness
(`C04:hook-modifies-shared-receipt`) and behaviourally by the mixed-receipt transactions. -/
theorem other_hooks_do_not_hide_sends (env : Env) (c : Chain) (hs : List OtherHook) (v : Bool) (logs : List Log)
    (hro : ∀ h ∈ hs, ReadOnly h) (hok : chainOk hs logs = true) :
    applyTxChain env c hs v logs = applyTx env c v logs := by
  unfold applyTxChain applyTx
  rw [chainView_readOnly hs hro logs, hok]
  cases v
  · simp
  · simp only [Bool.not_true, Bool.false_eq_true, ↓reduceIte]
    generalize hookP env (evmCommit c logs) logs = r
    obtain ⟨c1, ok⟩ := r
    cases ok <;> rfl

/-! ### "destination is known" ⇔ a client with EXACTLY this name exists -/

/-- the client lookup of the model is exact-string: creating a client named `n` makes `n` — and no other byte string,
in particular no case variant, prefix or extension of it — a known destination -/
theorem client_lookup_exact (cfg : Cfg) (c : Chain) (n d : Bytes) (hd : d ≠ n) :
    (createClient cfg c n).1.clients d = c.clients d := by
  unfold createClient
  repeat' split
  all_goals first | rfl | exact upd_other _ _ _ _ hd

theorem hookP_clients {env : Env} (logs : List Log) {c : Chain} : (hookP env c logs).1.clients = c.clients := by
  induction logs generalizing c with
  | nil => rfl
  | cons l ls ih =>
    cases l with
    | other => simpa [hookP] using ih
    | unknownEvent => rfl
    | badData => rfl
    | sent p =>
      simp only [hookP]
      cases hs : sendPacket env c p with
      | error e => rfl
      | ok c1 =>
        have := (one_commitment_send hs).2.2.2.2.2.2.2.2.2.1
        simp only; rw [ih, this]

theorem hookP_unknown_dest_fails {env : Env} (logs : List Log) {c : Chain} {p : Packet} (hp : Log.sent p ∈ logs)
    (hcl : c.clients p.dst = false) : (hookP env c logs).2 = false := by
  induction logs generalizing c with
  | nil => cases hp
  | cons l ls ih =>
    cases l with
    | other =>
      simp only [hookP]
      exact ih (by simpa using hp) hcl
    | unknownEvent => rfl
    | badData => rfl
    | sent q =>
      simp only [hookP]
      cases hs : sendPacket env c q with
      | error e => rfl
      | ok c1 =>
        simp only
        have hcl1 : c1.clients p.dst = false := by
          rw [(one_commitment_send hs).2.2.2.2.2.2.2.2.2.1]; exact hcl
        rcases List.mem_cons.mp hp with h | h
        · injection h with h; subst h
          have := (sendPacket_ok hs).2.2.1
          rw [hcl] at this; cases this
        · exact ih h hcl1

/-- **A send to a destination without a client of exactly that name changes nothing**: a transaction whose receipt
contains a genuine `PacketSent` for `p.dst` while no client named `p.dst` exists is not committed — no commitment, no
counter on either side, no escrow, whatever else the receipt contains and however close `p.dst` is to the name of an
existing client. -/
theorem send_unknown_dest_changes_nothing (env : Env) (c : Chain) (v : Bool) (logs : List Log) (p : Packet)
    (hp : Log.sent p ∈ logs) (hcl : c.clients p.dst = false) :
    (applyTx env c v logs).1 = c ∧ (applyTx env c v logs).2 ≠ .ok := by
  have hne : (applyTx env c v logs).2 ≠ .ok := by
    unfold applyTx
    cases v with
    | false => simp
    | true =>
      simp only [Bool.not_true, Bool.false_eq_true, ↓reduceIte]
      obtain ⟨e, he⟩ := evmCommit_eq c logs
      have hf := hookP_unknown_dest_fails (env := env) logs (c := evmCommit c logs) hp (by rw [he]; exact hcl)
      generalize hookP env (evmCommit c logs) logs = r at *
      obtain ⟨c1, ok⟩ := r
      simp only at hf; subst hf
      simp
  exact ⟨failed_send_noop env c v logs hne, hne⟩

/-- **Sequence lines are independent of other names**: a successful send to `d` moves no counter (chain side or
contract side) and touches no commitment of any `d' ≠ d` — byte-string inequality, so case variants, prefixes and
extensions of `d` are other lines. -/
theorem sequence_lines_independent_of_other_names {env : Env} {c c' : Chain} {p : Packet}
    (h : sendPacket env c p = .ok c') (d' : Bytes) (hd : d' ≠ p.dst) :
    chainNext c' d' = chainNext c d' ∧ contractNext c' d' = contractNext c d' ∧
    (∀ i, c'.commits (d', i) = c.commits (d', i)) ∧ c'.clients = c.clients := by
  obtain ⟨_, _, _, hk, _, _, hf, _, _, hcl, _⟩ := one_commitment_send h
  refine ⟨by simp [chainNext, (hf d' hd).1], by simp [contractNext, (hf d' hd).2], fun i => ?_, hcl⟩
  exact hk (d', i) (by intro e; injection e with e1 _; exact hd e1)

/-! ### witnesses and non-vacuity -/

section Examples

def envId : Env := { sha256 := fun b => 0xAA :: b }
def nA : Bytes := [65]
def nB : Bytes := [66]
def nC : Bytes := [67]
def nD : Bytes := [68]
def pk (dst : Bytes) (seq : Nat) : Packet := { src := nA, dst := dst, seq := seq, hasData := true, bytes := [1, 2, 3] ++ dst, esc := some (0, 10) }
def c0 : Chain := fresh nA [nB, nC] [(nB, 1)]

/-- the hypotheses of the theorems are satisfiable on a non-trivial state -/
example : Full (freshBase [(nB, 1)]) envId c0 := by
  refine ⟨fresh_core nA [nB, nC] [(nB, 1)] (by simp), by decide, ?_, ?_⟩
  · intro d i h hc; simp [c0, fresh] at hc
  · intro p hp; simp [c0, fresh] at hp

/-- two sends in one transaction to different destinations commit; a second send to the SAME destination in one
transaction carries the same sequence (the contract does not count) and reverts the whole transaction -/
example : (applyTx envId c0 true [.sent (pk nB 1), .other, .sent (pk nC 1)]).2 = .ok := by decide
example : chainNext (applyTx envId c0 true [.sent (pk nB 1), .other, .sent (pk nC 1)]).1 nC = 2 := by decide
example : (applyTx envId c0 true [.sent (pk nB 1), .sent (pk nB 1)]).2 = .hookFailed := by decide
example : (applyTx envId c0 true [.sent (pk nB 1), .sent (pk nD 1)]).2 = .hookFailed := by decide
example : (applyTx envId c0 true [.sent (pk nB 2)]).2 = .hookFailed := by decide

def rNested : RecvIn :=
  { p := { src := nB, dst := nA, seq := 1, hasData := true, bytes := [9], esc := none },
    verifyOk := true, relayerFound := true, cbVmOk := true, cbLogs := [.sent (pk nC 1), .sent (pk nD 1)], cbCode := 0 }

/-- **F1 on the sequencing state** (unrepaired callback context): the nested send to `nD` (no client) fails, the
callback is answered with the error acknowledgement, yet the escrow of both nested calls and the counter / commitment
of the first nested send stay. -/
example : (recv { cbOnCctx := false } envId c0 rNested).2 = .ackErr ∧
    (recv { cbOnCctx := false } envId c0 rNested).1.escrow (0, nD) = 10 ∧
    chainNext (recv { cbOnCctx := false } envId c0 rNested).1 nC = 2 := by decide
/-- repaired: nothing of it stays -/
example : (recv { cbOnCctx := true } envId c0 rNested).2 = .ackErr ∧
    (recv { cbOnCctx := true } envId c0 rNested).1.escrow (0, nD) = 0 ∧
    chainNext (recv { cbOnCctx := true } envId c0 rNested).1 nC = 1 := by decide

/-- **Watch item: a client under the chain's own name** (`HandleCreateClient` accepts it). A "received" packet with
`src = self` then takes the relay branch and writes `commitments/self/B/5` although nothing was sent: `commitments_exact`
is false without the hypothesis `self ∉ clients`. -/
example :
    let c1 := (createClient { cbOnCctx := true } c0 nA).1
    let r : RecvIn := { p := { src := nA, dst := nB, seq := 5, hasData := true, bytes := [7], esc := none },
                        verifyOk := true, relayerFound := true, cbVmOk := true, cbLogs := [], cbCode := 0 }
    (createClient { cbOnCctx := true } c0 nA).2 = .ok ∧ (recv { cbOnCctx := true } envId c1 r).2 = .ok ∧
    (recv { cbOnCctx := true } envId c1 r).1.commits (nB, 5) = some (envId.sha256 [7]) ∧
    (recv { cbOnCctx := true } envId c1 r).1.sent = [] := by decide

/-- with the hardening patch the own name is rejected and `commitments_exact` needs no hypothesis on the history -/
example : (createClient { cbOnCctx := true, rejectOwnName := true } c0 nA).2 = .err := by decide

/-- upgrade in the middle of a history: one send to `nB`, upgrade (counters, commitments, clients gone; escrow stays),
client re-created, next send carries sequence 1 again and both counters move to 2 -/
example :
    let c1 := (applyTx envId c0 true [.sent (pk nB 1)]).1
    let c2 := (upgrade c1).1
    let c3 := (createClient { cbOnCctx := true } c2 nB).1
    chainNext c1 nB = 2 ∧ contractNext c1 nB = 2 ∧ chainNext c2 nB = 1 ∧ contractNext c2 nB = 1 ∧
    c2.commits (nB, 1) = none ∧ c2.escrow (0, nB) = 10 ∧
    (applyTx envId c2 true [.sent (pk nB 1)]).2 = .hookFailed ∧          -- no client yet
    (applyTx envId c3 true [.sent (pk nB 2)]).2 = .hookFailed ∧          -- the old sequence is not accepted
    (applyTx envId c3 true [.sent (pk nB 1)]).2 = .ok ∧
    contractNext (applyTx envId c3 true [.sent (pk nB 1)]).1 nB = 2 := by decide

/-- what the check is designed to catch: a handler that re-installs the packet contract's code WITHOUT deleting the
account keeps the contract's `sequences` storage — the counters then disagree (contract 2, chain 1) -/
example :
    let c1 := (applyTx envId c0 true [.sent (pk nB 1)]).1
    let bad : Chain := { (upgrade c1).1 with cseq := c1.cseq }
    contractNext bad nB = 2 ∧ chainNext bad nB = 1 := by decide

/-- boundary: a history starting with the counter of `nB` at 2^64 - 2: the send with that sequence commits and moves both
counters to 2^64 - 1; the send carrying 2^64 - 1 fails (the uint64 increment wraps to 0, `setSequence` rejects it) and
changes nothing — the counter never wraps -/
example :
    let cm : Chain := fresh nA [nB, nC] [(nB, 2 ^ 64 - 2)]
    let c1 := (applyTx envId cm true [.sent (pk nB (2 ^ 64 - 2))]).1
    (applyTx envId cm true [.sent (pk nB (2 ^ 64 - 2))]).2 = .ok ∧
    chainNext c1 nB = 2 ^ 64 - 1 ∧ contractNext c1 nB = 2 ^ 64 - 1 ∧
    (applyTx envId c1 true [.sent (pk nB (2 ^ 64 - 1))]).2 = .hookFailed ∧
    chainNext (applyTx envId c1 true [.sent (pk nB (2 ^ 64 - 1))]).1 nB = 2 ^ 64 - 1 ∧
    (applyTx envId c1 true [.sent (pk nB 0)]).2 = .hookFailed ∧ (applyTx envId c1 true [.sent (pk nB 1)]).2 = .hookFailed := by
  decide

/-- what a hook that filters the shared slice in place does: with a receipt `[PacketSent, staking log]` (the staking
log is `other` for the packet hook) the kept staking log overwrites entry 0 — the packet hook never sees the send: the
transaction commits, the escrow is locked, but there is no commitment and neither counter moves -/
example :
    let inPlace : OtherHook := { view := fun ls => (ls.filter (· == .other)) ++ ls.drop (ls.filter (· == .other)).length, ok := fun _ => true }
    let r := applyTxChain envId c0 [inPlace] true [.sent (pk nB 1), .other]
    r.2 = .ok ∧ r.1.commits (nB, 1) = none ∧ chainNext r.1 nB = 1 ∧ contractNext r.1 nB = 1 ∧ r.1.escrow (0, nB) = 10 ∧
    (applyTx envId c0 true [.sent (pk nB 1), .other]).1.commits (nB, 1) ≠ none := by decide

/-- near misses of a known name are unknown: with clients `B` (0x42) and `C`, sends to `b` (0x62, the other case), to
the empty prefix-extension `B-` and to `B/` fail and change nothing; with clients under BOTH spellings the two lines are
independent -/
example :
    let nb : Bytes := [98]
    let cBoth := (createClient { cbOnCctx := true } c0 nb).1
    (applyTx envId c0 true [.sent (pk nb 1)]).2 = .hookFailed ∧
    (applyTx envId c0 true [.sent (pk [66, 45] 1)]).2 = .hookFailed ∧
    (applyTx envId c0 true [.sent (pk [66, 47] 1)]).2 = .hookFailed ∧
    (applyTx envId c0 true [.sent (pk [66, 32] 1)]).2 = .hookFailed ∧
    (applyTx envId cBoth true [.sent (pk nb 1)]).2 = .ok ∧
    chainNext (applyTx envId cBoth true [.sent (pk nb 1)]).1 nb = 2 ∧
    chainNext (applyTx envId cBoth true [.sent (pk nb 1)]).1 nB = 1 ∧
    contractNext (applyTx envId cBoth true [.sent (pk nb 1)]).1 nB = 1 := by decide

end Examples

end TM.Send
