import TeleportModel.Model.Adapter
import TeleportModel.Driver.Loop
/- Line protocol of C17 (see harness/c17_test.go). -/
namespace TM.Driver.C17
open TM TM.Adapter

/-- `log.Data` in the driver: what go-ethereum's decoder returns for it (computed by the harness with the same
library for directly injected logs; by the modelled contracts for EVM transactions). -/
abbrev D := Outcome Event

structure Core where
  st : State Native
  actors : List Addr
  proxies : List Addr
  fee : Addr
  deposits : String

structure St where
  base : Option Core
  cur : Option Core
  classes : List (Bytes × ValClass)
  mcur : Option (Core × List Nat × List (Nat × Nat)) := none    -- module-call world: chain B, receipts, acknowledgements
  ccur : Option Core := none    -- committed-chain world (every operation is a block through DeliverTx + Commit)
  cskip : Bool := false         -- committed-chain world after a slash
  skip : Bool := false      -- after a `slash` (exchange rate ≠ 1): outputs are not compared until the next `reset`
  mask : Bool := false      -- after `allocate` (rewards outstanding): balances and supply are not compared

def fresh : St := { base := none, cur := none, classes := [] }

def mkEnv (classes : List (Bytes × ValClass)) : Env D Native :=
  { decode := fun _ d => d
    encode := fun ev => .ok ev
    routed := fun _ => true
    exec := execMsg (fun v => (alookup classes v).getD .invalid) }

/-! #### token parsers -/
abbrev P (α : Type) := List String → Option (α × List String)

def pTok : P String | [] => none | t :: r => some (t, r)
def pNat : P Nat | [] => none | t :: r => t.toNat?.map (·, r)
def pHex : P Bytes | [] => none | t :: r => (unhex t).map (·, r)
def pBool : P Bool | [] => none | t :: r => some (t != "0", r)

def parseClass (s : String) : Option ValClass :=
  if s = "u" then some .unknown
  else if s = "x" then some .invalid
  else if s.startsWith "k" then (s.drop 1).toNat?.map .known
  else none

/-- validator string token `hex:class`; returns the bytes and records the class. -/
def pVal : P (Bytes × ValClass)
  | [] => none
  | t :: r =>
    match t.splitOn ":" with
    | [h, c] => do
      let b ← unhex h
      let cl ← parseClass c
      pure ((b, cl), r)
    | _ => none

def pRep {α} (p : P α) : Nat → P (List α)
  | 0, ts => some ([], ts)
  | k + 1, ts => do
    let (a, ts) ← p ts
    let (as, ts) ← pRep p k ts
    pure (a :: as, ts)

def pOptW : P (Nat × Nat) := fun ts => do
  let (o, ts) ← pNat ts
  let (w, ts) ← pNat ts
  pure ((o, w), ts)

/-- system-contract function call: returns the call and the validator classes mentioned. -/
def pSysCall : P (SysCall × List (Bytes × ValClass)) := fun ts => do
  let (fn, ts) ← pTok ts
  match fn with
  | "delegate" => do
    let (v, ts) ← pVal ts; let (a, ts) ← pNat ts
    pure ((.delegate v.1 a, [v]), ts)
  | "undelegate" => do
    let (v, ts) ← pVal ts; let (a, ts) ← pNat ts
    pure ((.undelegate v.1 a, [v]), ts)
  | "redelegate" => do
    let (v, ts) ← pVal ts; let (v2, ts) ← pVal ts; let (a, ts) ← pNat ts
    pure ((.redelegate v.1 v2.1 a, [v, v2]), ts)
  | "withdraw" => do
    let (v, ts) ← pVal ts
    pure ((.withdraw v.1, [v]), ts)
  | "vote" => do
    let (p, ts) ← pNat ts; let (o, ts) ← pNat ts
    pure ((.vote p o, []), ts)
  | "votew" => do
    let (p, ts) ← pNat ts; let (k, ts) ← pNat ts
    let (os, ts) ← pRep pOptW k ts
    pure ((.voteWeighted p os, []), ts)
  | _ => none

def pKind : P CallKind
  | "c" :: r => some (.call, r)
  | "d" :: r => some (.dcall, r)
  | "s" :: r => some (.scall, r)
  | "v" :: r => some (.vcall, r)
  | _ => none

/-- call-shape tree (prefix notation), fuel = number of tokens. -/
def pNode : Nat → P (Node D × List (Bytes × ValClass))
  | 0, _ => none
  | fuel + 1, ts => do
    let (tag, ts) ← pTok ts
    match tag with
    | "P" => do
      let (k, ts) ← pKind ts
      let (ig, ts) ← pBool ts
      let (tg, ts) ← pHex ts
      let (cnt, ts) ← pNat ts
      let (body, ts) ← pRep (pNode fuel) cnt ts
      pure ((.proxy k ig tg (body.map (·.1)), (body.map (·.2)).flatten), ts)
    | "K" => do        -- CREATE2 of a fresh helper contract + CALL: a CALL frame at the new address
      let (ig, ts) ← pBool ts
      let (tg, ts) ← pHex ts
      let (_, ts) ← pHex ts
      let (cnt, ts) ← pNat ts
      let (body, ts) ← pRep (pNode fuel) cnt ts
      pure ((.proxy .call ig tg (body.map (·.1)), (body.map (·.2)).flatten), ts)
    | "S" => do
      let (k, ts) ← pKind ts
      let (ig, ts) ← pBool ts
      match ts with
      | "bads" :: ts => pure ((.sysBad k ig .staking, []), ts)
      | "badg" :: ts => pure ((.sysBad k ig .gov, []), ts)
      | _ => do
        let (c, ts) ← pSysCall ts
        pure ((.sys k ig c.1, c.2), ts)
    | "L" => do
      let (k, ts) ← pNat ts
      let (tps, ts) ← pRep pHex k ts
      let (_, ts) ← pHex ts
      pure ((.rawlog tps (.err "raw"), []), ts)
    | "R" => pure ((.revert, []), ts)
    | _ => none

def pAmt : P (Option Nat)
  | "nil" :: r => some (none, r)
  | t :: r => t.toNat?.map (fun n => (some n, r))
  | [] => none

def pEvent : P (Event × List (Bytes × ValClass)) := fun ts => do
  let (tag, ts) ← pTok ts
  match tag with
  | "delegated" => do
    let (d, ts) ← pHex ts; let (v, ts) ← pVal ts; let (a, ts) ← pAmt ts
    pure ((.delegated d v.1 a, [v]), ts)
  | "undelegated" => do
    let (d, ts) ← pHex ts; let (v, ts) ← pVal ts; let (a, ts) ← pAmt ts
    pure ((.undelegated d v.1 a, [v]), ts)
  | "redelegated" => do
    let (d, ts) ← pHex ts; let (v, ts) ← pVal ts; let (v2, ts) ← pVal ts; let (a, ts) ← pAmt ts
    pure ((.redelegated d v.1 v2.1 a, [v, v2]), ts)
  | "withdrew" => do
    let (d, ts) ← pHex ts; let (v, ts) ← pVal ts
    pure ((.withdrew d v.1, [v]), ts)
  | "voted" => do
    let (d, ts) ← pHex ts; let (p, ts) ← pNat ts; let (o, ts) ← pNat ts
    pure ((.voted d p o, []), ts)
  | "votedw" => do
    let (d, ts) ← pHex ts; let (p, ts) ← pNat ts; let (k, ts) ← pNat ts
    let (os, ts) ← pRep pOptW k ts
    pure ((.votedWeighted d p os, []), ts)
  | _ => none

/-- injected log: `<address> <ntopics> <topic>* (N | X | E <event>)`. -/
def pLog : P (Log D × List (Bytes × ValClass)) := fun ts => do
  let (a, ts) ← pHex ts
  let (k, ts) ← pNat ts
  let (tps, ts) ← pRep pHex k ts
  let (_, ts) ← pHex ts            -- raw data bytes (only the real code reads them)
  let (tag, ts) ← pTok ts
  match tag with
  | "N" => pure (({ address := a, topics := tps, data := .err "not parsed" }, []), ts)
  | "X" => pure (({ address := a, topics := tps, data := .err "abi" }, []), ts)
  | "E" => do
    let (e, ts) ← pEvent ts
    pure (({ address := a, topics := tps, data := .ok e.1 }, e.2), ts)
  | _ => none

/-! #### dump -/

def insertS (s : String) : List String → List String
  | [] => [s]
  | t :: r => if s < t then s :: t :: r else t :: insertS s r
def sortS (l : List String) : List String := l.foldr insertS []

def joinOr (l : List String) : String := if l.isEmpty then "-" else joinWith "," l

def dump (c : Core) : String :=
  let n := c.st.native
  let cs := joinWith "," (c.proxies.map (fun p => toString (counter p c.st.evm)))
  let bs := joinWith "," ((c.actors ++ [n.bondedPool, n.notBondedPool, c.fee]).map (fun a => toString (nbal n a)))
  let sup := (alookup n.bank.supply n.bond).getD 0
  let ds := sortS (n.dels.map (fun d => s!"{hex d.1.1}/k{d.1.2}={d.2}"))
  let us := sortS (n.ubds.map (fun d => s!"{hex d.1.1}/k{d.1.2}={joinWith "+" (d.2.map (fun e => toString e.1))}"))
  let rs := sortS (n.reds.map (fun d => s!"{hex d.1.1}/k{d.1.2.1}>k{d.1.2.2}={joinWith "+" (d.2.map (fun e => toString e.1))}"))
  let vs := sortS (n.votes.map (fun v => s!"{v.1.1}/{hex v.1.2}={joinWith "+" (v.2.map (fun ow => s!"{ow.1}*{ow.2}"))}"))
  s!"C:{cs} B:{bs} S:{sup} D:{joinOr ds} U:{joinOr us} R:{joinOr rs} V:{joinOr vs} G:{c.deposits}"

def statusStr : Status → String
  | .ok => "ok" | .vmFail => "vmfail" | .hookFail => "hookfail" | .failed => "err" | .panicked => "panic"

/-! #### init line -/

def kv (fs : List String) (k : String) : Option String :=
  (fs.find? (fun f => f.startsWith (k ++ "="))).map (fun f => (f.drop (k.length + 1)).toString)

def csv (s : String) : List String := if s = "-" || s = "" then [] else s.splitOn ","

def str (b : Bytes) : String := bytesToString b

def parseInit (fs : List String) : Option Core := do
  let actors ← (csv (← kv fs "actors")).mapM unhex
  let proxies ← (csv (← kv fs "proxies")).mapM unhex
  let pools ← (csv (← kv fs "pools")).mapM unhex
  let bond ← unhex (← kv fs "bond")
  let bal ← (csv (← kv fs "bal")).mapM (fun e =>
    match e.splitOn ":" with
    | [a, d, v] => do pure ((← unhex a, str (← unhex d)), ← v.toNat?)
    | _ => none)
  let supply ← (csv (← kv fs "supply")).mapM (fun e =>
    match e.splitOn ":" with
    | [d, v] => do pure (str (← unhex d), ← v.toNat?)
    | _ => none)
  let modules ← (csv (← kv fs "modules")).mapM (fun e =>
    match e.splitOn ":" with
    | [m, a] => do pure (str (← unhex m), ← unhex a)
    | _ => none)
  let vt ← (csv (← kv fs "valtokens")).mapM (·.toNat?)
  let props ← (csv (← kv fs "props")).mapM (fun e =>
    match e.splitOn ":" with
    | [i, b] => do pure (← i.toNat?, b != "0")
    | _ => none)
  let deposits ← kv fs "deposits"
  let unb := ((kv fs "unbonding").bind (·.toNat?)).getD 0
  let vb := match kv fs "valbonded" with
    | some v => (csv v).map (· != "0")
    | none => []
  match pools with
  | [bp, nbp, fc] =>
    pure { st := { evm := [], native := { bank := { bal := bal, supply := supply, modules := modules }, bond := str bond,
                                           bondedPool := bp, notBondedPool := nbp, valTokens := vt, valBonded := vb, dels := [], ubds := [],
                                           reds := [], props := props, votes := [], unbondingTime := unb, feeAddr := fc,
                                           distrAddr := ((modules.find? (·.1 == "distribution")).map (·.2)).getD [] } },
           actors := actors, proxies := proxies, fee := fc, deposits := deposits }
  | _ => none

def pCoin : P (Denom × Int) := fun ts => do
  let (d, ts) ← pHex ts
  let (a, ts) ← pTok ts
  let a ← a.toInt?
  pure ((str d, a), ts)

def stepCore (st : St) (line : String) : St × String :=
  match fields line with
  | ["topics"] =>
    (st, joinWith " " ([EvKind.delegated, .undelegated, .redelegated, .withdrew, .voted, .votedWeighted].map (fun k => hex (topicOf k))))
  | "init" :: fs =>
    match parseInit fs with
    | some c => ({ st with base := some c, cur := some c }, "ok " ++ dump c)
    | none => (st, "bad-op")
  | "minit" :: fs =>
    match parseInit fs with
    | some c => ({ st with mcur := some (c, [], []) }, s!"ok M:{counter voucherKey c.st.evm} " ++ dump c)
    | none => (st, "bad-op")
  | "recv" :: seq :: amt :: _bound :: rv :: rest =>
    match st.mcur, seq.toNat? with
    | some (c, receipts, acks), some seq =>
      let transfer : Option (Option Nat) := if amt = "-" then some none else amt.toNat?.map some
      let call : Option (Option (Node D) × List (Bytes × ValClass)) :=
        match rest with
        | ["none"] => some (none, [])
        | _ => match pNode (rest.length + 1) rest with
          | some ((nd, cl), []) => some (some nd, cl)
          | _ => none
      match transfer, call with
      | some transfer, some (call, cl) =>
        let classes := cl ++ st.classes
        let rc : RecvCall D := { transfer := transfer, transferOk := true, reverts := rv != "0", call := call }
        let ch : Chain Native := { st := c.st, receipts := receipts, acks := acks }
        let r := deliverRecv (mkEnv classes) c.st ch seq rc
        let ch' := r.1.1
        let c' := { c with st := ch'.st }
        let ack := match r.1.2, ch'.acks with
          | .ok, (_, code) :: _ => toString code
          | _, _ => "-"
        ({ st with mcur := some (c', ch'.receipts, ch'.acks), classes := classes },
         s!"{statusStr r.1.2} A:{ack} M:{counter voucherKey c'.st.evm} " ++ dump c')
      | _, _ => (st, "bad-op")
    | _, _ => (st, "bad-op")
  | ["reset"] => ({ st with cur := st.base, skip := false, mask := false }, "ok")
  | "tx" :: from_ :: rest =>
    match st.cur, unhex from_, pNode (rest.length + 1) rest with
    | some c, some sender, some ((node, cl), []) =>
      let classes := cl ++ st.classes
      let r := deliverTx (mkEnv classes) c.st { sender := sender, root := node }
      let c' := { c with st := r.1.1 }
      ({ st with cur := some c', classes := classes }, statusStr r.1.2 ++ " " ++ dump c')
    | _, _, _ => (st, "bad-op")
  | "rewardtx" :: from_ :: rest =>      -- oracle-only variant of `tx` (rewards outstanding): only the status is compared
    match st.cur, unhex from_, pNode (rest.length + 1) rest with
    | some c, some sender, some ((node, cl), []) =>
      let classes := cl ++ st.classes
      let r := deliverTx (mkEnv classes) c.st { sender := sender, root := node }
      let _ := r
      ({ st with classes := classes }, "done")      -- nothing is compared (payouts can decide even the status)
    | _, _, _ => (st, "bad-op")
  | "hook" :: k :: rest =>
    match st.cur, k.toNat? with
    | some c, some k =>
      match pRep pLog k rest with
      | some (ls, []) =>
        let classes := (ls.map (·.2)).flatten ++ st.classes
        let r := deliverHooks (mkEnv classes) c.st (ls.map (·.1))
        let c' := { c with st := r.1.1 }
        ({ st with cur := some c', classes := classes }, statusStr r.1.2 ++ " " ++ dump c')
      | _ => (st, "bad-op")
    | _, _ => (st, "bad-op")
  | "burn" :: m :: k :: rest =>
    match st.cur, unhex m, k.toNat? with
    | some c, some m, some k =>
      match pRep pCoin k rest with
      | some (coins, []) =>
        let n := c.st.native
        let x (bk : Bank) : String :=
          match moduleAddr bk (str m) with
          | none => "-"
          | some ma => joinOr (coins.map (fun cn => s!"{balOf bk.bal ma cn.1}/{balOf bk.bal c.fee cn.1}/{(alookup bk.supply cn.1).getD 0}"))
        match burnCoins n.bank (str m) coins with
        | .ok bk =>
          let c' := { c with st := { c.st with native := { n with bank := bk } } }
          ({ st with cur := some c' }, "ok X:" ++ x bk ++ " " ++ dump c')
        | .err _ => (st, "err X:" ++ x n.bank ++ " " ++ dump c)
        | .panic _ => (st, "panic X:" ++ x n.bank ++ " " ++ dump c)
      | _ => (st, "bad-op")
    | _, _, _ => (st, "bad-op")
  | ["fund", a, v] =>
    match st.cur, unhex a, v.toNat? with
    | some c, some a, some v =>
      let n := c.st.native
      let bk := { n.bank with bal := setBal n.bank.bal a n.bond (balOf n.bank.bal a n.bond + v),
                              supply := aset n.bank.supply n.bond ((alookup n.bank.supply n.bond).getD 0 + v) }
      let c' := { c with st := { c.st with native := { n with bank := bk } } }
      ({ st with cur := some c' }, "ok " ++ dump c')
    | _, _, _ => (st, "bad-op")
  | "slash" :: _ => ({ st with skip := true }, "ok")      -- oracle-only from here to the next reset
  | ["block", dt] =>       -- EndBlock of the current height, BeginBlock of the next one `dt` ns later
    match st.cur, dt.toNat? with
    | some c, some dt =>
      let c' := { c with st := { c.st with native := beginBlock (endBlock c.st.native) dt } }
      ({ st with cur := some c' }, "ok " ++ dump c')
    | _, _ => (st, "bad-op")
  | "dry" :: from_ :: rest =>      -- the transaction on a context that is dropped: status only, state untouched
    match st.cur, unhex from_, pNode (rest.length + 1) rest with
    | some c, some sender, some ((node, cl), []) =>
      let classes := cl ++ st.classes
      let r := deliverTx (mkEnv classes) c.st { sender := sender, root := node }
      ({ st with classes := classes }, statusStr r.1.2 ++ " " ++ dump c)
    | _, _, _ => (st, "bad-op")
  | ["genesis", shape, st_] =>      -- an app started from a genesis document carrying that account shape at both system addresses
    let storage : List (Bytes × Bytes) := if st_ != "0" then [([0], [0xc1, 0x17])] else []
    let genuine : SysC → Bytes := fun c => match c with | .staking => [1] | .gov => [2]
    let foreign : Bytes := [0xff]
    let prior : Option (Option GenAccount) :=
      if shape = "none" then some none
      else if shape = "codeless" then some (some { kind := .eth, code := [], storage := [] })
      else if shape = "base" then some (some { kind := .base, code := [], storage := [] })
      else if shape = "genuine" then some (some { kind := .eth, code := [0], storage := storage })   -- replaced per address below
      else if shape = "foreign" then some (some { kind := .eth, code := foreign, storage := storage })
      else none
    match prior with
    | none => (st, "bad-op")
    | some prior =>
      let accts : Accounts := fun a =>
        if a = stakingAddr ∨ a = govAddr then
          (if shape = "genuine" then prior.map (fun p => { p with code := if a = stakingAddr then genuine .staking else genuine .gov }) else prior)
        else none
      let after := adapterInitGenesis genuine accts
      let show_ (c : SysC) : String :=
        match after c.addr with
        | none => "none"
        | some acc =>
          (if acc.code = genuine c then "genuine" else if acc.code.isEmpty then "codeless" else "foreign") ++
          (match acc.kind with | .eth => ":eth" | .base => ":base")
      (st, show_ .staking ++ " " ++ show_ .gov)
  | "cinit" :: fs =>
    match parseInit fs with
    | some c => ({ st with ccur := some c, cskip := false }, "ok " ++ dump c)
    | none => (st, "bad-op")
  | "dtx" :: dt :: from_ :: rest =>    -- one block: BeginBlock (dt later), the transaction through DeliverTx, EndBlock, Commit
    match st.ccur, dt.toNat?, unhex from_, pNode (rest.length + 1) rest with
    | some c, some dt, some sender, some ((node, cl), []) =>
      if st.cskip then (st, "skip") else
      let classes := cl ++ st.classes
      let s0 : State Native := { c.st with native := beginBlock c.st.native dt }
      let r := deliverTx (mkEnv classes) s0 { sender := sender, root := node }
      let s1 : State Native := { r.1.1 with native := endBlock r.1.1.native }
      let c' := { c with st := s1 }
      ({ st with ccur := some c', classes := classes }, statusStr r.1.2 ++ " " ++ dump c')
    | _, _, _, _ => (st, "bad-op")
  | ["restart"] =>                     -- node restart / export + InitChain: the identity on everything observed
    match st.ccur with
    | some c => (st, if st.cskip then "skip" else "ok " ++ dump c)
    | none => (st, "bad-op")
  | ["reimport"] =>
    match st.ccur with
    | some c => (st, if st.cskip then "skip" else "ok " ++ dump c)
    | none => (st, "bad-op")
  | "cslash" :: _ => ({ st with cskip := true }, "ok")
  | ["allocate"] => ({ st with skip := true }, "ok")
  | ["govburn"] => (st, "ok")
  | _ => (st, "bad-op")

/-- replace the `B:` and `S:` sections of a dump by `~`. -/
def maskOut (out : String) : String :=
  joinWith " " ((out.splitOn " ").map (fun f => if f.startsWith "B:" then "B:~" else if f.startsWith "S:" then "S:~" else f))

def step (st : St) (line : String) : St × String :=
  let world1 := match fields line with
    | "tx" :: _ => true | "hook" :: _ => true | "burn" :: _ => true | "fund" :: _ => true | "rewardtx" :: _ => true
    | "govburn" :: _ => true | "slash" :: _ => true | "allocate" :: _ => true | "block" :: _ => true | "dry" :: _ => true
    | _ => false
  if st.skip && world1 then (st, "skip")
  else
    let r := stepCore st line
    if st.mask && world1 then (r.1, maskOut r.2) else r

def main : IO Unit := TM.Driver.runStdin step fresh

end TM.Driver.C17
