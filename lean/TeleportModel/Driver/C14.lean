import TeleportModel.Model.Determinism
import TeleportModel.Driver.Loop
/- Line protocol of C14 (see harness/c14_test.go).
   site <kind> <file> <func> <exprhash> <discharge>   -> discharged | uninventoried   (discharge must name a known class / theorem)
   pair <shard> <n> <scriptdigest> , script <n> <line…>  -> ok
   obs <pair> <idx> <digestA> <digestB>                  -> same <digest> | diverged
   end <pair> <linesA> <linesB>                          -> end <linesA> <linesB>
   The replay part is thin by design: the model re-decides agreement of the two recorded streams. -/
namespace TM.Driver.C14
open TM TM.Determinism

abbrev St := Replay

def fresh : St := {}

def step (st : St) (line : String) : St × String :=
  match fields line with
  | ["site", _, _, _, _, d] => (st, if dischargeOk d then "discharged" else "uninventoried")
  | "pair" :: _ => (fresh, "ok")
  | "script" :: _ => (st, "ok")
  | ["obs", _, _, a, b] => stepOp st (.obs a b)
  | ["end", _, na, nb] =>
    match na.toNat?, nb.toNat? with
    | some x, some y => stepOp st (.fin x y)
    | _, _ => (st, "bad-op")
  | _ => (st, "bad-op")

def main : IO Unit := TM.Driver.runStdin step fresh

end TM.Driver.C14
