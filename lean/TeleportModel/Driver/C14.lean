import TeleportModel.Model.Determinism
import TeleportModel.Driver.Loop
/- Line protocol of C14 (see harness/c14_test.go, harness/c14_probe_test.go).
   site <kind> <file> <func> <exprhash> <discharge> [reach]  -> discharged | uninventoried
   pair <shard> <n> <scriptdigest> , script <n> <line…>      -> ok
   obs <pair> <idx> <digestA> <digestB>                      -> same <digest> | diverged
   end <pair> <linesA> <linesB>                              -> end <linesA> <linesB>
   loop-model probes (the real function is fed the same entries, R repetitions, R is ignored here):
   bscp <R> <epoch> <N> <claim 1|2> <signer> <nv> v… <nr> (seen addr)… <np> p…   -> unauthorized | recent | wrongdiff | ok vals=a,b,…
   relp <R> <addr> <k> (chain addr)… <q> chain…             -> chains=… addrs=… auth=0101 other=x,-,…
   adp <R> <gov|staking> <n> (namehex idhex)…               -> name=ok|wrong|none …  | panic
   gdup agg <n> (erc20hex denomhex)… | gdup rv <n> denomhex…  -> ok | err
   tev <R> <n> keyhex…                                       -> keys in emitted order
   etime <blockTime> <parentTime> <headerTime>               -> ok | future | old
   rfork <id> <live|fork> , rpollute <id> <what…>             -> ok      (node 2 := fork of node 1 ; discarded execution on node 1)
   rblock <id> <kind> <digest1> <digest2>                     -> same <digest1>   (the model predicts agreement)
   The replay part is thin by design: the model re-decides agreement of the two recorded streams. -/
namespace TM.Driver.C14
open TM TM.Determinism

/-- the replica part of the driver instantiates the abstract machine: committed state = the list of executed block
    ids, result = the block id seen on top of the committed state — a function of (committed, block) only -/
def repMachine : Machine (List String) String String :=
  ⟨fun s b => (b :: s, b ++ "@" ++ toString s.length)⟩

structure St where
  rep : Replay := {}
  n1 : Node (List String) := ⟨[]⟩
  n2 : Node (List String) := ⟨[]⟩

def fresh : St := {}

def lift (st : St) (r : Replay × String) : St × String := ({ st with rep := r.1 }, r.2)

def natOfBytes (b : Bytes) : Nat := b.foldl (fun acc x => acc * 256 + x.toNat) 0

def hexNat? (s : String) : Option Nat := (unhex s).map natOfBytes

/-- byte strings (no NUL, ≤ 32 bytes) as numbers that order like `bytes.Compare` -/
def keyNat (b : Bytes) : Nat := natOfBytes (b ++ List.replicate (32 - b.length) 0)

def takeN : Nat → List String → Option (List String × List String)
  | 0, rest => some ([], rest)
  | _+1, [] => none
  | n+1, x :: rest => (takeN n rest).map (fun p => (x :: p.1, p.2))

def counted (l : List String) (width : Nat) : Option (List String × List String) :=
  match l with
  | k :: rest => k.toNat?.bind (fun n => takeN (n * width) rest)
  | [] => none

def pairsOf : List String → List (String × String)
  | a :: b :: rest => (a, b) :: pairsOf rest
  | _ => []

def allSome {α : Type} : List (Option α) → Option (List α)
  | [] => some []
  | none :: _ => none
  | some a :: rest => (allSome rest).map (a :: ·)

def govKnown : List String := ["Voted", "VotedWeighted"]
def stakingKnown : List String := ["Delegated", "Undelegated", "Redelegated", "Withdrew"]

def bscp (args : List String) : String :=
  match args with
  | e :: n :: claim :: signer :: rest =>
    match e.toNat?, n.toNat?, hexNat? signer, counted rest 1 with
    | some epoch, some n, some sg, some (vals, rest1) =>
      match counted rest1 2 with
      | some (recs, rest2) =>
        match counted rest2 1 with
        | some (pend, _) =>
          match allSome (vals.map hexNat?), allSome ((pairsOf recs).map (fun p => (p.1.toNat?).bind (fun h => (hexNat? p.2).map (fun a => (h, a))))) with
          | some vs, some rs =>
            if epoch = 0 then "bad-op" else
            match bscVerdict vs rs (n + 1) sg (claim == "2") with
            | .unauthorized => "unauthorized"
            | .recent => "recent"
            | .wrongDifficulty => "wrongdiff"
            | .ok => "ok vals=" ++ joinWith "," (bscStoredVals vals pend epoch (n + 1))
          | _, _ => "bad-op"
        | none => "bad-op"
      | none => "bad-op"
    | _, _, _, _ => "bad-op"
  | _ => "bad-op"

def relp (args : List String) : String :=
  match args with
  | _addr :: rest =>
    match counted rest 2 with
    | some (ents, rest1) =>
      match counted rest1 1 with
      | some (qs, _) =>
        let ps := pairsOf ents
        let chains := ps.map Prod.fst
        let addrs := ps.map Prod.snd
        "chains=" ++ joinWith "," chains ++ " addrs=" ++ joinWith "," addrs ++
        " auth=" ++ String.join (qs.map (fun q => if relayerAuth chains q then "1" else "0")) ++
        " other=" ++ joinWith "," (qs.map (fun q => (relayerAddr chains addrs q).getD "-"))
      | none => "bad-op"
    | none => "bad-op"
  | [] => "bad-op"

def adp (args : List String) : String :=
  match args with
  | which :: rest =>
    match counted rest 2 with
    | some (ents, _) =>
      let known := if which == "gov" then govKnown else stakingKnown
      -- names are numbered by their position in the list of names of the op line
      let ps := pairsOf ents
      let names := ps.map (fun p => ((unhex p.1).map bytesToString).getD "?")
      let ids := ps.map (fun p => (hexNat? p.2).getD 0)
      let idx (nm : String) : Nat := names.idxOf nm
      let knownFn (i : Nat) : Option Nat := if known.contains (names.getD i "?") then some i else none
      let events := (List.range names.length).map (fun i => (i, ids.getD i 0))
      match hookTable knownFn events with
      | none => "panic"
      | some tbl =>
        joinWith " " ((List.range names.length).map (fun i =>
          names.getD i "?" ++ "=" ++ (match tbl (ids.getD i 0) with
            | none => "none"
            | some h => if h = idx (names.getD i "?") then "ok" else "wrong")))
    | none => "bad-op"
  | [] => "bad-op"

def gdup (args : List String) : String :=
  match args with
  | "agg" :: rest =>
    match counted rest 2 with
    | some (ents, _) =>
      let ps := pairsOf ents
      if aggGenesisDup (ps.map (fun p => ((unhex p.1).map keyNat).getD 0)) (ps.map (fun p => ((unhex p.2).map keyNat).getD 0)) then "err" else "ok"
    | none => "bad-op"
  | "rv" :: rest =>
    match counted rest 1 with
    | some (ds, _) => if rewardInvalid (ds.map (fun d => ((unhex d).map keyNat).getD 0)) then "err" else "ok"
    | none => "bad-op"
  | _ => "bad-op"

def tev (args : List String) : String :=
  match counted args 1 with
  | some (keys, _) =>
    let attrs := (List.range keys.length).map (fun i => ({ key := ((unhex (keys.getD i "-")).map keyNat).getD 0, val := i } : Attr))
    joinWith "," ((sortAttrs attrs).map (fun a => ((unhex (keys.getD a.val "-")).map bytesToString).getD "?"))
  | none => "bad-op"

def step (st : St) (line : String) : St × String :=
  match fields line with
  | ["site", _, _, _, _, d] => (st, if dischargeOk d then "discharged" else "uninventoried")
  | ["site", _, _, _, _, d, _] => (st, if dischargeOk d then "discharged" else "uninventoried")
  | "pair" :: _ => ({ st with rep := {} }, "ok")
  | "script" :: _ => (st, "ok")
  | ["obs", _, _, a, b] => lift st (stepOp st.rep (.obs a b))
  -- replica histories (harness/c14_replica_test.go): node 2 is a fresh fork, discarded executions run on node 1 only,
  -- the block is executed by both; the model predicts equal results (Proofs: replicas_agree)
  | ["rfork", _, _] => ({ st with n2 := Machine.forkOf st.n1 }, "ok")
  | "rpollute" :: _ :: what => ({ st with n1 := repMachine.discard st.n1 (joinWith " " what) }, "ok")
  | ["rblock", id, kind, d1, _] =>
    let r1 := repMachine.execVia ["direct"] st.n1 (id ++ ":" ++ kind)
    let r2 := repMachine.execVia ["frames", "abci-local-client"] st.n2 (id ++ ":" ++ kind)
    ({ st with n1 := r1.1, n2 := r2.1 }, if r1.2 = r2.2 then "same " ++ d1 else "model-diverged")
  | ["end", _, na, nb] =>
    match na.toNat?, nb.toNat? with
    | some x, some y => lift st (stepOp st.rep (.fin x y))
    | _, _ => (st, "bad-op")
  | "bscp" :: _ :: args => (st, bscp args)
  | "relp" :: _ :: args => (st, relp args)
  | "adp" :: _ :: args => (st, adp args)
  | "gdup" :: args => (st, gdup args)
  | "tev" :: _ :: args => (st, tev args)
  | ["etime", bt, pt, ht] =>
    match bt.toNat?, pt.toNat?, ht.toNat? with
    | some b, some p, some h => (st, ethTimeVerdict b p h)
    | _, _, _ => (st, "bad-op")
  | _ => (st, "bad-op")

def main : IO Unit := TM.Driver.runStdin step fresh

end TM.Driver.C14
