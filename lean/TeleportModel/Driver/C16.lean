import TeleportModel.Model.Ics20
import TeleportModel.Driver.Loop
/- Line protocol of C16 (see harness/c16_test.go). The model run is the REPAIRED middleware (`fixed = true`). -/
namespace TM.Driver.C16
open TM TM.Ics20

structure St where
  s : State EvmSt
  next : Nat          -- next contract / pair id
  metaSet : List Denom   -- denominations whose bank metadata exists (set by a successful RegisterCoin / AddCoin);
                      -- a second RegisterCoin / AddCoin for them fails: `EqualMetadata` compares DenomUnit POINTERS

def fresh : St :=
  { s := { enabled := true, denomMap := fun _ => none, pairs := fun _ => none, bal := fun _ _ => 0,
           blocked := fun _ => false, sendEnabled := fun _ => true, modAddr := [], evm := fun _ => none },
    next := 0, metaSet := [] }

/-- token balance of the module account the harness writes into a fresh `tinyd` contract -/
def tinydPrefund : Nat := 2 ^ 256 - 1

def ackStr : Option Ack → String
  | none => "nil"
  | some (.result b) => "s:" ++ hex b
  | some (.error m) => "e:" ++ hex m

def parseAck (s : String) : Option Ack :=
  if s.startsWith "s:" then (unhex (s.drop 2).toString).map Ack.result
  else if s.startsWith "e:" then (unhex (s.drop 2).toString).map Ack.error
  else none

def parseKind (s : String) : Option Kind :=
  match s with
  | "std" => some .std
  | "tiny0" => some (.tiny 0)
  | "tiny1" => some (.tiny 1)
  | "tiny2" => some (.tiny 2)
  | "tinyd" => some .tinyd
  | "revert" => some .revert
  | "nocode" => some .nocode
  | "balrevert" => some .balrevert
  | _ => none

def parseOwner (s : String) : Option Owner :=
  match s with
  | "m" => some .module
  | "x" => some .external
  | "u" => some .unspecified
  | _ => none

def parseOptInt (s : String) : Option (Option Int) :=
  if s = "none" then some none else (parseInt? s).map some

def parseOptAddr (s : String) : Option (Option Addr) :=
  if s = "none" then some none else (unhex s).map some

def parseDeltas : Nat → List String → Option (List (Addr × Denom × Int))
  | 0, [] => some []
  | k+1, a :: d :: x :: rest => do
    let ab ← unhex a
    let db ← unhex d
    let xi ← parseInt? x
    let r ← parseDeltas k rest
    pure ((ab, bytesToString db, xi) :: r)
  | _, _ => none

/-- `n` pairs (raw trace, denomination), then the rest of the line -/
def parseHashes : Nat → List String → Option (List (String × Denom) × List String)
  | 0, rest => some ([], rest)
  | k+1, a :: d :: rest => do
    let ab ← unhex a
    let db ← unhex d
    let (t, r) ← parseHashes k rest
    pure ((bytesToString ab, bytesToString db) :: t, r)
  | _, _ => none

def applyDeltas (b : Addr → Denom → Int) : List (Addr × Denom × Int) → Addr → Denom → Int
  | [] => b
  | (a, d, x) :: rest => applyDeltas (addBal b a d x) rest

def blockedList (s : String) : Option (List Addr) :=
  if s = "-" then some [] else (s.splitOn ",").mapM unhex

def obs (st : State EvmSt) (pairBefore : Option Pair) (v : View) : String :=
  let E := concreteEvm (evmAddr st.modAddr)
  let rv := match v.receiver with
    | some r => toString (st.bal r v.denom)
    | none => "-"
  let mv := toString (st.bal st.modAddr v.denom)
  let tok := match pairBefore with
    | none => "-"
    | some p =>
      match (E.balanceOf st.evm p.contract (evmAddr (v.receiver.getD []))).2 with
      | some n => toString n
      | none => "x"
  let mtok := match pairBefore with
    | none => "-"
    | some p =>
      match (E.balanceOf st.evm p.contract (evmAddr st.modAddr)).2 with
      | some n => toString n
      | none => "x"
  let reg := if (st.denomMap v.denom).isSome then "1" else "0"
  " rv=" ++ rv ++ " mv=" ++ mv ++ " tok=" ++ tok ++ " mtok=" ++ mtok ++ " reg=" ++ reg

def evStr : Ev → String
  | .none => "-"
  | .failed => "F"
  | .success => "S"

def step (st : St) (line : String) : St × String :=
  match fields line with
  | ["reset"] => (fresh, "ok")
  | ["init", m, bl] =>
    match unhex m, blockedList bl with
    | some mb, some bs => ({ st with s := { st.s with modAddr := mb, blocked := fun a => bs.contains a } }, "ok")
    | _, _ => (st, "bad-op")
  | ["module", b] => ({ st with s := { st.s with enabled := b == "1" } }, "ok")
  | ["sendenabled", d, b] =>
    match unhex d with
    | some db =>
      let dn := bytesToString db
      let old := st.s.sendEnabled
      ({ st with s := { st.s with sendEnabled := fun x => if x = dn then b == "1" else old x } }, "ok")
    | none => (st, "bad-op")
  | ["fund", a, d, x] =>
    match unhex a, unhex d, parseInt? x with
    | some ab, some db, some xi => ({ st with s := { st.s with bal := addBal st.s.bal ab (bytesToString db) xi } }, "ok")
    | _, _, _ => (st, "bad-op")
  | ["register", d, k, o] =>
    match unhex d, parseKind k, parseOwner o with
    | some db, some kind, some owner =>
      let dn := bytesToString db
      if (st.s.denomMap dn).isSome then (st, "err")
      else if kind == .std && (!st.s.enabled || st.metaSet.contains dn) then (st, "err")
      else
        let id := st.next
        let p : Pair := { contract := id, enabled := true, owner := owner, denoms := [dn] }
        let oldM := st.s.denomMap
        let oldP := st.s.pairs
        let s' := { st.s with
          denomMap := fun x => if x = dn then some id else oldM x
          pairs := fun i => if i = id then some p else oldP i
          evm := setContract st.s.evm id
            { kind := kind, supply := 0
              bals := fun a => if kind == .tinyd && a = evmAddr st.s.modAddr then tinydPrefund else 0 } }
        ({ s := s', next := id + 1, metaSet := if kind == .std then dn :: st.metaSet else st.metaSet }, "ok " ++ toString id)
    | _, _, _ => (st, "bad-op")
  | ["addcoin", d, existing] =>
    match unhex d, unhex existing with
    | some db, some eb =>
      let dn := bytesToString db
      let en := bytesToString eb
      if !st.s.enabled then (st, "err")
      else if (st.s.denomMap dn).isSome || st.metaSet.contains dn then (st, "err")
      else match st.s.denomMap en with
        | none => (st, "err")
        | some id =>
          match st.s.pairs id with
          | none => (st, "err")
          | some p =>
            let p' := { p with denoms := p.denoms ++ [dn] }
            let oldM := st.s.denomMap
            let oldP := st.s.pairs
            ({ st with metaSet := dn :: st.metaSet, s := { st.s with
                denomMap := fun x => if x = dn then some id else oldM x
                pairs := fun i => if i = id then some p' else oldP i } }, "ok")
    | _, _ => (st, "bad-op")
  | ["toggle", d] =>
    match unhex d with
    | some db =>
      match st.s.denomMap (bytesToString db) with
      | none => (st, "err")
      | some id =>
        match st.s.pairs id with
        | none => (st, "err")
        | some p =>
          let oldP := st.s.pairs
          ({ st with s := { st.s with pairs := fun i => if i = id then some { p with enabled := !p.enabled } else oldP i } }, "ok")
    | none => (st, "bad-op")
  | ["kill", d] =>
    match unhex d with
    | some db =>
      match st.s.denomMap (bytesToString db) with
      | none => (st, "err")
      | some id =>
        match st.s.pairs id with
        | none => (st, "err")
        | some p =>
          ({ st with s := { st.s with evm := setContract st.s.evm p.contract { kind := .nocode, bals := fun _ => 0, supply := 0 } } }, "ok")
    | none => (st, "bad-op")
  | ["restart"] => ({ st with s := restart st.s }, "ok")
  | ["dry", _pkt] => (st, "ok")
  | ["recv", pkt, "rejected"] =>
    -- the harness says MsgRecvPacket.ValidateBasic refused the packet; the model's stateless stage must agree
    match pkt.splitOn "," with
    | seq :: _ :: _ :: _ :: _ :: data :: tl =>
      let (tr, th, ts) := match tl with
        | [a, b, c] => (a.toNat?.getD 0, b.toNat?.getD 0, c.toNat?.getD 0)
        | _ => (1, 1000, 0)
      let w : Wire := { seq := seq.toNat?.getD 0, dataEmpty := data == "-", timeoutRev := tr, timeoutHeight := th, timeoutTimestamp := ts }
      (st, if packetValidateBasic w then "accepted" else "rejected")
    | _ => (st, "bad-op")
  | "recv" :: pkt :: dec :: amt :: rcv :: dnm :: hn :: rest0 =>
    -- pkt = seq,srcPort,srcChan,dstPort,dstChan,data ; dnm = data.Denom as decoded ; then the sha256 naming of the
    -- raw traces the model may ask for (table computed by the harness with ibc-go's DenomTrace.IBCDenom)
    match pkt.splitOn ",", parseOptInt amt, parseOptAddr rcv, unhex dnm, hn.toNat? with
    | _ :: sp :: sc :: dp :: dc :: _ :: _, some amount, some receiver, some dnmb, some hnn =>
      match parseHashes hnn rest0 with
      | none => (st, "bad-op")
      | some (tbl, rest1) =>
        match rest1 with
        | iack :: k :: rest =>
          match parseAck iack, k.toNat? with
          | some ack, some kn =>
            match parseDeltas kn rest with
            | none => (st, "bad-op")
            | some ds =>
              let H : String → Denom := fun raw => (tbl.lookup raw).getD ("?unhashed:" ++ raw)
              let f : Fields := { srcPort := sp, srcChan := sc, dstPort := dp, dstChan := dc, denom := bytesToString dnmb }
              let v : View := { decodeOk := dec == "1", amount := amount, receiver := receiver, denom := hookDenom H f }
              let inner : Inner EvmSt Unit := { ack := fun _ _ => ack, effect := fun s _ => { s with bal := applyDeltas s.bal ds } }
              let E := concreteEvm (evmAddr st.s.modAddr)
              let pairBefore := (st.s.denomMap v.denom).bind st.s.pairs
              -- the denomination the transfer application credited, as transcribed (`creditedDenom`), confirmed by its
              -- observed bank effect ("?" when the receiver's balance of that denomination did not grow)
              let cd := creditedDenom H f
              let cred :=
                if !ack.success then "-"
                else match receiver with
                  | some r => if ds.any (fun e => e.1 == r && e.2.1 == cd && e.2.2 > 0) then hex (stringToBytes cd) else "?"
                  | none => "?"
              match onRecv true E (fun _ => v) inner st.s () with
              | .ok r =>
                let (committed, s') := coreCommit st.s r
                ({ st with s := s' }, "ack=" ++ ackStr r.ack ++ " com=" ++ ackStr committed ++ " ev=" ++ evStr r.ev ++ obs s' pairBefore v
                    ++ " cred=" ++ cred)
              | .err _ => (st, "err")
              | .panic _ => (st, "panic")
          | _, _ => (st, "bad-op")
        | _ => (st, "bad-op")
    | _, _, _, _, _ => (st, "bad-op")
  | "cb" :: kind :: _pkt :: _ack :: ie :: k :: rest =>
    -- OnAcknowledgementPacket / OnTimeoutPacket: the wrapped application's result (error?, bank effect) arrives on the line
    match k.toNat? with
    | none => (st, "bad-op")
    | some kn =>
      match parseDeltas kn rest with
      | none => (st, "bad-op")
      | some ds =>
        let innerRes : Option Unit := if ie == "1" then some () else none
        let res := if kind == "ack" then onAcknowledgement innerRes else onTimeout innerRes
        match res with
        | some _ => (st, "err=1")          -- the transaction fails, nothing is written
        | none => ({ st with s := { st.s with bal := applyDeltas st.s.bal ds } }, "err=0")
  | _ => (st, "bad-op")

def main : IO Unit := TM.Driver.runStdin step fresh

end TM.Driver.C16
