import TeleportModel.Model.Registry
import TeleportModel.Driver.Loop
/- Line protocol of C12 (see harness/c12_test.go for the op language). -/
namespace TM.Driver.C12
open TM TM.Registry

/-- the driver's hash: the preimage itself (`address string as stored|denomhex`); the harness prints every raw store id as
the preimage it recomputes with tmhash over the universe of address spellings and denominations. -/
def H (a : String) (d : Denom) : String := a ++ "|" ++ d

structure St where
  cur : Reg String := {}
  stack : List (Reg String) := []
  fixed : Bool := true
  genStrict : Bool := false      -- which GenesisState.Validate the tree under test has (probed by the harness)

def fresh : St := {}

def sortStrs (l : List String) : List String := l.mergeSort (fun a b => !(b < a))

def listOr (l : List String) (sep : String) : String := if l.isEmpty then "-" else joinWith sep l

def renderPair (e : String × Pair) : String :=
  e.1 ++ ">" ++ e.2.addrStr ++ ">" ++ listOr e.2.denoms "," ++ ">" ++ (if e.2.enabled then "1" else "0") ++ ">" ++ toString e.2.owner

def renderMeta (m : Meta) : String :=
  m.base ++ ">" ++ m.name ++ ">" ++ m.symbol ++ ">" ++ m.display ++ ">" ++ m.desc ++ ">" ++
    listOr (m.units.map (fun u => u.1 ++ ":" ++ toString u.2)) ","

def dumpMetas (ms : Map Denom Meta) : String := listOr (sortStrs (ms.map (fun e => renderMeta e.2))) ";"

def dump (old r : Reg String) (first : Bool) : String :=
  "en=" ++ (if r.enabled then "1" else "0") ++
  " P:" ++ listOr (sortStrs (r.pairs.map renderPair)) ";" ++
  " E:" ++ listOr (sortStrs (r.byErc.map (fun e => e.1 ++ ">" ++ e.2))) ";" ++
  " D:" ++ listOr (sortStrs (r.byDen.map (fun e => e.1 ++ ">" ++ e.2))) ";" ++
  " M:" ++ (if !first && dumpMetas old.metas == dumpMetas r.metas then "=" else dumpMetas r.metas)

def bit (s : String) : Bool := s == "1"

/-- hex form of the 4-digit decimal index -/
def idx4 (i : Nat) : String :=
  String.join ([i / 1000 % 10, i / 100 % 10, i / 10 % 10, i % 10].map (fun d => "3" ++ toString d))

def bulkDenom (pre : String) (i : Nat) : String := pre ++ idx4 i

/-- the metadata `bulkmeta` writes: symbol "BULK", description "bulk" -/
def bulkMeta (pre : String) (i : Nat) : Meta :=
  let d := bulkDenom pre i
  { base := d, name := d, symbol := "42554c4b", display := d, desc := "62756c6b", units := [(d, 0)] }

def parseUnits (s : String) : Option (List (String × Nat)) :=
  if s = "-" then some [] else
  (s.splitOn ",").mapM (fun u =>
    match u.splitOn ":" with
    | [d, e] => e.toNat?.map (fun n => (d, n))
    | _ => none)

def parseMeta : List String → Option Meta
  | [b, n, s, d, ds, us] => (parseUnits us).map (fun u => { base := b, name := n, symbol := s, display := d, desc := ds, units := u })
  | _ => none

def parseQ (ok name symbol dec : String) : Option (Option ERC20Data) :=
  if ok == "1" then dec.toNat?.map (fun n => some { name := name, symbol := symbol, decimals := n }) else some none

def parseList (s : String) : List String := if s = "-" then [] else s.splitOn ","

def parsePair (s : String) : Option Pair :=
  match s.splitOn ">" with
  | [a, ds, en, ow] => ow.toNat?.map (fun o => { addrStr := a, denoms := parseList ds, enabled := bit en, owner := o })
  | _ => none

def parseAction : List String → Option Action
  | ["params", b] => some (.setParams (bit b))
  | "bankmeta" :: rest => (parseMeta rest).map .bankMeta
  | "regcoin" :: vb :: hs :: ev :: dk :: a :: as :: rest =>
    (parseMeta rest).map (.registerCoin (bit vb) (bit hs) (bit ev) (bit dk) a as)
  | "addcoin" :: vb :: hs :: ev :: c :: rest => (parseMeta rest).map (.addCoin (bit vb) (bit hs) (bit ev) c)
  | ["regerc20", vb, a, as, qok, n, s, dec, san, den, desc, mv] =>
    (parseQ qok n s dec).map (fun q => .registerERC20 (bit vb) a as q san den desc (bit mv))
  | ["toggle", vb, t] => some (.toggle (bit vb) t)
  | ["update", vb, o, n, ns, qok, nm, s, dec, d1, d2] => (parseQ qok nm s dec).map (fun q => .update (bit vb) o n ns q d1 d2)
  | ["convert", vb, t, d, live] => some (.convert (bit vb) t d (parseList live))
  | ["restart"] => some .restart
  | _ => none

def step (st : St) (line : String) : St × String :=
  match fields line with
  | ["reset"] => ({ fresh with fixed := st.fixed, genStrict := st.genStrict }, "ok " ++ dump {} {} true)
  | "dry" :: rest =>                                              -- the action on a context that is dropped: identity
    match parseAction rest with
    | none => (st, "bad-op")
    | some a => (st, (stepWith H st.fixed st.cur a).2.str ++ " dry")
  | ["restart"] =>                                                -- module restart from its own export
    let ps := exportGenesis st.cur
    let valid := if st.genStrict then validateGenesisStrict ps else validateGenesis ps == some true
    let (r, s) := stepWith H st.fixed st.cur .restart
    ({ st with cur := r }, s.str ++ " valid=" ++ (if valid then "1" else "0") ++ " " ++ dump st.cur r false)
  | ["bulkmeta", n, pre] =>                                       -- n coins <pre>0000 … with bank metadata
    match n.toNat? with
    | none => (st, "bad-op")
    | some n =>
      let r := (List.range n).foldl (fun (r : Reg String) i => (stepWith H st.fixed r (.bankMeta (bulkMeta pre i))).1) st.cur
      ({ st with cur := r }, "ok " ++ dump st.cur r false)
  | ["genmode", m] => ({ st with genStrict := m == "strict" }, "ok")
  | ["mode", m] => ({ st with fixed := m != "orig" }, "ok")
  | ["push"] => ({ st with stack := st.cur :: st.stack }, "ok")
  | ["pop"] =>
    match st.stack with
    | [] => (st, "bad-op")
    | r :: rest => ({ st with cur := r, stack := rest }, "ok")
  | ["env", "wipe"] =>                                            -- the chain restarts from an export: empty registry
    let r : Reg String := { st.cur with pairs := [], byErc := [], byDen := [] }
    ({ st with cur := r }, "ok " ++ dump st.cur r false)
  | "env" :: _ => (st, "ok " ++ dump st.cur st.cur false)        -- harness-only environment change (deploy / kill a contract)
  | ["genvalidate", ps] =>
    match (if ps = "-" then [] else ps.splitOn ";").mapM parsePair with
    | none => (st, "bad-op")
    | some l =>
      if st.genStrict then (st, if validateGenesisStrict l then "ok" else "err") else
      match validateGenesis l with
      | none => (st, "panic")
      | some b => (st, if b then "ok" else "err")
  | ["geninit", ps] =>
    match (if ps = "-" then [] else ps.splitOn ";").mapM parsePair with
    | none => (st, "bad-op")
    | some l =>
      match initGenesis H st.cur l with
      | none => (st, "panic " ++ dump st.cur st.cur false)
      | some r => ({ st with cur := r }, "ok " ++ dump st.cur r false)
  | ["genexport"] =>
    (st, "ok " ++ listOr (sortStrs ((exportGenesis st.cur).map (fun p => renderPair ("", p)))) ";")
  | fs =>
    match parseAction fs with
    | none => (st, "bad-op")
    | some a =>
      let (r, s) := stepWith H st.fixed st.cur a
      ({ st with cur := r }, s.str ++ " " ++ dump st.cur r false)

def main : IO Unit := TM.Driver.runStdin step fresh

end TM.Driver.C12
