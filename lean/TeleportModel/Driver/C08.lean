import TeleportModel.Model.EvmProof
import TeleportModel.Model.EvmProofLife
import TeleportModel.Model.EvmProofKeccak
import TeleportModel.Driver.Loop
/-
Line protocol of C08 (see harness/c08_test.go). Stateless: every line is one case.

  v <eth|bsc> <c|a> <headRn> <headRh> <delayParam> <contract> <hRn> <hRh> <src> <dst> <seq> <value>
    <ncons> (<rn> <rh> <root[@irn-irh-ts]|X|Y>)*ncons <rawProofJson base64|nil|-> <tag>
    | <nil|bad|ok> [<address> <balance> <codeHash> <nonce> <storageHash> <nA> <node>*nA <nS> (null | sp <key> <value> <nP> <node>*nP)*nS]
    M <nm> (<root> <key> <E|A|value>)*nm
      -> ok | rej      (rej = error return or panic; panic-freedom is C15's subject, the harness only counts panics)
  (strings of the proof record are `s:<ascii>` or `h:<hex of the bytes>`; raw JSON and tag (generator class /
   oracle expectation) are ignored by the model; the part after `|` is derived by the harness from the raw JSON
   with the package's own `Proof` type; the part after `M` is the table of `trie.VerifyProof` results computed by
   the harness with go-ethereum)

  fh <s>                      -> hex(common.FromHex(s))
  hh <s>                      -> hex(common.HexToHash(s))
  rd <bytes>                  -> hex of rlp.DecodeBytes(bytes, &[]byte) | E
  ra <eth|bsc> <nonce> <bal> <sh> <ch>  -> hex(rlp.EncodeToBytes(&ProofAccount{HexToHash(nonce).Big(), …}))
  kc <bytes>                  -> hex(crypto.Keccak256(bytes))
  sl <eth|bsc> <c|a> <src> <dst> <seq>  -> hex(ProofKeyConstructor.Get…ProofKey())
-/
namespace TM.Driver.C08
open TM TM.EvmProof

abbrev P := StateT (List String) Option

def tok : P String := fun s => match s with | [] => none | t :: r => some (t, r)
def pHex : P Bytes := do let t ← tok; (unhex t : Option Bytes)
def pNat : P Nat := do let t ← tok; (t.toNat? : Option Nat)
def pU64 : P UInt64 := do let n ← pNat; if n < 2^64 then pure (UInt64.ofNat n) else failure
/-- a Go string of the proof record: `s:<ascii>` (no blanks) or `h:<hex>` -/
def pStr : P Bytes := do
  let t ← tok
  if t.startsWith "s:" then pure ((t.drop 2).toString.toUTF8.toList)
  else if t.startsWith "h:" then (unhex (t.drop 2).toString : Option Bytes)
  else failure
def expect (s : String) : P Unit := do let t ← tok; if t = s then pure () else failure

def rep {α} (p : P α) : Nat → P (List α)
  | 0 => pure []
  | n+1 => do let a ← p; let r ← rep p n; pure (a :: r)

def pCons : P (Height × ConsEntry) := do
  let rn ← pU64; let rh ← pU64; let t ← tok
  if t = "X" ∨ t = "Y" then pure (⟨rn, rh⟩, .corrupt) else
  -- `<root>` or `<root>@<innerRn>-<innerRh>-<timestamp>` (the state's own Height / Timestamp fields; default: the key, 1)
  match t.splitOn "@" with
  | [r] =>
    match unhex r with
    | some r => pure (⟨rn, rh⟩, .state ⟨1, ⟨rn, rh⟩, r⟩)
    | none => failure
  | [r, inner] =>
    match unhex r, (inner.splitOn "-").map String.toNat? with
    | some r, [some a, some b, some c] =>
      if a < 2^64 ∧ b < 2^64 ∧ c < 2^64 then pure (⟨rn, rh⟩, .state ⟨UInt64.ofNat c, ⟨UInt64.ofNat a, UInt64.ofNat b⟩, r⟩) else failure
    | _, _ => failure
  | _ => failure

def pSp : P (Option StorageResult) := do
  let t ← tok
  if t = "null" then pure none
  else if t = "sp" then do
    let k ← pStr; let v ← pStr; let n ← pNat; let ns ← rep pStr n
    pure (some { key := k, value := v, proof := ns })
  else failure

def pProofArg : P ProofArg := do
  let t ← tok
  if t = "nil" then pure .nil
  else if t = "bad" then pure .badJson
  else if t = "ok" then do
    let address ← pStr; let balance ← pStr; let codeHash ← pStr; let nonce ← pStr; let storageHash ← pStr
    let nA ← pNat; let acc ← rep pStr nA
    let nS ← pNat; let sps ← rep pSp nS
    pure (.parsed { address, balance, codeHash, nonce, storageHash, accountProof := acc, storageProof := sps })
  else failure

def pMptRes : P MptRes := do
  let t ← tok
  if t = "E" then pure .invalid
  else if t = "A" then pure .absent
  else match unhex t with
    | some v => pure (.value v)
    | none => failure

def pMptEntry : P (Bytes × Bytes × MptRes) := do
  let r ← pHex; let k ← pHex; let v ← pMptRes; pure (r, k, v)

def lookupMpt (tbl : List (Bytes × Bytes × MptRes)) (root key : Bytes) : MptRes :=
  match tbl with
  | [] => .invalid
  | (r, k, v) :: rest => if r = root ∧ k = key then v else lookupMpt rest root key

def pKind : P PathKind := do
  let t ← tok
  if t = "c" then pure .commitment else if t = "a" then pure .ack else failure

def pVerify : P String := do
  let cl ← tok
  let kind ← (if cl = "eth" then pure ClientKind.eth else if cl = "bsc" then pure ClientKind.bsc else failure : P ClientKind)
  let k ← pKind
  let headRn ← pU64; let headRh ← pU64; let dp ← pU64; let contract ← pHex
  let hRn ← pU64; let hRh ← pU64
  let src ← pHex; let dst ← pHex; let seq ← pU64; let value ← pHex
  let nc ← pNat; let store ← rep pCons nc
  let _raw ← tok
  let _tag ← tok
  expect "|"
  let pa ← pProofArg
  expect "M"
  let nm ← pNat; let tbl ← rep pMptEntry nm
  let env : Env := { keccak := Keccak.keccak256, mpt := fun r k _ => lookupMpt tbl r k }
  let cs : ClientState := { kind, head := ⟨headRn, headRh⟩, contract, blockDelay := dp, nValidators := dp.toNat }
  match verify env cs store ⟨hRn, hRh⟩ pa k src dst seq value with
  | .ok _ => pure "ok"
  | .err _ => pure "rej"
  | .panic _ => pure "rej"     -- a panic inside DeliverTx is recovered by the transaction runner: also a rejection

def runP (p : P String) (toks : List String) : String :=
  match p toks with
  | some (s, []) => s
  | _ => "bad-op"

/-! life-cycle ops (stateful): the model keeps the whole stored client state and its consensus states

  lc create|toggle|upgrade <timeDelay> <blockDelay> <chainId> <trusting> <contract> <rn> <rh> <headerHash> <root> <time> <innerRn> <innerRh> [<parentHash>]
  lc update <good|bad> <rn> <rh> <headerHash> <root> <time> [<parentHash>]   (parent absent = child of the head; good/bad: told by the harness, which built the header)
      -> ok|rej <dump>       dump = every field of the stored client state + all stored consensus states
  lc verify <c|a> <hRn> <hRh> <src> <dst> <seq> <value> <raw> | <decoded proof> M <mpt table>   -> ok | rej
-/
open TM.EvmProof.Life in
def insCons (e : Height × ConsEntry) : ConsStore → ConsStore
  | [] => [e]
  | x :: rest =>
    if e.1.rn < x.1.rn ∨ (e.1.rn = x.1.rn ∧ e.1.rh < x.1.rh) then e :: x :: rest else x :: insCons e rest

def sortCons (s : ConsStore) : ConsStore := s.foldr insCons []

def hstr (h : Height) : String := toString h.rn.toNat ++ "-" ++ toString h.rh.toNat

def dumpLife (l : Life.Life) : String :=
  let cons := (sortCons l.store).map (fun (k, e) =>
    match e with
    | .corrupt => hstr k ++ ":X"
    | .state c => hstr k ++ ":" ++ hex c.root ++ ":" ++ hstr c.height ++ ":" ++ toString c.timestamp.toNat)
  joinWith " " (["eth", toString l.chainId.toNat, toString l.timeDelay.toNat, toString l.cs.blockDelay.toNat,
    toString l.trusting.toNat, hex l.cs.contract, hstr l.cs.head, hex l.headHash, "C", toString cons.length] ++ cons)

/-- optional trailing parent hash (absent: `dflt`) -/
def pOptHex (dflt : Bytes) : P Bytes := fun toks =>
  match toks with
  | [] => some (dflt, [])
  | t :: r => match unhex t with | some b => some (b, r) | none => none

def pConfig : P Life.Config := do
  let td ← pU64; let bd ← pU64; let chainId ← pU64; let trusting ← pU64; let contract ← pHex
  let rn ← pU64; let rh ← pU64; let hash ← pHex; let root ← pHex; let time ← pU64; let irn ← pU64; let irh ← pU64
  let parent ← pOptHex []
  pure { contract, chainId, trusting, timeDelay := td, blockDelay := bd, head := ⟨rn, rh⟩, headHash := hash,
         cons := ⟨time, ⟨irn, irh⟩, root⟩, parent, root, time }

def pLifeVerify (l : Life.Life) : P String := do
  let k ← pKind
  let hRn ← pU64; let hRh ← pU64
  let src ← pHex; let dst ← pHex; let seq ← pU64; let value ← pHex
  let _raw ← tok
  let t ← tok                       -- optional tag of the generator (which branch the proof is from), then `|`
  if t ≠ "|" then expect "|"
  let pa ← pProofArg
  expect "M"
  let nm ← pNat; let tbl ← rep pMptEntry nm
  let env : Env := { keccak := Keccak.keccak256, mpt := fun r k _ => lookupMpt tbl r k }
  match Life.verifyStored env l ⟨hRn, hRh⟩ pa k src dst seq value with
  | .ok _ => pure "ok"
  | _ => pure "rej"

abbrev St := Option Life.Life

def stepLife (st : St) (toks : List String) : St × String :=
  match toks with
  | "create" :: rest | "toggle" :: rest =>
    match pConfig rest with
    | some (c, []) => let l := Life.create c; (some l, "ok " ++ dumpLife l)
    | _ => (st, "bad-op")
  | "upgrade" :: rest =>
    match st, pConfig rest with
    | some l, some (c, []) => let l' := Life.upgrade l c; (some l', "ok " ++ dumpLife l')
    | _, _ => (st, "bad-op")
  | "update" :: good :: rest =>
    match st with
    | none => (st, "bad-op")
    | some l =>
    match (do let rn ← pU64; let rh ← pU64; let hash ← pHex; let root ← pHex; let time ← pU64
              let parent ← pOptHex l.headHash      -- absent: a child of the head
              pure (rn, rh, hash, root, time, parent) : P _) rest with
    | some ((rn, rh, hash, root, time, parent), []) =>
      let l' := Life.applyUpd l ⟨good == "good", ⟨rn, rh⟩, hash, parent, root, time⟩
      (some l', (if good == "good" then "ok " else "rej ") ++ dumpLife l')
    | _ => (st, "bad-op")
  | "verify" :: rest =>
    match st with
    | some l => (st, runP (pLifeVerify l) rest)
    | none => (st, "bad-op")
  | _ => (st, "bad-op")

def step (st : St) (line : String) : St × String :=
  match fields line with
  | ["reset"] => (none, "ok")
  | "lc" :: rest => stepLife st rest
  | "v" :: rest => (st, runP pVerify rest)
  | ["fh", s] => (st, match unhex s with | some b => hex (fromHex b) | none => "bad-op")
  | ["hh", s] => (st, match unhex s with | some b => hex (hexToHash b) | none => "bad-op")
  | ["rd", s] => (st, match unhex s with
      | some b => (match rlpDecodeBytes b with | some v => "ok " ++ hex v | none => "E")
      | none => "bad-op")
  | ["ra", _, a, b, c, d] =>
    (st, match unhex a, unhex b, unhex c, unhex d with
      | some a, some b, some c, some d => hex (rlpAccount (hexToHash a) (hexToHash b) (hexToHash c) (hexToHash d))
      | _, _, _, _ => "bad-op")
  | ["kc", s] => (st, match unhex s with | some b => hex (Keccak.keccak256 b) | none => "bad-op")
  | "sl" :: _ :: rest =>
    (st, runP (do
      let k ← pKind; let src ← pHex; let dst ← pHex; let seq ← pU64
      let env : Env := { keccak := Keccak.keccak256, mpt := fun _ _ _ => .invalid }
      pure (hex (slotOf env k src dst seq))) rest)
  | _ => (st, "bad-op")

def fresh : St := none

def main : IO Unit := TM.Driver.runStdin step fresh

end TM.Driver.C08
