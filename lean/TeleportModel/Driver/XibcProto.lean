import TeleportModel.Model.Xibc
import TeleportModel.Driver.Loop
/-
Line protocol shared by the C01 / C02 / C05 drivers (see harness/pkt_common_test.go).

The environment (`Env`) of the model is built from tables that the op stream fills: `pkt`, `ack`, `ackenc`
lines carry what the real go-ethereum / JSON / sha256 code computed for these byte strings; message lines carry
the ground truth of the membership verification for exactly the (client, root, proof, path, value) the model
asks about. A table entry can never be redefined with a different value (`env-conflict`), so one single `Env`
is consistent with the whole history, which is what the theorems quantify over.

  reset                                                       -> ok
  chain <name>                                                -> ok
  client <chain> <name> <kind> <rev> <h> <root> <ptime> <delayTime> <delayBlock> <tssAddr>   -> ok
  relayer <chain> <addr> <n> (<chain_i> <addr_i>)*n           -> ok
  pkt <id> <bytes> <derr> <src> <dst> <seq> <sender> <transfer> <call> <callback> <fee> <enc|=> <sha>  -> ok
  ack <id> <bytes> <decok> <code> <result> <message> <relayer> <fee> <sha>                    -> ok
  ackenc <code> <result> <message> <relayer> <fee> <ackid>    -> ok
  send <chain> <now> <pktid> <setSeqOk>                       -> ok|err <delta>
  toggle|upgrade <chain> <client> <kind> <rev> <h> <root> <ptime> <delayTime> <delayBlock> <tssAddr>   -> ok|err -
  restart <chain>                                             -> ok -            (export -> JSON -> wipe -> import)
  cons <chain> <client> <rev> <h> <root>                      -> ok              (consensus state of a bsc / eth client)
  bulk <src> <dst> <ackid> <pktid>*                           -> ok              (many planted, received and acknowledged packets)
  plant <chain> <pktid>                                       -> ok <delta>     (commitment injected with the keeper setter)
  recv <chain> <now> <pktid> <proofid> <truth> <rev> <h> <signer> <cb>                        -> ok|err <delta> S=<ackStatus>
  ackm <chain> <now> <pktid> <ackid> <proofid> <truth> <rev> <h> <signer> <evm>               -> ok|err <delta> S=<ackStatus>
  update <chain> <now> <client> <rev> <h> <root> <signer> <ok> -> ok|err L=<rev>-<h> V=<stored verifier: TSS address | root at that height>
  dump <chain>                                                -> full sorted dump of the four packet stores
  debug <0|1>                                                 -> ok        (adds the model's error tag to outputs)
-/
namespace TM.Driver.XibcProto
open TM TM.Xibc

structure St where
  chains  : List (Bytes × Chain) := []
  pkts    : List (String × Bytes) := []                 -- id ↦ bytes
  acks    : List (String × Bytes) := []
  decP    : List (Bytes × (Packet × Bool)) := []
  encP    : List (Packet × Bytes) := []
  sha     : List (Bytes × Bytes) := []
  decA    : List (Bytes × Option Ack) := []
  encA    : List (Ack × Bytes) := []
  ver     : List (Bytes × Bool) := []                   -- flattened verify key ↦ truth
  dbg     : Bool := false

def fresh : St := {}

def look {κ α} [DecidableEq κ] (m : List (κ × α)) (k : κ) : Option α := (m.find? (fun e => decide (e.1 = k))).map (·.2)

/-- define or check a table entry; `none` on conflict -/
def define {κ α} [DecidableEq κ] [DecidableEq α] (m : List (κ × α)) (k : κ) (v : α) : Option (List (κ × α)) :=
  match look m k with
  | none => some ((k, v) :: m)
  | some v' => if v' = v then some m else none

def verKey (name : Bytes) (kind : ClientKind) (root proof path value : Bytes) : Bytes :=
  let k : UInt8 := match kind with | .tm => 0 | .bsc => 1 | .eth => 2 | .tss => 3
  let f (b : Bytes) : Bytes := be8 (UInt64.ofNat b.length) ++ b
  k :: (f name ++ f root ++ f proof ++ f path ++ f value)

def envOf (st : St) : Env where
  sha256 := fun b => (look st.sha b).getD (str "?sha")
  decodePacket := fun b => (look st.decP b).getD (Packet.zero, true)
  encodePacket := fun p => (look st.encP p).getD (str "?enc")
  decodeAck := fun b => (look st.decA b).getD none
  encodeAck := fun a => (look st.encA a).getD []
  verify := fun name kind root proof path value => (look st.ver (verKey name kind root proof path value)).getD false
  bech32Valid := fun _ => true

def getChain (st : St) (name : Bytes) : Option Chain := look st.chains name
def putChain (st : St) (c : Chain) : St :=
  { st with chains := (c.name, c) :: st.chains.filter (fun e => e.1 != c.name) }

def u64? (s : String) : Option UInt64 := s.toNat?.map UInt64.ofNat

/-! ### dumps -/
def kvStr (e : Bytes × Bytes) : String := hex e.1 ++ "=" ++ hex e.2

def insertSorted (s : String) : List String → List String
  | [] => [s]
  | x :: xs => if s < x then s :: x :: xs else x :: insertSorted s xs
def sortStrings (l : List String) : List String := l.foldr insertSorted []

def storeOf (c : Chain) : List (Bytes × Bytes) := c.receipts ++ c.commits ++ c.acks ++ c.nextSeq
def getAny (c : Chain) (k : Bytes) : Option Bytes :=
  match c.receipts.get k with
  | some v => some v
  | none => match c.commits.get k with
    | some v => some v
    | none => match c.acks.get k with
      | some v => some v
      | none => c.nextSeq.get k

def insertPair (s : String × String) : List (String × String) → List (String × String)
  | [] => [s]
  | x :: xs => if s.1 < x.1 then s :: x :: xs else x :: insertPair s xs

def deltaOf (before after : Chain) (keys : List Bytes) : String :=
  let ks := keys.eraseDups
  let items : List (String × String) := ks.filterMap (fun k =>
    match getAny before k, getAny after k with
    | some a, some b => if a = b then none else some (hex k, "+" ++ hex k ++ "=" ++ hex b)
    | none, some b => some (hex k, "+" ++ hex k ++ "=" ++ hex b)
    | some _, none => some (hex k, "-" ++ hex k)
    | none, none => none)
  let sorted := (items.foldr insertPair []).map (·.2)
  if sorted.isEmpty then "-" else joinWith "," sorted

def fullDump (c : Chain) : String :=
  let l := ((storeOf c).map (fun e => (hex e.1, kvStr e))).foldr insertPair [] |>.map (·.2)
  if l.isEmpty then "-" else joinWith "," l

def ackStatus (c : Chain) (dst : Bytes) (seq : UInt64) : Nat :=
  match c.evm.find? (fun e => match e with | .setAckStatus d s _ => d == dst && s == seq | _ => false) with
  | some (.setAckStatus _ _ st) => st
  | _ => 0

def keysOf (p : Packet) : List Bytes := [receiptKey p, commitKey p, ackKey p, nextSeqKey p.src p.dst]

def parseKind : String → Option ClientKind
  | "tm" => some .tm | "bsc" => some .bsc | "eth" => some .eth | "tss" => some .tss | _ => none

def parseCb (s : String) : Option Callback :=
  match s.splitOn ":" with
  | ["fail"] => some .fail
  | ["undec"] => some .undecodable
  | ["ok", c, r, m] => do
    let c ← u64? c; let r ← unhex r; let m ← unhex m
    pure (.ok c r m)
  | _ => none

def parsePairs : Nat → List String → Option (List Bytes × List Bytes)
  | 0, [] => some ([], [])
  | k+1, c :: a :: rest => do
    let c ← unhex c; let a ← unhex a
    let r ← parsePairs k rest
    pure (c :: r.1, a :: r.2)
  | _, _ => none

def resStr (st : St) (env : Env) (c : Chain) (now : UInt64) (m : Msg) (r : Result) : String :=
  let base := match r with | .ok => "ok" | .err => "err"
  if st.dbg then base ++ "[" ++ errTag env c now m ++ "]" else base

def bad : String := "bad-op"

def stepMsg (st : St) (chain : String) (now : String) (mk : St → Option (Msg × Packet)) (suffix : Chain → Packet → String) :
    St × String :=
  match unhex chain, u64? now with
  | some cn, some now =>
    match getChain st cn, mk st with
    | some c, some (m, p) =>
      let env := envOf st
      let r := deliver env c now m
      let out := resStr st env c now m r.2 ++ " " ++ deltaOf c r.1 (keysOf p) ++ suffix r.1 p
      (putChain st r.1, out)
    | _, _ => (st, bad)
  | _, _ => (st, bad)

/-- toggle / upgrade: governance proposals through the real handler; only the client table may change -/
def stepClientOp (st : St) (toggle : Bool) (chain name kind rev h root pt dt db tss : String) : St × String :=
  match unhex chain, unhex name, parseKind kind, u64? rev, u64? h, unhex root, u64? pt, u64? dt, u64? db, unhex tss with
  | some cn, some name, some kind, some rev, some h, some root, some pt, some dt, some db, some tss =>
    match getChain st cn with
    | some c =>
      let ht : Height := ⟨rev, h⟩
      let cl : Client :=
        if kind = .tss then { kind := kind, latest := ⟨0, 0⟩, cons := [], processed := [], delayTime := 0, delayBlock := 0, tssAddr := tss }
        else { kind := kind, latest := ht, cons := [(ht, root)], processed := [(ht, pt)], delayTime := dt, delayBlock := db, tssAddr := tss }
      let m : Msg := if toggle then .toggleClient name cl else .upgradeClient name cl
      let env := envOf st
      let r := deliver env c 0 m
      (putChain st r.1, resStr st env c 0 m r.2 ++ " " ++ deltaOf c r.1 [])
    | none => (st, bad)
  | _, _, _, _, _, _, _, _, _, _ => (st, bad)

def step (st : St) (line : String) : St × String :=
  match fields line with
  | ["reset"] => ({ fresh with dbg := st.dbg }, "ok")
  | ["debug", b] => ({ st with dbg := b == "1" }, "ok")
  | ["chain", n] =>
    match unhex n with
    | some n => (putChain st (Chain.init n), "ok")
    | none => (st, bad)
  | ["client", chain, name, kind, rev, h, root, pt, dt, db, tss] =>
    match unhex chain, unhex name, parseKind kind, u64? rev, u64? h, unhex root, u64? pt, u64? dt, u64? db, unhex tss with
    | some cn, some name, some kind, some rev, some h, some root, some pt, some dt, some db, some tss =>
      match getChain st cn with
      | some c =>
        let ht : Height := ⟨rev, h⟩
        let cl : Client := { kind := kind, latest := ht, cons := [(ht, root)], processed := [(ht, pt)],
                             delayTime := dt, delayBlock := db, tssAddr := tss }
        (putChain st (deliver (envOf st) c 0 (.createClient name cl)).1, "ok")
      | none => (st, bad)
    | _, _, _, _, _, _, _, _, _, _ => (st, bad)
  | "relayer" :: chain :: addr :: n :: rest =>
    match unhex chain, unhex addr, n.toNat? with
    | some cn, some addr, some n =>
      match getChain st cn, parsePairs n rest with
      | some c, some (chs, ads) =>
        (putChain st (deliver (envOf st) c 0 (.registerRelayer ⟨addr, chs, ads⟩)).1, "ok")
      | _, _ => (st, bad)
    | _, _, _ => (st, bad)
  | ["pkt", id, bytes, derr, src, dst, seq, sender, tr, call, cbk, fee, enc, sha] =>
    match unhex bytes, unhex src, unhex dst, u64? seq, unhex sender, unhex tr, unhex call, unhex cbk, u64? fee, unhex sha with
    | some bz, some src, some dst, some seq, some sender, some tr, some call, some cbk, some fee, some sha =>
      let p : Packet := ⟨src, dst, seq, sender, tr, call, cbk, fee⟩
      let encB := if enc = "=" then some bz else unhex enc
      match encB with
      | none => (st, bad)
      | some encB =>
        match define st.pkts id bz, define st.decP bz (p, derr == "1"), define st.encP p encB, define st.sha encB sha with
        | some a, some b, some c, some d => ({ st with pkts := a, decP := b, encP := c, sha := d }, "ok")
        | _, _, _, _ => (st, "env-conflict")
    | _, _, _, _, _, _, _, _, _, _ => (st, bad)
  | ["ack", id, bytes, decok, code, result, message, relayer, fee, sha] =>
    match unhex bytes, u64? code, unhex result, unhex message, unhex relayer, u64? fee, unhex sha with
    | some bz, some code, some result, some message, some relayer, some fee, some sha =>
      let a : Option Ack := if decok == "1" then some ⟨code, result, message, relayer, fee⟩ else none
      match define st.acks id bz, define st.decA bz a, define st.sha bz sha with
      | some x, some y, some z => ({ st with acks := x, decA := y, sha := z }, "ok")
      | _, _, _ => (st, "env-conflict")
    | _, _, _, _, _, _, _ => (st, bad)
  | ["ackenc", code, result, message, relayer, fee, id] =>
    match u64? code, unhex result, unhex message, unhex relayer, u64? fee, look st.acks id with
    | some code, some result, some message, some relayer, some fee, some bz =>
      match define st.encA ⟨code, result, message, relayer, fee⟩ bz with
      | some x => ({ st with encA := x }, "ok")
      | none => (st, "env-conflict")
    | _, _, _, _, _, _ => (st, bad)
  | ["send", chain, now, pid, okf] =>
    stepMsg st chain now
      (fun st => do
        let bz ← look st.pkts pid
        let d ← look st.decP bz
        pure (.sendPacket d.1 (okf == "1"), d.1))
      (fun _ _ => "")
  | ["toggle", chain, name, kind, rev, h, root, pt, dt, db, tss] =>
    stepClientOp st true chain name kind rev h root pt dt db tss
  | ["upgrade", chain, name, kind, rev, h, root, pt, dt, db, tss] =>
    stepClientOp st false chain name kind rev h root pt dt db tss
  | ["restart", chain] =>
    -- genesis export -> JSON -> wipe -> import on the real chain; `Msg.restart` in the model (the identity)
    match unhex chain with
    | some cn =>
      match getChain st cn with
      | some c =>
        let r := deliver (envOf st) c 0 .restart
        (putChain st r.1, (match r.2 with | .ok => "ok" | .err => "err") ++ " " ++ deltaOf c r.1 [])
      | none => (st, bad)
    | none => (st, bad)
  | ["cons", chain, name, rev, h, root] =>
    -- a further consensus state of an EVM-secured (bsc / eth) client installed through the client keeper
    match unhex chain, unhex name, u64? rev, u64? h, unhex root with
    | some cn, some name, some rev, some h, some root =>
      match getChain st cn with
      | some c =>
        match c.clients.get name with
        | some cl =>
          let ht : Height := ⟨rev, h⟩
          let cl' := { cl with latest := maxHeight cl.latest ht, cons := cl.cons.set ht root }
          (putChain st { c with clients := c.clients.set name cl' }, "ok")
        | none => (st, bad)
      | none => (st, bad)
    | _, _, _, _, _ => (st, bad)
  | "bulk" :: src :: dst :: aid :: pids =>
    -- test-only state injection for many packets at once (keeper setters on the real chains): commitment on the source,
    -- receipt and acknowledgement hash on the destination
    match unhex src, unhex dst, look st.acks aid with
    | some sn, some dn, some abz =>
      match getChain st sn, getChain st dn with
      | some sc, some dc =>
        let env := envOf st
        let ps := pids.filterMap (fun pid => (look st.pkts pid).bind (fun bz => (look st.decP bz).map (·.1)))
        if ps.length != pids.length then (st, bad) else
        let sc' := ps.foldl (fun c p => { c with commits := c.commits.set (commitKey p) (env.sha256 (env.encodePacket p)) }) sc
        let dc' := ps.foldl (fun c p => { c with receipts := c.receipts.set (receiptKey p) [1],
                                                 acks := c.acks.set (ackKey p) (env.sha256 abz) }) dc
        (putChain (putChain st sc') dc', "ok")
      | _, _ => (st, bad)
    | _, _, _ => (st, bad)
  | ["plant", chain, pid] =>
    -- test-only state injection (not a message): the harness wrote the commitment of this packet directly into the
    -- source chain's store with Keeper.SetPacketCommitment (sequences an honest sender cannot reach by sending)
    match unhex chain, look st.pkts pid with
    | some cn, some bz =>
      match getChain st cn, look st.decP bz with
      | some c, some d =>
        let env := envOf st
        let p := d.1
        let c' := { c with commits := c.commits.set (commitKey p) (env.sha256 (env.encodePacket p)) }
        (putChain st c', "ok " ++ deltaOf c c' (keysOf p))
      | _, _ => (st, bad)
    | _, _ => (st, bad)
  | ["recv", chain, now, pid, proofid, truth, rev, h, signer, cb] =>
    match unhex chain, look st.pkts pid, unhex proofid, u64? rev, u64? h, unhex signer, parseCb cb with
    | some cn, some bz, some proof, some rev, some h, some signer, some cb =>
      match getChain st cn, look st.decP bz with
      | some c, some d =>
        let p := d.1
        let ht : Height := ⟨rev, h⟩
        -- register the ground truth for exactly the verification the model would ask for
        let env0 := envOf st
        let verE : Option (List (Bytes × Bool)) :=
          match c.clients.get p.src with
          | some cl =>
            match cl.cons.get ht with
            | some root => define st.ver (verKey p.src cl.kind root proof (commitKey p) (env0.sha256 (env0.encodePacket p))) (truth == "1")
            | none => some st.ver
          | none => some st.ver
        match verE with
        | none => (st, "env-conflict")
        | some v =>
          let st := { st with ver := v }
          stepMsg st chain now (fun _ => some (.recvPacket bz proof ht signer cb, p))
            (fun c' p => " S=" ++ toString (ackStatus c' p.dst p.seq))
      | _, _ => (st, bad)
    | _, _, _, _, _, _, _ => (st, bad)
  | ["ackm", chain, now, pid, aid, proofid, truth, rev, h, signer, evm] =>
    match unhex chain, look st.pkts pid, look st.acks aid, unhex proofid, u64? rev, u64? h, unhex signer with
    | some cn, some bz, some abz, some proof, some rev, some h, some signer =>
      match getChain st cn, look st.decP bz, evm.toList with
      | some c, some d, [e1, e2, e3] =>
        let p := d.1
        let ht : Height := ⟨rev, h⟩
        let env0 := envOf st
        let verE : Option (List (Bytes × Bool)) :=
          match c.clients.get p.dst with
          | some cl =>
            match cl.cons.get ht with
            | some root => define st.ver (verKey p.dst cl.kind root proof (ackKey p) (env0.sha256 abz)) (truth == "1")
            | none => some st.ver
          | none => some st.ver
        match verE with
        | none => (st, "env-conflict")
        | some v =>
          let st := { st with ver := v }
          let o : EvmOut := ⟨e1 == '1', e2 == '1', e3 == '1'⟩
          stepMsg st chain now (fun _ => some (.acknowledgement bz abz proof ht signer o, p))
            (fun c' p => " S=" ++ toString (ackStatus c' p.dst p.seq))
      | _, _, _ => (st, bad)
    | _, _, _, _, _, _, _ => (st, bad)
  | ["update", chain, now, client, rev, h, root, signer, okf] =>
    match unhex chain, u64? now, unhex client, u64? rev, u64? h, unhex root, unhex signer with
    | some cn, some now, some client, some rev, some h, some root, some signer =>
      match getChain st cn with
      | some c =>
        let m := Msg.updateClient client ⟨rev, h⟩ root signer (okf == "1")
        let env := envOf st
        let r := deliver env c now m
        let l := match r.1.clients.get client with
          | some cl => toString cl.latest.rev.toNat ++ "-" ++ toString cl.latest.h.toNat
          | none => "none"
        -- the stored client state after the update: the verifier later steps will use (TSS: its address; light client:
        -- the root held at the header height)
        let v := match r.1.clients.get client with
          | some cl => if cl.kind = .tss then hex cl.tssAddr else (match cl.cons.get ⟨rev, h⟩ with | some rt => hex rt | none => "none")
          | none => "none"
        (putChain st r.1, resStr st env c now m r.2 ++ " L=" ++ l ++ " V=" ++ v)
      | none => (st, bad)
    | _, _, _, _, _, _, _ => (st, bad)
  | ["dump", chain] =>
    match unhex chain with
    | some cn =>
      match getChain st cn with
      | some c => (st, fullDump c)
      | none => (st, bad)
    | none => (st, bad)
  | _ => (st, bad)

end TM.Driver.XibcProto
