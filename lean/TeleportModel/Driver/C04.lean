import TeleportModel.Model.Send
import TeleportModel.Driver.Loop
/- Line protocol of C04 (see harness/c04_test.go). -/
namespace TM.Driver.C04
open TM TM.Send

structure St where
  c : Chain
  cfg : Cfg
  dsts : List Bytes          -- universe of destination names seen so far (sorted by hex)
  keys : List (Bytes × Nat)  -- universe of (dst, seq) seen so far (sorted)
  nrec : Nat

def fresh : St := { c := Send.fresh [] [] [], cfg := { cbOnCctx := false }, dsts := [], keys := [], nrec := 0 }

def insSorted {α} (lt : α → α → Bool) (x : α) : List α → List α
  | [] => [x]
  | y :: ys => if lt x y then x :: y :: ys else if lt y x then y :: insSorted lt x ys else y :: ys

def ltB (a b : Bytes) : Bool := hex a < hex b
def ltK (a b : Bytes × Nat) : Bool := ltB a.1 b.1 || (a.1 == b.1 && a.2 < b.2)

def seeDst (st : St) (d : Bytes) : St := { st with dsts := insSorted ltB d st.dsts }
def seeKey (st : St) (d : Bytes) (n : Nat) : St := { (seeDst st d) with keys := insSorted ltK (d, n) st.keys }

def orDash (l : List String) : String := if l.isEmpty then "-" else joinWith "," l

def dump (st : St) : String :=
  let c := st.c
  let n := st.dsts.filterMap (fun d => (c.nextSeq d).map (fun v => hex d ++ "=" ++ toString v))
  let k := st.dsts.map (fun d => hex d ++ "=" ++ toString (contractNext c d))
  let cm := st.keys.filterMap (fun (d, s) => (c.commits (d, s)).map (fun h => hex d ++ "/" ++ toString s ++ "=" ++ hex h))
  let e := ([0, 1, 2, 3].flatMap (fun t => st.dsts.filterMap (fun d =>
    if c.escrow (t, d) = 0 then none else some (toString t ++ "/" ++ hex d ++ "=" ++ toString (c.escrow (t, d))))))
  "N:" ++ orDash n ++ " K:" ++ orDash k ++ " C:" ++ orDash cm ++ " E:" ++ orDash e ++ " R:" ++ toString st.nrec

def resStr : Res → String
  | .ok => "ok" | .vmFailed => "vmfail" | .hookFailed => "hookfail" | .err => "err"
  | .ackOk code => "ack" ++ toString code | .ackErr => "ackerr" | .ackNoRoute => "ack1"

def bool? (s : String) : Option Bool := if s = "1" then some true else if s = "0" then some false else none

/-- packet fields: src dst seq hasData bytes hash tok amt ; returns packet, (bytes,hash) pair and the rest -/
def parsePacket : List String → Option (Packet × (Bytes × Bytes) × List String)
  | s :: d :: q :: hd :: b :: h :: tk :: am :: rest => do
    let s ← unhex s; let d ← unhex d; let q ← q.toNat?; let hd ← bool? hd
    let b ← unhex b; let h ← unhex h
    let esc ← (if tk = "-" then some none else do
      let t ← tk.toNat?; let a ← am.toNat?; pure (some (t, a)))
    pure ({ src := s, dst := d, seq := q, hasData := hd, bytes := b, esc := esc }, (b, h), rest)
  | _ => none

def parseLogs : Nat → List String → Option (List Log × List (Bytes × Bytes) × List String)
  | 0, rest => some ([], [], rest)
  | n+1, "o" :: rest => do let (ls, hs, r) ← parseLogs n rest; pure (.other :: ls, hs, r)
  | n+1, "u" :: rest => do let (ls, hs, r) ← parseLogs n rest; pure (.unknownEvent :: ls, hs, r)
  | n+1, "b" :: rest => do let (ls, hs, r) ← parseLogs n rest; pure (.badData :: ls, hs, r)
  | n+1, "s" :: rest => do
    let (p, bh, rest) ← parsePacket rest
    let (ls, hs, r) ← parseLogs n rest
    pure (.sent p :: ls, bh :: hs, r)
  | _, _ => none

def mkEnv (tbl : List (Bytes × Bytes)) : Env :=
  { sha256 := fun b => match tbl.find? (fun e => e.1 == b) with | some e => e.2 | none => [] }

def seeLogs (st : St) : List Log → St
  | [] => st
  | .sent p :: ls => seeLogs (seeKey st p.dst p.seq) ls
  | _ :: ls => seeLogs st ls

def parseClients : Nat → List String → Option (List Bytes × List String)
  | 0, rest => some ([], rest)
  | n+1, x :: rest => do let b ← unhex x; let (r, rest) ← parseClients n rest; pure (b :: r, rest)
  | _, _ => none

def parseSeqs : Nat → List String → Option (List (Bytes × Nat))
  | 0, [] => some []
  | n+1, d :: v :: rest => do let d ← unhex d; let v ← v.toNat?; let r ← parseSeqs n rest; pure ((d, v) :: r)
  | _, _ => none

def finish (st : St) (r : Chain × Res) : St × String :=
  let st := { st with c := r.1 }
  (st, resStr r.2 ++ " " ++ dump st)

def step (st : St) (line : String) : St × String :=
  match fields line with
  | "reset" :: self :: cb :: ro :: n :: rest =>
    match unhex self, (bool? cb).bind (fun cb => (bool? ro).map (fun ro => (cb, ro))), n.toNat? with
    | some self, some (cb, ro), some n =>
      match parseClients n rest with
      | some (cl, m :: rest) =>
        match m.toNat?.bind (fun m => parseSeqs m rest) with
        | some sq =>
          let st0 : St := { c := Send.fresh self cl sq, cfg := { cbOnCctx := cb, rejectOwnName := ro }, dsts := [], keys := [], nrec := 0 }
          ((cl ++ sq.map (·.1)).foldl seeDst st0, "ok")
        | none => (st, "bad-op")
      | _ => (st, "bad-op")
    | _, _, _ => (st, "bad-op")
  | ["gen", _, _, _] => (st, "ok")
  | ["commit"] => (st, "ok " ++ dump st)
  | "dry" :: _ => (st, "ok " ++ dump st)
  | ["restartapp"] => finish st (restart st.c)
  | ["upgrade"] => finish { st with nrec := 0 } (upgrade st.c)
  | "hook" :: n :: rest =>
    match n.toNat? with
    | some n =>
      match parseLogs n rest with
      | some (ls, hs, []) =>
        let st := seeLogs st ls
        finish st (applyTx (mkEnv hs) st.c true ls)
      | _ => (st, "bad-op")
    | none => (st, "bad-op")
  | "tx" :: v :: n :: rest =>
    match bool? v, n.toNat? with
    | some v, some n =>
      match parseLogs n rest with
      | some (ls, hs, []) =>
        let st := seeLogs st ls
        finish st (applyTx (mkEnv hs) st.c v ls)
      | _ => (st, "bad-op")
    | _, _ => (st, "bad-op")
  | "recv" :: rest =>
    match parsePacket rest with
    | some (p, bh, vo :: rf :: cv :: cc :: n :: rest) =>
      match bool? vo, bool? rf, bool? cv, cc.toNat?, n.toNat? with
      | some vo, some rf, some cv, some cc, some n =>
        match parseLogs n rest with
        | some (ls, hs, []) =>
          let st := seeLogs (seeKey st p.dst p.seq) ls
          let r := recv st.cfg (mkEnv (bh :: hs)) st.c
            { p := p, verifyOk := vo, relayerFound := rf, cbVmOk := cv, cbLogs := ls, cbCode := cc }
          let st := if r.2 = .err then st else { st with nrec := st.nrec + 1 }
          finish st r
        | _ => (st, "bad-op")
      | _, _, _, _, _ => (st, "bad-op")
    | _ => (st, "bad-op")
  | "ack" :: rest =>
    match parsePacket rest with
    | some (p, bh, [vo, code, rf, cb]) =>
      match bool? vo, code.toNat?, bool? rf, bool? cb with
      | some vo, some code, some rf, some cb =>
        let st := seeKey st p.dst p.seq
        finish st (ack (mkEnv [bh]) st.c { p := p, verifyOk := vo, code := code, relayerFound := rf, cbOk := cb })
      | _, _, _, _ => (st, "bad-op")
    | _ => (st, "bad-op")
  | ["client", name] =>
    match unhex name with
    | some name => finish (seeDst st name) (createClient st.cfg st.c name)
    | none => (st, "bad-op")
  | _ => (st, "bad-op")

def main : IO Unit := TM.Driver.runStdin step fresh

end TM.Driver.C04
