import TeleportModel.Model.Auth
import TeleportModel.Model.Guard
import TeleportModel.Driver.Loop
/- Line protocol of C06: message level (harness/c06_msg_test.go, `step`) and contract level
   (harness/c06_evm_test.go, `stepGuard`). -/
namespace TM.Driver.C06
open TM TM.Auth

abbrev St := State

def fresh : St := Auth.init []

/-! ### contract level -/
open TM.Guard in
def contract? : String → Option Contract
  | "packet" => some .packet | "endpoint" => some .endpoint | "execute" => some .execute | _ => none

open TM.Guard in
def classStr : CallerClass → String
  | .packetModule => "packetModule" | .aggregateModule => "aggregateModule" | .packetContract => "packetContract"
  | .endpointContract => "endpointContract" | .anyone => "anyone"

open TM.Guard in
def path? (k : Consts) : List String → Option CallPath
  | ["eoa", a] => (unhex a).map .eoa
  | ["contract", o, c] => do let o ← unhex o; let c ← unhex c; pure (.contract o c)
  | ["execute", o] => (unhex o).map .viaExecute
  | ["packet"] => some .inPacket
  | ["module", a] => (unhex a).map .module
  | ["delegatecall", o, c] => do let o ← unhex o; let c ← unhex c; pure (.delegate o c)
  | ["callcode", o, c] => do let o ← unhex o; let c ← unhex c; pure (.callcode o c)
  | ["staticcall", o, c] => do let o ← unhex o; let c ← unhex c; pure (.static o c)
  | ["ctor", o, c] => do let o ← unhex o; let c ← unhex c; pure (.ctor o c)
  | _ => let _ := k; none

open TM.Guard in
def emptyConsts : Consts := ⟨[], [], [], [], []⟩

open TM.Guard in
/-- `addr <class> <hex>`, `row <contract> <method>`, `call <contract> <method> <path…>`, `whoami <path…>`,
`const <contract> <class>` -/
def stepGuard (k : Consts) (fs : List String) : Option (Consts × String) :=
  match fs with
  | ["evmreset"] => some (emptyConsts, "ok")
  | ["addr", "packetModule", a] => (unhex a).map (fun a => ({ k with packetModule := a }, "ok"))
  | ["addr", "aggregateModule", a] => (unhex a).map (fun a => ({ k with aggregateModule := a }, "ok"))
  | ["addr", "packetContract", a] => (unhex a).map (fun a => ({ k with packetC := a }, "ok"))
  | ["addr", "endpointContract", a] => (unhex a).map (fun a => ({ k with endpointC := a }, "ok"))
  | ["addr", "executeContract", a] => (unhex a).map (fun a => ({ k with executeC := a }, "ok"))
  | ["row", c, m] =>
    (contract? c).map (fun c => (k, match guardOf ⟨c, m⟩ with
                                    | some g => "row " ++ classStr g
                                    | none => "row unknown-method"))
  | "call" :: c :: m :: path =>
    match contract? c, path? k path with
    | some c, some cp =>
      some (k, match guardVerdict k ⟨c, m⟩ cp with
               | some true => "pass"
               | some false => "revert"
               | none => "unknown-method")
    | _, _ => none
  | "whoami" :: path => (path? k path).map (fun cp => (k, "caller " ++ hex (callerOf k cp)))
  | ["const", _, _] => some (k, "ok")
  | ["emit", _origin, c] =>
    -- a PacketSent-shaped log emitted by contract c: drives the keeper only if c is the packet contract
    (unhex c).map (fun c => (k, if hookAccepts k c then "sent" else "ignored"))
  | ["emitmix", _via, order, c] =>
    -- one transaction whose receipt holds genuine PacketSent logs of the packet contract (`g`) and look-alike logs of
    -- contract c (`f`, any other letter) in the given order: the number of sends the hook performs
    (unhex c).map (fun c =>
      let logs := order.toList.map (fun ch => if ch == 'g' then k.packetC else c)
      (k, "sends=" ++ toString (hookRun k (fun (n : Nat) => n + 1) logs 0)))
  | ["spoof", _] => some (k, "unchanged")   -- agent.send through execute by a user: no privileged state may change
  | ["evmrestart"] => some (k, "ok")        -- guards live in code + constants: a restart / upgrade changes neither
  | ["evmupgrade"] => some (k, "ok")
  | _ => none

def tripleStr (t : Triple) : String := hex t.src ++ "/" ++ hex t.dst ++ "/" ++ toString t.seq

def listStr (l : List Str) : String := joinWith "," (l.map hex)

def dumpReg (reg : Registry) : String :=
  if reg.isEmpty then "-" else
  joinWith "|" (reg.map (fun r => hex r.address ++ "=" ++ listStr r.chains ++ "/" ++ listStr r.addresses))

def lookupStr : Lookup → String
  | .found a => "f:" ++ hex a
  | .notFound => "none"
  | .indexPanic => "panic"

/-- canonical list of store changes between two states (same token language as the harness). -/
def diff (a b : State) : List String :=
  (b.receipts.filter (fun t => !a.receipts.contains t)).reverse.map (fun t => "+R:" ++ tripleStr t) ++
  (b.acks.filter (fun x => ackOf a.acks x.1 != some x.2)).reverse.map
      (fun x => (if hasAck a.acks x.1 then "~A:" else "+A:") ++ tripleStr x.1) ++
  (b.commits.filter (fun t => !a.commits.contains t)).reverse.map (fun t => "+C:" ++ tripleStr t) ++
  (a.commits.filter (fun t => !b.commits.contains t)).map (fun t => "-C:" ++ tripleStr t) ++
  (b.clients.filter (fun kc => getClient a.clients kc.1 != some kc.2)).map (fun kc => "~K:" ++ hex kc.1)

def parseList : Nat → List String → Option (List Str × List String)
  | 0, rest => some ([], rest)
  | k+1, x :: rest => do
    let b ← unhex x
    let (l, r) ← parseList k rest
    pure (b :: l, r)
  | _, _ => none

def bool? (s : String) : Option Bool := if s = "1" then some true else if s = "0" then some false else none

def clsStr : AckClass → String
  | .cbOk => "ok" | .cbCode => "code" | .cbEvmFail => "evm" | .dstNotFound => "nodst" | .relayed => "relayed"

def cb? : String → Option Cb
  | "ok" => some .ok | "code" => some .code | "evm" => some .evmFail | _ => none

/-! ### genesis documents -/

def takeItems (arity : Nat) : Nat → List String → Option (List (List String) × List String)
  | 0, rest => some ([], rest)
  | n+1, rest =>
    if rest.length < arity then none else
    match takeItems arity n (rest.drop arity) with
    | some (items, r) => some (rest.take arity :: items, r)
    | none => none

def genClient? : List String → Option (Str × Client × Bool)
  | [ch, "tss", ok, a] => do let ch ← unhex ch; let a ← unhex a; let ok ← bool? ok; pure (ch, .tss a, ok)
  | [ch, "oth", ok, _] => do let ch ← unhex ch; let ok ← bool? ok; pure (ch, .other 0, ok)
  | _ => none

def genCons? : List String → Option (Str × Nat × Nat)
  | [ch, h, id] => do let ch ← unhex ch; let h ← h.toNat?; let id ← id.toNat?; pure (ch, h, id)
  | _ => none

def genMeta? : List String → Option (Str × GKey × GVal)
  | [ch, "cstss", a, _] => do let ch ← unhex ch; let a ← unhex a; pure (ch, .clientState, .client (.tss a))
  | [ch, "csoth", _, id] => do let ch ← unhex ch; let id ← id.toNat?; pure (ch, .clientState, .raw id)
  | [ch, "cons", h, id] => do let ch ← unhex ch; let h ← h.toNat?; let id ← id.toNat?; pure (ch, .consensus h, .cons id)
  | [ch, "raw", k, id] => do let ch ← unhex ch; let k ← unhex k; let id ← id.toNat?; pure (ch, .other k, .raw id)
  | _ => none

def genRelayers : Nat → List String → Option (List Relayer × List String)
  | 0, rest => some ([], rest)
  | n+1, addr :: nc :: rest => do
    let addr ← unhex addr
    let nc ← nc.toNat?
    let (chains, r1) ← parseList nc rest
    match r1 with
    | na :: r2 => do
      let na ← na.toNat?
      let (addrs, r3) ← parseList na r2
      let (more, r4) ← genRelayers n r3
      pure (⟨addr, chains, addrs⟩ :: more, r4)
    | [] => none
  | _, _ => none

def dumpClients (cs : Clients) : String :=
  if cs.isEmpty then "-" else
  joinWith "|" (cs.map (fun kc => hex kc.1 ++ "=" ++ (match kc.2 with | .tss a => "t:" ++ hex a | .other _ => "o")))

/-- `genesis <class> <native> C n … S p … M m … R k …` -/
def parseGenesis (fs : List String) : Option GenDoc :=
  match fs with
  | _cls :: native :: "C" :: n :: rest => do
    let native ← unhex native
    let n ← n.toNat?
    let (cl, r1) ← takeItems 4 n rest
    let clients ← cl.mapM genClient?
    match r1 with
    | "S" :: p :: r2 => do
      let p ← p.toNat?
      let (co, r3) ← takeItems 3 p r2
      let cons ← co.mapM genCons?
      match r3 with
      | "M" :: m :: r4 => do
        let m ← m.toNat?
        let (me, r5) ← takeItems 4 m r4
        let metas ← me.mapM genMeta?
        match r5 with
        | "R" :: k :: r6 => do
          let k ← k.toNat?
          let (rel, r7) ← genRelayers k r6
          if r7.isEmpty then pure ⟨native, clients, cons, metas, rel⟩ else none
        | _ => none
      | _ => none
    | _ => none
  | _ => none

def runMsg (st : St) (m : Msg) : St × String :=
  let (st', ok) := deliver asciiFold st m
  if !ok then (st, "rej") else
  let toks := diff st st'
  let rl := match m with
    | .recv _ p _ _ => (match ackOf st'.acks p.triple, ackOf st.acks p.triple with
                      | some ⟨some r, c⟩, none => [ "rl=" ++ hex r, "cls=" ++ clsStr c ]
                      | _, _ => [])
    | _ => []
  (st', joinWith " " ("ok" :: toks ++ rl))

def stepMsg (st : St) (line : String) : St × String :=
  match fields line with
  | ["reset", self] =>
    match unhex self with
    | some s => (Auth.init s, "ok")
    | none => (st, "bad-op")
  | ["mkclient", ch, "tss", a] =>
    match unhex ch, unhex a with
    | some ch, some a => ({ st with clients := setClient st.clients ch (.tss a) }, "ok")
    | _, _ => (st, "bad-op")
  | ["mkclient", ch, "oth"] =>
    match unhex ch with
    | some ch => ({ st with clients := setClient st.clients ch (.other 0) }, "ok")
    | _ => (st, "bad-op")
  | ["mkcommit", src, dst, seq] =>
    match unhex src, unhex dst, seq.toNat? with
    | some src, some dst, some seq =>
      let t : Triple := ⟨src, dst, seq⟩
      ({ st with commits := if st.commits.contains t then st.commits else t :: st.commits }, "ok")
    | _, _, _ => (st, "bad-op")
  | "reg" :: addrOK :: addr :: nc :: rest =>
    match bool? addrOK, unhex addr, nc.toNat? with
    | some addrOK, some addr, some nc =>
      match parseList nc rest with
      | some (chains, na :: rest2) =>
        match na.toNat? with
        | some na =>
          match parseList na rest2 with
          | some (addrs, []) =>
            let (st', ok) := applyReg st addrOK ⟨addr, chains, addrs⟩
            if ok then (st', "ok G:" ++ dumpReg st'.reg) else (st, "rej")
          | _ => (st, "bad-op")
        | none => (st, "bad-op")
      | _ => (st, "bad-op")
    | _, _, _ => (st, "bad-op")
  | "genesis" :: rest =>
    match parseGenesis rest with
    | none => (st, "bad-op")
    | some d =>
      let (st', ok) := startFrom st d
      if ok then (st', "ok K:" ++ dumpClients st'.clients ++ " G:" ++ dumpReg st'.reg) else (st, "invalid")
  | ["restart", _mode] => (st, "ok")     -- module-level or whole-app: the identity on everything C06 talks about
  | "regdry" :: _mode :: addrOK :: addr :: nc :: rest =>
    -- mode (drop | fail | gov) is how the harness discards the context branch; the model: identity on the state
    match bool? addrOK, unhex addr, nc.toNat? with
    | some addrOK, some addr, some nc =>
      match parseList nc rest with
      | some (chains, na :: rest2) =>
        match na.toNat? with
        | some na =>
          match parseList na rest2 with
          | some (addrs, []) =>
            let (st', ok) := applyRegDry st addrOK ⟨addr, chains, addrs⟩
            (st', (if ok then "dry ok G:" else "dry rej G:") ++ dumpReg st'.reg)
          | _ => (st, "bad-op")
        | none => (st, "bad-op")
      | _ => (st, "bad-op")
    | _, _, _ => (st, "bad-op")
  | ["q", ch, a, oa] =>
    match unhex ch, unhex a, unhex oa with
    | some ch, some a, some oa =>
      (st, "auth=" ++ (if authRelayer st.reg ch a then "1" else "0") ++
           " other=" ++ lookupStr (otherChainAddr st.reg ch a) ++
           " tele=" ++ lookupStr (teleportAddr asciiFold st.reg ch oa))
    | _, _, _ => (st, "bad-op")
  | ["upd", raw, canon, ch, hdrOK, newTss] =>
    match unhex raw, unhex canon, unhex ch, bool? hdrOK, (if newTss = "none" then some none else (unhex newTss).map some) with
    | some raw, some canon, some ch, some hdrOK, some newTss =>
      runMsg st (.update ⟨raw, canon⟩ ch hdrOK newTss)
    | _, _, _, _, _ => (st, "bad-op")
  | ["recv", raw, canon, src, dst, seq, kind, proofOK, cb] =>
    -- kind: 0 = packet without data (fails ValidateBasic), 1.. = the harness' data variants
    match unhex raw, unhex canon, unhex src, unhex dst, seq.toNat?, kind.toNat?, bool? proofOK, cb? cb with
    | some raw, some canon, some src, some dst, some seq, some kind, some proofOK, some cb =>
      runMsg st (.recv ⟨raw, canon⟩ ⟨src, dst, seq, kind != 0⟩ proofOK cb)
    | _, _, _, _, _, _, _, _ => (st, "bad-op")
  | ["ack", raw, canon, src, dst, seq, hasData, genuine, proofOK, rl, dec, evm] =>
    match unhex raw, unhex canon, unhex src, unhex dst, seq.toNat?, bool? hasData, bool? genuine, bool? proofOK,
          unhex rl, bool? dec, bool? evm with
    | some raw, some canon, some src, some dst, some seq, some hasData, some genuine, some proofOK,
      some rl, some dec, some evm =>
      runMsg st (.ack ⟨raw, canon⟩ ⟨src, dst, seq, hasData⟩ genuine proofOK rl dec evm)
    | _, _, _, _, _, _, _, _, _, _, _ => (st, "bad-op")
  | _ => (st, "bad-op")

structure DSt where
  a : St
  k : TM.Guard.Consts

/-- `recv` / `ack` lines may end with `pf=<hex>`: the bytes the message carries in `ProofCommitment` /
`ProofAcked` when the gating client is a TSS client (for proof-verifying clients the harness derives the proof
from `proofOK`). The model has no use for them: for a TSS client `packet.go` replaces the proof by
`[]byte(msg.Signer)` UNCONDITIONALLY (`TM.Auth.verify (.tss a) s _ = (s.raw == a)`), so whatever the message
carries — nothing, garbage, the TSS address itself, somebody's address — cannot influence the verdict. -/
def stripProofField (line : String) : String :=
  joinWith " " ((fields line).filter (fun f => !f.startsWith "pf="))

def step (d : DSt) (line : String) : DSt × String :=
  match stepGuard d.k (fields line) with
  | some (k', out) => ({ d with k := k' }, out)
  | none => let (a', out) := stepMsg d.a (stripProofField line); ({ d with a := a' }, out)

def main : IO Unit := TM.Driver.runStdin step ⟨fresh, emptyConsts⟩

end TM.Driver.C06
