import TeleportModel.Model.World
import TeleportModel.Driver.Loop
/- Line protocol of C03 (see harness/c03_test.go). The driver runs the REPAIRED handler (`fixed := true`);
   `mode unrepaired` switches to the handler of the unchanged tree (used to replay the two defect witnesses). -/
namespace TM.Driver.C03
open TM TM.World

def nChains : Nat := 3          -- real chains 0,1,2; chain 3 is a name without client
def nAcct : Nat := 21   -- 13 … 20 = module accounts of the app (blocked for the native coin)
-- (was 13)   -- … 10 = the forwarder (batching) contract, 11 = the log emitter, 12 = the callback switch contract
--         -- 0 user, 1 endpoint, 2 packet, 3 agent, 4 execute, 5 relayer, 6 7 receivers, 8 9 further senders
def userNative : Nat := 100000000000000

structure St where
  w : World
  ntok : Nat → Nat               -- number of token ids in use per chain (id 0 = native coin)
  fixed : Bool
  /-- sequences of every path that the dump looks at: every value the path's next-send counter has had (gaps of up to 64
  filled) — counters can be planted at 2^63 and above, so "1 .. next" is not a loop -/
  seen : Nat → Nat → List Nat := fun _ _ => [1]

def freshCfg (i : Nat) : Cfg :=
  { clients := fun j => decide (j < nChains ∧ j ≠ i), trace := fun _ _ => none, ori := fun _ _ => none, scale := fun _ _ => 0 }

def freshChain : Chain :=
  { Chain.empty with evm := { Evm.empty with bal := fun t a => if t = 0 ∧ a = 0 then userNative else 0 } }

def fresh : St :=
  { w := { cfg := freshCfg, chains := fun _ => freshChain, reg := fun _ => [], ackTag := fun _ _ _ => 0 },
    ntok := fun _ => 1, fixed := true }

def kv (k : String) (v : Nat) : String := k ++ "=" ++ toString v

def noteOne (l : List Nat) (n : Nat) : List Nat :=
  let last := l.getLast?.getD 1
  if n ≤ last then l
  else if n - last ≤ 64 then l ++ (List.range (n - last)).map (fun k => last + 1 + k)
  else l ++ [n]

/-- record the current next-send counters of every path -/
def note (st : St) : St :=
  { st with seen := fun i d => if i < nChains ∧ d ≤ nChains then noteOne (st.seen i d) ((st.w.chains i).nextSeq d) else st.seen i d }

/-- Canonical dump of one chain: fixed section order, numeric loops ascending, zero entries omitted. -/
def dump (st0 : St) (i : Nat) : String :=
  let st := note st0
  let c := st.w.chains i
  let e := c.evm
  let toks := List.range (st.ntok i)
  let accts := List.range nAcct
  let dsts := (List.range (nChains + 1)).filter (· ≠ i)
  let seqsTo (d : Nat) : List Nat := st.seen i d
  let seqsFrom (s : Nat) : List Nat := if s < nChains then st.seen s i else []
  let bals := toks.flatMap fun t => accts.filterMap fun a =>
    -- (the native balances of the module accounts 13.. move with every block: not part of the dump)
    if e.bal t a = 0 ∨ (t = 0 ∧ 13 ≤ a) then none else some (kv ("b:" ++ toString t ++ "." ++ toString a) (e.bal t a))
  let alws := toks.flatMap fun t => [3, 8, 9, 10].filterMap fun a =>
    if t = 0 ∨ e.allow t a = 0 then none else some (kv ("l:" ++ toString t ++ "." ++ toString a) (e.allow t a))
  let sups := toks.filterMap fun t => if t = 0 ∨ e.supply t = 0 then none else some (kv ("s:" ++ toString t) (e.supply t))
  let outs := toks.flatMap fun t => dsts.filterMap fun d =>
    if e.out t d = 0 then none else some (kv ("o:" ++ toString t ++ "." ++ toString d) (e.out t d))
  let binds := toks.flatMap fun t => dsts.filterMap fun d =>
    if e.bindAmt t d = 0 then none else some (kv ("n:" ++ toString t ++ "." ++ toString d) (e.bindAmt t d))
  let seqs := dsts.filterMap fun d => if c.nextSeq d = 1 then none else some (kv ("q:" ++ toString d) (c.nextSeq d))
  let stats := dsts.flatMap fun d => (seqsTo d).filterMap fun s =>
    if e.ackStatus d s = 0 then none else some (kv ("k:" ++ toString d ++ "." ++ toString s) (e.ackStatus d s))
  let fees := dsts.flatMap fun d => (seqsTo d).filterMap fun s =>
    if (e.fee d s).2 = 0 then none
    else some ("f:" ++ toString d ++ "." ++ toString s ++ "=" ++ toString (e.fee d s).1 ++ ":" ++ toString (e.fee d s).2)
  let coms := dsts.flatMap fun d => (seqsTo d).filterMap fun s =>
    if (findPacket c.commits d s).isSome then some ("c:" ++ toString d ++ "." ++ toString s) else none
  let recs := dsts.flatMap fun s => (seqsFrom s).filterMap fun q =>
    if c.receipts s q then some ("r:" ++ toString s ++ "." ++ toString q) else none
  let acks := dsts.flatMap fun s => (seqsFrom s).filterMap fun q =>
    match c.acks s q with
    | some code => some (kv ("a:" ++ toString s ++ "." ++ toString q) code)
    | none => none
  let all := bals ++ alws ++ sups ++ outs ++ binds ++ seqs ++ stats ++ fees ++ coms ++ recs ++ acks
  if all.isEmpty then "-" else joinWith "," all

def parseCall (s : String) : Option Call :=
  match s.splitOn ":" with
  | ["n"] => some .none
  | ["po"] => some (.plain .ok)
  | ["pf"] => some (.plain .fail)
  | ["pr"] => some (.plain .revert)
  | ["ph"] => some (.plain .hookFail)
  | ["a", r, v, d, f] => do
    let r ← r.toNat?; let v ← v.toNat?; let d ← d.toNat?; let f ← f.toNat?
    pure (.agent r v d f)
  | _ => none

def nats (l : List String) : Option (List Nat) := l.mapM (·.toNat?)

/-- optional trailing `by<acct>`: the account that signs the relay message (default 0) -/
def signerOf (rest : List String) : Nat :=
  match rest.find? (fun t => t.startsWith "by") with
  | some t => ((t.drop 2).toString.toNat?).getD 0
  | none => 0

/-- `<chain>:<tag>` -/
def parseChainTag (s : String) : Option (Nat × Nat) :=
  match s.splitOn ":" with
  | [c, t] => do let c ← c.toNat?; let t ← t.toNat?; pure (c, t)
  | _ => none

/-- a batch leg: `A,<tok>,<amt>` or `S,<dst>,<tok>,<amt>,<receiver>,<feeTok>,<feeAmt>,<call>` -/
def parseLeg (s : String) : Option Leg :=
  match s.splitOn "," with
  | ["A", t, n] => do
    let t ← t.toNat?; let n ← n.toNat?
    pure (.approve t n)
  | ["S", d, t, amt, rcv, ft, fa, call] => do
    let d ← d.toNat?; let t ← t.toNat?; let amt ← amt.toNat?; let rcv ← rcv.toNat?; let ft ← ft.toNat?; let fa ← fa.toNat?
    let call ← parseCall call
    pure (.send { dst := d, token := t, amount := amt, receiver := rcv, call := call, feeToken := ft, feeAmount := fa, callback := false })
  | "L" :: d :: _ => do
    -- a look-alike PacketSent log emitted by another contract: whatever packet its data encodes, the hook does not see it
    let d ← d.toNat?
    pure (.fakelog { src := 0, dst := d, seq := 0, sender := 0, transfer := none, call := .none, callback := false })
  | _ => none

def step0 (st : St) (line : String) : St × String :=
  match fields line with
  | ["reset"] => (fresh, "ok")
  | ["mode", m] => ({ st with fixed := m != "unrepaired" }, "ok")
  | ["deploy", c, t] =>
    match nats [c, t] with
    | some [c, t] =>
      -- the harness lets the main user approve the endpoint once for 2^200
      let st := { st with ntok := upd1 st.ntok c (max (st.ntok c) (t + 1)),
                          w := World.step st.fixed st.w (.approve c t 0 (2 ^ 200)) }
      (st, "ok")
    | _ => (st, "bad-op")
  | ["bind", c, v, oc, ot, sc] =>
    match nats [c, v, oc, ot, sc] with
    | some [c, v, oc, ot, sc] =>
      let cfg := st.w.cfg c
      let cfg' : Cfg := { cfg with trace := upd2 cfg.trace oc ot (some v), ori := upd2 cfg.ori v oc (some ot),
                                   scale := upd2 cfg.scale v oc sc }
      ({ st with w := { st.w with cfg := upd1 st.w.cfg c cfg' } }, "ok")
    | _ => (st, "bad-op")
  | ["mint", c, t, a, n] =>
    match nats [c, t, a, n] with
    | some [c, t, a, n] =>
      let ok := decide (((st.w.chains c).evm.supply t) + n < U256)
      let st := { st with w := World.step st.fixed st.w (.mint c t a n) }
      (st, (if ok then "ok " else "err ") ++ dump st c)
    | _ => (st, "bad-op")
  | ["approve", c, t, a, n] =>
    match nats [c, t, a, n] with
    | some [c, t, a, n] =>
      let st := { st with w := World.step st.fixed st.w (.approve c t a n) }
      (st, "ok " ++ dump st c)
    | _ => (st, "bad-op")
  | ["transfer", c, t, a, b, n] =>
    match nats [c, t, a, b, n] with
    | some [c, t, a, b, n] =>
      let ok := (debit (st.w.chains c).evm t a n).isSome && a != acEndpoint && a != acPacket && !(t == 0 && blocked b)
      let st := { st with w := World.step st.fixed st.w (.transfer c t a b n) }
      (st, (if ok then "ok " else "err ") ++ dump st c)
    | _ => (st, "bad-op")
  | "send" :: c :: snd :: d :: t :: amt :: rcv :: ft :: fa :: call :: rest =>
    match nats [c, snd, d, t, amt, rcv, ft, fa], parseCall call with
    | some [c, snd, d, t, amt, rcv, ft, fa], some call =>
      let a : SendArgs := { dst := d, token := t, amount := amt, receiver := rcv, call := call, feeToken := ft, feeAmount := fa, callback := false,
                            cbSwitch := rest.contains "cb" }
      match World.send (st.w.cfg c) c (st.w.chains c) snd a with
      | none => (st, "err " ++ dump st c)
      | some _ =>
        let st := { st with w := World.step st.fixed st.w (.send c snd a) }
        (st, "ok " ++ dump st c)
    | _, _ => (st, "bad-op")
  | "register" :: c :: a :: rank :: cts =>
    match nats [c, a, rank], cts.mapM parseChainTag with
    | some [c, a, rank], some cts =>
      ({ st with w := World.step st.fixed st.w (.register c a rank cts) }, "ok")
    | _, _ => (st, "bad-op")
  | ["cbset", c, b] =>
    match nats [c, b] with
    | some [c, b] => ({ st with w := World.step st.fixed st.w (.cbset c (b != 0)) }, "ok")
    | _ => (st, "bad-op")
  | ["restart", c] =>
    match c.toNat? with
    | some c => let st := { st with w := World.step st.fixed st.w (.restart c false) }; (st, "ok " ++ dump st c)
    | none => (st, "bad-op")
  | ["restartapp", c] =>
    match c.toNat? with
    | some c => let st := { st with w := World.step st.fixed st.w (.restart c true) }; (st, "ok " ++ dump st c)
    | none => (st, "bad-op")
  | ["plant", c, d, n] =>
    -- static configuration, like `bind`: the first send sequence of the path c -> d (only while nothing was sent on it)
    match nats [c, d, n] with
    | some [c, d, n] =>
      let ch := st.w.chains c
      let cfg := st.w.cfg c
      if ch.nextSeq d = cfg.seq0 d ∧ cfg.seq0 d ≤ n then
        let cfg' : Cfg := { cfg with seq0 := upd1 cfg.seq0 d n }
        let ch' : Chain := { ch with nextSeq := upd1 ch.nextSeq d n }
        let st := { st with w := { st.w with cfg := upd1 st.w.cfg c cfg', chains := upd1 st.w.chains c ch' } }
        (st, "ok " ++ dump st c)
      else (st, "bad-op")
    | _ => (st, "bad-op")
  | "simrecv" :: s :: d :: q :: rest =>
    match nats [s, d, q] with
    | some [s, d, q] =>
      let forged := rest.contains "forge"
      let signer := signerOf rest
      let accepted : Option Chain :=
        if forged then none else
        match findPacket (st.w.chains s).commits d q, (st.w.reg d).onOther s signer with
        | some p, some _ => recvHandler st.fixed (st.w.cfg d) d (st.w.chains d) p
        | _, _ => none
      let st := { st with w := World.step st.fixed st.w (.discard (.recv s d q signer)) }
      ((st, (if accepted.isSome then "ok " else "err ") ++ dump st d))
    | _ => (st, "bad-op")
  | "simack" :: s :: d :: q :: rest =>
    match nats [s, d, q] with
    | some [s, d, q] =>
      let forged := rest.contains "forge"
      let accepted : Option Chain :=
        if forged then none else
        match findPacket (st.w.chains s).commits d q, (st.w.chains d).acks s q with
        | some p, some code =>
          ackMsg (st.w.cfg s) s (st.w.chains s) p code ((st.w.reg s).onTeleport d (st.w.ackTag d s q)) (st.w.cbFail s)
        | _, _ => none
      let st := { st with w := World.step st.fixed st.w (.discard (.ack s d q)) }
      ((st, (if accepted.isSome then "ok " else "err ") ++ dump st s))
    | _ => (st, "bad-op")
  | ["fakelog", c, snd, spec] =>
    -- a transaction of `snd` straight to the log-emitting contract: a batch of one look-alike leg, no value
    match nats [c, snd], parseLeg ("L," ++ spec) with
    | some [c, snd], some leg =>
      match World.batch (st.w.cfg c) c (st.w.chains c) snd true [leg] with
      | none => (st, "err " ++ dump st c)
      | some _ =>
        let st := { st with w := World.step st.fixed st.w (.batch c snd true [leg]) }
        (st, "ok " ++ dump st c)
    | _, _ => (st, "bad-op")
  | "batch" :: c :: snd :: strict :: legs =>
    match nats [c, snd, strict], legs.mapM parseLeg with
    | some [c, snd, strict], some legs =>
      match World.batch (st.w.cfg c) c (st.w.chains c) snd (strict != 0) legs with
      | none => (st, "err " ++ dump st c)
      | some _ =>
        let st := { st with w := World.step st.fixed st.w (.batch c snd (strict != 0) legs) }
        (st, "ok " ++ dump st c)
    | _, _ => (st, "bad-op")
  | "recv" :: s :: d :: q :: rest =>
    match nats [s, d, q] with
    | some [s, d, q] =>
      let forged := rest.contains "forge"
      let signer := signerOf rest
      let accepted : Option Chain :=
        if forged then none else
        match findPacket (st.w.chains s).commits d q, (st.w.reg d).onOther s signer with
        | some p, some _ => recvHandler st.fixed (st.w.cfg d) d (st.w.chains d) p
        | _, _ => none
      match accepted with
      | none => (st, "err " ++ dump st d)
      | some c' =>
        let st := { st with w := World.step st.fixed st.w (.recv s d q signer) }
        (st, "ok code=" ++ toString ((c'.acks s q).getD 999) ++ " " ++ dump st d)
    | _ => (st, "bad-op")
  | "ack" :: s :: d :: q :: rest =>
    match nats [s, d, q] with
    | some [s, d, q] =>
      let forged := rest.contains "forge"
      let accepted : Option Chain :=
        if forged then none else
        match findPacket (st.w.chains s).commits d q, (st.w.chains d).acks s q with
        | some p, some code =>
          ackMsg (st.w.cfg s) s (st.w.chains s) p code ((st.w.reg s).onTeleport d (st.w.ackTag d s q)) (st.w.cbFail s)
        | _, _ => none
      match accepted with
      | none => (st, "err " ++ dump st s)
      | some _ =>
        let st := { st with w := World.step st.fixed st.w (.ack s d q) }
        (st, "ok " ++ dump st s)
    | _ => (st, "bad-op")
  | _ => (st, "bad-op")

/-- one op line; the sequences seen so far are recorded before the answer is printed -/
def step (st : St) (line : String) : St × String :=
  step0 (note st) line

def main : IO Unit := TM.Driver.runStdin step fresh

end TM.Driver.C03
