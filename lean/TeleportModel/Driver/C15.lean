import TeleportModel.Driver.C20
import TeleportModel.Model.NoPanic
import TeleportModel.Model.GovCycle
import TeleportModel.Driver.Loop
/- Line protocol of C15 (see harness/c15_test.go for the op language). -/
namespace TM.Driver.C15
open TM TM.NoPanic

structure St where
  x : XSt := {}
  a : ASt := {}
  /-- rvesting BeginBlocker histories (`bb <op>` lines) run through the C20 model: parameter validation + BeginBlocker
      are code that executes outside transaction recovery, so C15 drives them too -/
  bb : TM.Driver.C20.St := TM.Driver.C20.fresh
  /-- gov life cycle (`gv <op>` lines): the real msg servers + `gov.EndBlocker` / staking `Slash` against `TM.GovCycle` -/
  g : TM.GovCycle.GSt := {}
  gseen : List String := []

def fresh : St := {}

def b? (s : String) : Option Bool := if s = "1" then some true else if s = "0" then some false else none
def str? (s : String) : Option String := (unhex s).map bytesToString

def oc {α} : Out α → String
  | .ok _ => "ok" | .err _ => "err" | .panic _ => "panic"

def sig? : String → Option SigRes
  | "f" => some .fail | "m" => some .mismatch | "g" => some .good | _ => none

def cs? (t : String) : Option (AnyV CS) :=
  match t.splitOn ":" with
  | ["nil"] => some .nil
  | ["wrong"] => some .wrong
  | ["tm", cb, to, tr, ub, dr, h, sn, shn] => do
    pure (.val (.tm { chainBlank := ← b? cb, trustOk := ← b? to, trusting := ← parseInt? tr, unbonding := ← parseInt? ub,
                      drift := ← parseInt? dr, height := ← parseNat? h, specsNil := ← b? sn, specHasNil := ← b? shn }))
  | ["bsc", ep, ci, h, xl, mz, uo, bl, nl, dz] => do
    pure (.val (.bsc { epoch := ← parseNat? ep, chainId := ← parseNat? ci, height := ← parseNat? h, extraLen := ← parseNat? xl,
                       mixZero := ← b? mz, uncleOk := ← b? uo, bloomLen := ← parseNat? bl, nonceLen := ← parseNat? nl,
                       diffZero := ← b? dz }))
  | ["eth", h, gl, gu, bl, dz] => do
    pure (.val (.eth { height := ← parseNat? h, gasLimit := ← parseNat? gl, gasUsed := ← parseNat? gu,
                       bloomLen := ← parseNat? bl, diffZero := ← b? dz }))
  | ["tss", a] => do pure (.val (.tss { addrOk := ← b? a }))
  | _ => none

def cons? : String → Option (AnyV CT)
  | "nil" => some .nil | "wrong" => some .wrong
  | "tm" => some (.val .tm) | "bsc" => some (.val .bsc) | "eth" => some (.val .eth) | "tss" => some (.val .tss)
  | _ => none

/-- consensus token of a proposal: as `cons?`, or `tm:<rootEmpty>:<hashOk>:<tsPositive>`. -/
def consP? (t : String) : Option (AnyV CT × TmCons) :=
  match t.splitOn ":" with
  | ["tm", r, h, ts] => do pure (.val .tm, { rootEmpty := ← b? r, hashOk := ← b? h, tsPositive := ← b? ts })
  | [x] => (cons? x).map (fun a => (a, {}))
  | _ => none

def clientProp? (absOk chain cs cons : String) : Option ClientProp := do
  let (ct, tmc) ← consP? cons
  pure { absOk := ← b? absOk, chain := ← str? chain, cs := ← cs? cs, cons := ct, tmc := tmc }

/-- commit only what gov would: validated and executed without error. -/
def resX (st : St) (v : Out Unit) (h : Out XSt) : St × String :=
  let st' := match v, h with | .ok _, .ok s => { st with x := s } | _, _ => st
  (st', s!"v={oc v} h={oc h} c={st'.x.clients.length}")

def resA (st : St) (v : Out Unit) (h : Out ASt) : St × String :=
  let st' := match v, h with | .ok _, .ok s => { st with a := s } | _, _ => st
  (st', s!"v={oc v} h={oc h} n={st'.a.pairs.length}")

def resU (st : St) (v : Out Unit) (h : Out Unit) : St × String := (st, s!"v={oc v} h={oc h}")

def flagV (ok : Bool) : Out Unit := if ok then .ok () else .err "validate-basic"

/-! parsers of counted lists -/

def takeClients : Nat → List String → Option (List (Bool × String × AnyV CS) × List String)
  | 0, r => some ([], r)
  | k+1, i :: c :: s :: r => do
    let x : Bool × String × AnyV CS := (← b? i, ← str? c, ← cs? s)
    let (l, r') ← takeClients k r
    pure (x :: l, r')
  | _, _ => none

def takeConsStates : Nat → List String → Option (List XGenCons × List String)
  | 0, r => some ([], r)
  | k+1, hz :: c :: cv :: tm :: r => do
    let x : XGenCons := { heightZero := ← b? hz, cons := ← cons? c, consValid := ← b? cv, typeMatch := ← b? tm }
    let (l, r') ← takeConsStates k r
    pure (x :: l, r')
  | _, _ => none

def takeCons : Nat → List String → Option (List (String × List XGenCons) × List String)
  | 0, r => some ([], r)
  | k+1, c :: n :: r => do
    let (l, r1) ← takeConsStates (← parseNat? n) r
    let (rest, r2) ← takeCons k r1
    pure ((← str? c, l) :: rest, r2)
  | _, _ => none

def takeKV : Nat → List String → Option (List (Bool × Bool) × List String)
  | 0, r => some ([], r)
  | k+1, a :: b :: r => do
    let (l, r') ← takeKV k r
    pure ((← b? a, ← b? b) :: l, r')
  | _, _ => none

def takeMeta : Nat → List String → Option (List (String × List (Bool × Bool)) × List String)
  | 0, r => some ([], r)
  | k+1, c :: n :: r => do
    let (l, r1) ← takeKV (← parseNat? n) r
    let (rest, r2) ← takeMeta k r1
    pure ((← str? c, l) :: rest, r2)
  | _, _ => none

def xgen? (f : List String) : Option XGen :=
  match f with
  | nat :: pk :: nC :: r => do
    let (cl, r1) ← takeClients (← parseNat? nC) r
    match r1 with
    | nK :: r1 => do
      let (co, r2) ← takeCons (← parseNat? nK) r1
      match r2 with
      | nM :: r2 => do
        let (me, r3) ← takeMeta (← parseNat? nM) r2
        if r3 ≠ [] then none else
        pure { clients := cl, consensus := co, metadata := me, nativeOk := ← b? nat, packetOk := ← b? pk }
      | _ => none
    | _ => none
  | _ => none

def takeUnits : Nat → List String → Option (List DUnit × List String)
  | 0, r => some ([], r)
  | k+1, d :: e :: u :: r => do
    let x : DUnit := { denom := ← str? d, exponent := ← parseNat? e, unitOk := ← b? u }
    let (l, r') ← takeUnits k r
    pure (x :: l, r')
  | _, _ => none

def meta? (f : List String) : Option (Meta × List String) :=
  match f with
  | nb :: sb :: bv :: dv :: name :: base :: disp :: k :: r => do
    let (us, r') ← takeUnits (← parseNat? k) r
    pure ({ nameBlank := ← b? nb, symbolBlank := ← b? sb, baseValid := ← b? bv, displayValid := ← b? dv,
            name := ← str? name, base := ← str? base, display := ← str? disp, units := us }, r')
  | _ => none

def extS? (t : String) : Option (Ext String) :=
  if t = "err" then some .err
  else match t.splitOn ":" with
    | ["ok", v] => some (.ok v)
    | _ => none

def num? (t : String) : Option (Option Int) := if t = "x" then some none else (parseInt? t).map some

def takeDenoms : Nat → List String → Option (List (String × Bool) × List String)
  | 0, r => some ([], r)
  | k+1, d :: v :: r => do
    let (l, r') ← takeDenoms k r
    pure ((← str? d, ← b? v) :: l, r')
  | _, _ => none

def takePairs : Nat → List String → Option (List GenPair × List String)
  | 0, r => some ([], r)
  | k+1, e :: ao :: n :: r => do
    let (ds, r1) ← takeDenoms (← parseNat? n) r
    let (rest, r2) ← takePairs k r1
    pure ({ erc20 := e, addrOk := ← b? ao, denoms := ds } :: rest, r2)
  | _, _ => none

def takeEntries : Nat → List String → Option (List Vesting.Entry × List String)
  | 0, r => some ([], r)
  | k+1, d :: a :: r => do
    let amt ← (if a = "nil" then some none else (parseInt? a).map some)
    let (l, r') ← takeEntries k r
    pure ({ denom := ← str? d, amount := amt } :: l, r')
  | _, _ => none

def from? : String → Option From
  | "none" => some .none | "bad" => some .bad | "good" => some .good | _ => none

/-- `raw=<name>:<hex>` tokens are concretisation hints for the harness (the spelling of an address / bech32 field whose
only model-relevant features are EXT flags on the line); the model ignores them. -/
def modelFields (line : String) : List String := (fields line).filter (fun t => !t.startsWith "raw=")

def stepO (st : St) (line : String) : Option (St × String) :=
  match modelFields line with
  | ["reset"] => some (fresh, "ok")
  | ["create", ab, ch, cs, co, sg, me] => do
    let p ← clientProp? ab ch cs co
    let e : Env := { sig := ← sig? sg, marshalErr := ← b? me }
    pure (resX st (clientValidateBasic p) (handleCreate e st.x p))
  | ["upgrade", ab, ch, cs, co, sg, pe, se, me] => do
    let p ← clientProp? ab ch cs co
    let e : Env := { sig := ← sig? sg, pruneErr := ← b? pe, signerErr := ← b? se, marshalErr := ← b? me }
    pure (resX st (clientValidateBasic p) (handleUpgrade e st.x p))
  | ["toggle", ab, ch, cs, co, sg, me] => do
    let p ← clientProp? ab ch cs co
    let e : Env := { sig := ← sig? sg, marshalErr := ← b? me }
    pure (resX st (clientValidateBasic p) (handleToggle e st.x p))
  | ["relayer", ab, ao, nc, na, co] => do
    let a ← (match ao with | "1" => some AddrStr.good | "0" => some AddrStr.bad | "e" => some AddrStr.empty | _ => none)
    let p : RelayerProp := { absOk := ← b? ab, addr := a, nChains := ← parseNat? nc, nAddrs := ← parseNat? na, chainsOk := ← b? co }
    pure (resX st (relayerValidateBasic p) (handleRelayer st.x p))
  | "xgen" :: r => do
    let g ← xgen? r
    pure (resX st (xValidateGenesis g) (xInitGenesis g))
  | "regcoin" :: r => do
    let (m, r') ← meta? r
    match r' with
    | [ro, ie, hs, vo, dp] =>
      let p : CoinProp := { md := m, restOk := ← b? ro }
      let e : CoinEnv := { isEvmDenom := ← b? ie, hasSupply := ← b? hs, verifyOk := ← b? vo, deploy := ← extS? dp }
      pure (resA st (coinValidateBasic p) (handleRegisterCoin e st.a p))
    | _ => none
  | "addcoin" :: r => do
    let (m, r') ← meta? r
    match r' with
    | [ro, ct, ie, hs, vo] =>
      let p : CoinProp := { md := m, restOk := ← b? ro, contract := if ct = "-" then none else some ct }
      let e : CoinEnv := { isEvmDenom := ← b? ie, hasSupply := ← b? hs, verifyOk := ← b? vo, deploy := .err }
      pure (resA st (coinValidateBasic p) (handleAddCoin e st.a p))
    | _ => none
  | ["regerc20", vo, ad, cr] => do
    pure (resA st (flagV (← b? vo)) (handleRegisterERC20 (← (extS? cr).bind (fun x => match x with
      | .err => some Ext.err | .ok d => (str? d).map Ext.ok)) st.a ad))
  | ["togglerelay", vo, tk] => do
    let t ← (match tk.splitOn ":" with
      | ["e", a] => some (Token.erc a)
      | ["d", d] => (str? d).map Token.denom
      | _ => none)
    pure (resA st (flagV (← b? vo)) (handleToggleRelay st.a t))
  | ["updatepair", vo, o, n, mf, mu, ro] => do
    let e : UpdEnv := { metaFound := ← b? mf, metaUnits := ← parseNat? mu, restOk := ← b? ro }
    pure (resA st (flagV (← b? vo)) (handleUpdatePair e st.a o n))
  | ["trace", vo, eo] => do pure (resU st (flagV (← b? vo)) (handleEvmOnly (← b? eo)))
  | ["disable", vo, eo] => do pure (resU st (flagV (← b? vo)) (handleEvmOnly (← b? eo)))
  | ["enable", ao, tp, lim, mx, mn, ab, eo] => do
    let p : LimitProp := { addrOk := ← b? ao, period := ← str? tp, limit := ← str? lim, maxAmt := ← str? mx,
                           minAmt := ← str? mn, absOk := ← b? ab }
    pure (resU st (limitValidateBasic p) (handleEnableLimit (← b? eo) p))
  | "agen" :: en :: n :: r => do
    let (ps, r') ← takePairs (← parseNat? n) r
    if r' ≠ [] then none else
    pure (resA st (aValidateGenesis ps) (aInitGenesis (← b? en) ps))
  | "rvgen" :: en :: k :: r => do
    let (es, r') ← takeEntries (← parseNat? k) r
    match r' with
    | [fr, iv, cp] =>
      let g : RvGen := { enable := ← b? en, reward := es, src := ← from? fr, initRewardValid := ← b? iv }
      pure (resU st (rvValidateGenesis g) (rvInitGenesis g (← b? cp)))
    | _ => none
  | _ => none

/-! gov life-cycle ops -/
namespace Gv
open TM.GovCycle

def takeCoins : Nat → List String → Option (Coins × List String)
  | 0, r => some ([], r)
  | k+1, d :: a :: r => do
    let (l, r') ← takeCoins k r
    pure ((← str? d, ← parseInt? a) :: l, r')
  | _, _ => none

def stName : PStatus → String
  | .deposit => "deposit" | .voting => "voting" | .passed => "passed" | .rejected => "rejected" | .failed => "failed"

def stOf (s : GSt) (id : Nat) : String := match s.find id with | some p => stName p.status | none => "-"

def verdict? : String → Option Verdict
  | "p:ok" => some (.pass .ok) | "p:err" => some (.pass .err) | "p:panic" => some (.pass .panic)
  | "reject" => some .reject | "burn" => some .burn | _ => none

def takeExt : Nat → List String → Option (List (Nat × Verdict))
  | 0, [] => some []
  | k+1, i :: v :: r => do
    let rest ← takeExt k r
    pure ((← parseNat? i, ← verdict? v) :: rest)
  | _, _ => none

def seeAll (seen : List String) (cs : Coins) : List String :=
  cs.foldl (fun acc c => if acc.contains c.1 then acc else acc ++ [c.1]) seen

def dumpBal (seen : List String) (bal : String → Int) : String :=
  if seen.isEmpty then "-" else joinWith "," (seen.map (fun d => hex (stringToBytes d) ++ "=" ++ toString (bal d)))

def dumpSt (s : GSt) : String :=
  if s.props.isEmpty then "-" else joinWith "," (s.props.map (fun p => toString p.id ++ ":" ++ stName p.status))

def sortNat (l : List Nat) : List Nat := l.mergeSort (· ≤ ·)

def stepGv (g : GSt) (seen : List String) (f : List String) : Option (GSt × List String × String) :=
  match f with
  | ["reset"] => some ({}, [], "ok")
  | "submit" :: vb :: who :: k :: r => do
    let (raw, r') ← takeCoins (← parseNat? k) r
    match r' with
    | [hOk, cp] =>
      let seen := seeAll seen raw
      if !((← b? vb) && msgCoinsOk raw) then pure (g, seen, "v=err m=- id=- st=-") else
      match submitExec g (← str? who) raw (← b? hOk) (← b? cp) with
      | .ok g' => pure (g', seen, s!"v=ok m=ok id={g.nextId} st={stOf g' g.nextId}")
      | _ => pure (g, seen, "v=ok m=err id=- st=-")
    | _ => none
  | "deposit" :: vb :: id :: who :: k :: r => do
    let (raw, r') ← takeCoins (← parseNat? k) r
    let id ← parseNat? id
    match r' with
    | [cp] =>
      let seen := seeAll seen raw
      if !((← b? vb) && msgCoinsOk raw) then pure (g, seen, s!"v=err m=- st={stOf g id}") else
      match addDeposit g id (← str? who) raw (← b? cp) with
      | .ok g' => pure (g', seen, s!"v=ok m=ok st={stOf g' id}")
      | _ => pure (g, seen, s!"v=ok m=err st={stOf g id}")
    | _ => none
  | ["vote", vb, id] => do
    if !(← b? vb) then pure (g, seen, "v=err m=-") else
    match voteExec g (← parseNat? id) with
    | .ok _ => pure (g, seen, "v=ok m=ok")
    | _ => pure (g, seen, "v=ok m=err")
  | ["advance", n] => do pure ({ g with now := g.now + (← parseNat? n) }, seen, "ok")
  | op :: k :: r =>
    if op = "endblock" ∨ op = "appendblock" then do
      let ext ← takeExt (← parseNat? k) r
      if sortNat (ext.map (·.1)) ≠ sortNat (dueActive g) then pure (g, seen, "bad-ext") else
      match endBlock ext g with
      | .ok g' => pure (g', seen, s!"ok st={dumpSt g'} g={dumpBal seen g'.bal}")
      | _ => pure (g, seen, "panic")
    else if op = "slash" then
      match r with
      | [nb, bb, bn] => do
        match slash (← parseInt? k) (← parseInt? nb) (← parseInt? bb) (← parseInt? bn) with
        | .ok _ => pure (g, seen, "ok")
        | _ => pure (g, seen, "panic")
      | _ => none
    else if op = "setup" then (r.getLast?).map (fun x => (g, seen, x))
    else none
  | _ => none

end Gv

/-! app life-cycle probes: `lc <kind> <addrclass> <addrname>` -/
def accKind? : String → Option AccKind
  | "BaseAccount" => some .base | "EthAccount" => some .eth | "ModuleAccount" => some .module
  | "ContinuousVestingAccount" => some .contVesting | "DelayedVestingAccount" => some .delayedVesting
  | "PeriodicVestingAccount" => some .periodicVesting | "PermanentLockedAccount" => some .permanentLocked | _ => none

/-- module accounts looked up with `GetModuleAccount` while the chain is initialised. -/
def initModules : List String :=
  ["fee_collector", "distribution", "bonded_tokens_pool", "not_bonded_tokens_pool", "gov", "transfer", "packet", "aggregate"]

def addrClass? (cls name : String) : Option AddrClass :=
  match cls with
  | "syscontract" => some .sysContract
  | "control" => some .control
  | "rvesting-pool" => some .moduleLazy
  | "module" => some (if initModules.contains name then .moduleInit else .moduleLazy)
  | _ => none

/-- the coin-list shapes of the rvesting genesis probes (same table as harness/c15_life_test.go). -/
def rvShape? : String → Option (List (String × Int))
  | "empty" => some []
  | "sorted" => some [("acoin", 5), ("stake", 7)]
  | "unsorted" => some [("stake", 7), ("acoin", 5)]
  | "dup" => some [("atele", 5), ("uxyz", 7), ("atele", 3)]
  | "zero" => some [("acoin", 0)]
  | "baddenom" => some [("a", 5)]
  | _ => none

def stepLcRv (f : List String) : Option String :=
  match f with
  | [fr, ir, pbr, en] => do
    let src ← (match fr with | "none" => some From.none | "bad" => some From.bad | "funded" => some From.good | "unfunded" => some From.good | _ => none)
    let irc ← rvShape? ir
    let pc ← rvShape? pbr
    let d : RvDoc := { enable := ← b? en, reward := pc.map (fun c => { denom := c.1, amount := some c.2 }), src := src, initReward := irc }
    let canPay := fr == "funded" || irc.isEmpty
    match rvValidateDoc d with
    | .ok _ =>
      match rvInitDoc d canPay with
      | .ok _ => pure "v=ok init=ok block=ok"
      | _ => pure "v=ok init=panic block=-"
    | .err _ => pure "v=err init=- block=-"
    | .panic _ => pure "v=panic init=- block=-"
  | _ => none

def stepLc (f : List String) : Option String :=
  match f with
  | "rv" :: r => stepLcRv r
  | [k, cls, name] => do
    let k ← accKind? k
    let a ← addrClass? cls name
    match lcValidate k a with
    | .ok _ =>
      match lcInitChain k a with
      | .ok _ =>
        match lcUpgrade k a with
        | .ok _ => pure "v=ok init=ok upgrade=ok block=ok"
        | _ => pure "v=ok init=ok upgrade=panic block=-"
      | _ => pure "v=ok init=panic upgrade=- block=-"
    | .err _ => pure "v=err init=- upgrade=- block=-"
    | .panic _ => pure "v=panic init=- upgrade=- block=-"
  | _ => none

def step (st : St) (line : String) : St × String :=
  if line.startsWith "lc " then
    match stepLc (fields (line.drop 3).toString) with
    | some o => (st, o)
    | none => (st, "bad-op")
  else
  if line.startsWith "gv " then
    match Gv.stepGv st.g st.gseen (modelFields (line.drop 3).toString) with
    | some (g', seen', o) => ({ st with g := g', gseen := seen' }, o)
    | none => (st, "bad-op")
  else
  if line.startsWith "bb " then
    let (b', o) := TM.Driver.C20.step st.bb (line.drop 3).toString
    ({ st with bb := b' }, o)
  else
  match stepO st line with
  | some r => r
  | none => (st, "bad-op")

def main : IO Unit := TM.Driver.runStdin step fresh

end TM.Driver.C15
