import TeleportModel.Model.Abi
import TeleportModel.Model.Json
import TeleportModel.Model.Host
import TeleportModel.Generated.AbiTuples
import TeleportModel.Generated.HostKeys
import TeleportModel.Generated.Validate
import TeleportModel.Generated.PacketScans
import TeleportModel.Generated.KeeperKeys
import TeleportModel.Generated.Parsers
import TeleportModel.Generated.Merkle
import TeleportModel.Driver.Loop
/- Line protocol of C19 (see harness/c19_test.go and docs/C19.md). The model runs on the GENERATED tables. -/
namespace TM.Driver.C19
open TM TM.Abi TM.Json TM.Host TM.Generated TM.Merkle

/-- value kinds in the store: raw bytes, a marshalled client state, a marshalled consensus state -/
inductive SV where
  | raw (b : Bytes)
  | cs
  | ss
  | cs2      -- a marshalled client state of ANOTHER type (TSS)

structure St where
  store : List (Bytes × SV)

def fresh : St := { store := [] }

def C : Consts := HostKeys.consts

def u64? (s : String) : Option UInt64 :=
  match s.toNat? with
  | some n => if n < 2 ^ 64 then some (UInt64.ofNat n) else none
  | none => none

def showVal : Val → String
  | .u64 n => toString n.toNat
  | .str s => hex s
  | .bytes b => hex b

def parseVals : List Ty → List String → Option (List Val)
  | [], [] => some []
  | .uint64 :: ts, f :: fs => do let n ← u64? f; let r ← parseVals ts fs; pure (.u64 n :: r)
  | .str :: ts, f :: fs => do let b ← unhex f; let r ← parseVals ts fs; pure (.str b :: r)
  | .bytes :: ts, f :: fs => do let b ← unhex f; let r ← parseVals ts fs; pure (.bytes b :: r)
  | _, _ => none

def parseArgs : List PTy → List String → Option (List Arg)
  | [], [] => some []
  | .str :: ts, f :: fs => do let b ← unhex f; let r ← parseArgs ts fs; pure (.s b :: r)
  | .u64 :: ts, f :: fs => do let n ← u64? f; let r ← parseArgs ts fs; pure (.n n :: r)
  | .height :: ts, a :: b :: fs => do let x ← u64? a; let y ← u64? b; let r ← parseArgs ts fs; pure (.h x y :: r)
  | .hash :: ts, f :: fs => do let b ← unhex f; let r ← parseArgs ts fs; pure (.hash b :: r)
  | _, _ => none

def fieldCount : List PTy → Nat
  | [] => 0
  | .height :: r => 2 + fieldCount r
  | _ :: r => 1 + fieldCount r

def binding? (n : String) : Option Binding := AbiTuples.bindings.find? (fun b => b.name == n)

def rule? : String → Option IdRule
  | "client" => some Validate.clientIdentifierValidator
  | "src" => some Validate.srcChainValidator
  | "dst" => some Validate.dstChainValidator
  | _ => none

def famKey? : String → Option Template
  | "commit" => some HostKeys.packetCommitmentKey
  | "ack" => some HostKeys.packetAcknowledgementKey
  | "receipt" => some HostKeys.packetReceiptKey
  | "relayer" => some HostKeys.packetRelayerKey
  | _ => none

def famPrefix? : String → Option Bytes
  | "commit" => some C.commitmentPrefix
  | "ack" => some C.ackPrefix
  | "receipt" => some C.receiptPrefix
  | _ => none

def showSV : SV → String
  | .raw b => hex b
  | .cs => "c"
  | .ss => "s"
  | .cs2 => "t"

def parseSV (s : String) : Option SV :=
  if s = "c" then some .cs else if s = "s" then some .ss else if s = "t" then some .cs2 else (unhex s).map .raw

def okList (l : List String) : String := if l.isEmpty then "ok -" else "ok " ++ joinWith "," l

/-- run a visiting loop that may panic or stop early -/
def visit {α} (items : List α) (f : α → Outcome (Option String)) : String :=
  let rec go : List α → List String → String
    | [], acc => okList acc.reverse
    | x :: r, acc =>
      match f x with
      | .ok none => go r acc
      | .ok (some s) => go r (s :: acc)
      | .err _ => okList acc.reverse        -- `return` inside the loop: keeps what was collected
      | .panic _ => "panic"
  go items []

/-- the by-path scan `fn` of the regenerated scan table -/
def pathScan? (fn : String) : Option PathScan := PacketScans.pathScans.find? (fun s => s.fn == fn)

def showScan (o : Outcome (List (Bytes × Bytes × UInt64 × SV))) : String :=
  match o with
  | .ok l => okList (l.map (fun e => hex e.1 ++ ":" ++ hex e.2.1 ++ ":" ++ toString e.2.2.1.toNat ++ ":" ++ showSV e.2.2.2))
  | .err _ => "err"
  | .panic _ => "panic"

/-- key template of the point accessor `fn` of the regenerated accessor table (one level of forwarding) -/
def accessorT? (fn : String) : Option Template :=
  match KeeperKeys.accessors.find? (fun a => a.fn == fn) with
  | some a => some a.keyT
  | none =>
    match KeeperKeys.delegates.find? (fun d => d.fn == fn) with
    | some d => (KeeperKeys.accessors.find? (fun a => a.fn == d.target)).map (·.keyT)
    | none => none

def famName? : String → Option String
  | "commit" => some "PacketCommitment"
  | "ack" => some "PacketAcknowledgement"
  | "receipt" => some "PacketReceipt"
  | "relayer" => some "PacketRelayer"
  | _ => none

def set (st : St) (k : Bytes) (v : SV) : St := { st with store := storeSet k v st.store }

def clientIter (st : St) (name sub : Bytes) : List (Bytes × SV) :=
  let p := clientStorePrefixOf C name
  (prefixIter (p ++ sub) st.store).map (fun kv => (kv.1.drop p.length, kv.2))

def showHeight (o : Outcome (UInt64 × UInt64)) : String :=
  match o with
  | .ok (r, h) => "ok " ++ toString r.toNat ++ "-" ++ toString h.toNat
  | .err _ => "err"
  | .panic _ => "panic"

def cget (st : St) (name k : Bytes) : Option SV := storeGet (clientStorePrefixOf C name ++ k) st.store

/-- DeleteAllSigner: walk the recent-signer keys; a key whose height does not parse stops with an error (what was
    deleted so far stays deleted); every parsed height deletes the key DeleteSigner builds for it -/
def delSigners (name : Bytes) : List (Bytes × SV) → St → St × String
  | [], st => (st, "ok")
  | kv :: r, st =>
    match Parsers.signerKeyParsers.find? (fun p => p.fn == "DeleteAllSigner") with
    | none => (st, "bad-op")
    | some sp =>
      match parseSignerKey sp Parsers.parseHeight kv.1 with
      | .panic _ => (st, "panic")
      | .err _ => (st, "err")
      | .ok (rv, h) =>
        match render HostKeys.bsc_deleteSignerKey [.h rv h] with
        | none => (st, "bad-op")
        | some k => delSigners name r { st with store := storeDel (clientStorePrefixOf C name ++ k) st.store }

/-- ToggleClient / UpgradeClient of the client keeper -/
def clientOp (st : St) (op a r h t : String) : St × String :=
  -- ToggleClient / UpgradeClient of the client keeper between the Tendermint client state (latest height r-h, metadata
  -- written with block time t) and a TSS client state
    match unhex a, u64? r, u64? h, u64? t with
    | some a, some r, some h, some t =>
      let p := clientStorePrefixOf C a
      match storeGet (p ++ C.clientState) st.store with
      | none => (st, "err")
      | some cur =>
        let isTm := match cur with | .cs => true | _ => false
        let isTss := match cur with | .cs2 => true | _ => false
        if !isTm && !isTss then (st, "panic")          -- MustUnmarshalClientState on something else
        else
          -- the client state after the operation: toggle switches the type, upgrade keeps it
          let toTm := if op = "ctoggle" then isTss else isTm
          let st1 : St := if op = "ctoggle" then { st with store := storeClear p st.store } else st
          if toTm then
            match render HostKeys.consensusStateKey [.h r h], render HostKeys.tm_processedTimeKey [.h r h], render HostKeys.tm_iterationKey [.h r h] with
            | some ck, some pk, some ik =>
              -- toggle: SetClientState, Initialize (metadata), SetClientConsensusState; upgrade: UpgradeState (metadata), SetClientState, …
              let st2 := set st1 (p ++ C.clientState) .cs
              let st2 := set st2 (p ++ pk) (.raw (be8 t))
              let st2 := set st2 (p ++ ik) (.raw ck)
              let st2 := set st2 (p ++ ck) .ss
              (st2, "ok")
            | _, _, _ => (st, "bad-op")
          else (set st1 (p ++ C.clientState) .cs2, "ok")
    | _, _, _, _ => (st, "bad-op")

/-- the hits of the ConsensusStates query, or "err" when a bare consensus-state key holds something else -/
def consQueryGo : List (Bytes × SV) → List String → String
  | [], acc => okList acc.reverse
  | kv :: r, acc =>
    match consQueryKey (kv.1.drop (C.consensusStatePrefix.length + 1)) with
    | none => consQueryGo r acc
    | some (rv, h) =>
      match kv.2 with
      | .ss => consQueryGo r ((toString rv.toNat ++ "-" ++ toString h.toNat) :: acc)
      | _ => "err"                               -- UnmarshalConsensusState fails

def step1 (st : St) (line : String) : St × String :=
  match fields line with
  | ["reset"] => (fresh, "ok")
  | "key2" :: n :: fs =>
    match HostKeys.all.find? (fun p => p.1 == n) with
    | none => (st, "bad-op")
    | some (_, T) =>
      let k := fieldCount T.params
      match parseArgs T.params (fs.take k), parseArgs T.params (fs.drop (k + 1)) with
      | some a, some b =>
        match render T a, render T b with
        | some ka, some kb => (st, hex ka ++ " " ++ hex kb)
        | _, _ => (st, "bad-op")
      | _, _ => (st, "bad-op")
  | "mkey" :: n :: pre :: fs =>
    -- the key the Tendermint client looks up for host.<n>(args): NewMerklePath(path) + ApplyPrefix(pre) + GetKey(1)
    match HostKeys.all.find? (fun p => p.1 == n), unhex pre with
    | some (_, T), some pre =>
      match parseArgs T.params fs with
      | none => (st, "bad-op")
      | some args =>
        match render T args with
        | none => (st, "bad-op")
        | some path => (st, match TM.Merkle.proofKey Generated.Merkle.codec pre path with | some k => "ok " ++ hex k | none => "err")
    | _, _ => (st, "bad-op")
  | ["mcodec", h] =>
    match unhex h with
    | none => (st, "bad-op")
    | some s =>
      let c := Generated.Merkle.codec
      let p := TM.Merkle.newMerklePath c [s]
      let o (x : Option Bytes) (bad : String) : String := match x with | some b => hex b | none => bad
      (st, hex (TM.Merkle.pathString c p) ++ " " ++ o (TM.Merkle.pathPretty c p) "panic" ++ " " ++ o (TM.Merkle.getKey c p 0) "err" ++ " "
        ++ o (TM.Merkle.getKey c (TM.Merkle.newMerklePath c [TM.Merkle.escape false s]) 0) "err")
  | ["e2e", fam, pre, a, b, n, v] =>
    match Generated.Merkle.proofPaths.find? (fun p => p.fn == (if fam = "ack" then "VerifyPacketAcknowledgement" else "VerifyPacketCommitment")),
          unhex pre, unhex a, unhex b, u64? n, unhex v with
    | some pp, some pre, some a, some b, some n, some v =>
      match render pp.pathT [.s a, .s b, .n n], render pp.keyT [.s a, .s b, .n n] with
      | some path, some key =>
        (st, if v ≠ [] && TM.Merkle.proofKey Generated.Merkle.codec pre path == some key then "ok" else "err")
      | _, _ => (st, "bad-op")
    | _, _, _, _, _, _ => (st, "bad-op")
  | ["ctoggle", a, r, h, t] => clientOp st "ctoggle" a r h t
  | ["cupgrade", a, r, h, t] => clientOp st "cupgrade" a r h t
  | "gcons" :: a :: _ =>
    -- gRPC ConsensusStates (all pages): ClientIdentifierValidator, then every bare consensus-state key of the client
    match unhex a with
    | none => (st, "bad-op")
    | some a =>
      if !validName Validate.clientIdentifierValidator a then (st, "err") else
      let items := clientIter st a (C.consensusStatePrefix ++ [slash])
      (st, consQueryGo items [])
  | ["gclients"] =>
    -- gRPC ClientStates: IterateClients, then sorted by chain name
    let names := (prefixIter C.clientStorePrefix st.store).filterMap (fun kv =>
      match parseClientKey C kv.1 with
      | none => none
      | some a => some (a, kv.2))
    if names.any (fun x => match x.2 with | .cs => false | .cs2 => false | _ => true) then (st, "panic")
    else (st, okList ((names.map (·.1)).mergeSort (fun x y => !bytesLt y x) |>.map hex))
  | ["heightstr", r, h] =>
    match u64? r, u64? h with
    | some r, some h => (st, match render Parsers.heightString [.h r h] with | some s => hex s | none => "bad-op")
    | _, _ => (st, "bad-op")
  | ["parseheight", s] =>
    match unhex s with
    | some s => (st, match parseHeightP Parsers.parseHeight s with | some (r, h) => "ok " ++ toString r.toNat ++ "-" ++ toString h.toNat | none => "err")
    | none => (st, "bad-op")
  | ["iterkeyrt", cl, r, h] =>
    match u64? r, u64? h with
    | some r, some h =>
      let (T, p) := if cl = "tm" then (HostKeys.tm_iterationKey, Parsers.tmHeightFromIterKey)
        else if cl = "bsc" then (HostKeys.consensusStateKey, Parsers.bscHeightFromIterKey)
        else (HostKeys.consensusStateKey, Parsers.ethHeightFromIterKey)
      match render T [.h r h] with
      | some k => (st, showHeight (heightFromIterKey p k))
      | none => (st, "bad-op")
    | _, _ => (st, "bad-op")
  | ["hfk", cl, k] =>
    match unhex k with
    | none => (st, "bad-op")
    | some k =>
      if cl = "tm" then (st, showHeight (heightFromIterKey Parsers.tmHeightFromIterKey k))
      else if cl = "bsc" then (st, showHeight (heightFromIterKey Parsers.bscHeightFromIterKey k))
      else if cl = "eth" then (st, showHeight (heightFromIterKey Parsers.ethHeightFromIterKey k))
      else (st, "bad-op")
  | ["tmgetiter", a, r, h] =>
    match unhex a, u64? r, u64? h with
    | some a, some r, some h =>
      match render HostKeys.tm_iterationKey [.h r h] with
      | some k => (st, match cget st a k with | some v => showSV v | none => "none")
      | none => (st, "bad-op")
    | _, _, _ => (st, "bad-op")
  | ["bscsigner", a, r, h, v] =>
    match unhex a, u64? r, u64? h, unhex v with
    | some a, some r, some h, some v =>
      match render HostKeys.bsc_keyRecentSinger [.h r h] with
      | some k => ({ st with store := storeSet (clientStorePrefixOf C a ++ k) (.raw v) st.store }, "ok")
      | none => (st, "bad-op")
    | _, _, _, _ => (st, "bad-op")
  | ["bscsigners", a] =>
    match unhex a, Parsers.signerKeyParsers.find? (fun p => p.fn == "GetRecentSigners") with
    | some a, some sp =>
      -- a failing ParseHeight makes the whole call return (nil, err)
      let items := (prefixIter (clientStorePrefixOf C a ++ C.recentSignersPrefix) st.store).map
        (fun kv => (kv.1.drop (clientStorePrefixOf C a).length, kv.2))
      let rec go : List (Bytes × SV) → List String → String
        | [], acc => okList acc.reverse
        | kv :: r, acc =>
          match parseSignerKey sp Parsers.parseHeight kv.1 with
          | .ok (rv, h) => go r ((toString rv.toNat ++ "-" ++ toString h.toNat ++ ":" ++ showSV kv.2) :: acc)
          | .err _ => "err"
          | .panic _ => "panic"
      (st, go items [])
    | _, _ => (st, "bad-op")
  | ["bscdelsigners", a] =>
    match unhex a with
    | some a =>
      let items := (prefixIter (clientStorePrefixOf C a ++ C.recentSignersPrefix) st.store).map
        (fun kv => (kv.1.drop (clientStorePrefixOf C a).length, kv.2))
      delSigners a items st
    | none => (st, "bad-op")
  | ["ethsetroot", a, n, root, hh] =>
    match unhex a, u64? n, unhex root, unhex hh with
    | some a, some n, some root, some hh =>
      match render HostKeys.eth_ethRootMainKey [.hash root, .n n], render HostKeys.eth_ethHeaderIndexKey [.hash hh, .n n] with
      | some k, some v => ({ st with store := storeSet (clientStorePrefixOf C a ++ k) (.raw v) st.store }, "ok")
      | _, _ => (st, "bad-op")
    | _, _, _, _ => (st, "bad-op")
  | ["ethgetroot", a, root, n] =>
    match unhex a, unhex root, u64? n with
    | some a, some root, some n =>
      match render HostKeys.eth_ethRootMainKey [.hash root, .n n] with
      | some k => (st, match cget st a k with | some v => showSV v | none => "none")
      | none => (st, "bad-op")
    | _, _, _ => (st, "bad-op")
  | "pack" :: n :: fs =>
    match binding? n with
    | none => (st, "bad-op")
    | some b =>
      match parseVals (b.schema.map (·.ty)) fs with
      | none => (st, "bad-op")
      | some sv =>
        match packStruct b.layout b.schema sv with
        | some bz => (st, "ok " ++ hex bz)
        | none => (st, "err")
  | ["decode", n, h] =>
    match binding? n, unhex h with
    | some b, some bz =>
      match decodeStruct b.layout b.schema bz with
      | some sv => (st, "ok " ++ joinWith " " (sv.map showVal))
      | none => (st, "err")
    | _, _ => (st, "bad-op")
  | "key" :: n :: fs =>
    match HostKeys.all.find? (fun p => p.1 == n) with
    | none => (st, "bad-op")
    | some (_, T) =>
      match parseArgs T.params fs with
      | none => (st, "bad-op")
      | some args => match render T args with
        | some k => (st, hex k)
        | none => (st, "bad-op")
  | ["valid", r, h] =>
    match rule? r, unhex h with
    | some r, some id => (st, if validName r id then "ok" else "err")
    | _, _ => (st, "bad-op")
  | ["utf8", h] =>
    match unhex h with
    | some s => (st, (if validUtf8 s then "1 " else "0 ") ++ hex (sanitize s))
    | none => (st, "bad-op")
  | ["parseuint", h] =>
    match unhex h with
    | some s => (st, match parseUint s with | some n => "ok " ++ toString n.toNat | none => "err")
    | none => (st, "bad-op")
  | ["camel", h] =>
    match unhex h with
    | some s => (st, hex (toCamel s))
    | none => (st, "bad-op")
  | ["parsepath", h] =>
    match unhex h with
    | some s => (st, match parsePathP Parsers.parsePath s with | .ok (a, b) => "ok " ++ hex a ++ " " ++ hex b | .err _ => "err" | .panic _ => "panic")
    | none => (st, "bad-op")
  | ["pset", fam, a, b, n, v] =>
    match famKey? fam, unhex a, unhex b, u64? n, unhex v with
    | some T, some a, some b, some n, some v =>
      match render T [.s a, .s b, .n n] with
      | some k => (set st k (.raw (if fam = "receipt" then [1] else v)), "ok")
      | none => (st, "bad-op")
    | _, _, _, _, _ => (st, "bad-op")
  | ["nset", a, b, n] =>
    match unhex a, unhex b, u64? n with
    | some a, some b, some n =>
      match render HostKeys.nextSequenceSendKey [.s a, .s b] with
      | some k => (set st k (.raw (be8 n)), "ok")
      | none => (st, "bad-op")
    | _, _, _ => (st, "bad-op")
  | ["cset", a, r, h] =>
    match unhex a, u64? r, u64? h with
    | some a, some r, some h =>
      match render HostKeys.fullConsensusStateKey [.s a, .h r h] with
      | some k => (set st k .ss, "ok")
      | none => (st, "bad-op")
    | _, _, _ => (st, "bad-op")
  | ["clset", a] =>
    match unhex a with
    | some a =>
      match render HostKeys.fullClientStateKey [.s a] with
      | some k => (set st k .cs, "ok")
      | none => (st, "bad-op")
    | none => (st, "bad-op")
  | ["tmset", a, r, h, t] =>
    match unhex a, u64? r, u64? h, u64? t with
    | some a, some r, some h, some t =>
      let p := clientStorePrefixOf C a
      match render HostKeys.consensusStateKey [.h r h], render HostKeys.tm_processedTimeKey [.h r h], render HostKeys.tm_iterationKey [.h r h] with
      | some ck, some pk, some ik =>
        let st := set st (p ++ ck) .ss
        let st := set st (p ++ pk) (.raw (be8 t))
        let st := set st (p ++ ik) (.raw ck)
        (st, "ok")
      | _, _, _ => (st, "bad-op")
    | _, _, _, _ => (st, "bad-op")
  | ["evmset", a, r, h] =>
    match unhex a, u64? r, u64? h with
    | some a, some r, some h =>
      match render HostKeys.consensusStateKey [.h r h] with
      | some ck => (set st (clientStorePrefixOf C a ++ ck) .ss, "ok")
      | none => (st, "bad-op")
    | _, _, _ => (st, "bad-op")
  | ["raw", k, v] =>
    match unhex k, parseSV v with
    | some k, some v => (set st k v, "ok")
    | _, _ => (st, "bad-op")
  | ["dump"] => (st, okList (st.store.map (fun kv => hex kv.1)))
  | ["ihash", fam] =>
    match famPrefix? fam with
    | none => (st, "bad-op")
    | some p =>
      (st, visit (prefixIter p st.store) (fun kv =>
        match parseHashesKeyP Parsers.iterateHashes kv.1 with
        | .ok (a, b, n) => .ok (some (hex a ++ ":" ++ hex b ++ ":" ++ toString n.toNat ++ ":" ++ showSV kv.2))
        | .err e => .err e
        | .panic s => .panic s))
  | ["bypath-get", a, b] =>
    match pathScan? "IteratePacketCommitmentByPath", unhex a, unhex b with
    | some s, some a, some b =>
      match render s.prefixT [.s a, .s b] with
      | some pre => (st, showScan (scanByPath (scanParserOf s.parser pre) pre a b st.store))
      | none => (st, "bad-op")
    | _, _, _ => (st, "bad-op")
  | ["bypath-iter", a, b] =>
    match pathScan? "IteratePacketCommitmentByPath", unhex a, unhex b with
    | some s, some a, some b =>
      match render s.prefixT [.s a, .s b] with
      | some pre =>
        (st, visit (prefixScan pre st.store) (fun kv =>
          match parseHashesKeyP Parsers.iterateHashes kv.1 with
          | .ok (a, b, n) => .ok (some (hex a ++ ":" ++ hex b ++ ":" ++ toString n.toNat ++ ":" ++ showSV kv.2))
          | .err e => .err e
          | .panic s => .panic s))
      | none => (st, "bad-op")
    | _, _, _ => (st, "bad-op")
  | ["grpc", fam, a, b] =>
    match pathScan? (if fam = "ack" then "PacketAcknowledgements" else "PacketCommitments"), unhex a, unhex b with
    | some s, some a, some b =>
      if fam ≠ "ack" && fam ≠ "commit" then (st, "bad-op")
      -- validategRPCRequest
      else if !(validName Validate.srcChainValidator a && validName Validate.dstChainValidator b) then (st, "err")
      else match render s.prefixT [.s a, .s b] with
        | some pre => (st, showScan (scanByPath (scanParserOf s.parser pre) pre a b st.store))
        | none => (st, "bad-op")
    | _, _, _ => (st, "bad-op")
  | [op, fam, a, b, n] =>
    if op = "pget" || op = "phas" then
      match famName? fam, unhex a, unhex b, u64? n with
      | some f, some a, some b, some n =>
        match accessorT? ((if op = "pget" then "Get" else "Has") ++ f) with
        | none => (st, "bad-op")
        | some T =>
          match render T [.s a, .s b, .n n] with
          | none => (st, "bad-op")
          | some k =>
            match storeGet k st.store with
            | none => (st, if op = "pget" then "none" else "0")
            | some v => (st, if op = "pget" then "some " ++ showSV v else "1")
      | _, _, _, _ => (st, "bad-op")
    else (st, "bad-op")
  | ["nget", a, b] =>
    match accessorT? "GetNextSequenceSend", unhex a, unhex b with
    | some T, some a, some b =>
      match render T [.s a, .s b] with
      | none => (st, "bad-op")
      | some k =>
        match storeGet k st.store with
        | none => (st, "1")
        | some (.raw v) =>
          match bigEndianToUint64 v with
          | .ok n => (st, toString n.toNat)
          | _ => (st, "panic")
        | some _ => (st, "?")
    | _, _, _ => (st, "bad-op")
  | ["iseq"] =>
    (st, visit (prefixIter C.nextSeqSendPrefix st.store) (fun kv =>
      match parsePathP Parsers.parsePath kv.1 with
      | .ok (a, b) =>
        match kv.2 with
        | .raw v =>
          match bigEndianToUint64 v with
          | .ok n => .ok (some (hex a ++ ":" ++ hex b ++ ":" ++ toString n.toNat))
          | .err e => .err e
          | .panic s => .panic s
        | _ => .ok (some (hex a ++ ":" ++ hex b ++ ":?"))     -- not generated
      | .err e => .err e
      | .panic s => .panic s))
  | ["icons"] =>
    (st, visit (prefixIter C.clientStorePrefix st.store) (fun kv =>
      match parseConsKey C kv.1 with
      | none => .ok none
      | some (a, r, h) =>
        match kv.2 with
        | .ss => .ok (some (hex a ++ ":" ++ toString r.toNat ++ ":" ++ toString h.toNat))
        | _ => .panic "MustUnmarshalConsensusState"))
  | ["iclients"] =>
    (st, visit (prefixIter C.clientStorePrefix st.store) (fun kv =>
      match parseClientKey C kv.1 with
      | none => .ok none
      | some a =>
        match kv.2 with
        | .cs => .ok (some (hex a))
        | .cs2 => .ok (some (hex a))
        | _ => .panic "MustUnmarshalClientState"))
  | ["tmpt", a] =>
    match unhex a with
    | none => (st, "bad-op")
    | some a =>
      (st, visit (clientIter st a C.consensusStatePrefix) (fun kv =>
        if tmIsProcessedTimeKey C kv.1 then .ok (some (hex kv.1)) else .ok none))
  | ["tmasc", a] =>
    match unhex a with
    | none => (st, "bad-op")
    | some a =>
      (st, visit (clientIter st a C.iterateConsensusStatePrefix) (fun kv =>
        match heightFromIterKey Parsers.tmHeightFromIterKey kv.1 with
        | .ok (r, h) => .ok (some (toString r.toNat ++ "-" ++ toString h.toNat))
        | .err e => .err e
        | .panic s => .panic s))
  | [op, a] =>
    if op = "bscasc" || op = "ethasc" then
      match unhex a with
      | none => (st, "bad-op")
      | some a =>
        (st, visit (clientIter st a C.consensusStatePrefix) (fun kv =>
          if evmIsConsKey C kv.1 then
            match heightFromIterKey (if op = "bscasc" then Parsers.bscHeightFromIterKey else Parsers.ethHeightFromIterKey) kv.1 with
            | .ok (r, h) => .ok (some (toString r.toNat ++ "-" ++ toString h.toNat))
            | .err e => .err e
            | .panic s => .panic s
          else .ok none))
    else (st, "bad-op")
  | _ => (st, "bad-op")

/-- `discard <op>`: the op runs on a cache context that is dropped — its answer is reported, the state is unchanged -/
def step (st : St) (line : String) : St × String :=
  match fields line with
  | "discard" :: rest => (st, (step1 st (joinWith " " rest)).2)
  | ["grpcp", fam, a, b, _] => step1 st (joinWith " " ["grpc", fam, a, b])     -- paging through all pages = the unpaged answer
  | _ => step1 st line

def main : IO Unit := TM.Driver.runStdin step fresh

end TM.Driver.C19
