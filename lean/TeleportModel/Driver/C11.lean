import TeleportModel.Model.Convert
import TeleportModel.Driver.Loop
/- Line protocol of C11 (see harness/c11_test.go for the op language). -/
namespace TM.Driver.C11
open TM TM.Convert

structure St where
  w : World TokState
  accts : List Addr        -- tracked accounts (order of declaration); module and thief are always dumped
  denoms : List Denom
  contracts : List Addr

def B : Addr → Behaviour TokState := fun _ => repoBehaviour

def emptyTok : TokState := { kind := .minterBurner, bal := fun _ => 0, supply := 0, admin := fun _ => false }

def fresh : St :=
  { w := { params := fun _ => true, pairs := fun _ => none, byErc20 := fun _ => none, byDenom := fun _ => none,
           bank := { bal := fun _ _ => 0, supply := fun _ => 0, blocked := fun a => a == moduleAddr, sendEnabled := fun _ => true },
           tok := fun _ => emptyTok, code := fun _ => false },
    accts := [], denoms := [], contracts := [] }

def addU (l : List String) (x : String) : List String := if l.contains x then l else l ++ [x]

def str? (h : String) : Option String := (unhex h).map bytesToString

/-- the harness' prefix-agnostic bech32 decode of an address string: `!` (not bech32) or `<hex of hrp>.<payload hex>` -/
def bech? (f : String) : Option (Option Bech32) :=
  if f == "!" then some none
  else match f.splitOn "." with
    | [h, b] =>
      match str? h with
      | some hrp => some (some { hrp := hrp, bytes := if b == "-" then "" else b })
      | none => none
    | _ => none

def kind? : String → Option Kind
  | "mb" => some .minterBurner
  | "dbm" => some .directBalance
  | "mal" => some .maliciousDelayed
  | "dd" => some .doubleDebit
  | "fr" => some .feeOnReceive
  | "pg" => some .programmable
  | _ => none

def ownerStr : Owner → String
  | .module => "M" | .external => "E" | .unspecified => "U"

def resStr : Res → String
  | .converted => "ok"
  | .cleaned => "clean"
  | .rejected c => "err " ++ c
  | .panicked => "panic"

def allAccts (st : St) : List Addr := st.accts ++ [moduleAddr, thief]

def dump (st : St) : String :=
  let w := st.w
  let accs := allAccts st
  let toks := st.contracts.map (fun c =>
    let t := w.tok c
    "T" ++ c ++ ":" ++ (if w.code c then "1:" ++ toString t.supply ++ ":" ++
      joinWith "," (accs.map (fun a => toString (t.bal a))) else "0:x:x") ++ ":" ++
      (match (w.byErc20 c).bind w.pairs with
       | none => "-"
       | some p => joinWith "," (p.denoms.map (fun d => hex (stringToBytes d))) ++ "/" ++ (if p.enabled then "1" else "0") ++ ownerStr p.owner))
  let dens := st.denoms.map (fun d =>
    "D" ++ hex (stringToBytes d) ++ ":" ++ toString (w.bank.supply d) ++ ":" ++
      joinWith "," (accs.map (fun a => toString (w.bank.bal a d))) ++ ":" ++
      (match (w.byDenom d).bind w.pairs with
       | none => "-"
       | some p => p.addr))
  (if w.enabled then "E1" else "E0") ++ (if w.evmHook then "H1" else "H0") ++
    "K" ++ (if w.params keyEnableAggregate then "1" else "0") ++ (if w.params keyEnableEVMHook then "1" else "0") ++
    " " ++ joinWith " " (toks ++ dens)

def setPair (w : World TokState) (p : Pair) : World TokState :=
  match p.id? with
  | none => w
  | some id =>
    { w with pairs := fun i => if i = id then some p else w.pairs i,
             byErc20 := fun a => if a = p.addr then some id else w.byErc20 a,
             byDenom := fun d => if p.denoms.contains d then some id else w.byDenom d }

def bit (s : String) : Bool := s == "1"

def step (st : St) (line : String) : St × String :=
  let bad := (st, "bad-op")
  match fields line with
  | ["reset"] => (fresh, "ok")
  | ["acct", a] => ({ st with accts := addU st.accts a }, "ok")
  | ["mintcoin", a, d, amt] =>
    match str? d, amt.toNat? with
    | some d, some amt =>
      let b := st.w.bank
      let b := (b.setBal a d (b.bal a d + amt)).setSupply d (b.supply d + amt)
      ({ st with w := { st.w with bank := b }, denoms := addU st.denoms d }, "ok")
    | _, _ => bad
  | ["regcoin", d, c] =>
    match str? d with
    | some d =>
      let w := setPair st.w { addr := c, denoms := [d], enabled := true, owner := .module }
      let w := { w with code := fun a => if a = c then true else w.code a }
      let w := w.setTok c { emptyTok with admin := fun a => a == moduleAddr }
      ({ st with w := w, denoms := addU st.denoms d, contracts := addU st.contracts c }, "ok")
    | none => bad
  | ["addcoin", d, c] =>
    match str? d with
    | some d =>
      let w := st.w
      let okk := w.enabled && (w.byDenom d).isNone && ((w.byErc20 c).bind w.pairs).isSome
      ({ st with w := Convert.step B w (.addCoin d c), denoms := addU st.denoms d }, if okk then "ok" else "err")
    | none => bad
  | ["update", old, new, m] =>
    let w := st.w
    let okk := ((w.byErc20 old).bind w.pairs).isSome && (w.byErc20 new).isNone && bit m
    ({ st with w := Convert.step B w (.updateERC20 old new (bit m)), contracts := addU st.contracts new }, if okk then "ok" else "err")
  | ["tryregcoin", d] =>          -- RegisterCoin for a denomination that is registered already: refused, nothing changes
    match str? d with
    | some d => (st, if (st.w.byDenom d).isSome || !st.w.enabled then "err" else "bad-op")
    | none => bad
  | ["tryregerc20", c] =>         -- RegisterERC20 for a contract that is registered already
    (st, if (st.w.byErc20 c).isSome || !st.w.enabled then "err" else "bad-op")
  | ["deploy", k, c, deployer, init] =>
    match kind? k, init.toNat? with
    | some k, some init =>
      let w := { st.w with code := fun a => if a = c then true else st.w.code a }
      let w := w.setTok c { kind := k, bal := fun a => if a = deployer then init else 0, supply := init,
                            admin := fun a => a == deployer || k == .doubleDebit || k == .feeOnReceive || k == .programmable }
      ({ st with w := w, contracts := addU st.contracts c }, "ok")
    | _, _ => bad
  | ["regerc20", c, d] =>
    match str? d with
    | some d =>
      ({ st with w := setPair st.w { addr := c, denoms := [d], enabled := true, owner := .external },
                 denoms := addU st.denoms d, contracts := addU st.contracts c }, "ok")
    | none => bad
  | ["watch", d] =>
    match str? d with
    | some d => ({ st with denoms := addU st.denoms d }, "ok")
    | none => bad
  | ["tmint", c, caller, to, amt] =>
    match amt.toNat? with
    | some amt =>
      if !st.w.code c then (st, "ok") else      -- a call to an account without code succeeds and does nothing
      match (B c).mint (st.w.tok c) caller to amt with
      | .revert => (st, "err")
      | .ret t _ _ => ({ st with w := st.w.setTok c t }, "ok")
    | none => bad
  | ["ttransfer", c, caller, to, amt] =>
    match amt.toNat? with
    | some amt =>
      if !st.w.code c then (st, "ok") else
      match (B c).transfer (st.w.tok c) caller to amt with
      | .revert => (st, "err")
      | .ret t _ _ => ({ st with w := st.w.setTok c t }, "ok")
    | none => bad
  | ["send", s, t, d, amt] =>
    match str? d, amt.toNat? with
    | some d, some amt =>
      let b := st.w.bank
      let okk := !(!b.sendEnabled d || b.blocked t) && (b.send s t d amt).isOk
      ({ st with w := Convert.step B st.w (.bankSend s t d amt) }, if okk then "ok" else "err")
    | _, _ => bad
  | ["ctl", c, m1, m2, who, xf] =>
    match m1.toNat?, m2.toNat?, xf.toNat? with
    | some m1, some m2, some xf =>
      let t := st.w.tok c
      ({ st with w := st.w.setTok c { t with readMode := m1, readNext := m2, readWho := if who == "-" then "" else who, xferMode := xf } }, "ok")
    | _, _, _ => bad
  | ["gov", k, b] =>
    match str? k with
    | some k => ({ st with w := Convert.step B st.w (.setParamByKey k (bit b)) }, "ok")
    | none => bad
  | ["params", b] => ({ st with w := Convert.step B st.w (.setEnabled (bit b)) }, "ok")
  | ["toggle", t] =>
    match str? t with
    | some t => ({ st with w := Convert.step B st.w (.toggle t) }, "ok")
    | none => bad
  | ["sendenabled", d, b] =>
    match str? d with
    | some d => ({ st with w := Convert.step B st.w (.setSendEnabled d (bit b)) }, "ok")
    | none => bad
  | ["suicide", c] => ({ st with w := Convert.step B st.w (.selfdestruct c) }, "ok")
  | ["cc", _sraw, sdec, r, d, amt] =>
    match bech? sdec, str? r, str? d, amt.toInt? with
    | some sender, some r, some d, some amt =>
      let m : MsgCoin := { denom := d, amount := amt, receiver := r, sender := sender }
      let (w', res) := deliverCoin B st.w m
      ({ st with w := w' }, resStr res)
    | _, _, _, _ => bad
  | ["ce", c, amt, _rraw, rdec, s, d] =>
    match str? c, amt.toInt?, bech? rdec, str? s, str? d with
    | some c, some amt, some receiver, some s, some d =>
      let m : MsgERC20 := { contract := c, amount := amt, receiver := receiver, sender := s, denom := d }
      let (w', res) := deliverERC20 B st.w m
      ({ st with w := w' }, resStr res)
    | _, _, _, _, _ => bad
  | ["ics", r, _base, v, amt] =>
    match str? v, amt.toInt? with
    | some v, some amt =>
      let pk : IcsPacket := { receiver := if r == "!" then none else some r, voucher := v, amount := amt }
      let (w', res) := ics20Recv B st.w pk
      ({ st with w := w', denoms := addU st.denoms v },
        match res with
        | .errAck => "errack" | .kept => "kept" | .converted => "ok" | .cleaned => "clean" | .panicked => "panic")
    | _, _ => bad
  | ["block", a] =>
    ({ st with w := { st.w with bank := { st.w.bank with blocked := fun x => x == a || st.w.bank.blocked x } } }, "ok")
  | ["restart"] => ({ st with w := Convert.step B st.w .restart }, "ok")
  | ["dump"] => (st, dump st)
  | _ => bad

def main : IO Unit := TM.Driver.runStdin step fresh

end TM.Driver.C11
