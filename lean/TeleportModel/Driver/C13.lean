import TeleportModel.Model.Genesis
import TeleportModel.Driver.Loop
/- Line protocol of C13 (see harness/c13_test.go). -/
namespace TM.Driver.C13
open TM TM.GKv TM.Genesis

structure St where
  st : State
  valid : List (Bytes × Bool)
  pinfo : List (Bytes × (Bytes × Bytes × List Bytes))
  gen : Option AppGenesis
  st2 : Option State

def fresh : St := { st := { x := [], a := [], p := [] }, valid := [], pinfo := [], gen := none, st2 := none }

def envOf (s : St) : Env :=
  { validClient := fun b => (s.valid.lookup b).getD false
    validCons := fun b => (s.valid.lookup b).getD false
    pairId := fun b => ((s.pinfo.lookup b).map (·.1)).getD []
    pairErc20 := fun b => ((s.pinfo.lookup b).map (·.2.1)).getD []
    pairDenoms := fun b => ((s.pinfo.lookup b).map (·.2.2)).getD []
    validPair := fun _ => true }

def kvList (l : List (Bytes × Bytes)) : String := joinWith "," (l.map fun kv => hex kv.1 ++ "=" ++ hex kv.2)

def dumpState (s : State) : String := "x[" ++ kvList s.x ++ "] a[" ++ kvList s.a ++ "] p[" ++ kvList s.p ++ "]"

def pstates (tag : String) (l : List (Bytes × Bytes × Nat × Bytes)) : String :=
  " " ++ tag ++ "[" ++ joinWith "," (l.map fun e => hex e.1 ++ "/" ++ hex e.2.1 ++ "/" ++ toString e.2.2.1 ++ "=" ++ hex e.2.2.2) ++ "]"

def listing (g : AppGenesis) : String :=
  let c := g.xibc.client
  let p := g.xibc.packet
  "C[" ++ kvList c.clients ++ "] S["
  ++ joinWith "," (c.consensus.map fun cc => hex cc.1 ++ "{" ++
      joinWith ";" (cc.2.map fun hb => toString hb.1.1.toNat ++ "-" ++ toString hb.1.2.toNat ++ "=" ++ hex hb.2) ++ "}")
  ++ "] M["
  ++ joinWith "," (c.metadata.map fun cm => hex cm.1 ++ "{" ++ joinWith ";" (cm.2.map fun kv => hex kv.1 ++ "=" ++ hex kv.2) ++ "}")
  ++ "] N=" ++ hex c.chainName ++ " R[" ++ joinWith "," (c.relayers.map hex) ++ "]"
  ++ pstates "A" p.acks ++ pstates "K" p.commits ++ pstates "P" p.receipts
  ++ " Q[" ++ joinWith "," (p.seqs.map fun e => hex e.1 ++ "/" ++ hex e.2.1 ++ "=" ++ toString e.2.2.toNat) ++ "]"
  ++ " T[" ++ joinWith "," (g.pairs.map hex) ++ "]"
  ++ " PR[" ++ kvList g.params ++ "]"

def u64? (s : String) : Option UInt64 := (s.toNat?).map UInt64.ofNat

def hexList : Nat → List String → Option (List Bytes)
  | 0, _ => some []
  | k+1, d :: rest => do
    let b ← unhex d
    let r ← hexList k rest
    pure (b :: r)
  | _, _ => none

def natPairs : Nat → List String → Option (List (Bytes × Nat) × List String)
  | 0, rest => some ([], rest)
  | k+1, d :: a :: rest => do
    let db ← unhex d
    let n ← a.toNat?
    let (l, r) ← natPairs k rest
    pure ((db, n) :: l, r)
  | _, _ => none

def rvEntries : Nat → List String → Option (List Vesting.Entry)
  | 0, _ => some []
  | k+1, d :: a :: rest => do
    let db ← unhex d
    let amt ← (if a = "nil" then some none else (parseInt? a).map some)
    let r ← rvEntries k rest
    pure ({ denom := bytesToString db, amount := amt } :: r)
  | _, _ => none

def withX (s : St) (f : Store → Store) : St × String := ({ s with st := { s.st with x := f s.st.x } }, "ok")

def doCreate (s : St) (verb ty chain cb cv sb sv rev h : String) (extra : List String) : St × String :=
  let bad := (s, "bad-op")
    match unhex chain, unhex cb, unhex sb, u64? rev, u64? h with
  | some chain, some cb, some sb, some rev, some h =>
    let s := { s with valid := (cb, cv == "1") :: (sb, sv == "1") :: s.valid }
    let m : Option InitMeta :=
      match ty, extra with
      | "tm", [now] => (u64? now).map InitMeta.tm
      | "bsc", [sg, pd] => do let a ← unhex sg; let b ← unhex pd; pure (InitMeta.bsc a b)
      | "eth", [hs, rt, ix] => do let a ← unhex hs; let b ← unhex rt; let c ← unhex ix; pure (InitMeta.eth a b c)
      | "tss", _ => some InitMeta.tss
      | _, _ => none
    match m with
    | some m =>
      let o := if verb == "create" then createClientO s.st.x chain cb (cv == "1") sb (rev, h) m
               else if verb == "upgrade" then upgradeClientO s.st.x chain cb (cv == "1") sb (rev, h) m
               else toggleClientO s.st.x chain cb (cv == "1") sb (rev, h) m
      match o with
      | .ok x => ({ s with st := { s.st with x := x } }, "ok")
      | _ => (s, "err")
    | none => bad
  | _, _, _, _, _ => bad

def step (s : St) (line : String) : St × String :=
  let bad := (s, "bad-op")
  match fields line with
  | ["reset"] => (fresh, "ok")
  | ["chainname", n] => match unhex n with | some n => withX s (setChainName · n) | none => bad
  | ["relayer", b] => match unhex b with | some b => withX s (registerRelayer · b) | none => bad
  | ["aggprop", _, _] => (s, "ok")            -- the registry effects follow as mpair / mdelpair lines (by construction)
  | ["aggkill", _] => (s, "ok")
  | ["aggconvert", _, _] => (s, "ok")
  | ["update", _, _, _, _] => (s, "ok")        -- the store effects follow as plant / unplant lines
  | ["plant", k, v, ok] =>
    match unhex k, unhex v with
    | some k, some v => withX { s with valid := (v, ok == "1") :: s.valid } (set · k v)
    | _, _ => bad
  | ["unplant", k] =>
    match unhex k with
    | some k => withX s (del · k)
    | none => bad
  | "bscupdate" :: chain :: _hdr :: _now :: rev :: h :: cb :: cv :: sb :: sv :: signer :: pend :: nd :: ds =>
    match unhex chain, u64? rev, u64? h, unhex cb, unhex sb, unhex signer, nd.toNat? with
    | some chain, some rev, some h, some cb, some sb, some signer, some nd =>
      let pending : Option (Option Bytes) := if pend == "-" then some none else (unhex pend).map some
      let dels := (ds.take nd).filterMap (fun d => (u64? d).map (fun x => (rev, x)))
      match pending with
      | none => bad
      | some pending =>
        let s := { s with valid := (cb, cv == "1") :: (sb, sv == "1") :: s.valid }
        match bscUpdateO s.st.x chain (rev, h) cb sb signer pending dels with
        | .ok x => ({ s with st := { s.st with x := x } }, "ok")
        | _ => (s, "err")
    | _, _, _, _, _, _, _ => bad
  | "rvparams" :: via :: en :: k :: rest =>
    match k.toNat? with
    | none => bad
    | some k =>
      match rvEntries k rest with
      | none => bad
      | some es =>
        let p : RvParams := { enable := en == "1", reward := es }
        let o := if via == "genesis" then setRvParams p else updateRvParams p p
        match o with
        | .ok p' => ({ s with st := { s.st with p := setAll s.st.p (rvParamsKV p') } }, "ok")
        | _ => (s, "err")
  | "rvinit" :: fv :: nb :: rest =>
    match nb.toNat? with
    | none => bad
    | some nb =>
      match natPairs nb rest with
      | none => bad
      | some (bals, rest2) =>
        match rest2 with
        | nr :: rest3 =>
          match nr.toNat? with
          | none => bad
          | some nr =>
            match natPairs nr rest3 with
            | none => bad
            | some (rw, _) =>
              let sender : Bytes := [0xf7]
              let pool : Bytes := [0x70]
              let bal : Balances := fun a d => if a = sender then (bals.lookup d).getD 0 else 0
              let g : RvGenesis := { params := [], sender := sender, fromValid := fv == "1", initReward := rw }
              match initRvesting pool bal g with
              | .ok st =>
                (s, "ok P[" ++ joinWith "," (bals.map fun b => hex b.1 ++ "=" ++ toString (st.bal pool b.1)) ++ "] F["
                  ++ joinWith "," (bals.map fun b => hex b.1 ++ "=" ++ toString (st.bal sender b.1)) ++ "]")
              | _ => (s, "panic")
        | _ => bad
  | "create" :: ty :: chain :: cb :: cv :: sb :: sv :: rev :: h :: extra => doCreate s "create" ty chain cb cv sb sv rev h extra
  | "toggle" :: ty :: chain :: cb :: cv :: sb :: sv :: rev :: h :: extra => doCreate s "toggle" ty chain cb cv sb sv rev h extra
  | "upgrade" :: ty :: chain :: cb :: cv :: sb :: sv :: rev :: h :: extra => doCreate s "upgrade" ty chain cb cv sb sv rev h extra
  | ["client", chain, b, v] =>
    match unhex chain, unhex b with
    | some chain, some b => withX { s with valid := (b, v == "1") :: s.valid } (setClientState · chain b)
    | _, _ => bad
  | ["cons", chain, rev, h, b, v] =>
    match unhex chain, u64? rev, u64? h, unhex b with
    | some chain, some rev, some h, some b => withX { s with valid := (b, v == "1") :: s.valid } (setConsensusState · chain (rev, h) b)
    | _, _, _, _ => bad
  | ["tmmeta", chain, rev, h, t] =>
    match unhex chain, u64? rev, u64? h, u64? t with
    | some chain, some rev, some h, some t => withX s (tmSetMeta · chain (rev, h) t)
    | _, _, _, _ => bad
  | ["prune", chain, rev, h] =>
    match unhex chain, u64? rev, u64? h with
    | some chain, some rev, some h => withX s (tmPrune · chain (rev, h))
    | _, _, _ => bad
  | ["bscsigner", chain, rev, h, v] =>
    match unhex chain, u64? rev, u64? h, unhex v with
    | some chain, some rev, some h, some v => withX s (bscSetSigner · chain (rev, h) v)
    | _, _, _, _ => bad
  | ["bscdelsigner", chain, rev, h] =>
    match unhex chain, u64? rev, u64? h with
    | some chain, some rev, some h => withX s (bscDelSigner · chain (rev, h))
    | _, _, _ => bad
  | ["bscpending", chain, b] =>
    match unhex chain, unhex b with
    | some chain, some b => withX s (bscSetPending · chain b)
    | _, _ => bad
  | ["ethindex", chain, hs, h, b] =>
    match unhex chain, unhex hs, u64? h, unhex b with
    | some chain, some hs, some h, some b => withX s (ethSetIndex · chain hs h b)
    | _, _, _, _ => bad
  | ["ethroot", chain, rt, h, hs] =>
    match unhex chain, unhex rt, u64? h, unhex hs with
    | some chain, some rt, some h, some hs => withX s (ethSetRoot · chain rt h hs)
    | _, _, _, _ => bad
  | ["param", sub, k, v] =>
    match unhex sub, unhex k, unhex v with
    | some sub, some k, some v => ({ s with st := { s.st with p := set s.st.p (sub ++ slash :: k) v } }, "ok")
    | _, _, _ => bad
  | [op, src, dst, q, d] =>
    match unhex src, unhex dst, u64? q, unhex d with
    | some src, some dst, some q, some d =>
      if op = "commit" then withX s (setCommitment · src dst q d)
      else if op = "ack" then withX s (setAck · src dst q d) else bad
    | _, _, _, _ => bad
  | [op, src, dst, q] =>
    match unhex src, unhex dst, u64? q with
    | some src, some dst, some q =>
      if op = "receipt" then withX s (setReceipt · src dst q)
      else if op = "nextseq" then withX s (setNextSeq · src dst q)
      else if op = "delcommit" then withX s (delCommitment · src dst q) else bad
    | _, _, _ => bad
  | op :: id :: b :: e :: k :: ds =>
    match unhex id, unhex b, unhex e, k.toNat? with
    | some id, some b, some e, some k =>
      match hexList k ds with
      | some ds =>
        let s := { s with pinfo := (b, (id, e, ds)) :: s.pinfo }
        if op = "pair" then ({ s with st := { s.st with a := aggSetPair (envOf s) s.st.a b } }, "ok")
        else if op = "delpair" then ({ s with st := { s.st with a := aggDelPair (envOf s) s.st.a b } }, "ok")
        -- the registry operations behind the real proposal / message handlers, with their guards (`applyAgg`)
        else if op = "mpair" then ({ s with st := { s.st with a := applyAgg (envOf s) s.st.a (.set b) } }, "ok")
        else if op = "mdelpair" then ({ s with st := { s.st with a := applyAgg (envOf s) s.st.a (.del b) } }, "ok")
        else bad
      | none => bad
    | _, _, _, _ => bad
  | ["rawx", k, v] =>
    match unhex k, unhex v with
    | some k, some v => withX s (set · k v)
    | _, _ => bad
  | ["dump"] => (s, dumpState s.st)
  | ["keys"] => (s, if moduleKeysB s.st.x && aggKeysB (envOf s) s.st.a then "1" else "0")
  | ["export"] =>
    if exportPanics s.st.x then ({ s with gen := none, st2 := none }, "panic")
    else
      let g := exportAll s.st
      ({ s with gen := some g, st2 := none }, listing g)
  | ["validate"] =>
    match s.gen with
    | none => (s, "none")
    | some g => (s, if validateAll (envOf s) g then "ok" else "err")
  | ["init"] =>
    match s.gen with
    | none => (s, "none")
    | some g =>
      let st2 := initAll (envOf s) g
      ({ s with st2 := some st2 }, dumpState st2)
  | ["export2"] =>
    match s.st2 with
    | none => (s, "none")
    | some st2 => (s, if exportPanics st2.x then "panic" else listing (exportAll st2))
  | _ => bad

def main : IO Unit := TM.Driver.runStdin step fresh

end TM.Driver.C13
