import TeleportModel.Model.TmClient
import TeleportModel.Driver.Loop
/-
Line protocol of C07 (see harness/c07_test.go).

  reset
  create <chainId hex> <tlNum> <tlDen> <trustingPeriod> <maxClockDrift> <timeDelay> <latestRev> <latestH>
         <consTime> <root hex> <nextValsHash hex> <now>
  upgrade <same fields as create>           -- keeper UpgradeClient: client state replaced, consensus state + metadata at its latest height
  upd <now> <trustedRev> <trustedH>
      <chainId hex> <height> <time> <valsHash> <nextValsHash> <appHash> <structOk> <headerHash>
      <hasCommit> <commitHeight> <commitBlockHash> <commitBasicOk> <nsig> {<flag> <addr> <signerKey> <good>}*
      <valset> <valset>                       -- header validator set, trusted validator set
      valset := <isNil> <propConv> <propOk> <hash hex> <n> {<addr> <key> <power> <pk> <addrOk>}*
  vfy <now> <rev> <h> <proofPresent> <proofDecodes> <rootOfProof hex> <genuine>      -- VerifyPacketCommitment
  vfa <now> <rev> <h> <proofPresent> <proofDecodes> <rootOfProof hex> <genuine>      -- VerifyPacketAcknowledgement

  use <name hex>                            -- the following ops address this client (default "cpchain")
  updm <same fields as upd>                 -- MsgUpdateClient: ValidateBasic, then the msg server
  restart | restartapp                      -- export -> validate -> wipe -> import (module level | whole app): ok <all clients>
  dry <op>                                  -- the op on a dropped cache context: "dry <verdict>", no effect
  create is refused (`rej`) when the name is taken or the proposal fails ValidateBasic

Outputs: `ok <dump>` / `rej` for create (rejected = the configuration does not pass `ClientState.Validate`) and upd,
`ok` / `rej` for vfy; `bad-op` when there is no client.
-/
namespace TM.Driver.C07
open TM TM.TmClient

structure St where
  w : World
  cur : Bytes

/-- the default client name "cpchain" -/
def defaultName : Bytes := [0x63, 0x70, 0x63, 0x68, 0x61, 0x69, 0x6e]

def fresh : St := { w := [], cur := defaultName }

def hstr (h : Height) : String := toString h.rev ++ "-" ++ toString h.h

def insSorted {α} (x : Height × α) : List (Height × α) → List (Height × α)
  | [] => [x]
  | y :: ys => if x.1 < y.1 then x :: y :: ys else y :: insSorted x ys

def sortH {α} (l : List (Height × α)) : List (Height × α) := l.foldl (fun acc x => insSorted x acc) []

def lst (l : List String) : String := if l.isEmpty then "-" else joinWith "," l

def dump (c : Client) : String :=
  "L=" ++ hstr c.cs.latest ++
  " C=" ++ lst ((sortH c.st.cons).map (fun (h, k) => hstr h ++ ":" ++ toString k.time ++ ":" ++ hex k.root ++ ":" ++ hex k.nextValsHash)) ++
  " P=" ++ lst ((sortH c.st.ptime).map (fun (h, t) => hstr h ++ ":" ++ toString t)) ++
  " I=" ++ lst ((sortH c.st.iter).map (fun (h, _) => hstr h))

def bool? (s : String) : Option Bool := if s = "1" then some true else if s = "0" then some false else none

def flagOf (n : Nat) : Flag := if n = 1 then .absent else if n = 2 then .commit else if n = 3 then .nil else .bad

/-- k signatures: (CommitSig, signer key, good) -/
def parseSigs : Nat → List String → Option (List (CommitSig × Nat × Bool) × List String)
  | 0, rest => some ([], rest)
  | k + 1, f :: a :: s :: g :: rest => do
    let f ← f.toNat?
    let a ← a.toNat?
    let s ← s.toNat?
    let g ← bool? g
    let (r, rest') ← parseSigs k rest
    pure ((⟨flagOf f, a⟩, s, g) :: r, rest')
  | _, _ => none

def parseVals : Nat → List String → Option (List Validator × List String)
  | 0, rest => some ([], rest)
  | k + 1, a :: ky :: p :: pk :: ao :: rest => do
    let a ← a.toNat?
    let ky ← ky.toNat?
    let p ← parseInt? p
    let pk ← bool? pk
    let ao ← bool? ao
    let (r, rest') ← parseVals k rest
    pure (⟨a, ky, p, pk, ao⟩ :: r, rest')
  | _, _ => none

def parseValSet : List String → Option ((ValSetP × Hash) × List String)
  | isNil :: pc :: po :: h :: n :: rest => do
    let isNil ← bool? isNil
    let pc ← bool? pc
    let po ← bool? po
    let h ← unhex h
    let n ← n.toNat?
    let (vs, rest') ← parseVals n rest
    pure ((⟨isNil, vs, pc, po⟩, h), rest')
  | _ => none

def getIdx {α} : List α → Nat → Option α
  | [], _ => none
  | x :: _, 0 => some x
  | _ :: xs, n + 1 => getIdx xs n

structure UpdOp where
  now : Int
  hd : Header
  env : Env

def parseUpd : List String → Option UpdOp
  | now :: trev :: th :: cid :: height :: time :: vh :: nvh :: app :: sok :: hh ::
    hasC :: ch :: cbh :: cb :: nsig :: rest => do
    let now ← parseInt? now
    let trev ← trev.toNat?
    let th ← th.toNat?
    let cid ← unhex cid
    let height ← parseInt? height
    let time ← parseInt? time
    let vh ← unhex vh
    let nvh ← unhex nvh
    let app ← unhex app
    let sok ← bool? sok
    let hh ← unhex hh
    let hasC ← bool? hasC
    let ch ← parseInt? ch
    let cbh ← unhex cbh
    let cb ← bool? cb
    let nsig ← nsig.toNat?
    let (sigs, rest) ← parseSigs nsig rest
    let ((vals, vhash), rest) ← parseValSet rest
    let ((tvals, thash), rest) ← parseValSet rest
    if !rest.isEmpty then none else
    let commit : Commit := ⟨ch, cbh, cb, sigs.map (·.1)⟩
    let table := sigs.map (·.2)
    let env : Env := {
      valsHash := fun vs => if vs = tvals.vals then thash else if vs = vals.vals then vhash else [],
      headerHash := fun _ => hh,
      sigValid := fun _ _ idx key => match getIdx table idx with
        | some (signer, good) => good && signer == key
        | none => false,
      proofDecodes := fun _ => false,
      membership := fun _ _ _ _ => false }
    let hd : Header := {
      sh := ⟨cid, height, time, vh, nvh, app, sok, []⟩,
      commit := if hasC then some commit else none,
      vals := vals, trustedHeight := ⟨trev, th⟩, trustedVals := tvals }
    pure ⟨now, hd, env⟩
  | _ => none

def parseClient : List String → Option (ClientState × ConsState × Int)
  | [cid, num, den, tp, drift, delay, lrev, lh, ctime, root, nvh, now] => do
    let cid ← unhex cid
    let num ← num.toNat?
    let den ← den.toNat?
    let tp ← parseInt? tp
    let drift ← parseInt? drift
    let delay ← delay.toNat?
    let lrev ← lrev.toNat?
    let lh ← lh.toNat?
    let ctime ← parseInt? ctime
    let root ← unhex root
    let nvh ← unhex nvh
    let now ← parseInt? now
    pure (⟨cid, num, den, tp, drift, ⟨lrev, lh⟩, delay⟩, ⟨ctime, root, nvh⟩, now)
  | _ => none

def nameLt (a b : Bytes) : Bool := (a.map (·.toNat)) < (b.map (·.toNat))

def insName (x : Bytes × Client) : List (Bytes × Client) → List (Bytes × Client)
  | [] => [x]
  | y :: ys => if nameLt x.1 y.1 then x :: y :: ys else y :: insName x ys

def dumpAll (w : World) : String :=
  let l := w.foldl (fun acc x => insName x acc) []
  if l.isEmpty then "-" else joinWith " " (l.map (fun (n, c) => hex n ++ "{" ++ dump c ++ "}"))

def stepCore (st : St) (fs : List String) : St × String :=
  match fs with
  | ["reset"] => (fresh, "ok")
  | ["use", n] =>
    match unhex n with
    | some n => ({ st with cur := n }, "ok")
    | none => (st, "bad-op")
  | "create" :: rest =>
    match parseClient rest with
    | some (cs, k, now) =>
      let w' := applyW ⟨fun _ => [], fun _ => [], fun _ _ _ _ => false, fun _ => false, fun _ _ _ _ => false⟩ st.w
        (.create st.cur cs k now)
      match st.w.get st.cur, w'.get st.cur with
      | none, some c => ({ st with w := w' }, "ok " ++ dump c)
      | _, _ => (st, "rej")
    | none => (st, "bad-op")
  | "upgrade" :: rest =>
    match st.w.get st.cur, parseClient rest with
    | some c, some (cs, k, now) =>
      if !validProposal cs k then (st, "rej") else
      let c' := upgradeClient c cs k now
      ({ st with w := st.w.set st.cur c' }, "ok " ++ dump c')
    | _, _ => (st, "bad-op")
  | "upd" :: rest =>
    match st.w.get st.cur, parseUpd rest with
    | some c, some u =>
      match updateClient u.env c u.hd u.now with
      | .ok c' => ({ st with w := st.w.set st.cur c' }, "ok " ++ dump c')
      | _ => (st, "rej")
    | _, _ => (st, "bad-op")
  | "updm" :: rest =>
    match st.w.get st.cur, parseUpd rest with
    | some c, some u =>
      match updateClientMsg u.env c u.hd u.now with
      | .ok c' => ({ st with w := st.w.set st.cur c' }, "ok " ++ dump c')
      | _ => (st, "rej")
    | _, _ => (st, "bad-op")
  | ["restart"] => ({ st with w := restart st.w }, "ok " ++ dumpAll (restart st.w))
  | ["restartapp"] => ({ st with w := restart st.w }, "ok " ++ dumpAll (restart st.w))
  | [op, now, rev, h, present, decodes, root, genuine] =>
    if op ≠ "vfy" ∧ op ≠ "vfa" then (st, "bad-op") else
    match st.w.get st.cur, parseInt? now, rev.toNat?, h.toNat?, bool? present, bool? decodes, unhex root, bool? genuine with
    | some c, some now, some rev, some h, some present, some decodes, some root, some genuine =>
      let env : Env := {
        valsHash := fun _ => [], headerHash := fun _ => [], sigValid := fun _ _ _ _ => false,
        proofDecodes := fun _ => decodes,
        membership := fun r _ _ _ => genuine && r == root }
      let pf := if present then some [] else none
      let res := if op = "vfy" then verifyPacketCommitment env c ⟨rev, h⟩ pf [] [] now
                 else verifyPacketAcknowledgement env c ⟨rev, h⟩ pf [] [] now
      match res with
      | .ok _ => (st, "ok")
      | _ => (st, "rej")
    | _, _, _, _, _, _, _, _ => (st, "bad-op")
  | _ => (st, "bad-op")

def step (st : St) (line : String) : St × String :=
  match (fields line).takeWhile (· ≠ "|") with
  | "dry" :: rest =>
    -- the operation runs on a cache context that is dropped: same verdict, no effect
    let (_, out) := stepCore st rest
    (st, "dry " ++ out)
  | fs => stepCore st fs

def main : IO Unit := TM.Driver.runStdin step fresh

end TM.Driver.C07
