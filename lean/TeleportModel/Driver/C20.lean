import TeleportModel.Model.Vesting
import TeleportModel.Driver.Loop
/- Line protocol of C20 (see harness/c20_test.go). -/
namespace TM.Driver.C20
open TM TM.Vesting

structure St where
  s : State
  seen : List Denom      -- order of first appearance

def see (st : St) (d : Denom) : St := if st.seen.contains d then st else { st with seen := st.seen ++ [d] }

def fresh : St := { s := Vesting.init, seen := ["atele"] }

def dump (seen : List Denom) (bal : Denom → Int) : String :=
  if seen.isEmpty then "-" else
  joinWith "," (seen.map (fun d => hex (stringToBytes d) ++ "=" ++ toString (bal d)))

def parseEntries : Nat → List String → Option (List Entry)
  | 0, _ => some []
  | k+1, d :: a :: rest => do
    let db ← unhex d
    let amt ← (if a = "nil" then some none else (parseInt? a).map some)
    let r ← parseEntries k rest
    pure ({ denom := bytesToString db, amount := amt } :: r)
  | _, _ => none

def step (st : St) (line : String) : St × String :=
  match fields line with
  | ["reset"] => (fresh, "ok")
  | ["enable", b] => ({ st with s := { st.s with enabled := b == "1" } }, "ok")
  | "reward" :: k :: rest =>
    match k.toNat? with
    | none => (st, "bad-op")
    | some k =>
      match parseEntries k rest with
      | none => (st, "bad-op")
      | some es =>
        let st := es.foldl (fun st e => see st e.denom) st
        match setReward st.s es with
        | .ok s' => ({ st with s := s' }, "ok")
        | _ => (st, "err")
  | ["fund", d, a] | ["fundraw", d, a] =>   -- fundraw: same balance effect, no auth account object (not part of the model state)
    match unhex d, parseInt? a with
    | some db, some a =>
      let d := bytesToString db
      let st := see st d
      ({ st with s := fund st.s d a }, "ok")
    | _, _ => (st, "bad-op")
  | ["poolacct"] => (st, "ok")           -- a plain auth account object at the pool address: not part of the vesting state
  | ["sendenabled", _, _] => (st, "ok")   -- x/bank SendEnabled: restricts user sends only; not part of the vesting state
  | ["restart"] => (st, "ok")     -- export / import of the module: the identity on the model state (Vesting.restart)
  | ["blockdry"] => (st, "ok")    -- a discarded BeginBlock: the identity (Vesting.discarded)
  | ["block"] =>
    match beginBlock st.s with
    | .ok s' => ({ st with s := s' }, "ok P:" ++ dump st.seen s'.pool ++ " F:" ++ dump st.seen s'.fee)
    | .err _ => (st, "err")
    | .panic _ => (st, "panic")
  | _ => (st, "bad-op")

def main : IO Unit := TM.Driver.runStdin step fresh

end TM.Driver.C20
