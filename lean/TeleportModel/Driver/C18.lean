import TeleportModel.Model.Lifecycle
import TeleportModel.Model.ChainId
import TeleportModel.Driver.Loop
/- Line protocol of C18 (concrete ops written by harness/c18_test.go; see docs/C18.md). -/
namespace TM.Driver.C18
open TM TM.Lifecycle

def parseTy? : String → Option Ty
  | "tm" => some .tm | "bsc" => some .bsc | "eth" => some .eth | "tss" => some .tss | _ => none

def dash (s : String) : String := if s = "-" then "" else s
def undash (s : String) : String := if s = "" then "-" else s
def bit (s : String) : Bool := s == "1"

/-- 11 tokens; `nil …` = an Any that does not unpack -/
def parseCS? : List String → Option (Option CState)
  | [ty, rev, h, dig, valid, trust, delay, initOk, x1, x2, x3] =>
    if ty = "nil" then some none else do
      let t ← parseTy? ty
      let r ← rev.toNat?
      let hh ← h.toNat?
      let tr ← trust.toNat?
      let d ← delay.toNat?
      pure (some { ty := t, latest := ⟨r, hh⟩, dig := dig, valid := bit valid, trust := tr, delay := d,
                   initOk := bit initOk, x1 := dash x1, x2 := dash x2, x3 := dash x3 })
  | _ => none

def parseKS? : List String → Option (Option KState)
  | [ty, ts, dig, vb] =>
    if ty = "nil" then some none else do
      let t ← parseTy? ty
      let n ← ts.toNat?
      pure (some { ty := t, ts := n, dig := dig, vb := bit vb })
  | _ => none

def parseHeight? (s : String) : Option Height :=
  match s.splitOn "-" with
  | [a, b] => do pure ⟨← a.toNat?, ← b.toNat?⟩
  | _ => none

def parseKey? (s : String) : Option Key :=
  match s.splitOn ":" with
  | ["cs"] => some .cs
  | ["pv"] => some .pv
  | ["c", h] => (parseHeight? h).map .cons
  | ["pt", h] => (parseHeight? h).map .pt
  | ["it", h] => (parseHeight? h).map .it
  | ["sg", h] => (parseHeight? h).map .sg
  | ["ei", a, n] => n.toNat?.map (.ei a)
  | ["er", a, n] => n.toNat?.map (.er a)
  | ["x", a] => some (.other a)
  | _ => none

def showH (h : Height) : String := toString h.rev ++ "-" ++ toString h.h

def showKey : Key → String
  | .cs => "cs" | .pv => "pv"
  | .cons h => "c:" ++ showH h | .pt h => "pt:" ++ showH h | .it h => "it:" ++ showH h | .sg h => "sg:" ++ showH h
  | .ei a n => "ei:" ++ a ++ ":" ++ toString n | .er a n => "er:" ++ a ++ ":" ++ toString n
  | .other a => "x:" ++ a

def showVal : Val → String
  | .cstate c => c.dig | .kstate k => k.dig | .num n => toString n | .txt s => s

/-- value of a delta entry: processed times are numbers, everything else opaque text -/
def parseVal (k : Key) (v : String) : Val :=
  match k with
  | .pt _ => match v.toNat? with | some n => .num n | none => .txt v
  | _ => .txt v

def parseDelta : Nat → List String → Option (List (Key × Option Val))
  | 0, [] => some []
  | n+1, "+" :: k :: v :: r => do
    let key ← parseKey? k
    let rest ← parseDelta n r
    pure ((key, some (parseVal key v)) :: rest)
  | n+1, "-" :: k :: r => do
    let key ← parseKey? k
    let rest ← parseDelta n r
    pure ((key, none) :: rest)
  | _, _ => none

def live : KV → List (Name × Key) → List ((Name × Key) × Val)
  | [], _ => []
  | (k, v) :: r, seen => if seen.contains k then live r seen else (k, v) :: live r (k :: seen)

def hexName (n : Name) : String := hex (n.toList.map (fun c => UInt8.ofNat c.toNat))

def sortStrings (l : List String) : List String := l.mergeSort (fun a b => decide (a ≤ b))

def dump (s : St) : String :=
  let es := (live s.kv []).map (fun e => hexName e.1.1 ++ "/" ++ showKey e.1.2 ++ "=" ++ showVal e.2)
  if es.isEmpty then "-" else joinWith "," (sortStrings es)

def liveRel : List (String × (List Name × Nat)) → List String → List (String × (List Name × Nat))
  | [], _ => []
  | (a, v) :: r, seen => if seen.contains a then liveRel r seen else (a, v) :: liveRel r (a :: seen)

def dumpRel (s : St) : String :=
  let es := (liveRel s.rel []).map (fun e => e.1 ++ "=" ++ joinWith ";" (e.2.1.map hexName) ++ "#" ++ toString e.2.2)
  if es.isEmpty then "-" else joinWith "," (sortStrings es)

def showRes : Res → String | .ok => "ok" | .err => "err" | .panic => "panic"

def nameOf (h : String) : Option Name := (unhex h).map bytesToString

def parseNames : List String → Option (List Name)
  | [] => some []
  | h :: r => do pure ((← nameOf h) :: (← parseNames r))

def step (s : St) (line : String) : St × String :=
  match fields line with
  | ["reset"] => (Lifecycle.init, "ok")
  | ["reset", ns] => ({ Lifecycle.init with now := ns.toNat?.getD 0 }, "ok")
  | ["reset", ns, selfHex] => ({ Lifecycle.init with now := ns.toNat?.getD 0, self := (nameOf selfHex).getD "" }, "ok")
  | ["noop"] => (s, "skip")
  | ["vbshape", a, d, e, l, p] =>
    match a.toNat?, d.toNat?, e.toNat?, l.toNat?, p.toNat? with
    | some a, some d, some e, some l, some p =>
      (s, if tmHeaderStateless { appHash := a, data := d, evidence := e, lastResults := l, proposer := p } then "ok" else "err")
    | _, _, _, _, _ => (s, "bad-op")
  | ["chainid", idHex, rev] =>
    -- IsRevisionFormat / ParseChainID / SetRevisionNumber of core/client/types/height.go on one chain id
    match unhex idHex, rev.toNat? with
    | some id, some r =>
      let p := match ChainId.parseChainID id with | .ok n => toString n | .err _ => "err" | .panic _ => "panic"
      let t := match ChainId.setRevisionNumber id r with | .ok b => hex b | .err _ => "err" | .panic _ => "panic"
      (s, "fmt=" ++ (if ChainId.isRevisionFormat id then "1" else "0") ++ " parse=" ++ p ++ " set=" ++ t)
    | _, _ => (s, "bad-op")
  | ["restart"] => ((Lifecycle.step s .restart).1, "ok D:" ++ dump s ++ " R:" ++ dumpRel s)
  | "dry" :: _ => (s, "dropped D:" ++ dump s ++ " R:" ++ dumpRel s)
  | ["time", ns] =>
    match ns.toNat? with
    | some n => ((Lifecycle.step s (.time n)).1, "ok")
    | none => (s, "bad-op")
  | kind :: nm :: rest =>
    if kind = "create" || kind = "upgrade" || kind = "toggle" then
      let k : Kind := if kind = "create" then .create else if kind = "upgrade" then .upgrade else .toggle
      match nameOf nm, parseCS? (rest.take 11), parseKS? (rest.drop 11) with
      | some n, some cs, some ks =>
        let p : Proposal := { kind := k, name := n, cs := cs, ks := ks }
        let (s', r) := Lifecycle.step s (.prop p)
        -- "rej": refused by the stateless stage (ValidateBasic at submission), "err": by the handler
        ((s', (if validateContent p then showRes r else "rej") ++ " D:" ++ dump s'))
      | _, _, _ => (s, "bad-op")
    else if kind = "relayer" then
      match rest with
      | aok :: na :: _k :: chains =>
        match na.toNat?, parseNames chains with
        | some na, some cs =>
          let (s', r) := Lifecycle.step s (.relayer { address := nm, addrOk := bit aok, nAddresses := na, chains := cs })
          (s', (if r == Res.err then "rej" else showRes r) ++ " R:" ++ dumpRel s')
        | _, _ => (s, "bad-op")
      | _ => (s, "bad-op")
    else if kind = "status" then
      match nameOf nm with
      | some n =>
        match getClient s n with
        | none => (s, "none")
        | some c => (s, match status s n c with | .active => "Active" | .expired => "Expired" | .unknown => "Unknown")
      | none => (s, "bad-op")
    else if kind = "verify" then
      match nameOf nm, rest with
      | some n, [rev, h, member, ptxt] =>
        match rev.toNat?, h.toNat? with
        | some r, some hh =>
          (s, match verify s n ⟨r, hh⟩ (bit member) ptxt with | none => "none" | some true => "ok" | some false => "err")
        | _, _ => (s, "bad-op")
      | _, _ => (s, "bad-op")
    else if kind = "update" then
      match nameOf nm, rest with
      | some n, signer :: sok :: hty :: hvb :: hrev :: hh :: dry :: more =>
        let height : Option (Option Height) :=
          if hrev = "nil" then some none else
          match hrev.toNat?, hh.toNat? with | some a, some b => some (some ⟨a, b⟩) | _, _ => none
        match parseTy? hty, height, parseCS? (more.take 11), parseKS? ((more.drop 11).take 4), (more.drop 15) with
        | some ht, some hgt, some ocs, some oks, nd :: dl =>
          match nd.toNat? with
          | some ndn =>
            match parseDelta ndn dl with
            | some delta =>
              let dummy : CState := { ty := ht, latest := ⟨0, 0⟩, dig := "-", valid := false, trust := 0, delay := 0, initOk := false, x1 := "", x2 := "", x3 := "" }
              let u : Update := { name := n, signer := signer, signerOk := bit sok, hdr := { ty := ht, height := hgt, vb := bit hvb },
                                  check := bit dry && ocs.isSome, newC := ocs.getD dummy, newK := oks, delta := delta }
              let (s', r) := Lifecycle.step s (.update u)
              (s', showRes r ++ " D:" ++ dump s')
            | none => (s, "bad-op")
          | none => (s, "bad-op")
        | _, _, _, _, _ => (s, "bad-op")
      | _, _ => (s, "bad-op")
    else (s, "bad-op")
  | _ => (s, "bad-op")

def main : IO Unit := TM.Driver.runStdin step Lifecycle.init

end TM.Driver.C18
