import TeleportModel.Model.Bsc
import TeleportModel.Driver.Loop
/- Line protocol of C09 (see harness/c09_test.go). The driver runs the repaired model (`Fix.fixed`). -/
namespace TM.Driver.C09
open TM TM.Bsc

/-- the world of `TM.Bsc.applyOp` (clients 0 and 1) plus, per client, the hash of its head as supplied on the op
line that made it the head -/
structure St where
  w : World
  headHash : Nat → Hash

def fresh : St := { w := World.empty, headHash := fun _ => 0 }

/-- `update` / `update@1` … : operation name and addressed client -/
def target (s : String) : String × Nat :=
  match s.splitOn "@" with
  | [n, i] => (n, i.toNat?.getD 0)
  | _ => (s, 0)

def parseHdr : List String → Option (Header × List String)
  | rev :: num :: ph :: uh :: cb :: root :: tx :: rc :: bloom :: diff :: gl :: gu :: tm :: extra :: mix :: nonce :: rest => do
    let rev ← rev.toNat?
    let num ← num.toNat?
    let ph ← unhex ph
    let uh ← unhex uh
    let cb ← unhex cb
    let root ← unhex root
    let tx ← unhex tx
    let rc ← unhex rc
    let bloom ← unhex bloom
    let diff ← unhex diff
    let gl ← gl.toNat?
    let gu ← gu.toNat?
    let tm ← tm.toNat?
    let extra ← unhex extra
    let mix ← unhex mix
    let nonce ← unhex nonce
    pure ({ rev := rev, number := num, parentHash := ph, uncleHash := uh, coinbase := cb, root := root, txHash := tx,
            receiptHash := rc, bloom := bloom, difficulty := diff, gasLimit := gl, gasUsed := gu, time := tm,
            extra := extra, mixDigest := mix, nonce := nonce }, rest)
  | _ => none

def parseHash (s : String) : Option Hash :=
  if s = "panic" then some 0 else (unhex s).map beNat

def parseSigner (s : String) : Option (Option Addr) :=
  if s = "err" then some none else (unhex s).map (fun b => some (beNat b))

def parseVals : Nat → List String → Option (List Bytes × List String)
  | 0, rest => some ([], rest)
  | k + 1, v :: rest => do
    let b ← unhex v
    let (vs, rest') ← parseVals k rest
    pure (b :: vs, rest')
  | _, _ => none

def natBytes : Nat → Nat → Bytes
  | 0, _ => []
  | k + 1, n => natBytes k (n / 256) ++ [UInt8.ofNat (n % 256)]

def listStr (l : List String) : String := if l.isEmpty then "-" else joinWith "," l

def insertBy {α} (lt : α → α → Bool) (a : α) : List α → List α
  | [] => [a]
  | b :: t => if lt a b then a :: b :: t else b :: insertBy lt a t

def sortBy {α} (lt : α → α → Bool) (l : List α) : List α := l.foldr (insertBy lt) []

def dump (cs : ClientState) (st : Store) (h : Header) : String :=
  let rs := sortBy (fun (a b : Signer) => decide (a.rev < b.rev) || (a.rev == b.rev && decide (a.num < b.num))) st.recents
  let c := match lookupCons st.cons h.rev h.number with
    | none => "none"
    | some c => toString c.time ++ ":" ++ hex c.root
  "ok H:" ++ toString cs.head.rev ++ "-" ++ toString cs.head.number ++
  " V:" ++ listStr (cs.validators.map hex) ++
  " P:" ++ listStr (st.pending.map hex) ++
  " R:" ++ listStr (rs.map (fun e => toString e.rev ++ "-" ++ toString e.num ++ "=" ++ hex (natBytes 20 e.addr))) ++
  " C:" ++ c ++ " N:" ++ toString st.cons.length

def mkEnv (hhead : Hash) (head : Option Header) (h : Header) (hh : Hash) (sg : Option Addr) : Env :=
  { hash := fun x => if x = h then hh else if some x = head then hhead else 0,
    recover := fun _ x => if x = h then sg else none }

def verdictStr : Outcome Unit → String
  | .ok _ => "ok"
  | .err _ => "err"
  | .panic _ => "panic"

def step (st : St) (line : String) : St × String :=
  match fields line with
  | [] => (st, "bad-op")
  | opw :: args =>
  let (name, i) := target opw
  match name, args with
  | "reset", [] => (fresh, "ok")
  | "restart", [] => ({ st with w := (applyOp { hash := fun _ => 0, recover := fun _ _ => none } st.w .restart).1 }, "ok same")
  | "cons", [] =>
    match st.w i with
    | none => (st, "-")
    | some (_, s) =>
      let cs := sortBy (fun (a b : Cons) => keyLt a b) s.cons
      (st, listStr (cs.map (fun c => toString c.rev ++ "-" ++ toString c.num ++ "=" ++ toString c.time ++ ":" ++ hex c.root)))
  | "create", chainId :: epoch :: tp :: _bt :: n :: rest =>
    match chainId.toNat?, epoch.toNat?, tp.toNat?, n.toNat? with
    | some chainId, some epoch, some tp, some n =>
      match parseVals n rest with
      | some (vals, rest) =>
        match parseHdr rest with
        | some (h, [hh, sg]) =>
          match parseHash hh, parseSigner sg with
          | some hh, some sg =>
            let env := mkEnv 0 none h hh sg
            let (w', v) := applyOp env st.w (.create i { head := h, chainId := chainId, epoch := epoch, validators := vals, trustingPeriod := tp })
            match v, w' i with
            | .ok _, some (cs, s) =>
              ({ w := w', headHash := fun j => if j = i then hh else st.headHash j }, dump cs s h)
            | v, _ => (st, verdictStr v)
          | _, _ => (st, "bad-op")
        | _ => (st, "bad-op")
      | none => (st, "bad-op")
    | _, _, _, _ => (st, "bad-op")
  | "upgrade", chainId :: epoch :: tp :: bt :: n :: rest =>
    match chainId.toNat?, epoch.toNat?, tp.toNat?, bt.toNat?, n.toNat? with
    | some chainId, some epoch, some tp, some bt, some n =>
      match parseVals n rest with
      | some (vals, rest) =>
        match parseHdr rest with
        | some (h, [hh, sg]) =>
          match parseHash hh, parseSigner sg with
          | some hh, some sg =>
            let env := mkEnv 0 none h hh sg
            let (w', v) := applyOp env st.w (.upgrade i { head := h, chainId := chainId, epoch := epoch, validators := vals, trustingPeriod := tp } bt)
            match v, w' i with
            | .ok _, some (cs, s) =>
              ({ w := w', headHash := fun j => if j = i then hh else st.headHash j }, dump cs s h)
            | v, _ => (st, verdictStr v)
          | _, _ => (st, "bad-op")
        | _ => (st, "bad-op")
      | none => (st, "bad-op")
    | _, _, _, _, _ => (st, "bad-op")
  | "update", bt :: rest =>
    match bt.toNat?, parseHdr rest with
    | some bt, some (h, [hh, sg]) =>
      match parseHash hh, parseSigner sg with
      | some hh, some sg =>
        let env := mkEnv (st.headHash i) ((st.w i).map (fun p => p.1.head)) h hh sg
        let (w', v) := applyOp env st.w (.update i bt h)
        match v, w' i with
        | .ok _, some (cs, s) =>
          ({ w := w', headHash := fun j => if j = i then hh else st.headHash j }, dump cs s h)
        | v, _ => (st, verdictStr v)
      | _, _ => (st, "bad-op")
    | _, _ => (st, "bad-op")
  | "dry", bt :: rest =>
    match bt.toNat?, parseHdr rest with
    | some bt, some (h, [hh, sg]) =>
      match parseHash hh, parseSigner sg with
      | some hh, some sg =>
        let env := mkEnv (st.headHash i) ((st.w i).map (fun p => p.1.head)) h hh sg
        let (_, v) := applyOp env st.w (.dry i bt h)
        (st, "dry-" ++ verdictStr v)
      | _, _ => (st, "bad-op")
    | _, _ => (st, "bad-op")
  | _, _ => (st, "bad-op")

def main : IO Unit := TM.Driver.runStdin step fresh

end TM.Driver.C09
