import TeleportModel.Model.Eth
import TeleportModel.Driver.Loop
/- Line protocol of C10 (see harness/c10_test.go).

   header := parentHash uncleHash coinbase root txHash receiptHash bloom difficulty number gasLimit gasUsed
             time extra mixDigest nonce baseFee hash pow          (18 fields; hashes / bytes in hex, numbers decimal)
   reset <orig|fixed> <chainId> <trusting> <header>   -> ok <dump>
   upd <now> <header>                                 -> ok <dump> | err | panic
   probe <now> <header>                               -> ok | err | panic          (no state change)
   dump := H:<head hash> C:<height=root:time,…> X:<height:hash,…> R:<height:root>height:hash,…>
-/
namespace TM.Driver.C10
open TM TM.Eth

structure St where
  v : Variant
  w : World
  cur : Bool        -- which of the two clients the ops address (`use a|b`)
  tssA : Bool := false     -- a client of another type (TSS) sits under the first / second name
  tssB : Bool := false
  ch : Option (Nat × Nat) := none   -- `consheight`: the redundant ConsensusState.Height of the next proposal

def hexNat (s : String) : Option Nat :=
  if s = "-" then some 0 else
  s.toList.foldl (fun acc c => match acc, hexDigit? c with
    | some a, some d => some (16 * a + d)
    | _, _ => none) (some 0)

def natHexAux : Nat → Nat → List Char → List Char
  | 0, _, acc => acc
  | k + 1, n, acc => natHexAux k (n / 16) (hexNibble (n % 16) :: acc)

/-- 32-byte hash as 64 hex digits -/
def hash64 (n : Nat) : String := String.ofList (natHexAux 64 n [])

def emptyUncle : String := "1dcc4de8dec75d7aab85b567b6ccd41ad312451b948a7413f0a142fd40d49347"

def dummy : Header :=
  { parentHash := 0, uncleEmpty := true, root := 0, difficulty := 0, number := 0, rev := 0, gasLimit := 0, gasUsed := 0,
    time := 0, extraLen := 0, baseFee := 0, rest := 0 }

def fresh : St := { v := .orig, w := { a := some (initState { hash := fun h => h.rest, powOk := fun _ => true } 4 0 dummy), b := none }, cur := false }

/-- difficulty / base fee: decimal, or `x<hex>` = the big-endian bytes as they travel in the proto message -/
def bigField (s : String) : Option Nat :=
  if s.startsWith "x" then (unhex (let t := (s.drop 1).toString; if t = "" then "-" else t)).map beNat else s.toNat?

/-- parsed header and its PoW bit -/
def parseHeader : List String → Option (Header × Bool)
  | [ph, uh, _cb, root, _tx, _rc, _bloom, diff, num, gl, gu, time, extra, _mix, _nonce, bf, hash, pow] => do
    let ph ← hexNat ph
    let root ← hexNat root
    let diff ← bigField diff
    let (rev, num) ← (match num.splitOn "-" with
      | [n] => n.toNat?.map (fun n => (0, n))
      | [r, n] => do let r ← r.toNat?; let n ← n.toNat?; pure (r, n)
      | _ => none)
    let gl ← gl.toNat?
    let gu ← gu.toNat?
    let time ← time.toNat?
    let ex ← unhex extra
    let bf ← bigField bf
    let hash ← hexNat hash
    pure ({ parentHash := ph, uncleEmpty := uh == emptyUncle, root := root, difficulty := diff, number := num, rev := rev,
            gasLimit := gl, gasUsed := gu, time := time, extraLen := ex.length, baseFee := bf, rest := hash }, pow == "1")
  | _ => none

def envOf (pow : Bool) : Env := { hash := fun h => h.rest, powOk := fun _ => pow }

def keyLe (a b : Nat × Nat) : Bool := a.1 < b.1 || (a.1 == b.1 && a.2 ≤ b.2)

def orDash (l : List String) : String := if l.isEmpty then "-" else joinWith "," l

def dump (s : State) : String :=
  let cons := (s.cons.mergeSort (fun a b => a.1 ≤ b.1)).map (fun (k, c) => toString k ++ "=" ++ hash64 c.root ++ ":" ++ toString c.time)
  let hdr := ((s.hdr.map (fun (k, _) => (k.2, k.1))).mergeSort keyLe).map (fun (n, h) => toString n ++ ":" ++ hash64 h)
  let rm := ((s.rootMain.map (fun (k, v) => ((k.2, k.1), v))).mergeSort (fun a b => keyLe a.1 b.1)).map
    (fun (k, v) => toString k.1 ++ ":" ++ hash64 k.2 ++ ">" ++ toString v.2 ++ ":" ++ hash64 v.1)
  "H:" ++ hash64 s.head.rest ++ " C:" ++ orDash cons ++ " X:" ++ orDash hdr ++ " R:" ++ orDash rm

def dumpCur (w : World) (i : Bool) : String :=
  match w.get i with
  | none => "-"
  | some s => dump s

def step (st : St) (line : String) : St × String :=
  match fields line with
  | "reset" :: v :: chain :: trusting :: rest =>
    -- fresh history: no client but the first, which is created from the header
    match chain.toNat?, trusting.toNat?, parseHeader rest with
    | some chain, some tr, some (h, _) =>
      let v := if v.startsWith "fixed" then Variant.fixed else Variant.orig
      match createClient (envOf true) chain tr h with
      | .ok s => ({ v := v, w := { a := some s, b := none }, cur := false }, "ok " ++ dump s)
      | _ => ({ v := v, w := { a := none, b := none }, cur := false }, "err")
    | _, _, _ => (st, "bad-op")
  | "create" :: chain :: trusting :: rest =>
    -- CreateClient for the client currently addressed
    match chain.toNat?, trusting.toNat?, parseHeader rest with
    | some chain, some tr, some (h, _) =>
      match createClient (envOf true) chain tr h with
      | .ok s => ({ st with w := st.w.set st.cur s }, "ok " ++ dump s)
      | _ => (st, "err")
    | _, _, _ => (st, "bad-op")
  | ["world"] => ({ st with w := { a := none, b := none }, cur := false, tssA := false, tssB := false, ch := none }, "ok")
  | ["consheight", x] =>
    let ch := match x.splitOn "-" with
      | [r, n] => (match r.toNat?, n.toNat? with | some r, some n => some (r, n) | _, _ => none)
      | _ => none
    ({ st with ch := ch }, "ok")
  | ["tss"] =>
    -- CreateClientProposal of a TSS client under the current name (only if no client is there)
    let has := (st.w.get st.cur).isSome || (if st.cur then st.tssB else st.tssA)
    if has then (st, "err") else ((if st.cur then { st with tssB := true } else { st with tssA := true }), "ok")
  | "upgrade" :: chain :: trusting :: rest =>
    match chain.toNat?, trusting.toNat?, parseHeader rest, st.w.get st.cur with
    | some chain, some tr, some (h, _), some s =>
      (match upgradeClient (envOf true) s chain tr h st.ch with
       | .ok s' => ({ st with w := st.w.set st.cur s', ch := none }, "ok " ++ dump s')
       | _ => ({ st with ch := none }, "err"))
    | some _, some _, some _, none => ({ st with ch := none }, "err")
    | _, _, _, _ => (st, "bad-op")
  | "toggle" :: chain :: trusting :: rest =>
    match chain.toNat?, trusting.toNat?, parseHeader rest with
    | some chain, some tr, some (h, _) =>
      let other := (if st.cur then st.tssB else st.tssA)
      (match toggleClient (envOf true) other chain tr h st.ch with
       | .ok s' => ((if st.cur then { st with w := st.w.set st.cur s', ch := none, tssB := false } else { st with w := st.w.set st.cur s', ch := none, tssA := false }), "ok " ++ dump s')
       | _ => ({ st with ch := none }, "err"))
    | _, _, _ => (st, "bad-op")
  | ["use", x] =>
    let i := x == "b"
    ({ st with cur := i }, "ok " ++ dumpCur st.w i)
  | ["restartapp"] =>
    let w := st.w.restart
    ({ st with w := w }, "ok " ++ dumpCur w false ++ " | " ++ dumpCur w true)
  | ["restart"] =>
    let w := st.w.restart
    ({ st with w := w }, "ok " ++ dumpCur w false ++ " | " ++ dumpCur w true)
  | "upd" :: now :: rest =>
    match now.toNat?, parseHeader rest with
    | some now, some (h, pow) =>
      match World.update st.v (envOf pow) now st.w st.cur h with
      | .ok w' => ({ st with w := w' }, "ok " ++ dumpCur w' st.cur)
      | .err _ => (st, "err")
      | .panic _ => (st, "panic")
    | _, _ => (st, "bad-op")
  | "probe" :: now :: rest =>
    match now.toNat?, parseHeader rest with
    | some now, some (h, pow) =>
      let verdict := match World.update st.v (envOf pow) now st.w st.cur h with
        | .ok _ => "ok" | .err _ => "err" | .panic _ => "panic"
      ({ st with w := World.discarded st.v (envOf pow) now st.w st.cur h }, verdict)
    | _, _ => (st, "bad-op")
  | _ => (st, "bad-op")

def main : IO Unit := TM.Driver.runStdin step fresh

end TM.Driver.C10
