import TeleportModel.Driver.XibcProto
/- C05 driver: the shared XIBC line protocol (Driver/XibcProto.lean). -/
namespace TM.Driver.C05
def main : IO Unit := TM.Driver.runStdin TM.Driver.XibcProto.step TM.Driver.XibcProto.fresh
end TM.Driver.C05
