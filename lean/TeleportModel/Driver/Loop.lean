import TeleportModel.Base.Util
/- Generic line-protocol loop: one operation per input line, one output line per operation. -/
namespace TM.Driver

partial def loop {σ : Type} (step : σ → String → σ × String) (h : IO.FS.Stream) (out : IO.FS.Stream) (s : σ) : IO Unit := do
  let line ← h.getLine
  if line.isEmpty then
    out.flush
    return ()
  let l := (line.dropEndWhile (fun c => c == '\n' || c == '\r')).toString
  let (s', o) := step s l
  out.putStrLn o
  loop step h out s'

def runStdin {σ : Type} (step : σ → String → σ × String) (init : σ) : IO Unit := do
  let i ← IO.getStdin
  let o ← IO.getStdout
  loop step i o init

end TM.Driver
