/-
Base utilities shared by all models: outcomes (ok / err / panic as values), byte strings,
hex and decimal parsing for the line protocol. Core Lean only (the driver links as an executable).
-/

namespace TM

/-- Result of a fallible Go function. `panic` is a value so that "never panics" is a theorem. -/
inductive Outcome (α : Type) where
  | ok (a : α)
  | err (cls : String)
  | panic (site : String)
  deriving Repr, DecidableEq

namespace Outcome
def isOk {α} : Outcome α → Bool | ok _ => true | _ => false
def isPanic {α} : Outcome α → Bool | panic _ => true | _ => false
def bind {α β} (o : Outcome α) (f : α → Outcome β) : Outcome β :=
  match o with
  | ok a => f a
  | err e => err e
  | panic s => panic s
instance : Monad Outcome where
  pure := ok
  bind := bind
end Outcome

abbrev Bytes := List UInt8

def hexDigit? (c : Char) : Option Nat :=
  if '0' ≤ c ∧ c ≤ '9' then some (c.toNat - '0'.toNat)
  else if 'a' ≤ c ∧ c ≤ 'f' then some (c.toNat - 'a'.toNat + 10)
  else if 'A' ≤ c ∧ c ≤ 'F' then some (c.toNat - 'A'.toNat + 10)
  else none

def unhexChars : List Char → Option Bytes
  | [] => some []
  | [_] => none
  | a :: b :: rest => do
    let x ← hexDigit? a
    let y ← hexDigit? b
    let r ← unhexChars rest
    pure (UInt8.ofNat (16 * x + y) :: r)

/-- `-` is the empty byte string in the line protocol. -/
def unhex (s : String) : Option Bytes :=
  if s = "-" then some [] else unhexChars s.toList

def hexNibble (n : Nat) : Char :=
  if n < 10 then Char.ofNat ('0'.toNat + n) else Char.ofNat ('a'.toNat + (n - 10))

def hex (b : Bytes) : String :=
  if b.isEmpty then "-" else
  String.ofList (b.foldr (fun x acc => hexNibble (x.toNat / 16) :: hexNibble (x.toNat % 16) :: acc) [])

def bytesToString (b : Bytes) : String := String.ofList (b.map (fun x => Char.ofNat x.toNat))
def stringToBytes (s : String) : Bytes := s.toUTF8.toList

def parseInt? (s : String) : Option Int := s.toInt?
def parseNat? (s : String) : Option Nat := s.toNat?

def fields (line : String) : List String :=
  (line.splitOn " ").filter (fun s => s ≠ "")

def joinWith (sep : String) (l : List String) : String := sep.intercalate l

end TM
