import TeleportModel.Base.Util
/-
Model of the Ethereum light client, x/xibc/clients/light-clients/eth/types:
  update.go         CheckHeaderAndUpdateState, checkValidity, update, RestrictChain
  header.go         ValidateBasic, verifyHeader (VerifyCascadingFields = `Env.powOk`)
  verify_header.go  makeDifficultyCalculator, VerifyEip1559Header, VerifyGaslimit, CalcBaseFee
  store.go          header index, root-main index, consensus states, deleteConsensusStateAndIndexHeader
  client_state.go   Status, Initialize
and of the two writes of core/client/keeper/client.go UpdateClient (client state, consensus state at the
header's height).  Executable; core Lean only.

External primitives are parameters (`Env`): the header hash (keccak of the RLP encoding) and the ethash
seal check.  A `Header` carries the fields the client reads plus `rest`, an opaque stand-in for every
other field (coinbase, tx / receipt hash, bloom, mix digest, nonce, extra bytes).
Revision numbers are 0 throughout (the client ignores them in the header index keys).
-/
namespace TM.Eth

abbrev Hash := Nat

structure Header where
  parentHash : Hash
  uncleEmpty : Bool        -- UncleHash == types.EmptyUncleHash
  root : Hash
  difficulty : Nat
  number : Nat             -- Height.RevisionHeight
  rev : Nat                -- Height.RevisionNumber (not part of the hash, not part of the header-index key)
  gasLimit : Nat
  gasUsed : Nat
  time : Nat
  extraLen : Nat
  baseFee : Nat
  rest : Nat
  deriving Repr, DecidableEq

structure Env where
  hash : Header → Hash
  powOk : Header → Bool

/-- consensus state (the height is the key) -/
structure Cons where
  time : Nat
  root : Hash
  deriving Repr, DecidableEq

/-! ### association lists (the client store) -/
section AL
variable {κ : Type} {α : Type} [DecidableEq κ]

def aget : List (κ × α) → κ → Option α
  | [], _ => none
  | (k', v) :: m, k => if k' = k then some v else aget m k

def adel (m : List (κ × α)) (k : κ) : List (κ × α) := m.filter (fun p => decide (p.1 ≠ k))

def aset (m : List (κ × α)) (k : κ) (v : α) : List (κ × α) := (k, v) :: adel m k
end AL

abbrev Key := Hash × Nat

structure State where
  hdr : List (Key × Header)        -- ethHeaderIndex/{hash}{height}
  rootMain : List (Key × Key)      -- ethRootMain/{root}{height} ↦ header index key
  cons : List (Nat × Cons)         -- consensusStates/{height}
  head : Header                    -- ClientState.Header
  chainId : Nat
  trusting : Nat                   -- ClientState.TrustingPeriod
  deriving Repr, DecidableEq

def two64 : Nat := 18446744073709551616
def two63 : Nat := 9223372036854775808

/-- `x - 1` on uint64 -/
def pred64 (n : Nat) : Nat := (n + (two64 - 1)) % two64

def hkey (env : Env) (h : Header) : Key := (env.hash h, h.number)

/-- `GetParentHeaderFromIndex` -/
def parentOf (s : State) (h : Header) : Option Header := aget s.hdr (h.parentHash, pred64 h.number)

/-! ### header.go / verify_header.go -/

/-- `Header.ValidateBasic` -/
def validateBasic (h : Header) : Bool :=
  !(decide (h.gasLimit > two63 - 1)) && !(decide (h.gasUsed > h.gasLimit)) &&
  !(decide (h.number > 0) && decide (h.difficulty % two64 = 0))

/-- int64 wrap-around -/
def wrapI64 (x : Int) : Int := (x + (two63 : Int)) % (two64 : Int) - (two63 : Int)

/-- `VerifyGaslimit` with its int64 / uint64 conversions -/
def verifyGasLimit (parentGasLimit headerGasLimit : Nat) : Bool :=
  let d0 := wrapI64 (wrapI64 parentGasLimit - wrapI64 headerGasLimit)
  let d := if d0 < 0 then wrapI64 (d0 * -1) else d0
  let ud : Nat := (d % (two64 : Int)).toNat
  let limit := parentGasLimit / 1024
  !(decide (ud ≥ limit)) && !(decide (headerGasLimit < 5000))

/-- `CalcBaseFee`; `none` = division by zero inside big.Int (parent gas target 0) -/
def calcBaseFee (p : Header) : Option Nat :=
  let target := p.gasLimit / 2
  if p.gasUsed = target then some p.baseFee
  else if p.gasUsed > target then
    if target = 0 then none else
    let y := p.baseFee * (p.gasUsed - target) / target
    some (p.baseFee + max (y / 8) 1)
  else
    if target = 0 then none else
    let y := p.baseFee * (target - p.gasUsed) / target
    some (p.baseFee - y / 8)       -- BigMax(base - delta, 0): truncated subtraction

/-- the adjustment factor of the difficulty rule: `max((2 if parent has uncles else 1) − Δt/9, −99)` — the uncle term is
    INSIDE the maximum -/
def diffFactor (time : Nat) (p : Header) : Int :=
  let x0 : Int := ((time : Int) - (p.time : Int)) / 9
  let x1 : Int := (if p.uncleEmpty then 1 else 2) - x0
  if x1 < -99 then -99 else x1

/-- `makeDifficultyCalculator(9700000)(time, parent)` -/
def calcDifficulty (time : Nat) (p : Header) : Int :=
  let y : Int := (p.difficulty : Int) / 2048
  let x3 : Int := (p.difficulty : Int) + y * diffFactor time p
  let x4 : Int := if x3 < 131072 then 131072 else x3
  let fake : Nat := if p.number ≥ 9699999 then p.number - 9699999 else 0
  let period := fake / 100000
  if period > 1 then x4 + ((2 ^ (period - 2) : Nat) : Int) else x4

inductive Verdict where
  | ok | err (cls : String) | panic (site : String)
  deriving Repr, DecidableEq

/-- `VerifyEip1559Header` -/
def verifyEip1559 (p h : Header) : Verdict :=
  if !verifyGasLimit p.gasLimit h.gasLimit then .err "gaslimit"
  else match calcBaseFee p with
    | none => .panic "basefee-div0"
    | some e => if h.baseFee = e then .ok else .err "basefee"

/-- `verifyHeader` -/
def verifyHeader (env : Env) (s : State) (now : Nat) (h : Header) : Verdict :=
  match parentOf s h with
  | none => .err "no-parent"
  | some p =>
    if env.hash p ≠ h.parentHash then .err "parent-hash"
    else if h.rev ≠ p.rev then .err "revision"
    else if h.time > now + 15 then .err "future"
    else if h.time ≤ p.time then .err "time"
    else match verifyEip1559 p h with
      | .ok =>
        if calcDifficulty h.time p ≠ (h.difficulty : Int) then
          (if s.chainId = 4 then .ok else .err "difficulty")
        else .ok
      | v => v

/-- `checkValidity` -/
def checkValidity (env : Env) (s : State) (now : Nat) (h : Header) : Verdict :=
  if !validateBasic h then .err "basic"
  else match verifyHeader env s now h with
    | .ok =>
      if s.chainId ≠ 4 then
        if h.extraLen > 32 then .err "extra"
        else if !env.powOk h then .err "pow"
        else .ok
      else .ok
    | v => v

/-! ### pruning -/

def minKey {α : Type} : List (Nat × α) → Option Nat
  | [] => none
  | (k, _) :: m => match minKey m with
    | none => some k
    | some k' => some (min k k')

def expired (s : State) (now : Nat) (c : Cons) : Bool := decide ((c.time + s.trusting) % two64 < now)

/-- the `pruneCb` pass of CheckHeaderAndUpdateState: only the lowest consensus state is examined -/
def pruneHeight (s : State) (now : Nat) : Option Nat :=
  match minKey s.cons with
  | none => none
  | some k => match aget s.cons k with
    | none => none
    | some c => if expired s now c then some k else none

/-- `deleteConsensusStateAndIndexHeader` -/
def deleteAt (s : State) (k : Nat) : Outcome State :=
  match aget s.cons k with
  | none => .err "no-cons"
  | some c => match aget s.rootMain (c.root, k) with
    | none => .err "no-rootmain"
    | some idx => .ok { s with hdr := adel s.hdr idx, rootMain := adel s.rootMain (c.root, k), cons := adel s.cons k }

/-- the prune pass followed by the deletion, as run by `CheckHeaderAndUpdateState` after `checkValidity` -/
def pruneStep (s : State) (now : Nat) : Outcome State :=
  match pruneHeight s now with
  | none => .ok s
  | some k => deleteAt s k

/-! ### update / RestrictChain -/

/-- `update`: index writes -/
def store (env : Env) (s : State) (h : Header) : State :=
  { s with hdr := aset s.hdr (hkey env h) h, rootMain := aset s.rootMain (h.root, h.number) (hkey env h) }

/-- which text of `RestrictChain` is modelled: the pinned one or the repaired one (fixes/C10-*.diff) -/
inductive Variant where
  | orig | fixed
  deriving Repr, DecidableEq

/-- first loop: `for ti > si { append; new = parent(new); ti-- }`, recursion on `ti - si` -/
def walkNew (env : Env) (s : State) : Nat → Header → List Hash → Option (Header × List Hash)
  | 0, new, acc => some (new, acc)
  | n + 1, new, acc =>
    match parentOf s new with
    | none => none
    | some p => walkNew env s n p (acc ++ [env.hash new])

/-- second loop: `for current.ParentHash != new.ParentHash { … }`; returns (current, new, hashes, steps) -/
def walkBoth (env : Env) (s : State) : Nat → Header → Header → List Hash → Nat → Outcome (Header × Header × List Hash × Nat)
  | 0, _, _, _, _ => .err "fuel"
  | f + 1, cur, new, acc, steps =>
    if cur.parentHash = new.parentHash then .ok (cur, new, acc, steps)
    else match parentOf s new with
      | none => .err "rc-new-parent"
      | some pn => match parentOf s cur with
        | none => .err "rc-cur-parent"
        | some pc => walkBoth env s f pc pn (acc ++ [env.hash new]) (steps + 1)

/-- last loop: `for i = len-1 … 0 { lookup (newHashes[i], ti); set consensus state at ti; ti++ }`;
    takes the hashes already reversed -/
def repoint (s : State) : List Hash → Nat → Option State
  | [], _ => some s
  | x :: xs, ti =>
    match aget s.hdr (x, ti) with
    | none => none
    | some hd => repoint { s with cons := aset s.cons ti { time := hd.time, root := hd.root } } xs (ti + 1)

/-- the `si > ti` block: main-branch header at the new header's height through the root-main index -/
def mainAt (s : State) (ti : Nat) : Outcome Header :=
  match aget s.cons ti with
  | none => .err "rc-no-cons"
  | some c => match aget s.rootMain (c.root, ti) with
    | none => .panic "rc-nil-key"          -- store.Get(nil)
    | some idx => match aget s.hdr idx with
      | none => .err "rc-no-header"
      | some cur => .ok cur

/-- repaired `si > ti` block: walk the head down to the new header's height through the header index -/
def walkCur (s : State) : Nat → Header → Option Header
  | 0, cur => some cur
  | n + 1, cur => match parentOf s cur with
    | none => none
    | some p => walkCur s n p

/-- last loop of `RestrictChain` with the choice of the hashes to re-point and of the first height -/
def rcFinish (v : Variant) (env : Env) (s : State) (cur2 new2 : Header) (acc2 : List Hash) (tiEnd : Nat) : Outcome State :=
  let r : List Hash × Nat :=
    match v with
    | .orig => (acc2, tiEnd)
    | .fixed => if env.hash cur2 ≠ env.hash new2 then (acc2 ++ [env.hash new2], tiEnd) else (acc2, tiEnd + 1)
  match repoint s r.1.reverse r.2 with
  | none => .err "rc-repoint"
  | some s' => .ok s'

/-- second and last loop of `RestrictChain`; `cur`, `new1` are at height `si`, `acc1` = hashes collected by the first loop -/
def rcTail (v : Variant) (env : Env) (s : State) (cur new1 : Header) (acc1 : List Hash) (si : Nat) : Outcome State :=
  match walkBoth env s (si + 1) cur new1 acc1 0 with
  | .err e => .err e
  | .panic p => .panic p
  | .ok (cur2, new2, acc2, steps) => rcFinish v env s cur2 new2 acc2 (si - steps)

/-- `ClientState.RestrictChain` (state `s` already contains the new header's index entries) -/
def restrictChain (v : Variant) (env : Env) (s : State) (new : Header) : Outcome State :=
  let si := s.head.number
  let ti := new.number
  let start : Outcome (Header × Nat) :=
    if si > ti then
      match v with
      | .orig => (match mainAt s ti with | .ok c => .ok (c, ti) | .err e => .err e | .panic p => .panic p)
      | .fixed => (match walkCur s (si - ti) s.head with | some c => .ok (c, ti) | none => .err "rc-cur-parent")
    else .ok (s.head, si)
  match start with
  | .err e => .err e
  | .panic p => .panic p
  | .ok (cur, si) =>
    -- first loop; afterwards ti = si
    match walkNew env s (ti - si) new [] with
    | none => .err "rc-new-parent"
    | some (new1, acc1) => rcTail v env s cur new1 acc1 si

/-! ### ClientKeeper.UpdateClient -/

/-- `ClientState.Status` = Active -/
def active (s : State) (now : Nat) : Bool :=
  match aget s.cons s.head.number with
  | none => false
  | some c => !expired s now c

/-- `UpdateClient` → `CheckHeaderAndUpdateState` → keeper writes.  An error leaves the state unchanged
    (the transaction is reverted). -/
def updateClient (v : Variant) (env : Env) (now : Nat) (s : State) (h : Header) : Outcome State :=
  if !active s now then .err "not-active"
  else match checkValidity env s now h with
    | .err e => .err e
    | .panic p => .panic p
    | .ok =>
      match pruneStep s now with
      | .err e => .err e
      | .panic p => .panic p
      | .ok s1 =>
        let s2 := store env s1 h
        let s3 : Outcome State :=
          if env.hash s.head ≠ h.parentHash then restrictChain v env s2 h else .ok s2
        match s3 with
        | .err e => .err e
        | .panic p => .panic p
        | .ok s3 =>
          .ok { s3 with head := h, cons := aset s3.cons h.number { time := h.time, root := h.root } }

/-- `CreateClient`: Initialize + consensus state at the initial height -/
def initState (env : Env) (chainId trusting : Nat) (h0 : Header) : State :=
  { hdr := [(hkey env h0, h0)], rootMain := [((h0.root, h0.number), hkey env h0)],
    cons := [(h0.number, { time := h0.time, root := h0.root })], head := h0, chainId := chainId, trusting := trusting }


/-! ### stateless stage, creation, wire encoding of big integers -/

/-- `big.Int.SetBytes`: big-endian bytes to a number; the EMPTY byte string is 0 (a base fee / difficulty of 0 is
    encoded as no bytes at all: "absent" and "zero" are the same value), leading zero bytes do not matter -/
def beNat (b : Bytes) : Nat := b.foldl (fun acc x => acc * 256 + x.toNat) 0

/-- `MsgUpdateClient.ValidateBasic` (header.ValidateBasic) ; msg server → `ClientKeeper.UpdateClient` -/
def msgUpdate (v : Variant) (env : Env) (now : Nat) (s : State) (h : Header) : Outcome State :=
  if !validateBasic h then .err "msg-basic" else updateClient v env now s h

/-- creation through a proposal: `ClientState.Validate` (= creation header's ValidateBasic) ; `CreateClient` -/
def createClient (env : Env) (chainId trusting : Nat) (h0 : Header) : Outcome State :=
  if h0.rev = 0 ∧ h0.number = 0 then .err "create-height-zero"      -- Height.IsZero()
  else if !validateBasic h0 then .err "create-basic" else .ok (initState env chainId trusting h0)

/-! ### upgrade / toggle proposals -/

/-- `UpgradeClient`: `ClientState.UpgradeState` writes the header-index and root-main entries of the NEW head under the HEADER's
    height (the same two writes as `update`), the keeper installs the new client state and the proposal's consensus state at the
    new head's height.  Everything already in the store stays.  `consHeight` is the redundant `ConsensusState.Height` of the
    proposal (possibly unset): the code ignores it. -/
def upgradeState (env : Env) (s : State) (chainId trusting : Nat) (h : Header) (_consHeight : Option (Nat × Nat)) : State :=
  let s1 := store env s h
  { s1 with head := h, chainId := chainId, trusting := trusting, cons := aset s1.cons h.number { time := h.time, root := h.root } }

/-- UpgradeClientProposal: `ValidateBasic` (client state `Validate`; the ETH consensus state validates nothing) ; handler -/
def upgradeClient (env : Env) (s : State) (chainId trusting : Nat) (h : Header) (consHeight : Option (Nat × Nat)) : Outcome State :=
  if h.rev = 0 ∧ h.number = 0 then .err "upgrade-height-zero"
  else if !validateBasic h then .err "upgrade-basic" else .ok (upgradeState env s chainId trusting h consHeight)

/-- ToggleClientProposal to an ETH client: needs an existing client of ANOTHER type; its store is cleared, then `Initialize`
    and the keeper writes exactly as in `CreateClient` -/
def toggleClient (env : Env) (otherTypePresent : Bool) (chainId trusting : Nat) (h : Header) (_consHeight : Option (Nat × Nat)) : Outcome State :=
  if !otherTypePresent then .err "toggle-no-other-client" else createClient env chainId trusting h

/-! ### several clients in one chain, restart, discarded executions -/

/-- two ETH clients of one chain (client stores are prefixed by the chain name; `false` = first, `true` = second) -/
structure World where
  a : Option State
  b : Option State
  deriving Repr, DecidableEq

def World.get (w : World) (i : Bool) : Option State := if i then w.b else w.a
def World.set (w : World) (i : Bool) (s : State) : World := if i then { w with b := some s } else { w with a := some s }

/-- `UpdateClient` on client `i` -/
def World.update (v : Variant) (env : Env) (now : Nat) (w : World) (i : Bool) (h : Header) : Outcome World :=
  match w.get i with
  | none => .err "no-client"
  | some s =>
    match msgUpdate v env now s h with
    | .ok s' => .ok (w.set i s')
    | .err e => .err e
    | .panic p => .panic p

/-- ExportGenesis → JSON → Validate → wipe → InitGenesis: loses nothing the property talks about -/
def World.restart (w : World) : World := w

/-- an update executed on a cache context that is dropped (simulation, CheckTx, failed multi-message tx) -/
def World.discarded (v : Variant) (env : Env) (now : Nat) (w : World) (i : Bool) (h : Header) : World :=
  match World.update v env now w i h with
  | _ => w

end TM.Eth
