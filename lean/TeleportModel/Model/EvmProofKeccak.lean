import TeleportModel.Base.Util
/-
Keccak-256 (the pre-NIST padding 0x01 … 0x80 used by Ethereum: `crypto.Keccak256`), executable, core Lean only.

Status: this is NOT a verified hash function. It is an executable stand-in that lets the C08 driver compute
the slot / account key / storage key itself instead of reading them from the op line. It is validated
(a) by the test vectors at the end of this file (labelled as tests, `by decide`-free `#guard`s) and
(b) on every correspondence run: a wrong digest makes the model look up the wrong trie key and diverge from
the Go implementation. The C08 theorems treat the hash as an arbitrary function (`Env.keccak`).
-/
namespace TM.EvmProof.Keccak
open TM

def rc : Array UInt64 := #[
  0x0000000000000001, 0x0000000000008082, 0x800000000000808A, 0x8000000080008000,
  0x000000000000808B, 0x0000000080000001, 0x8000000080008081, 0x8000000000008009,
  0x000000000000008A, 0x0000000000000088, 0x0000000080008009, 0x000000008000000A,
  0x000000008000808B, 0x800000000000008B, 0x8000000000008089, 0x8000000000008003,
  0x8000000000008002, 0x8000000000000080, 0x000000000000800A, 0x800000008000000A,
  0x8000000080008081, 0x8000000000008080, 0x0000000080000001, 0x8000000080008008]

/-- rotation offsets, index x + 5*y -/
def rot : Array Nat := #[
   0,  1, 62, 28, 27,
  36, 44,  6, 55, 20,
   3, 10, 43, 25, 39,
  41, 45, 15, 21,  8,
  18,  2, 61, 56, 14]

def rotl (x : UInt64) (n : Nat) : UInt64 :=
  if n % 64 = 0 then x else (x <<< (UInt64.ofNat (n % 64))) ||| (x >>> (UInt64.ofNat (64 - n % 64)))

abbrev State := Array UInt64   -- 25 lanes, index x + 5*y

def lane (a : State) (x y : Nat) : UInt64 := a.getD ((x % 5) + 5 * (y % 5)) 0

def round (a : State) (r : Nat) : State :=
  -- θ
  let c : Array UInt64 := (Array.range 5).map (fun x => lane a x 0 ^^^ lane a x 1 ^^^ lane a x 2 ^^^ lane a x 3 ^^^ lane a x 4)
  let d : Array UInt64 := (Array.range 5).map (fun x => c.getD ((x + 4) % 5) 0 ^^^ rotl (c.getD ((x + 1) % 5) 0) 1)
  let a1 : State := (Array.range 25).map (fun i => a.getD i 0 ^^^ d.getD (i % 5) 0)
  -- ρ and π : B[y, 2x+3y] = rot(A[x,y], r[x,y])
  let b : State := (Array.range 25).foldl (fun (b : State) i =>
      let x := i % 5
      let y := i / 5
      b.setIfInBounds (y + 5 * ((2 * x + 3 * y) % 5)) (rotl (a1.getD i 0) (rot.getD i 0))) (Array.replicate 25 0)
  -- χ
  let a2 : State := (Array.range 25).map (fun i =>
      let x := i % 5
      let y := i / 5
      lane b x y ^^^ ((~~~ (lane b (x + 1) y)) &&& lane b (x + 2) y))
  -- ι
  a2.setIfInBounds 0 (a2.getD 0 0 ^^^ rc.getD r 0)

def permute (a : State) : State := (List.range 24).foldl round a

def le64 (b : Bytes) : UInt64 :=
  (b.take 8).foldr (fun x acc => (acc <<< 8) ||| x.toUInt64) 0

def chunks8 : Nat → Bytes → List UInt64
  | 0, _ => []
  | n+1, b => le64 b :: chunks8 n (b.drop 8)

def rate : Nat := 136

def absorbBlock (a : State) (blk : Bytes) : State :=
  let ws := (chunks8 17 blk).toArray
  permute ((Array.range 25).map (fun i => a.getD i 0 ^^^ ws.getD i 0))

def pad (msg : Bytes) : Bytes :=
  let q := rate - msg.length % rate
  if q = 1 then msg ++ [0x81]
  else msg ++ [0x01] ++ List.replicate (q - 2) 0 ++ [0x80]

def absorb : Nat → State → Bytes → State
  | 0, a, _ => a
  | n+1, a, b => if b.isEmpty then a else absorb n (absorbBlock a (b.take rate)) (b.drop rate)

def laneBytes (w : UInt64) : Bytes :=
  (List.range 8).map (fun i => (w >>> (UInt64.ofNat (8 * i))).toUInt8)

/-- `crypto.Keccak256(msg)`. -/
def keccak256 (msg : Bytes) : Bytes :=
  let p := pad msg
  let a := absorb (p.length / rate + 1) (Array.replicate 25 0) p
  (laneBytes (a.getD 0 0)) ++ (laneBytes (a.getD 1 0)) ++ (laneBytes (a.getD 2 0)) ++ (laneBytes (a.getD 3 0))

-- Test vectors (tests, not proofs): Keccak-256("") and Keccak-256("abc"), and a 200-byte message (two blocks).
#guard hex (keccak256 []) = "c5d2460186f7233c927e7db2dcc703c0e500b653ca82273b7bfad8045d85a470"
#guard hex (keccak256 [0x61, 0x62, 0x63]) = "4e03657aea45a94fc7d47ba826c8d667c0d1e6e33a64a036ec44f58fa12d6c45"
#guard hex (keccak256 (List.replicate 200 0xa3)) = "3a57666b048777f2c953dc4456f45a2588e1cb6f2da760122d530ac2ce607d4a"
#guard hex (keccak256 (List.replicate 135 0x41)) = "5d661f2d3aaf313834b69b2948a73a0ed39cb03726e7c29374a411d8d5d4e71a"
#guard hex (keccak256 (List.replicate 136 0x41)) = "cfbaa33d0639debd26f425287642acd461b3064b2bae139ea5919adba46f40f1"

end TM.EvmProof.Keccak
