import TeleportModel.Model.Host
/-
C18 — chain ids and revisions (x/xibc/core/client/types/height.go): `IsRevisionFormat`, `ParseChainID`,
`SetRevisionNumber`, transcribed over byte strings. The Tendermint client's `checkValidity` rebuilds the chain id a
header of another revision must carry with `SetRevisionNumber(clientState.ChainId, header revision)`.

Assumption: chain ids contain no line feed (`.` of the regular expression does not match it).
-/
namespace TM.ChainId
open TM TM.Host

def hy : UInt8 := 45   -- '-'

/-- the part before and the part after the LAST hyphen -/
def splitLast : Bytes → Option (Bytes × Bytes)
  | [] => none
  | x :: r =>
    match splitLast r with
    | some (p, q) => some (x :: p, q)
    | none => if x = hy then some ([], r) else none

/-- line-protocol helper: the bytes of an ASCII string -/
def ofStr (s : String) : Bytes := s.toList.map (fun c => UInt8.ofNat c.toNat)

def lastIsNot (p : Bytes) (c : UInt8) : Bool :=
  match p.reverse with | [] => false | x :: _ => x != c

/-- a decimal number that does not start with 0: `[1-9][0-9]*` -/
def isPosDecimal (d : Bytes) : Bool :=
  match d with
  | [] => false
  | x :: r => decide (49 ≤ x ∧ x ≤ 57) && r.all isDigit

/-- `IsRevisionFormat`: `^.*[^-]-{1}[1-9][0-9]*$` -/
def isRevisionFormat (s : Bytes) : Bool :=
  match splitLast s with
  | some (pre, suf) => lastIsNot pre hy && isPosDecimal suf
  | none => false

/-- `ParseChainID`: 0 for an id that is not in revision format; the code PANICS when the number does not fit uint64 -/
def parseChainID (s : Bytes) : Outcome Nat :=
  if !isRevisionFormat s then .ok 0 else
  match splitLast s with
  | some (_, suf) => match parseUint suf with
    | some n => .ok n.toNat
    | none => .panic "regex allowed non-number value"
  | none => .ok 0

/-- `strconv.Itoa(int(revision))`: a revision ≥ 2^63 becomes a NEGATIVE int on the 64-bit platforms the chain runs on -/
def itoaInt (rev : Nat) : Bytes :=
  if rev % 2 ^ 64 < 2 ^ 63 then toDec (UInt64.ofNat (rev % 2 ^ 64))
  else hy :: toDec (UInt64.ofNat (2 ^ 64 - rev % 2 ^ 64))

/-- `SetRevisionNumber`: the segment after the last hyphen is replaced -/
def setRevisionNumber (s : Bytes) (rev : Nat) : Outcome Bytes :=
  if !isRevisionFormat s then .err "not revision format" else
  match splitLast s with
  | some (pre, _) => .ok (pre ++ hy :: itoaInt rev)
  | none => .err "not revision format"

end TM.ChainId
