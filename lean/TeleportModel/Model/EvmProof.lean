import TeleportModel.Base.Util
/-
C08 — EVM storage proofs (ETH and BSC light clients).

Transcription of the proof-verification glue of
  x/xibc/clients/light-clients/eth/types/client_state.go   and   …/bsc/types/client_state.go
    VerifyPacketCommitment, VerifyPacketAcknowledgement, produceVerificationArgs, verifyMerkleProof, checkProofResult
  …/eth/types/keys.go and …/bsc/types/keys.go   (ProofKeyConstructor: slot = keccak(path ‖ uint256(208)))
  x/xibc/core/host/keys.go                     (PacketCommitmentPath / PacketAcknowledgementPath)
  x/xibc/core/client/types/height.go           (Height.Compare / LT)
and of the go-ethereum v1.10.16 helpers they call:
  common.FromHex / Hex2Bytes (encoding/hex.DecodeString keeps the bytes decoded before the first error),
  common.BytesToHash / HexToHash / Hash.Big, rlp.EncodeToBytes of ProofAccount, rlp.DecodeBytes into []byte.

The two clients differ only in where the number of confirmation blocks comes from (`GetDelayBlock`).

External primitives are parameters (`Env`): Keccak-256 and `trie.VerifyProof`. `encoding/json` is not modelled:
the model starts from the decoded `Proof` record (the harness decodes with the package's own struct).
Core Lean only.
-/
namespace TM.EvmProof
open TM

/-! ## go-ethereum `common` helpers -/

/-- `encoding/hex` reverseHexTable: value of one hex digit (both cases accepted). -/
def hexVal (c : UInt8) : Option UInt8 :=
  if 0x30 ≤ c ∧ c ≤ 0x39 then some (c - 0x30)
  else if 0x61 ≤ c ∧ c ≤ 0x66 then some (c - 0x61 + 10)
  else if 0x41 ≤ c ∧ c ≤ 0x46 then some (c - 0x41 + 10)
  else none

/-- `h, _ := hex.DecodeString(s)`: the bytes decoded before the first invalid digit / the dangling last digit. -/
def hexDecodePrefix : Bytes → Bytes
  | a :: b :: rest =>
    match hexVal a, hexVal b with
    | some x, some y => (x * 16 + y) :: hexDecodePrefix rest
    | _, _ => []
  | _ => []

/-- `has0xPrefix` -/
def has0x : Bytes → Bool
  | 0x30 :: x :: _ => x == 0x78 || x == 0x58
  | _ => false

/-- `common.FromHex` (a Go string is a byte sequence). -/
def fromHex (s : Bytes) : Bytes :=
  let s := if has0x s then s.drop 2 else s
  let s := if s.length % 2 = 1 then 0x30 :: s else s
  hexDecodePrefix s

/-- `common.BytesToHash`: crop from the left to the last 32 bytes, or left-pad with zeros. Always 32 bytes. -/
def bytesToHash (b : Bytes) : Bytes :=
  if b.length > 32 then b.drop (b.length - 32) else List.replicate (32 - b.length) 0 ++ b

def hexToHash (s : Bytes) : Bytes := bytesToHash (fromHex s)

/-- minimal big-endian form: `new(big.Int).SetBytes(h).Bytes()` -/
def trimZeros (b : Bytes) : Bytes := b.dropWhile (· == 0)

/-! ## RLP (the two shapes used) -/

/-- big-endian bytes of a positive length (RLP long-form length field); `fuel`-free via structural recursion on digits -/
def beBytesAux : Nat → Nat → Bytes → Bytes
  | 0, _, acc => acc
  | fuel+1, n, acc => if n = 0 then acc else beBytesAux fuel (n / 256) (UInt8.ofNat (n % 256) :: acc)

def beBytes (n : Nat) : Bytes := beBytesAux 9 n []

/-- `rlp` encoding of a byte string -/
def rlpString (b : Bytes) : Bytes :=
  match b with
  | [x] => if x < 0x80 then [x] else [0x81, x]
  | _ =>
    if b.length < 56 then UInt8.ofNat (0x80 + b.length) :: b
    else let l := beBytes b.length; UInt8.ofNat (0xb7 + l.length) :: (l ++ b)

/-- `rlp` list header + payload -/
def rlpList (payload : Bytes) : Bytes :=
  if payload.length < 56 then UInt8.ofNat (0xc0 + payload.length) :: payload
  else let l := beBytes payload.length; UInt8.ofNat (0xf7 + l.length) :: (l ++ payload)

/-- `rlp.EncodeToBytes(&ProofAccount{Nonce, Balance *big.Int; Storage, Codehash common.Hash})`;
    arguments are the four 32-byte hashes obtained with `HexToHash` (nonce/balance then go through `.Big()`). -/
def rlpAccount (nonceH balanceH storageH codeH : Bytes) : Bytes :=
  rlpList (rlpString (trimZeros nonceH) ++ rlpString (trimZeros balanceH) ++ rlpString storageH ++ rlpString codeH)

def beNat (b : Bytes) : Nat := b.foldl (fun acc x => acc * 256 + x.toNat) 0

/-- `rlp.DecodeBytes(input, &[]byte)`: exactly one canonical RLP string, no trailing bytes. -/
def rlpDecodeBytes (input : Bytes) : Option Bytes :=
  match input with
  | [] => none                                           -- io.EOF
  | b :: rest =>
    if b < 0x80 then (if rest.isEmpty then some [b] else none)          -- Byte kind; trailing ⇒ ErrMoreThanOneValue
    else if b < 0xB8 then
      let size := b.toNat - 0x80
      if size > rest.length then none                     -- ErrValueTooLarge
      else
        let data := rest.take size
        if size = 1 ∧ (data.headD 0) < 0x80 then none     -- ErrCanonSize
        else if rest.length > size then none              -- ErrMoreThanOneValue
        else some data
    else if b < 0xC0 then
      let ls := b.toNat - 0xB7                            -- 1 … 8
      if ls > rest.length then none                       -- readUint: ErrValueTooLarge
      else
        let lb := rest.take ls
        let rest2 := rest.drop ls
        if ls ≥ 2 ∧ lb.headD 0 = 0 then none              -- ErrCanonSize (leading zero in the length)
        else
          let size := beNat lb
          if size < 56 then none                          -- ErrCanonSize
          else if size > rest2.length then none           -- ErrValueTooLarge
          else if rest2.length > size then none           -- ErrMoreThanOneValue
          else some (rest2.take size)
    else none                                             -- List kind ⇒ ErrExpectedString

/-- the loop of `checkProofResult`: left-pad to 32 bytes (longer inputs are kept as they are) -/
def leftPad32 (b : Bytes) : Bytes := List.replicate (32 - b.length) 0 ++ b

/-- `checkProofResult(result, value)` -/
def checkProofResult (result value : Bytes) : Bool :=
  match rlpDecodeBytes result with
  | none => false
  | some t => leftPad32 t == value

/-! ## External primitives -/

/-- Result of `trie.VerifyProof(root, key, proofDb)`: `(nil, err)`, `(nil, nil)` (the proof shows the key is
    absent) or `(value, nil)`. -/
inductive MptRes where
  | invalid
  | absent
  | value (v : Bytes)
  deriving Repr, DecidableEq

/-- the `(value, err)` pair as the glue code sees it: `none` = error, a proven-absent key yields the nil slice -/
def MptRes.bytes : MptRes → Option Bytes
  | .invalid => none
  | .absent => some []
  | .value v => some v

structure Env where
  keccak : Bytes → Bytes
  /-- `trie.VerifyProof(root, key, NodeSet(nodes))` — `nodes` are the proof strings after `FromHex` -/
  mpt : Bytes → Bytes → List Bytes → MptRes

/-! ## Heights, client state, store -/

structure Height where
  rn : UInt64
  rh : UInt64
  deriving Repr, DecidableEq

/-- `Height.LT` via `Compare`: revision numbers decide when they differ, revision heights otherwise. -/
def Height.lt (a b : Height) : Bool :=
  if a.rn ≠ b.rn then a.rn < b.rn else a.rh < b.rh

inductive ClientKind where
  | eth | bsc
  deriving Repr, DecidableEq

structure ClientState where
  kind : ClientKind
  head : Height                -- cs.Header.Height
  contract : Bytes             -- cs.ContractAddress
  blockDelay : UInt64          -- ETH: cs.BlockDelay
  nValidators : Nat            -- BSC: len(cs.Validators)

/-- `GetDelayBlock` -/
def ClientState.delayBlock (cs : ClientState) : UInt64 :=
  match cs.kind with
  | .eth => cs.blockDelay
  | .bsc => UInt64.ofNat (cs.nValidators / 2 + 1)

/-- `ConsensusState` of the ETH / BSC client as it is stored (both messages have exactly these three fields).
    `height` is the message's own `Height` field: header updates set it to the header height, but `CreateClient` /
    `UpgradeClient` store an externally supplied state verbatim and `ValidateBasic` checks nothing, so it is
    independent of the key the state is stored under. The verification functions must not use it. -/
structure ConsState where
  timestamp : UInt64
  height : Height
  root : Bytes                 -- ConsensusState.Root (any length)
  deriving Repr, DecidableEq

/-- what `GetConsensusState(store, cdc, height)` finds under `consensusStates/{height}` -/
inductive ConsEntry where
  | corrupt                    -- bytes that do not unmarshal to this client's ConsensusState
  | state (c : ConsState)
  deriving Repr, DecidableEq

abbrev ConsStore := List (Height × ConsEntry)

def ConsStore.get (s : ConsStore) (h : Height) : Option ConsEntry :=
  match s with
  | [] => none
  | (k, v) :: rest => if k = h then some v else ConsStore.get rest h

/-! ## The proof record (after `json.Unmarshal` into `Proof`) -/

structure StorageResult where
  key : Bytes
  value : Bytes                -- not used by the verifier
  proof : List Bytes

structure Proof where
  address : Bytes
  balance : Bytes
  codeHash : Bytes
  nonce : Bytes
  storageHash : Bytes
  accountProof : List Bytes
  storageProof : List (Option StorageResult)     -- `[]*StorageResult`: JSON `null` elements are nil pointers

/-- the `proof []byte` argument -/
inductive ProofArg where
  | nil                        -- proof == nil
  | badJson                    -- json.Unmarshal fails
  | parsed (p : Proof)

/-! ## host paths and the slot -/

def natDigits : Nat → Nat → List UInt8 → List UInt8
  | 0, _, acc => acc
  | fuel+1, n, acc =>
    let acc := UInt8.ofNat (0x30 + n % 10) :: acc
    if n / 10 = 0 then acc else natDigits fuel (n / 10) acc

/-- `%d` of a uint64 -/
def decimal (n : UInt64) : Bytes := natDigits 20 n.toNat []

def slash : UInt8 := 0x2f

inductive PathKind where
  | commitment | ack
  deriving Repr, DecidableEq

/-- `KeyPacketCommitmentPrefix = "commitments"`, `KeyPacketAckPrefix = "acks"` (ASCII bytes) -/
def prefixOf : PathKind → Bytes
  | .commitment => [0x63, 0x6f, 0x6d, 0x6d, 0x69, 0x74, 0x6d, 0x65, 0x6e, 0x74, 0x73]
  | .ack => [0x61, 0x63, 0x6b, 0x73]

/-- `KeySequencePrefix = "sequences"` -/
def sequencesWord : Bytes := [0x73, 0x65, 0x71, 0x75, 0x65, 0x6e, 0x63, 0x65, 0x73]

#guard prefixOf .commitment = "commitments".toUTF8.toList
#guard prefixOf .ack = "acks".toUTF8.toList
#guard sequencesWord = "sequences".toUTF8.toList

/-- `host.PacketCommitmentKey` / `host.PacketAcknowledgementKey`: `{prefix}/{src}/{dst}/sequences/{seq}` -/
def pathOf (k : PathKind) (src dst : Bytes) (seq : UInt64) : Bytes :=
  prefixOf k ++ [slash] ++ src ++ [slash] ++ dst ++ [slash] ++ sequencesWord ++ [slash] ++ decimal seq

/-- `paramsIndex = 208` -/
def paramsIndex : UInt8 := 208

/-- `common.LeftPadBytes(big.NewInt(208).Bytes(), 32)` -/
def slotIndexWord : Bytes := List.replicate 31 0 ++ [paramsIndex]

/-- `GetPacketCommitmentProofKey` / `GetAckProofKey` -/
def slotOf (env : Env) (k : PathKind) (src dst : Bytes) (seq : UInt64) : Bytes :=
  env.keccak (pathOf k src dst seq ++ slotIndexWord)

/-! ## The verifier -/

/-- `verifyMerkleProof(proof, consensusState, contractAddr, commitment, proofKey)` -/
def verifyMerkleProof (env : Env) (p : Proof) (consRoot contract commitment proofKey : Bytes) : Outcome Unit :=
  let addr := fromHex p.address
  if addr ≠ contract then .err "address" else
  let acctKey := env.keccak addr
  match (env.mpt (bytesToHash consRoot) acctKey (p.accountProof.map fromHex)).bytes with
  | none => .err "account-proof"
  | some acctVal =>
    let storageHash := hexToHash p.storageHash
    let accRlp := rlpAccount (hexToHash p.nonce) (hexToHash p.balance) storageHash (hexToHash p.codeHash)
    if accRlp ≠ acctVal then .err "account-rlp" else
    match p.storageProof with
    | [osp] =>
      match osp with
      | none => .panic "nil-storage-result"             -- sp.Key on a nil *StorageResult
      | some sp =>
        let k := hexToHash sp.key
        if k ≠ proofKey then .err "storage-key" else
        match (env.mpt storageHash (env.keccak k) (sp.proof.map fromHex)).bytes with
        | none => .err "storage-proof"
        | some val =>
          if checkProofResult val commitment then .ok () else .err "value"
    | _ => .err "storage-proof-count"

/-- `VerifyPacketCommitment` (`k = .commitment`) and `VerifyPacketAcknowledgement` (`k = .ack`) of both clients:
    `produceVerificationArgs`, the confirmation-block check, then `verifyMerkleProof`. -/
def verify (env : Env) (cs : ClientState) (store : ConsStore) (h : Height) (proof : ProofArg)
    (k : PathKind) (src dst : Bytes) (seq : UInt64) (value : Bytes) : Outcome Unit :=
  -- produceVerificationArgs
  if cs.head.lt h then .err "height" else
  -- (fix C08-delay-underflow-cross-revision) block numbers are compared as well, whatever the revision numbers
  if cs.head.rh < h.rh then .err "height" else
  match proof with
  | .nil => .err "proof-nil"
  | .badJson => .err "proof-json"
  | .parsed p =>
    match store.get h with
    | none => .err "consensus-state"
    | some .corrupt => .err "consensus-state"
    | some (.state cons) =>
      -- delayBlock := cs.Header.Height.RevisionHeight - height.GetRevisionHeight()   (uint64, wraps)
      -- `height` is the proof height = the key the state was found under, NOT `cons.height`
      let delayBlock : UInt64 := cs.head.rh - h.rh
      if delayBlock < cs.delayBlock then .err "delay" else
      verifyMerkleProof env p cons.root cs.contract value (slotOf env k src dst seq)

end TM.EvmProof
