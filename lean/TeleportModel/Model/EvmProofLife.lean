import TeleportModel.Model.EvmProof
/-
C08 — life cycle of an ETH client around the proof verification: the configuration a client is created / upgraded
with is the configuration in force when a proof is verified, after any number of header updates.

Transcription of the parts of
  x/xibc/core/client/keeper/client.go   CreateClient / UpgradeClient / ToggleClient / UpdateClient
  x/xibc/clients/light-clients/eth/types/update.go   CheckHeaderAndUpdateState / update
that decide WHICH client state is stored: CreateClient / UpgradeClient / ToggleClient store the supplied client state and
the supplied consensus state (verbatim, under the client state's latest height; ToggleClient clears the store first);
UpdateClient stores `newClientState` = the old client state with `Header := the accepted header`, and the consensus
state `{Timestamp: header.Time, Height: header.Height, Root: header.Root}` under the header's height.
Whether a header is accepted is the subject of C10; here it is a parameter (`accepted`, told by the harness, which
builds the headers as rule-abiding children of the head or breaks their parent link).
-/
namespace TM.EvmProof.Life
open TM TM.EvmProof

/-- the whole stored client state (ETH: Header, ChainId, ContractAddress, TrustingPeriod, TimeDelay, BlockDelay) -/
structure Life where
  cs : ClientState             -- kind, head (= Header.Height), contract, blockDelay (nValidators unused for ETH)
  headHash : Bytes             -- hash of the stored Header (stands for all its other fields)
  chainId : UInt64
  trusting : UInt64
  timeDelay : UInt64
  store : ConsStore

/-- `SetClientConsensusState`: overwrite or add -/
def setCons (s : ConsStore) (h : Height) (e : ConsEntry) : ConsStore :=
  match s with
  | [] => [(h, e)]
  | (k, v) :: rest => if k = h then (h, e) :: rest else (k, v) :: setCons rest h e

/-- what a create / upgrade / toggle proposal carries -/
structure Config where
  contract : Bytes
  chainId : UInt64
  trusting : UInt64
  timeDelay : UInt64
  blockDelay : UInt64
  head : Height
  headHash : Bytes
  cons : ConsState             -- the supplied consensus state (stored verbatim)

def fromConfig (c : Config) (store : ConsStore) : Life :=
  { cs := { kind := .eth, head := c.head, contract := c.contract, blockDelay := c.blockDelay, nValidators := 0 }
    headHash := c.headHash, chainId := c.chainId, trusting := c.trusting, timeDelay := c.timeDelay
    store := setCons store c.head (.state c.cons) }

/-- `CreateClient` and `ToggleClient` (which clears the client store first) -/
def create (c : Config) : Life := fromConfig c []

/-- `UpgradeClient`: the old consensus states stay (ETH `UpgradeState` prunes nothing) -/
def upgrade (l : Life) (c : Config) : Life := fromConfig c l.store

/-- `UpdateClient` with an accepted header: only the header (head, its hash) changes in the client state -/
def update (l : Life) (h : Height) (hash root : Bytes) (time : UInt64) : Life :=
  { l with cs := { l.cs with head := h }, headHash := hash,
           store := setCons l.store h (.state { timestamp := time, height := h, root := root }) }

/-- a header update as an op: rejected headers change nothing -/
structure Upd where
  accepted : Bool
  h : Height
  hash : Bytes
  root : Bytes
  time : UInt64

def applyUpd (l : Life) (u : Upd) : Life := if u.accepted then update l u.h u.hash u.root u.time else l

def applyUpds (l : Life) (us : List Upd) : Life := us.foldl applyUpd l

/-- the verification call on the stored client state and store -/
def verifyStored (env : Env) (l : Life) (h : Height) (proof : ProofArg) (k : PathKind) (src dst : Bytes) (seq : UInt64)
    (value : Bytes) : Outcome Unit :=
  verify env l.cs l.store h proof k src dst seq value

end TM.EvmProof.Life
