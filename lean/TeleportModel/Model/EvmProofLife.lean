import TeleportModel.Model.EvmProof
/-
C08 — life cycle of an ETH client around the proof verification: the configuration a client is created / upgraded
with is the configuration in force when a proof is verified, after any number of header updates.

Transcription of the parts of
  x/xibc/core/client/keeper/client.go   CreateClient / UpgradeClient / ToggleClient / UpdateClient
  x/xibc/clients/light-clients/eth/types/update.go   CheckHeaderAndUpdateState / update
that decide WHICH client state is stored: CreateClient / UpgradeClient / ToggleClient store the supplied client state and
the supplied consensus state (verbatim, under the client state's latest height; ToggleClient clears the store first);
UpdateClient stores `newClientState` = the old client state with `Header := the accepted header`, and the consensus
state `{Timestamp: header.Time, Height: header.Height, Root: header.Root}` under the header's height.
Whether a header is accepted is the subject of C10; here it is a parameter (`accepted`, told by the harness, which
builds the headers as rule-abiding children of the head or breaks their parent link).
-/
namespace TM.EvmProof.Life
open TM TM.EvmProof

/-- an entry of the header index: what `RestrictChain` reads back when it walks a branch -/
structure Hdr where
  hash : Bytes
  parent : Bytes
  h : Height
  root : Bytes
  time : UInt64
  deriving DecidableEq

def findHdr (hs : List Hdr) (hash : Bytes) : Option Hdr := hs.find? (fun x => x.hash == hash)

/-- the hashes of a header and its known ancestors (fuel = size of the index: no cycles are assumed) -/
def ancestry : Nat → List Hdr → Bytes → List Bytes
  | 0, _, _ => []
  | fuel+1, hs, hash =>
    match findHdr hs hash with
    | none => []
    | some x => hash :: ancestry fuel hs x.parent

/-- the headers of the branch ending in `hash` that are not on the old main chain `old` (tip first) -/
def newBranch : Nat → List Hdr → List Bytes → Bytes → List Hdr
  | 0, _, _, _ => []
  | fuel+1, hs, old, hash =>
    if old.contains hash then [] else
    match findHdr hs hash with
    | none => []
    | some x => x :: newBranch fuel hs old x.parent

/-- the whole stored client state (ETH: Header, ChainId, ContractAddress, TrustingPeriod, TimeDelay, BlockDelay) -/
structure Life where
  cs : ClientState             -- kind, head (= Header.Height), contract, blockDelay (nValidators unused for ETH)
  headHash : Bytes             -- hash of the stored Header (stands for all its other fields)
  chainId : UInt64
  trusting : UInt64
  timeDelay : UInt64
  store : ConsStore
  hdrs : List Hdr              -- the header index (`SetEthHeaderIndex`): every header ever accepted, by hash

/-- `SetClientConsensusState`: overwrite or add -/
def setCons (s : ConsStore) (h : Height) (e : ConsEntry) : ConsStore :=
  match s with
  | [] => [(h, e)]
  | (k, v) :: rest => if k = h then (h, e) :: rest else (k, v) :: setCons rest h e

/-- what a create / upgrade / toggle proposal carries -/
structure Config where
  contract : Bytes
  chainId : UInt64
  trusting : UInt64
  timeDelay : UInt64
  blockDelay : UInt64
  head : Height
  headHash : Bytes
  cons : ConsState             -- the supplied consensus state (stored verbatim)
  parent : Bytes := []         -- ParentHash of the proposal's header (only the header index sees it)
  root : Bytes := []           -- Header.Root / Time of the proposal's header (the consensus state is supplied separately)
  time : UInt64 := 0

def fromConfig (c : Config) (store : ConsStore) (hdrs : List Hdr) : Life :=
  { cs := { kind := .eth, head := c.head, contract := c.contract, blockDelay := c.blockDelay, nValidators := 0 }
    headHash := c.headHash, chainId := c.chainId, trusting := c.trusting, timeDelay := c.timeDelay
    store := setCons store c.head (.state c.cons)
    hdrs := { hash := c.headHash, parent := c.parent, h := c.head, root := c.root, time := c.time } :: hdrs }

/-- `CreateClient` and `ToggleClient` (which clears the client store first) -/
def create (c : Config) : Life := fromConfig c [] []

/-- `UpgradeClient`: the old consensus states and header index stay (ETH `UpgradeState` prunes nothing) -/
def upgrade (l : Life) (c : Config) : Life := fromConfig c l.store l.hdrs

/-- re-pointing of `RestrictChain`: every header of the new branch becomes the consensus state of its height -/
def repoint (s : ConsStore) (branch : List Hdr) : ConsStore :=
  branch.foldr (fun x s => setCons s x.h (.state { timestamp := x.time, height := x.h, root := x.root })) s

/-- `UpdateClient` with an accepted header. The ETH client makes EVERY accepted header its head — a child of the head, a
    sibling, a header below the head, a child of an abandoned tip — so the head moves up, sideways or down
    (`newClientState.Header = *ethHeader`, stored by the keeper unconditionally). Only the header changes in the client
    state. Consensus states: the header's own height, and (when its parent is not the old head) every height of its
    branch down to the fork point with the old main chain is re-pointed to that branch (`RestrictChain`). Consensus
    states of the abandoned branch above the new head stay in the store (and are above the head). -/
def update (l : Life) (h : Height) (hash parent root : Bytes) (time : UInt64) : Life :=
  let x : Hdr := { hash, parent, h, root, time }
  let hdrs := x :: l.hdrs
  let fuel := hdrs.length + 1
  let branch := if parent = l.headHash then [x] else newBranch fuel hdrs (ancestry fuel l.hdrs l.headHash) hash
  { l with cs := { l.cs with head := h }, headHash := hash, hdrs := hdrs,
           store := setCons (repoint l.store branch) h (.state { timestamp := time, height := h, root := root }) }

/-- a header update as an op: rejected headers change nothing -/
structure Upd where
  accepted : Bool
  h : Height
  hash : Bytes
  parent : Bytes
  root : Bytes
  time : UInt64

def applyUpd (l : Life) (u : Upd) : Life := if u.accepted then update l u.h u.hash u.parent u.root u.time else l

def applyUpds (l : Life) (us : List Upd) : Life := us.foldl applyUpd l

/-- the verification call on the stored client state and store -/
def verifyStored (env : Env) (l : Life) (h : Height) (proof : ProofArg) (k : PathKind) (src dst : Bytes) (seq : UInt64)
    (value : Bytes) : Outcome Unit :=
  verify env l.cs l.store h proof k src dst seq value

end TM.EvmProof.Life
