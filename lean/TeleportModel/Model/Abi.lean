import TeleportModel.Base.Util
/-
C19 — ABI tuple encoding (go-ethereum v1.10.16 accounts/abi, as used by x/xibc/core/packet/types/packet.go).

`ABIPack`   = `abi.Arguments{{Type: tuple}}.Pack(struct)`     (pack.go / type.go `Type.pack`, argument.go `Pack`)
`ABIDecode` = `abi.Arguments{{Type: tuple}}.Unpack(bytes)` followed by a JSON round trip (Model/Json.lean).

Only the element types that occur in the generated layouts are modelled: uint64, string, bytes
(tools/gofacts refuses any other type).  A tuple with at least one dynamic component is itself dynamic, so
the single top-level argument is encoded as the offset word 0x20 followed by the tuple encoding.

Decoder transcribed from unpack.go: `toGoType`, `forTupleUnpack`, `tuplePointsTo`, `lengthPrefixPointsTo`,
`ReadInteger` (uint64 = low 8 bytes of the word, the upper 24 bytes are NOT checked), no padding checks.
Core Lean only.
-/
namespace TM.Abi
open TM

inductive Ty where
  | uint64 | str | bytes
  deriving DecidableEq, Repr

def Ty.isDynamic : Ty → Bool
  | .uint64 => false
  | _ => true

/-- one tuple component: name (ASCII bytes) and element type -/
structure Comp where
  name : Bytes
  ty : Ty
  deriving DecidableEq, Repr

abbrev Layout := List Comp

def Layout.tys (L : Layout) : List Ty := L.map (·.ty)

inductive Val where
  | u64 (n : UInt64)
  | str (s : Bytes)
  | bytes (b : Bytes)
  deriving DecidableEq, Repr

def Val.ty : Val → Ty
  | .u64 _ => .uint64
  | .str _ => .str
  | .bytes _ => .bytes

/-- the value list has exactly the element types `ts` -/
def Typed (ts : List Ty) (vs : List Val) : Prop := vs.map Val.ty = ts

instance (ts : List Ty) (vs : List Val) : Decidable (Typed ts vs) := by unfold Typed; infer_instance

/-! ### big-endian words -/

/-- `k` big-endian bytes of `n` (value taken modulo 256^k, like `math.U256Bytes`) -/
def toBE : Nat → Nat → Bytes
  | 0, _ => []
  | k+1, n => toBE k (n / 256) ++ [UInt8.ofNat (n % 256)]

def ofBE (b : Bytes) : Nat := b.foldl (fun acc x => acc * 256 + x.toNat) 0

/-- `packNum`: one 32-byte word -/
def word (n : Nat) : Bytes := toBE 32 n

def padLen (n : Nat) : Nat := (32 - n % 32) % 32

/-- `packBytesSlice`: length word, then the data right-padded with zeros to a multiple of 32 -/
def encDyn (s : Bytes) : Bytes := word s.length ++ s ++ List.replicate (padLen s.length) 0

/-! ### encoder (`Type.pack` for TupleTy) -/

/-- heads and tails of the remaining components; `off` = offset of the next tail -/
def encGo : List Val → Nat → Bytes × Bytes
  | [], _ => ([], [])
  | .u64 n :: r, off => let (h, t) := encGo r off; (word n.toNat ++ h, t)
  | .str s :: r, off => let d := encDyn s; let (h, t) := encGo r (off + d.length); (word off ++ h, d ++ t)
  | .bytes s :: r, off => let d := encDyn s; let (h, t) := encGo r (off + d.length); (word off ++ h, d ++ t)

def encodeTuple (vs : List Val) : Bytes :=
  let (h, t) := encGo vs (32 * vs.length)
  h ++ t

/-- `Arguments{{Type: dynamic tuple}}.Pack(v)`: offset word (32) then the tuple -/
def encodeTop (vs : List Val) : Bytes := word 32 ++ encodeTuple vs

/-! ### decoder (`Arguments.Unpack`) -/

def slice (b : Bytes) (i n : Nat) : Bytes := (b.drop i).take n

/-- `toGoType(i*32, t, out)` -/
def decElem (out : Bytes) (i : Nat) (t : Ty) : Option Val :=
  if i * 32 + 32 > out.length then none else
  match t with
  | .uint64 => some (.u64 (UInt64.ofNat (ofBE (slice out (i * 32 + 24) 8))))
  | t =>
    -- lengthPrefixPointsTo
    let offEnd := ofBE (slice out (i * 32) 32) + 32
    if offEnd > out.length then none else
    let len := ofBE (slice out (offEnd - 32) 32)
    if offEnd + len > out.length then none else
    let d := slice out offEnd len
    some (if t = .str then .str d else .bytes d)

/-- `forTupleUnpack`: component `i`, `i+1`, … -/
def decTupleAt (out : Bytes) : Nat → List Ty → Option (List Val)
  | _, [] => some []
  | i, t :: ts =>
    match decElem out i t with
    | none => none
    | some v =>
      match decTupleAt out (i + 1) ts with
      | none => none
      | some r => some (v :: r)

/-- `Arguments{{Type: dynamic tuple}}.Unpack(data)` -/
def decodeTop (ts : List Ty) (data : Bytes) : Option (List Val) :=
  if data.length = 0 then none
  else if 32 > data.length then none
  else
    let off := ofBE (data.take 32)            -- tuplePointsTo
    if off > data.length then none
    else decTupleAt (data.drop off) 0 ts

/-- layouts for which the model above is the code path taken: non-empty, at least one dynamic component
    (otherwise the tuple is static and encoded without the offset word), distinct component names -/
def Layout.WF (L : Layout) : Prop :=
  L ≠ [] ∧ L.any (·.ty.isDynamic) = true ∧ (L.map (·.name)).Nodup

instance (L : Layout) : Decidable L.WF := by unfold Layout.WF; infer_instance

end TM.Abi
