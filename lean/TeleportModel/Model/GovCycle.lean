import TeleportModel.Base.Util
import TeleportModel.Model.Vesting
/-
C15 — the gov module's OWN EndBlocker paths around the proposal handlers, and the bank adapter they go through.

`app.go` hands `adapter/bank.OverwriteBankKeeper` to the gov and staking keepers: its `BurnCoins` does not burn but moves
the coins to the fee collector (`SendCoinsFromModuleToModule`).  The cosmos-sdk callers turn an error of `BurnCoins` /
`SendCoinsFromModuleToAccount` into `panic(err)` in code that runs in EndBlock / BeginBlock without recover:
gov `DeleteDeposits` (proposal dropped after the deposit period, or vetoed / below quorum), gov `RefundDeposits`,
staking `burnBondedTokens` / `burnNotBondedTokens` (from `Slash`, called by the slashing and evidence BeginBlockers).

Modelled: `sdk.Coins.Validate` on the raw coin lists of `MsgSubmitProposal` / `MsgDeposit`, the deposit bookkeeping of
`SubmitProposal` / `AddDeposit` (`Coins.Add`, activation at `MinDeposit`), `gov.EndBlocker` (inactive queue: delete +
burn; active queue: tally → burn or refund → handler → status), the adapter's `BurnCoins`, and the staking burns.
External (inputs, universally quantified): the tally verdict and the handler outcome of each due proposal (the handlers
are the subject of `TM.NoPanic`), whether an account can pay, the slash amounts.  Coins are `TM.Vesting.Coins` (denom ↦
amount as an association list, `Coins.Add` = `Vesting.addCoin` per coin: merge equal denominations); the ORDER of a stored
`Coins` value (always sorted, a post-condition of cosmos-sdk `Coins.Add`) is not represented.  Core Lean only.
-/
namespace TM.GovCycle
open TM TM.Vesting

abbrev Out := Outcome
abbrev Coins := Vesting.Coins

/-! ## `sdk.Coins.Validate` (`IsValid`) on a raw list, as `ValidateBasic` of the two messages applies it -/

def rawValidTail : Coins → Denom → List Denom → Bool
  | [], _, _ => true
  | (d, a) :: rest, low, seen =>
    !seen.contains d && validDenom d && decide (low < d) && decide (0 < a) && rawValidTail rest d (d :: seen)

/-- `Coins.Validate() == nil`: empty is valid; otherwise valid denominations, strictly increasing, no duplicates,
all amounts positive (a zero-amount coin is INVALID). -/
def rawValid : Coins → Bool
  | [] => true
  | (d, a) :: rest => validDenom d && decide (0 < a) && rawValidTail rest d [d]

def anyNegative (cs : Coins) : Bool := cs.any (fun c => decide (c.2 < 0))

/-- the coin part of `MsgSubmitProposal.ValidateBasic` / `MsgDeposit.ValidateBasic`:
`!IsValid() ⇒ error; IsAnyNegative() ⇒ error`.  (`IsAllPositive` is NOT required: the empty set passes.) -/
def msgCoinsOk (raw : Coins) : Bool := rawValid raw && !anyNegative raw

/-- what `subUnlockedCoins` (`SendCoins`) requires of the amount: `IsValid()` — as a Boolean on a stored value
(positivity, valid denominations, no duplicates; order not represented). -/
def coinsOkB (cs : Coins) : Bool :=
  cs.all (fun c => decide (0 < c.2) && validDenom c.1) && decide ((cs.map (·.1)).Nodup)

/-- `Coins.Add(b...)`. -/
def addCoins (a b : Coins) : Coins := b.foldl (fun acc c => addCoin acc c.1 c.2) a

/-! ## the bank adapter -/

/-- `SendCoinsFromModuleTo…(gov, amt)` seen from the paying module account `bal`: `ErrInvalidCoins` unless
`amt.IsValid()` (true for the EMPTY set), `ErrInsufficientFunds` unless every coin is covered. -/
def sendFrom (bal : Denom → Int) (cs : Coins) : Option (Denom → Int) :=
  if !(cs.isEmpty || coinsOkB cs) then none
  else if cs.all (fun c => decide (c.2 ≤ bal c.1)) then some (fun d => bal d - amountOf cs d) else none

/-- `adapter/bank.OverwriteBankKeeper.BurnCoins(ctx, module, amounts)` =
`SendCoinsFromModuleToModule(ctx, module, FeeCollectorName, amounts)`: NO additional check of the amounts. -/
def burnRedirect (bal : Denom → Int) (cs : Coins) : Option (Denom → Int) := sendFrom bal cs

/-! ## gov state -/

inductive PStatus | deposit | voting | passed | rejected | failed
  deriving DecidableEq, Repr

structure Proposal where
  id : Nat
  status : PStatus
  depositEnd : Nat
  votingEnd : Nat
  total : Coins
  deriving Repr

structure Dep where
  pid : Nat
  who : String
  amount : Coins
  deriving Repr

structure GSt where
  now : Nat := 0
  nextId : Nat := 1
  props : List Proposal := []
  deps : List Dep := []
  bal : Denom → Int := fun _ => 0      -- balance of the gov module account

/-- default gov parameters of the app (asserted by the harness when it builds its world). -/
def minDeposit : Coins := [("stake", 10000000)]
def depositPeriod : Nat := 172800
def votingPeriod : Nat := 172800

/-- `TotalDeposit.IsAllGTE(MinDeposit)` (MinDeposit non-empty). -/
def reachesMin (total : Coins) : Bool :=
  !total.isEmpty && minDeposit.all (fun c => decide (c.2 ≤ amountOf total c.1))

def GSt.find (s : GSt) (id : Nat) : Option Proposal := s.props.find? (·.id = id)
def GSt.setProp (s : GSt) (p : Proposal) : GSt := { s with props := s.props.map (fun q => if q.id = p.id then p else q) }

/-- the deposit record of `AddDeposit`: merged into the depositor's existing one, or a new one holding `raw` as is. -/
def upsert : List Dep → Nat → String → Coins → List Dep
  | [], id, w, raw => [{ pid := id, who := w, amount := raw }]
  | x :: rest, id, w, raw =>
    if x.pid = id ∧ x.who = w then { x with amount := addCoins x.amount raw } :: rest
    else x :: upsert rest id w raw

/-- `Keeper.AddDeposit`. `canPay` = `SendCoinsFromAccountToModule(depositor → gov)` succeeded. -/
def addDeposit (s : GSt) (id : Nat) (who : String) (raw : Coins) (canPay : Bool) : Out GSt :=
  match s.find id with
  | none => .err "unknown-proposal"
  | some p =>
    if p.status ≠ .deposit ∧ p.status ≠ .voting then .err "inactive-proposal" else
    if !canPay then .err "insufficient-funds" else
    let total := addCoins p.total raw
    let p1 : Proposal := { p with total := total }
    let p2 : Proposal := if p.status = .deposit ∧ reachesMin total then { p1 with status := .voting, votingEnd := s.now + votingPeriod } else p1
    .ok { (s.setProp p2) with deps := upsert s.deps id who raw, bal := fun d => s.bal d + amountOf raw d }

/-- msg server `SubmitProposal`: `Keeper.SubmitProposal` (handler dry run must succeed: `hOk`), then `AddDeposit` of the
initial deposit — EMPTY initial deposits are recorded like any other. -/
def submitExec (s : GSt) (who : String) (raw : Coins) (hOk canPay : Bool) : Out GSt :=
  if !hOk then .err "invalid-content" else
  let p : Proposal := { id := s.nextId, status := .deposit, depositEnd := s.now + depositPeriod, votingEnd := 0, total := [] }
  addDeposit { s with nextId := s.nextId + 1, props := s.props ++ [p] } p.id who raw canPay

/-- msg server `Vote` / `VoteWeighted` → `AddVote`: the proposal must be in its voting period (the tally is external). -/
def voteExec (s : GSt) (id : Nat) : Out Unit :=
  match s.find id with
  | none => .err "unknown-proposal"
  | some p => if p.status = .voting then .ok () else .err "inactive-proposal"

/-! ## `gov.EndBlocker` -/

inductive HRes | ok | err | panic
  deriving DecidableEq, Repr

/-- verdict of `Keeper.Tally` for a due proposal (+ the handler outcome when it passes). -/
inductive Verdict | pass (h : HRes) | reject | burn
  deriving DecidableEq, Repr

def payOut (bal : Denom → Int) : List Dep → Option (Denom → Int)
  | [] => some bal
  | x :: rest =>
    match sendFrom bal x.amount with
    | none => none
    | some b => payOut b rest

/-- `DeleteDeposits` (through the adapter's `BurnCoins`) or `RefundDeposits` (`SendCoinsFromModuleToAccount`) of one
proposal: both send every deposit out of the gov module account and `panic(err)` on an error. -/
def settle (s : GSt) (id : Nat) : Out GSt :=
  match payOut s.bal (s.deps.filter (·.pid = id)) with
  | none => .panic "gov.DeleteDeposits / RefundDeposits: panic(err) on the bank keeper's error"
  | some b => .ok { s with bal := b, deps := s.deps.filter (·.pid ≠ id) }

/-- inactive queue: proposals still in the deposit period whose `DepositEndTime` has passed are deleted, their deposits burned. -/
def dropInactive : List Proposal → GSt → Out GSt
  | [], s => .ok s
  | p :: rest, s =>
    if p.status = .deposit ∧ p.depositEnd ≤ s.now then
      match settle s p.id with
      | .ok s' => dropInactive rest { s' with props := s'.props.filter (·.id ≠ p.id) }
      | .err e => .err e
      | .panic m => .panic m
    else dropInactive rest s

def verdictOf (ext : List (Nat × Verdict)) (id : Nat) : Verdict :=
  match ext.find? (·.1 = id) with
  | some e => e.2
  | none => .reject

/-- active queue: tally; burn or refund the deposits; run the handler of a passed proposal (NO recover); set the status. -/
def closeActive (ext : List (Nat × Verdict)) : List Proposal → GSt → Out GSt
  | [], s => .ok s
  | p :: rest, s =>
    if p.status = .voting ∧ p.votingEnd ≤ s.now then
      match settle s p.id with
      | .ok s' =>
        match verdictOf ext p.id with
        | .pass .panic => .panic "proposal handler (see TM.NoPanic)"
        | .pass .ok => closeActive ext rest (s'.setProp { p with status := .passed })
        | .pass .err => closeActive ext rest (s'.setProp { p with status := .failed })
        | _ => closeActive ext rest (s'.setProp { p with status := .rejected })
      | .err e => .err e
      | .panic m => .panic m
    else closeActive ext rest s

def endBlock (ext : List (Nat × Verdict)) (s : GSt) : Out GSt :=
  match dropInactive s.props s with
  | .ok s1 => closeActive ext s1.props s1
  | .err e => .err e
  | .panic m => .panic m

/-- ids of the proposals whose voting period is over (what `ext` must cover). -/
def dueActive (s : GSt) : List Nat :=
  (s.props.filter (fun p => p.status = .voting ∧ p.votingEnd ≤ s.now)).map (·.id)

/-! ## staking burns (from `Keeper.Slash`, called by the slashing / evidence BeginBlockers) -/

/-- `burnBondedTokens` / `burnNotBondedTokens`: nothing for a non-positive amount, otherwise the adapter's `BurnCoins` of the
single bond-denom coin out of the pool; the caller `panic(err)`s. -/
def stakingBurn (pool : Int) (amt : Int) : Out Int :=
  if amt ≤ 0 then .ok pool else
  match burnRedirect (fun _ => pool) [("stake", amt)] with
  | none => .panic "staking.Slash: panic(err) on BurnCoins"
  | some b => .ok (b "stake")

/-- the two burns of one `Slash`. -/
def slash (bonded notBonded burnB burnNB : Int) : Out (Int × Int) :=
  match stakingBurn bonded burnB with
  | .ok b => (match stakingBurn notBonded burnNB with | .ok n => .ok (b, n) | .err e => .err e | .panic m => .panic m)
  | .err e => .err e
  | .panic m => .panic m

end TM.GovCycle
