import TeleportModel.Base.Util
/-
C18 — client lifecycle.  Executable model of
  x/xibc/core/client/proposal_handler.go + keeper/proposal.go   (HandleCreateClient / Upgrade / Toggle / RegisterRelayer,
                                                                 run under the gov wrapper: ValidateBasic at submission,
                                                                 handler on a cache context written only on success)
  x/xibc/core/client/keeper/client.go                            (CreateClient, UpgradeClient, ToggleClient, UpdateClient)
  x/xibc/keeper/msg_server.go: UpdateClient                      (run under the tx wrapper: ValidateBasic, cache context, recover)
  Initialize / UpgradeState / Status / VerifyPacketCommitment pre-checks of the four client types
as REPAIRED by fixes/C18-*.diff (ToggleClient initialises the NEW state on a cleared client store, Tendermint
UpgradeState writes its metadata, BSC/ETH check the consensus-state type; the nil height of the unrepaired TSS header
is still representable: `Header.height = none` makes `updateClient` panic exactly like the Go code).

Abstract (parameters arriving on the op line, computed by the harness with the real code): the content of client and
consensus states beyond (type, latest height, digest, Validate() result, trusting period, delay, what the type's
Initialize writes); header verification and the light client's own book-keeping inside CheckHeaderAndUpdateState
(verdict, resulting states, store delta); Merkle / signature membership.
-/
namespace TM.Lifecycle
open TM

inductive Ty | tm | bsc | eth | tss
  deriving DecidableEq, Repr, Inhabited

structure Height where
  rev : Nat
  h : Nat
  deriving DecidableEq, Repr, Inhabited

/-- `Height.LT` of core/client/types/height.go -/
def Height.lt (a b : Height) : Bool := a.rev < b.rev || (a.rev == b.rev && a.h < b.h)

/-- client state, as far as the lifecycle needs it -/
structure CState where
  ty : Ty
  latest : Height          -- GetLatestHeight() (tss: 0-0)
  dig : String             -- digest of the marshalled state: its identity
  valid : Bool             -- Validate() == nil
  trust : Nat              -- trusting period (tm: ns, bsc/eth: s)
  delay : Nat              -- tm: time delay (ns); bsc/eth: block delay
  initOk : Bool            -- bsc: epoch block ∧ seal matches coinbase ∧ validators parse (guards of Initialize/UpgradeState)
  x1 : String              -- bsc: recovered signer | eth: header hash | tss: tss address
  x2 : String              -- bsc: digest of the pending validator set | eth: state root
  x3 : String              -- eth: digest of the marshalled header
  deriving DecidableEq, Repr

/-- consensus state -/
structure KState where
  ty : Ty
  ts : Nat                 -- tm: ns, bsc/eth: s
  dig : String
  vb : Bool := true        -- ConsensusState.ValidateBasic() == nil (only a Tendermint one can fail: root, hash, time)
  deriving DecidableEq, Repr

/-- keys of a client store ("clients/<name>/…") -/
inductive Key
  | cs                                  -- clientState
  | cons (h : Height)                   -- consensusStates/<height>
  | pt (h : Height)                     -- consensusStates/<height>/processedTime        (tendermint)
  | it (h : Height)                     -- iterateConsensusStates<height>               (tendermint)
  | sg (h : Height)                     -- recentSingers/<height>                       (bsc)
  | pv                                  -- pendingValidators                            (bsc)
  | ei (hash : String) (n : Nat)        -- ethHeaderIndex/<hash><number>                (eth)
  | er (root : String) (n : Nat)        -- ethRootMain/<root><number>                   (eth)
  | other (s : String)
  deriving DecidableEq, Repr

inductive Val
  | cstate (c : CState)
  | kstate (k : KState)
  | num (n : Nat)
  | txt (s : String)
  deriving DecidableEq, Repr

abbrev Name := String
abbrev KV := List ((Name × Key) × Val)

structure St where
  kv : KV                                         -- all client stores; newest binding first
  rel : List (String × (List Name × Nat))         -- relayers: address ↦ (chains, number of counterparty addresses)
  now : Nat                                       -- block time, ns
  self : Name := ""                               -- this chain's own name (client keeper GetChainName)
  deriving Repr

def init : St := { kv := [], rel := [], now := 0, self := "" }

def lookup (key : Name × Key) : KV → Option Val
  | [] => none
  | (k, v) :: r => if k = key then some v else lookup key r

def get (s : St) (n : Name) (k : Key) : Option Val := lookup (n, k) s.kv
def set (s : St) (n : Name) (k : Key) (v : Val) : St := { s with kv := ((n, k), v) :: s.kv }
def del (s : St) (n : Name) (k : Key) : St := { s with kv := s.kv.filter (fun e => decide (e.1 ≠ (n, k))) }
/-- ToggleClient (repaired): every entry of the client store is removed -/
def clearName (s : St) (n : Name) : St := { s with kv := s.kv.filter (fun e => decide (e.1.1 ≠ n)) }

def isSigner : Key → Bool | .sg _ => true | _ => false
/-- bsc `DeleteAllSigner` -/
def delSigners (s : St) (n : Name) : St :=
  { s with kv := s.kv.filter (fun e => !(decide (e.1.1 = n) && isSigner e.1.2)) }

def getClient (s : St) (n : Name) : Option CState :=
  match get s n .cs with | some (.cstate c) => some c | _ => none
def getCons (s : St) (n : Name) (h : Height) : Option KState :=
  match get s n (.cons h) with | some (.kstate k) => some k | _ => none

/-! ### identifier validation (host/validate.go: ClientIdentifierValidator) -/
def allowedChar (c : Char) : Bool :=
  c.isAlphanum || c == '.' || c == '_' || c == '+' || c == '-' || c == '#' || c == '[' || c == ']' || c == '<' || c == '>'
/-- non-blank, no '/', 3 ≤ length ≤ 64, only allowed characters (the first two follow from the others) -/
def validName (n : Name) : Bool := decide (3 ≤ n.length) && decide (n.length ≤ 64) && n.toList.all allowedChar

/-! ### the four client types -/
def secs (ns : Nat) : Nat := ns / 1000000000

/-- metadata the type's `Initialize` writes for client state `c` -/
def writeMeta (s : St) (n : Name) (c : CState) : St :=
  match c.ty with
  | .tm => set (set s n (.pt c.latest) (.num s.now)) n (.it c.latest) (.txt "k")
  | .bsc => set (set s n (.sg c.latest) (.txt c.x1)) n .pv (.txt c.x2)
  | .eth => set (set s n (.ei c.x1 c.latest.h) (.txt c.x3)) n (.er c.x2 c.latest.h) (.txt c.x1)
  | .tss => s

/-- `clientState.Initialize(ctx, cdc, clientStore, consensusState)` -/
def initClient (s : St) (n : Name) (c : CState) (k : KState) : Outcome St :=
  match c.ty with
  | .tss => .ok s
  | _ => if k.ty ≠ c.ty then .err "consensus-type" else if !c.initOk then .err "init" else .ok (writeMeta s n c)

/-- heights of the consensus-state keys of a client store -/
def consHeights : Name → KV → List Height
  | _, [] => []
  | n, ((m, .cons h), _) :: r => if m = n then h :: consHeights n r else consHeights n r
  | n, _ :: r => consHeights n r

def minHeight : List Height → Option Height
  | [] => none
  | h :: r => match minHeight r with
    | none => some h
    | some m => if h.lt m then some h else some m

/-- bsc UpgradeState: the earliest consensus state is pruned when expired under the new trusting period -/
def bscPrune (s : St) (n : Name) (c : CState) : Outcome St :=
  match minHeight (consHeights n s.kv) with
  | none => .ok s
  | some e =>
    match getCons s n e with
    | some k => if k.ty ≠ .bsc then .err "prune-type" else
                if k.ts + c.trust < secs s.now then .ok (del s n (.cons e)) else .ok s
    | none => .err "prune-type"

/-- `newClientState.UpgradeState(ctx, cdc, clientStore, newConsensusState)` -/
def upgradeState (s : St) (n : Name) (c : CState) (k : KState) : Outcome St :=
  match c.ty with
  | .tss => .ok s
  | .bsc =>
    if k.ty ≠ .bsc then .err "consensus-type" else if !c.initOk then .err "init" else
    match bscPrune s n c with
    | .ok s1 => .ok (writeMeta (delSigners s1 n) n c)
    | .err e => .err e
    | .panic p => .panic p
  | _ => if k.ty ≠ c.ty then .err "consensus-type" else .ok (writeMeta s n c)

inductive Status | active | expired | unknown
  deriving DecidableEq, Repr

def status (s : St) (n : Name) (c : CState) : Status :=
  match c.ty with
  | .tss => .active
  | .tm => match getCons s n c.latest with
    | some k => if k.ty ≠ .tm then .unknown else if k.ts + c.trust ≤ s.now then .expired else .active
    | none => .unknown
  | t => match getCons s n c.latest with
    | some k => if k.ty ≠ t then .unknown else if k.ts + c.trust < secs s.now then .expired else .active
    | none => .unknown

/-! ### proposals -/
inductive Kind | create | upgrade | toggle
  deriving DecidableEq, Repr

structure Proposal where
  kind : Kind
  name : Name
  cs : Option CState        -- none: the Any does not unpack
  ks : Option KState
  deriving Repr

/-- `ValidateBasic` of the three client proposals (title/description are constants of the harness) -/
def validateBasic (p : Proposal) : Bool :=
  validName p.name && (match p.cs with | some c => c.valid | none => false) &&
    (match p.ks with | some k => k.vb | none => false)

def createClient (s : St) (n : Name) (c : CState) (k : KState) : Outcome St :=
  match initClient (set s n .cs (.cstate c)) n c k with
  | .ok s2 => if c.ty ≠ .tss then .ok (set s2 n (.cons c.latest) (.kstate k)) else .ok s2   -- a TSS client has no consensus states
  | .err e => .err e
  | .panic p => .panic p

def upgradeClient (s : St) (n : Name) (c : CState) (k : KState) : Outcome St :=
  match getClient s n with
  | none => .err "not-found"
  | some old =>
    if old.ty ≠ c.ty then .err "type" else
    match upgradeState s n c k with
    | .ok s1 => if c.ty ≠ .tss then .ok (set (set s1 n .cs (.cstate c)) n (.cons c.latest) (.kstate k))
                else .ok (set s1 n .cs (.cstate c))
    | .err _ => .err "upgrade"
    | .panic p => .panic p

def toggleClient (s : St) (n : Name) (c : CState) (k : KState) : Outcome St :=
  match getClient s n with
  | none => .err "not-found"
  | some old =>
    if old.ty = c.ty then .err "type" else
    match initClient (set (clearName s n) n .cs (.cstate c)) n c k with
    | .ok s2 => if c.ty ≠ .tss then .ok (set s2 n (.cons c.latest) (.kstate k)) else .ok s2
    | .err e => .err e
    | .panic p => .panic p

/-- keeper/proposal.go -/
def handle (s : St) (p : Proposal) : Outcome St :=
  match p.kind with
  | .create =>
    if p.name = s.self then .err "own-name" else
    if (getClient s p.name).isSome then .err "exists" else
    match p.cs, p.ks with
    | some c, some k => createClient s p.name c k
    | _, _ => .err "unpack"
  | .upgrade =>
    match p.cs, p.ks with
    | some c, some k => upgradeClient s p.name c k
    | _, _ => .err "unpack"
  | .toggle =>
    if (getClient s p.name).isNone then .err "not-found" else
    match p.cs, p.ks with
    | some c, some k => toggleClient s p.name c k
    | _, _ => .err "unpack"

inductive Res | ok | err | panic
  deriving DecidableEq, Repr

/-- cache-context wrappers (gov.EndBlocker / baseapp.runTx): only a successful handler is written back -/
def commit (s : St) (o : Outcome St) : St × Res :=
  match o with
  | .ok s' => (s', .ok)
  | .err _ => (s, .err)
  | .panic _ => (s, .panic)

/-- the stateless stage, per kind: `CreateClientProposal.ValidateBasic`, `UpgradeClientProposal.ValidateBasic`,
    `ToggleClientProposal.ValidateBasic` (x/xibc/core/client/types/proposal.go) are three separate functions; each
    validates the name, unpacks and `Validate()`s the proposal's client state, then unpacks the consensus state and
    calls its `ValidateBasic()` (since fafdbf1). `MsgSubmitProposal.ValidateBasic` runs them at submission; nothing downstream re-validates the client state. -/
def validateCreate (p : Proposal) : Bool := validateBasic p
def validateUpgrade (p : Proposal) : Bool := validateBasic p
def validateToggle (p : Proposal) : Bool := validateBasic p

def validateContent (p : Proposal) : Bool :=
  match p.kind with
  | .create => validateCreate p
  | .upgrade => validateUpgrade p
  | .toggle => validateToggle p

/-- submission (`validateContent`), then the routed handler on a cache context written only on success -/
def govExec (s : St) (p : Proposal) : St × Res :=
  if !validateContent p then (s, .err) else commit s (handle s p)

structure RelayerProposal where
  address : String
  addrOk : Bool
  nAddresses : Nat
  chains : List Name
  deriving Repr

def relayerExec (s : St) (p : RelayerProposal) : St × Res :=
  if !p.addrOk || p.nAddresses == 0 || p.nAddresses != p.chains.length || !p.chains.all validName then (s, .err)
  else ({ s with rel := (p.address, (p.chains, p.nAddresses)) :: s.rel }, .ok)

def authRelayer (s : St) (n : Name) (signer : String) : Bool :=
  match s.rel.lookup signer with
  | some (chains, _) => chains.contains n
  | none => false

/-! ### update -/
structure Header where
  ty : Ty
  height : Option Height      -- GetHeight(); `none` = nil (the unrepaired TSS header)
  vb : Bool                   -- ValidateBasic() == nil
  deriving Repr

structure Update where
  name : Name
  signer : String
  signerOk : Bool             -- bech32-valid
  hdr : Header
  check : Bool                -- CheckHeaderAndUpdateState succeeded (abstract: header verification)
  newC : CState               -- its resulting client state
  newK : Option KState        -- its resulting consensus state (tss: nil)
  delta : List (Key × Option Val)   -- what it wrote (some) / deleted (none) in the client store
  deriving Repr

def applyDelta (s : St) (n : Name) : List (Key × Option Val) → St
  | [] => s
  | (k, some v) :: r => applyDelta (set s n k v) n r
  | (k, none) :: r => applyDelta (del s n k) n r

/-- `clientState.CheckMsg(msg)`: only the TSS client restricts the signer -/
def checkMsg (c : CState) (signer : String) : Bool :=
  match c.ty with | .tss => c.x1 == signer | _ => true

/-- the later of two heights in the order of `Height.GT`: revision first, then block number -/
def Height.maxLex (a b : Height) : Height := if a.lt b then b else a

/-- the client state stored by an accepted update. Tendermint (`update` in tendermint/types/update.go): the header's
    height becomes the latest height only if it is GREATER in the (revision, block number) order — a valid late header
    of an earlier revision, or a skipped past height, never moves the latest height back; everything else of the state
    is what `CheckHeaderAndUpdateState` returned. The other types: as returned. -/
def storedAfterUpdate (c : CState) (u : Update) (h : Height) : CState :=
  match c.ty with
  | .tm => { u.newC with ty := .tm, latest := Height.maxLex c.latest h }
  | _ => u.newC

/-- client keeper `UpdateClient` -/
def updateClient (s : St) (u : Update) (c : CState) : Outcome St :=
  if status s u.name c ≠ .active then .err "not-active" else
  if !u.check then .err "header" else
  match u.hdr.height with
  | none => .panic "nil height"          -- header.GetHeight().String() on a nil interface
  | some h =>
    let s1 := set (applyDelta s u.name u.delta) u.name .cs (.cstate (storedAfterUpdate c u h))
    match u.newK with
    | some k => .ok (set s1 u.name (.cons h) (.kstate k))
    | none => .ok s1

/-- msg server `UpdateClient` -/
def handleUpdate (s : St) (u : Update) : Outcome St :=
  if !authRelayer s u.name u.signer then .err "unauthorized" else
  match getClient s u.name with
  | none => .err "not-found"
  | some c => if !checkMsg c u.signer then .err "check-msg" else updateClient s u c

def txExec (s : St) (u : Update) : St × Res :=
  if !(u.signerOk && u.hdr.vb && validName u.name) then (s, .err) else commit s (handleUpdate s u)

/-! ### proof verification (pre-checks concrete, membership abstract) -/
def verify (s : St) (n : Name) (h : Height) (member : Bool) (proof : String) : Option Bool :=
  match getClient s n with
  | none => none
  | some c =>
    match c.ty with
    | .tss => some (proof == c.x1)
    | .tm =>
      if c.latest.lt h then some false else
      match getCons s n h with
      | some k =>
        if k.ty ≠ .tm then some false else
        match get s n (.pt h) with
        | some (.num p) => if p + c.delay > s.now then some false else some member
        | _ => some false
      | none => some false
    | t =>
      if c.latest.lt h then some false else
      match getCons s n h with
      | some k => if k.ty ≠ t then some false else if c.latest.h - h.h < c.delay then some false else some member
      | none => some false

/-! ### the stateless stage of `MsgUpdateClient` for a Tendermint header: the free-form fields -/

/-- lengths of the free-form fields of an otherwise well-formed, correctly signed Tendermint header -/
structure TmHeaderShape where
  appHash : Nat
  data : Nat
  evidence : Nat
  lastResults : Nat
  proposer : Nat
  deriving Repr

/-- tendermint `ValidateHash`: empty or 32 bytes -/
def hashLenOk (n : Nat) : Bool := n == 0 || n == 32

/-- `MsgUpdateClient.ValidateBasic` → `Header.ValidateBasic` → tendermint `SignedHeader.ValidateBasic`: data, evidence
    and last-results hash are empty or 32 bytes, the proposer address has 20 bytes; "AppHash is arbitrary length" —
    the stateless stage does not look at it (an EMPTY one is refused later, by `CheckHeaderAndUpdateState`: the
    consensus state it yields has no root) -/
def tmHeaderStateless (h : TmHeaderShape) : Bool :=
  hashLenOk h.data && hashLenOk h.evidence && hashLenOk h.lastResults && h.proposer == 20

/-! ### histories -/
inductive Op
  | time (ns : Nat)
  | prop (p : Proposal)
  | relayer (p : RelayerProposal)
  | update (u : Update)
  /-- the chain is exported and re-imported (ExportGenesis → JSON → Validate → emptied store → InitGenesis):
      the identity on everything this property talks about -/
  | restart
  /-- an execution on a context that is dropped (gov's dry run at submission, Simulate / CheckTx, a failed
      multi-message tx): whatever the operation would have done, nothing is kept -/
  | dry (o : Op)
  deriving Repr

def step (s : St) : Op → St × Res
  | .time ns => ({ s with now := ns }, .ok)
  | .prop p => govExec s p
  | .relayer p => relayerExec s p
  | .update u => txExec s u
  | .restart => (s, .ok)
  | .dry _ => (s, .ok)

/-- the client an operation is about (its client store is the only one it may touch) -/
def target : Op → Option Name
  | .prop p => some p.name
  | .update u => some u.name
  | _ => none

def run (s : St) : List Op → St × List Res
  | [] => (s, [])
  | o :: r => let (s1, x) := step s o; let (s2, xs) := run s1 r; (s2, x :: xs)

end TM.Lifecycle
