import TeleportModel.Model.Abi
/-
C19 — the JSON round trip inside `ABIDecode` (x/xibc/core/packet/types/packet.go):

    dataBz, _ := Arguments.Unpack(bz);  bzTmp, _ := json.Marshal(dataBz[0]);  json.Unmarshal(bzTmp, &p)

`dataBz[0]` is an anonymous struct built by abi.NewType with one field per tuple component, tagged
`json:"<component name>"`.  `json.Unmarshal` then looks every object key up among the JSON names of the target
struct: exact match first, otherwise the first field whose name matches ASCII-case-insensitively
(encoding/json `byExactName` / `byFoldedName`); unknown keys are dropped, later keys overwrite earlier ones.
`Pack` on the other hand reads the struct field whose Go name is `abi.ToCamelCase(component name)`.

Values: uint64 ↦ JSON number ↦ uint64 (exact); []byte ↦ base64 ↦ []byte (exact; trusted stdlib);
string ↦ JSON string: invalid UTF-8 is replaced by U+FFFD on Marshal — the only place where information is
lost. `sanitize` transcribes the rune scanning of encoding/json `appendString` + utf8.DecodeRuneInString;
escapes (<,  , control characters, quotes) are undone by Unmarshal and are not modelled.
Core Lean only.
-/
namespace TM.Json
open TM TM.Abi

/-- target struct field: Go name, JSON name (tag name or the Go name), element type -/
structure Field where
  goName : Bytes
  jsonName : Bytes
  ty : Ty
  deriving DecidableEq, Repr

abbrev Schema := List Field

structure Binding where
  name : String
  layout : Layout
  schema : Schema
  hasPack : Bool
  hasDecode : Bool
  /-- regenerated: the body of ABIPack is exactly `Arguments.Pack(v)`, the body of ABIDecode exactly
      `Unpack ; json.Marshal ; json.Unmarshal` — no further statement touches a field -/
  packPure : Bool := true
  decodePure : Bool := true

/-! ### UTF-8 (utf8.DecodeRune acceptance table) -/

def isCont (b : UInt8) : Bool := 0x80 ≤ b && b ≤ 0xBF

/-- length of the valid UTF-8 sequence at the head of `s`, 0 if the head is invalid / truncated -/
def runeLen : Bytes → Nat
  | [] => 0
  | b0 :: r =>
    if b0 < 0x80 then 1
    else if 0xC2 ≤ b0 && b0 ≤ 0xDF then
      match r with
      | b1 :: _ => if isCont b1 then 2 else 0
      | _ => 0
    else if 0xE0 ≤ b0 && b0 ≤ 0xEF then
      match r with
      | b1 :: b2 :: _ =>
        let lo : UInt8 := if b0 = 0xE0 then 0xA0 else 0x80
        let hi : UInt8 := if b0 = 0xED then 0x9F else 0xBF
        if lo ≤ b1 && b1 ≤ hi && isCont b2 then 3 else 0
      | _ => 0
    else if 0xF0 ≤ b0 && b0 ≤ 0xF4 then
      match r with
      | b1 :: b2 :: b3 :: _ =>
        let lo : UInt8 := if b0 = 0xF0 then 0x90 else 0x80
        let hi : UInt8 := if b0 = 0xF4 then 0x8F else 0xBF
        if lo ≤ b1 && b1 ≤ hi && isCont b2 && isCont b3 then 4 else 0
      | _ => 0
    else 0

/-- `utf8.Valid` (fuel = length) -/
def validUtf8F : Nat → Bytes → Bool
  | _, [] => true
  | 0, _ => false
  | f+1, s => match runeLen s with
    | 0 => false
    | n => validUtf8F f (s.drop n)

def validUtf8 (s : Bytes) : Bool := validUtf8F s.length s

/-- string after json.Marshal ∘ json.Unmarshal: every invalid byte becomes U+FFFD (EF BF BD) -/
def sanitizeF : Nat → Bytes → Bytes
  | _, [] => []
  | 0, _ => []
  | f+1, s => match runeLen s with
    | 0 => [0xEF, 0xBF, 0xBD] ++ sanitizeF f (s.drop 1)
    | n => s.take n ++ sanitizeF f (s.drop n)

def sanitize (s : Bytes) : Bytes := sanitizeF s.length s

/-- the JSON round trip of one unpacked value -/
def jsonVal : Val → Val
  | .str s => .str (sanitize s)
  | v => v

def strOk : Val → Bool
  | .str s => validUtf8 s
  | _ => true

/-! ### names -/

def upper (b : UInt8) : UInt8 := if 0x61 ≤ b && b ≤ 0x7A then b - 0x20 else b
def lower (b : UInt8) : UInt8 := if 0x41 ≤ b && b ≤ 0x5A then b + 0x20 else b
def isLower (b : UInt8) : Bool := 0x61 ≤ b && b ≤ 0x7A
def isDigit (b : UInt8) : Bool := 0x30 ≤ b && b ≤ 0x39

/-- encoding/json `foldName` on ASCII names -/
def fold (s : Bytes) : Bytes := s.map upper

/-- strings.Split(s, "_") -/
def splitUnderscore : Bytes → List Bytes
  | [] => [[]]
  | b :: r =>
    match splitUnderscore r with
    | [] => [[b]]          -- unreachable
    | p :: ps => if b = 0x5F then [] :: p :: ps else (b :: p) :: ps

/-- `abi.ToCamelCase` (v1.10.16): split on '_', upper-case the first byte of every non-empty part, concatenate -/
def camelPart (p : Bytes) : Bytes :=
  match p with
  | [] => []
  | b :: r => upper b :: r

def toCamel (s : Bytes) : Bytes := ((splitUnderscore s).map camelPart).flatten

/-- index of the struct field that json.Unmarshal assigns the object key `key` to -/
def jsonField (S : Schema) (key : Bytes) : Option Nat :=
  match S.findIdx? (fun f => f.jsonName = key) with
  | some i => some i
  | none => S.findIdx? (fun f => fold f.jsonName = fold key)

/-- index of the struct field `Type.pack` reads for component `name` (`mapArgNamesToStructFields`) -/
def packField (S : Schema) (name : Bytes) : Option Nat :=
  S.findIdx? (fun f => f.goName = toCamel name)

def zero : Ty → Val
  | .uint64 => .u64 0
  | .str => .str []
  | .bytes => .bytes []

/-- the value `Type.pack` reads for component `c`: field `ToCamelCase(c.name)`, which must have the right type -/
def pick (S : Schema) (sv : List Val) (c : Comp) : Option Val :=
  match packField S c.name with
  | none => none
  | some i => match sv[i]? with
    | some v => if v.ty = c.ty then some v else none
    | none => none

def pickAll (S : Schema) (sv : List Val) : Layout → Option (List Val)
  | [] => some []
  | c :: r => match pick S sv c, pickAll S sv r with
    | some v, some vs => some (v :: vs)
    | _, _ => none

/-- struct (values in field order) → values in tuple-component order; none = Pack error -/
def toTuple (L : Layout) (S : Schema) (sv : List Val) : Option (List Val) :=
  -- "abi: multiple outputs mapping to the same struct field"
  if ¬ (L.map (fun c => packField S c.name)).Nodup then none else pickAll S sv L

/-- assignment of the decoded component values to the struct fields: field `j` receives the value of the last
    component whose key resolves to `j` (if its JSON kind fits the field type; a mismatch is an Unmarshal
    error = none), fields nobody resolves to keep their zero value -/
def assign (S : Schema) : List (Comp × Val) → List Val → Option (List Val)
  | [], acc => some acc
  | (c, v) :: r, acc =>
    match jsonField S c.name with
    | none => assign S r acc
    | some j =>
      match S[j]? with
      | none => assign S r acc
      | some f =>
        -- JSON kinds: number for uint64, string for both string and []byte (base64)
        if f.ty = c.ty then assign S r (acc.set j (jsonVal v))
        else none

def fromTuple (L : Layout) (S : Schema) (vs : List Val) : Option (List Val) :=
  assign S (L.zip vs) (S.map (fun f => zero f.ty))

/-- `ABIPack` of a struct -/
def packStruct (L : Layout) (S : Schema) (sv : List Val) : Option Bytes :=
  (toTuple L S sv).map encodeTop

/-- `ABIDecode` into a zero struct -/
def decodeStruct (L : Layout) (S : Schema) (data : Bytes) : Option (List Val) :=
  match decodeTop L.tys data with
  | none => none
  | some vs => fromTuple L S vs

/-- every component is decoded into the field it was packed from, with the same type, and no two components
    share a field — decidable on the generated tables -/
def TagsMatch (L : Layout) (S : Schema) : Prop :=
  (∀ c ∈ L, ∃ j, jsonField S c.name = some j ∧ packField S c.name = some j ∧ (S[j]?).map (·.ty) = some c.ty) ∧
  (L.map (fun c => packField S c.name)).Nodup

instance (L : Layout) (S : Schema) : Decidable (TagsMatch L S) := by
  unfold TagsMatch
  have : ∀ c : Comp, Decidable (∃ j, jsonField S c.name = some j ∧ packField S c.name = some j ∧ (S[j]?).map (·.ty) = some c.ty) := by
    intro c
    cases h : jsonField S c.name with
    | none => exact isFalse (by intro ⟨j, h1, _⟩; simp at h1)
    | some j =>
      by_cases h2 : packField S c.name = some j ∧ (S[j]?).map (·.ty) = some c.ty
      · exact isTrue ⟨j, rfl, h2.1, h2.2⟩
      · exact isFalse (by intro ⟨j', h1, h3, h4⟩; cases h1; exact h2 ⟨h3, h4⟩)
  infer_instance

/-- every struct field is covered by a component (otherwise Pack drops it) -/
def Covers (L : Layout) (S : Schema) : Prop :=
  ∀ j, j < S.length → ∃ c ∈ L, packField S c.name = some j

instance (L : Layout) (S : Schema) : Decidable (Covers L S) := by
  unfold Covers
  have : ∀ j, Decidable (∃ c ∈ L, packField S c.name = some j) := fun j => by
    have : Decidable (L.any (fun c => decide (packField S c.name = some j)) = true) := inferInstance
    cases this with
    | isTrue h => exact isTrue (by simpa [List.any_eq_true] using h)
    | isFalse h => exact isFalse (by simpa [List.any_eq_true] using h)
  exact Nat.decidableBallLT _ _

end TM.Json
