import TeleportModel.Base.Util
/-
C06 (b) — who can drive the bridge, contract level.

Abstract model of the caller guards of the three XIBC system contracts
(syscontracts/xibc_packet/packet.json, syscontracts/xibc_endpoint/Endpoint.json, Execute.json — byte code
only, no source in the repository): a table `guardOf : Method → CallerClass` (one row per non-view method
of the ABI files), the effective caller `callerOf : CallPath → Address` of every way a method can be
reached, and `call`, the dispatcher: unknown selector or caller not permitted ⇒ revert (EVM revert = no
state change), otherwise the (abstract) body runs.

The guards live in byte code: this model is VALIDATED, exhaustively over the finite table
{method} × {call path}, on the real byte code by harness/c06_evm_test.go on every run — it is not proved
about the byte code. The module addresses are those computed by the Go code
(x/xibc/core/packet/types/keys.go, x/aggregate/types/keys.go) and arrive through `addr` ops.
Core Lean only.
-/
namespace TM.Guard

inductive Contract where
  | packet | endpoint | execute
  deriving Repr, DecidableEq

inductive CallerClass where
  | packetModule        -- authtypes.NewModuleAddress("packet")     0x7426aFC4…5235
  | aggregateModule     -- authtypes.NewModuleAddress("aggregate")  0xee3c65b5…ed3c
  | packetContract      -- 0x…20000001
  | endpointContract    -- 0x…20000002
  | anyone              -- no caller guard (public entry point)
  deriving Repr, DecidableEq

structure Method where
  contract : Contract
  name : String
  deriving Repr, DecidableEq

/-- One row per non-view method of the three ABI files (the harness regenerates the method list from the
JSON on every run and reports the class it observes on the byte code; a method without a row, or with
another class, breaks the correspondence). -/
def table : List (Method × CallerClass) :=
  [ (⟨.packet, "OnAcknowledgePacket"⟩, .packetModule),
    (⟨.packet, "onRecvPacket"⟩, .packetModule),
    (⟨.packet, "sendPacketFeeToRelayer"⟩, .packetModule),
    (⟨.packet, "setAckStatus"⟩, .packetModule),
    (⟨.packet, "setChainName"⟩, .packetModule),
    (⟨.packet, "setSequence"⟩, .packetModule),
    (⟨.packet, "sendPacket"⟩, .endpointContract),
    (⟨.packet, "addPacketFee"⟩, .anyone),
    (⟨.endpoint, "bindToken"⟩, .aggregateModule),
    (⟨.endpoint, "enableTimeBasedSupplyLimit"⟩, .aggregateModule),
    (⟨.endpoint, "disableTimeBasedSupplyLimit"⟩, .aggregateModule),
    (⟨.endpoint, "onRecvPacket"⟩, .packetContract),
    (⟨.endpoint, "onAcknowledgementPacket"⟩, .packetContract),
    (⟨.endpoint, "crossChainCall"⟩, .anyone),
    (⟨.execute, "execute"⟩, .anyone) ]

def guardOf (m : Method) : Option CallerClass :=
  (table.find? (fun r => r.1 == m)).map (·.2)

/-- privileged = guarded by a fixed module / contract address. -/
def privileged (m : Method) : Bool :=
  match guardOf m with
  | some .anyone => false
  | some _ => true
  | none => false

abbrev Address := Bytes

/-- the five addresses the chain's own code uses. -/
structure Consts where
  packetModule : Address
  aggregateModule : Address
  packetC : Address
  endpointC : Address
  executeC : Address
  deriving Repr, DecidableEq

def required (k : Consts) : CallerClass → Option Address
  | .packetModule => some k.packetModule
  | .aggregateModule => some k.aggregateModule
  | .packetContract => some k.packetC
  | .endpointContract => some k.endpointC
  | .anyone => none

def permits (k : Consts) (g : CallerClass) (a : Address) : Bool :=
  match required k g with
  | none => true
  | some r => a == r

/-- every way a method can be reached. Only the immediate caller (`msg.sender`) matters to the guards;
`origin` (tx.origin) and intermediate hops are carried to state that they do not. -/
inductive CallPath where
  | eoa (a : Address)                          -- transaction signed by an externally owned account
  | contract (origin : Address) (c : Address)  -- a contract c CALLs the method, whoever started the transaction
  | viaExecute (origin : Address)              -- call data handed to `execute.execute` by anybody
  | inPacket                                   -- call data of a received packet: module → packet → execute → method
  | module (a : Address)                       -- the chain's Go code: keeper `CallEVM` with `from = a`
  | delegate (origin : Address) (c : Address)  -- c DELEGATECALLs the method's code: c's storage, msg.sender = c's own caller
  | callcode (origin : Address) (c : Address)  -- c CALLCODEs the method's code: c's storage, msg.sender = c
  | static (origin : Address) (c : Address)    -- c STATICCALLs the method: msg.sender = c, no state change possible
  | ctor (origin : Address) (c : Address)      -- CALL from inside the constructor of the contract being created at c
  deriving Repr, DecidableEq

/-- the `execute` contract calls out with its own address as sender. -/
def callerOf (k : Consts) : CallPath → Address
  | .eoa a => a
  | .contract _ c => c
  | .viaExecute _ => k.executeC
  | .inPacket => k.executeC
  | .module a => a
  | .delegate o _ => o
  | .callcode _ c => c
  | .static _ c => c
  | .ctor _ c => c

/-- does the method's code run in the TARGET contract's own storage context with write access? DELEGATECALL and
CALLCODE run it in the calling contract's storage, STATICCALL forbids writes. -/
def writesTarget : CallPath → Bool
  | .delegate _ _ => false
  | .callcode _ _ => false
  | .static _ _ => false
  | _ => true

/-- the dispatcher + guard of a system contract over an abstract contract state `σ` with abstract method
bodies (`none` = the body itself reverts). Returns the new state and "did not revert". -/
def call {σ : Type} (k : Consts) (body : Method → σ → Option σ) (m : Method) (cp : CallPath) (s : σ) : σ × Bool :=
  match guardOf m with
  | none => (s, false)
  | some g =>
    if permits k g (callerOf k cp) then
      match body m s with
      | some s' => if writesTarget cp then (s', true) else (s, true)
      | none => (s, false)
    else (s, false)

/-- verdict of the guard alone (what the exhaustive table run compares). -/
def guardVerdict (k : Consts) (m : Method) (cp : CallPath) : Option Bool :=
  (guardOf m).map (fun g => permits k g (callerOf k cp))

/-- `PostTxProcessing` (x/xibc/core/packet/keeper/evm_hooks.go): a log is interpreted as `PacketSent` — and makes the
keeper commit a packet and bump the sequence — only if the EMITTING address is the packet contract. -/
def hookAccepts (k : Consts) (logAddr : Address) : Bool := logAddr == k.packetC

/-- the hook over an abstract keeper state: `send` is what `SendPacket` would do with the logged packet. -/
def hook {σ : Type} (k : Consts) (send : σ → σ) (logAddr : Address) (s : σ) : σ :=
  if hookAccepts k logAddr then send s else s

/-- the hook over a whole receipt: `PostTxProcessing` walks the logs in order and treats EACH log on its own. -/
def hookRun {σ : Type} (k : Consts) (send : σ → σ) : List Address → σ → σ
  | [], s => s
  | a :: rest, s => hookRun k send rest (hook k send a s)

end TM.Guard
