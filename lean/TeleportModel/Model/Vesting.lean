import TeleportModel.Base.Util
/-
Model of x/rvesting: `validatePerBlockReward` (types/param.go), `BeginBlocker` (module/abci.go),
`GetRemainingCoin` / `SendVestedCoins` (keeper/keeper.go) together with the parts of cosmos-sdk
v0.45.2 they rely on (`Coins.Add` merge dropping zeros, `GetBalance` → `NewCoin` denom validation,
`SendCoins` → `subUnlockedCoins` insufficient-funds check).  Executable; core Lean only.
-/
namespace TM.Vesting

abbrev Denom := String

/-- cosmos-sdk v0.45.2 denom regexp: a letter, then 2..127 characters that are letters, digits, slash or dash
(the colon, dot and underscore of later SDK versions are NOT accepted). -/
def denomHead (c : Char) : Bool := c.isAlpha
def denomTail (c : Char) : Bool := c.isAlphanum || c == '/' || c == '-'
def validDenom (d : Denom) : Bool :=
  match d.toList with
  | [] => false
  | c :: cs => denomHead c && cs.all denomTail && 2 ≤ cs.length && cs.length ≤ 127

/-- One entry of the `PerBlockReward` parameter as it arrives (amount may be missing = nil Int). -/
structure Entry where
  denom : Denom
  amount : Option Int
  deriving Repr, DecidableEq

/-- `validatePerBlockReward`. -/
def validate (es : List Entry) : Bool :=
  !es.isEmpty &&
  es.all (fun e => e.denom ≠ "" && validDenom e.denom &&
            (match e.amount with | some a => decide (0 ≤ a) | none => false)) &&
  decide ((es.map (·.denom)).Nodup)

abbrev Coins := List (Denom × Int)

def stored (es : List Entry) : Coins := es.map (fun e => (e.denom, e.amount.getD 0))

structure State where
  enabled : Bool
  reward : Coins            -- the stored `PerBlockReward`
  pool : Denom → Int        -- balance of the rvesting module account
  fee : Denom → Int         -- balance of the fee collector

/-- amount listed for `d` (0 when absent). -/
def amountOf (cs : Coins) (d : Denom) : Int :=
  match cs with
  | [] => 0
  | (d', a) :: rest => if d' = d then a + amountOf rest d else amountOf rest d

/-- `Coins.Add` with one coin, up to order: merge equal denominations, drop zero results. -/
def addCoin (cs : Coins) (d : Denom) (a : Int) : Coins :=
  match cs with
  | [] => if a = 0 then [] else [(d, a)]
  | (d', a') :: rest =>
    if d' = d then (if a' + a = 0 then rest else (d', a' + a) :: rest)
    else (d', a') :: addCoin rest d a

/-- The loop of `BeginBlocker`: `none` = panic (`GetBalance` on an invalid denomination). -/
def vestLoop (pool : Denom → Int) : Coins → Coins → Option Coins
  | [], acc => some acc
  | (d, a) :: rest, acc =>
    if !validDenom d then none
    else
      let rem := pool d
      if rem = 0 then vestLoop pool rest acc
      else if rem < a then vestLoop pool rest (addCoin acc d rem)
      else vestLoop pool rest (addCoin acc d a)

/-- `subUnlockedCoins` precondition for every coin: positive amount, enough balance. -/
def canSend (pool : Denom → Int) (cs : Coins) : Bool :=
  cs.all (fun c => decide (0 < c.2) && decide (c.2 ≤ pool c.1))

def applySend (s : State) (cs : Coins) : State :=
  { s with pool := fun d => s.pool d - amountOf cs d, fee := fun d => s.fee d + amountOf cs d }

def isZeroCoins (cs : Coins) : Bool := cs.all (fun c => c.2 = 0)

/-- `BeginBlocker`. -/
def beginBlock (s : State) : Outcome State :=
  if !s.enabled then .ok s
  else match vestLoop s.pool s.reward [] with
    | none => .panic "GetBalance: invalid denom"
    | some v =>
      if isZeroCoins v then .ok s
      else if canSend s.pool v then .ok (applySend s v)
      else .panic "SendVestedCoins failed"

/-- Parameter change through `Subspace.Update`: validated, then stored. -/
def setReward (s : State) (es : List Entry) : Outcome State :=
  if validate es then .ok { s with reward := stored es } else .err "invalid"

def fund (s : State) (d : Denom) (a : Int) : State :=
  { s with pool := fun d' => if d' = d then s.pool d' + a else s.pool d' }

def init : State :=
  { enabled := false, reward := [("atele", 100000000000000000)], pool := fun _ => 0, fee := fun _ => 0 }

end TM.Vesting
