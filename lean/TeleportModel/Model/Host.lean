import TeleportModel.Base.Util
import TeleportModel.Model.Abi
/-
C19 — store keys of the XIBC module (x/xibc/core/host) and the parsers that read them back.

* `Template` / `render`: interpreter of the path templates that tools/gofacts regenerates from keys.go
  (Generated/HostKeys.lean): literal bytes, a string parameter, a uint64 printed with %d, the 8-byte big-endian
  revision number / revision height of a Height, a Height printed with %s.
* the real parsers, transcribed:
    packet keeper  `iterateHashes` (strings.Split + strconv.ParseUint, panics), `host.ParsePath`,
    client keeper  `splitClientKey`, `IterateConsensusStates`, `IterateClients` (positional, after f22d284),
    tendermint     `IterateProcessedTime` filter, `GetHeightFromIterationKey`,
    bsc / eth      `IterateConsensusStateAscending` filter + `GetHeightFromIterationKey`.
* identifier rules of validate.go (`IdRule`, interpreted from Generated/Validate.lean).
Core Lean only.
-/
namespace TM.Host
open TM

/-- byte-string constants of keys.go / tendermint store.go (regenerated) -/
structure Consts where
  clientStorePrefix : Bytes
  clientState : Bytes
  consensusStatePrefix : Bytes
  nextSeqSendPrefix : Bytes
  commitmentPrefix : Bytes
  relayerPrefix : Bytes
  ackPrefix : Bytes
  receiptPrefix : Bytes
  processedTimeSuffix : Bytes
  iterateConsensusStatePrefix : Bytes
  recentSignersPrefix : Bytes
  pendingValidatorsPrefix : Bytes
  ethHeaderIndexPrefix : Bytes
  ethRootMainPrefix : Bytes

inductive PTy where
  | str | u64 | height | hash
  deriving DecidableEq, Repr

inductive Seg where
  | lit (b : Bytes)
  | str (i : Nat)
  | dec (i : Nat)
  | revBE (i : Nat)
  | heightBE (i : Nat)
  | heightStr (i : Nat)     -- a Height printed with %s (= Height.String)
  | hashHex (i : Nat)       -- a common.Hash printed with %s: "0x" ++ 64 lower-case hex digits
  | decRev (i : Nat)        -- the revision number of a Height printed with %d
  | decHeight (i : Nat)     -- the revision height of a Height printed with %d
  deriving DecidableEq, Repr

structure Template where
  params : List PTy
  segs : List Seg
  deriving DecidableEq, Repr

inductive Arg where
  | s (b : Bytes)
  | n (v : UInt64)
  | h (rev height : UInt64)
  | hash (b : Bytes)
  deriving DecidableEq, Repr

def Arg.ty : Arg → PTy
  | .s _ => .str
  | .n _ => .u64
  | .h _ _ => .height
  | .hash _ => .hash

def slash : UInt8 := 47

/-! ### numbers -/

def digit (n : Nat) : UInt8 := UInt8.ofNat (48 + n % 10)

/-- decimal digits, most significant first (`%d`, strconv.FormatUint); fuel = number of digits allowed -/
def toDecF : Nat → Nat → Bytes
  | 0, _ => []
  | f+1, n => if n < 10 then [digit n] else toDecF f (n / 10) ++ [digit n]

/-- a uint64 has at most 20 decimal digits -/
def toDec (n : UInt64) : Bytes := toDecF 20 n.toNat

def isDigit (b : UInt8) : Bool := 48 ≤ b && b ≤ 57

/-- one step of strconv.ParseUint(s, 10, 64): digit check and range check -/
def parseStep (acc : Nat) (c : UInt8) : Option Nat :=
  if isDigit c then
    let a := acc * 10 + (c.toNat - 48)
    if a < 2 ^ 64 then some a else none
  else none

def parseNatFrom : Nat → Bytes → Option Nat
  | acc, [] => some acc
  | acc, c :: r => match parseStep acc c with
    | none => none
    | some a => parseNatFrom a r

/-- strconv.ParseUint(s, 10, 64): no sign, no underscore, non-empty, < 2^64; leading zeros accepted -/
def parseUint (s : Bytes) : Option UInt64 :=
  if s = [] then none else (parseNatFrom 0 s).map UInt64.ofNat

/-- big-endian bytes (shared with the ABI model) -/
abbrev toBE := Abi.toBE
abbrev ofBE := Abi.ofBE

/-- sdk.Uint64ToBigEndian -/
def be8 (n : UInt64) : Bytes := toBE 8 n.toNat

/-! ### templates -/

def hexDigitB (n : Nat) : UInt8 := if n < 10 then UInt8.ofNat (48 + n) else UInt8.ofNat (87 + n)

/-- lower-case hex text of a byte string -/
def hexBytes : Bytes → Bytes
  | [] => []
  | b :: r => hexDigitB (b.toNat / 16) :: hexDigitB (b.toNat % 16) :: hexBytes r

def renderSeg (args : List Arg) : Seg → Option Bytes
  | .lit b => some b
  | .str i => match args[i]? with | some (.s b) => some b | _ => none
  | .dec i => match args[i]? with | some (.n v) => some (toDec v) | _ => none
  | .revBE i => match args[i]? with | some (.h r _) => some (be8 r) | _ => none
  | .heightBE i => match args[i]? with | some (.h _ h) => some (be8 h) | _ => none
  | .heightStr i => match args[i]? with | some (.h r h) => some (toDec r ++ [45] ++ toDec h) | _ => none
  | .hashHex i => match args[i]? with | some (.hash b) => some ([48, 120] ++ hexBytes b) | _ => none
  | .decRev i => match args[i]? with | some (.h r _) => some (toDec r) | _ => none
  | .decHeight i => match args[i]? with | some (.h _ h) => some (toDec h) | _ => none

def renderSegs (args : List Arg) : List Seg → Option Bytes
  | [] => some []
  | s :: r => match renderSeg args s, renderSegs args r with
    | some a, some b => some (a ++ b)
    | _, _ => none

def render (T : Template) (args : List Arg) : Option Bytes :=
  if args.map Arg.ty = T.params then renderSegs args T.segs else none

/-! ### strings.Split / prefixes -/

/-- strings.Split(s, sep) for a one-byte separator: always at least one part -/
def splitOn (sep : UInt8) : Bytes → List Bytes
  | [] => [[]]
  | b :: r =>
    match splitOn sep r with
    | [] => [[b]]          -- unreachable
    | p :: ps => if b = sep then [] :: p :: ps else (b :: p) :: ps

def hasPrefix (s p : Bytes) : Bool := p.isPrefixOf s
def hasSuffix (s p : Bytes) : Bool := p.isSuffixOf s

/-! ### packet keeper -/

/-- key parser of `iterateHashes` (panics on short keys and on a non-numeric last segment) -/
def parseHashesKey (key : Bytes) : Outcome (Bytes × Bytes × UInt64) :=
  let ks := splitOn slash key
  match ks[1]?, ks[2]? with
  | some a, some b =>
    match parseUint (ks.getLastD []) with
    | some n => .ok (a, b, n)
    | none => .panic "iterateHashes: ParseUint"
  | _, _ => .panic "iterateHashes: index out of range"

/-- host.ParsePath -/
def parsePath (path : Bytes) : Outcome (Bytes × Bytes) :=
  let ks := splitOn slash path
  match ks[1]?, ks[2]? with
  | some a, some b => .ok (a, b)
  | _, _ => .err "cannot parse path"

/-- sdk.BigEndianToUint64 -/
def bigEndianToUint64 (b : Bytes) : Outcome UInt64 :=
  if b.length = 0 then .ok 0
  else if b.length < 8 then .panic "BigEndianToUint64: short slice"
  else .ok (UInt64.ofNat (ofBE (b.take 8)))

/-! ### client keeper (repaired, positional) -/

/-- bytes.IndexByte(s, '/') -/
def idxSlash : Bytes → Option Nat
  | [] => none
  | b :: r => if b = slash then some 0 else (idxSlash r).map (· + 1)

/-- `splitClientKey`: "clients/<chainName>/<path>" ↦ (chainName, path) -/
def splitClientKey (c : Consts) (key : Bytes) : Option (Bytes × Bytes) :=
  let pre := c.clientStorePrefix ++ [slash]
  if hasPrefix key pre then
    let rest := key.drop pre.length
    match idxSlash rest with
    | some i => some (rest.take i, rest.drop (i + 1))
    | none => none
  else none

/-- key test + height extraction of `IterateConsensusStates` -/
def parseConsKey (c : Consts) (key : Bytes) : Option (Bytes × UInt64 × UInt64) :=
  match splitClientKey c key with
  | none => none
  | some (name, path) =>
    let cp := c.consensusStatePrefix ++ [slash]
    if path.length ≠ cp.length + 16 || !hasPrefix path cp then none
    else
      let hb := path.drop cp.length
      some (name, UInt64.ofNat (ofBE (hb.take 8)), UInt64.ofNat (ofBE (hb.drop 8)))

/-- key test of `IterateClients` -/
def parseClientKey (c : Consts) (key : Bytes) : Option Bytes :=
  match splitClientKey c key with
  | some (name, path) => if path = c.clientState then some name else none
  | none => none

/-- `ClientStore` prefix: "clients/<chainName>/" -/
def clientStorePrefixOf (c : Consts) (name : Bytes) : Bytes := c.clientStorePrefix ++ [slash] ++ name ++ [slash]

/-! ### light-client stores (keys relative to the client store) -/

/-- Tendermint `IterateProcessedTime`: which keys under "consensusStates" are visited -/
def tmIsProcessedTimeKey (c : Consts) (key : Bytes) : Bool :=
  !(key.length = c.consensusStatePrefix.length + 1 + 16 || !hasSuffix key c.processedTimeSuffix)

/-- Tendermint `GetHeightFromIterationKey` (slice expressions may panic) -/
def tmHeightFromIterKey (c : Consts) (key : Bytes) : Outcome (UInt64 × UInt64) :=
  let b := key.drop c.iterateConsensusStatePrefix.length
  if b.length < 8 then .panic "slice bounds out of range"
  else
    let hb := b.drop 8
    if hb.length < 8 then .panic "BigEndian.Uint64: short slice"
    else .ok (UInt64.ofNat (ofBE (b.take 8)), UInt64.ofNat (ofBE (hb.take 8)))

/-- BSC / ETH `IterateConsensusStateAscending`: only keys of exactly this length are consensus-state keys -/
def evmIsConsKey (c : Consts) (key : Bytes) : Bool :=
  key.length = c.consensusStatePrefix.length + 1 + 16

/-- BSC / ETH `GetHeightFromIterationKey` on a key that passed `evmIsConsKey` -/
def evmHeightFromKey (c : Consts) (key : Bytes) : Outcome (UInt64 × UInt64) :=
  if key.length < c.consensusStatePrefix.length + 1 then .panic "slice bounds out of range" else
  let b := key.drop (c.consensusStatePrefix.length + 1)
  if b.length < 8 then .panic "slice bounds out of range"
  else
    let hb := b.drop 8
    match bigEndianToUint64 hb with
    | .ok h => .ok (UInt64.ofNat (ofBE (b.take 8)), h)
    | .err e => .err e
    | .panic p => .panic p

/-! ### identifier rules (validate.go) -/

inductive IdCheck where
  | blank | noSlash | lenRange | charClass
  deriving DecidableEq, Repr

structure IdRule where
  checks : List IdCheck
  cls : List (UInt8 × UInt8)
  min : Nat
  max : Nat

def inClass (cls : List (UInt8 × UInt8)) (b : UInt8) : Bool := cls.any (fun r => r.1 ≤ b && b ≤ r.2)

/-- ASCII white space of strings.TrimSpace; non-ASCII Unicode spaces are multi-byte and can only make a
    blank identifier that the later checks (length is fine, character class is not) reject as well -/
def isSpace (b : UInt8) : Bool := b = 9 || b = 10 || b = 11 || b = 12 || b = 13 || b = 32

def runCheck (r : IdRule) (id : Bytes) : IdCheck → Bool
  | .blank => !(id.all isSpace)
  | .noSlash => !id.contains slash
  | .lenRange => r.min ≤ id.length && id.length ≤ r.max
  | .charClass => id ≠ [] && id.all (inClass r.cls)

/-- `defaultIdentifierValidator(id, min, max) == nil` -/
def validName (r : IdRule) (id : Bytes) : Bool := r.checks.all (runCheck r id)

/-- table-level condition under which a valid name cannot contain the separator -/
def IdRule.excludesSlash (r : IdRule) : Bool :=
  r.checks.contains .noSlash || (r.checks.contains .charClass && !inClass r.cls slash)

/-! ### key-sorted store (the one `xibc` KV store shared by the client and packet keepers) -/

def bytesLt : Bytes → Bytes → Bool
  | [], [] => false
  | [], _ :: _ => true
  | _ :: _, [] => false
  | a :: r, b :: s => if a < b then true else if b < a then false else bytesLt r s

def storeSet {α} (k : Bytes) (v : α) : List (Bytes × α) → List (Bytes × α)
  | [] => [(k, v)]
  | (k', v') :: r =>
    if k = k' then (k, v) :: r
    else if bytesLt k k' then (k, v) :: (k', v') :: r
    else (k', v') :: storeSet k v r

/-- sdk.KVStorePrefixIterator: entries whose key starts with `p`, ascending -/
def prefixIter {α} (p : Bytes) (st : List (Bytes × α)) : List (Bytes × α) :=
  st.filter (fun kv => hasPrefix kv.1 p)

/-! ### per-path prefix scans (packet keeper `IteratePacketCommitmentByPath`, gRPC `PacketCommitments` / `PacketAcknowledgements`) -/

/-- the entries whose key starts with `p`, in key order (KVStorePrefixIterator / prefix.NewStore iteration) -/
def prefixScan {α} (p : Bytes) (st : List (Bytes × α)) : List (Bytes × α) := prefixIter p st

inductive ScanParser where
  | iterateHashes | parsePath | splitLast
  deriving DecidableEq, Repr

/-- a scan over `host.XPrefixPath(src, dst)` together with the key function whose keys it enumerates (regenerated) -/
structure PathScan where
  fn : String
  prefixT : Template
  keyT : Template
  parser : ScanParser

/-- a scan over a whole key family (regenerated) -/
structure FamilyScan where
  fn : String
  pre : Bytes
  parser : ScanParser

/-- sequence as read by `iterateHashes` (split the FULL key, panics) -/
def keeperSeq (k : Bytes) : Outcome UInt64 :=
  match parseHashesKey k with
  | .ok (_, _, n) => .ok n
  | .err e => .err e
  | .panic s => .panic s

/-- sequence as read by the gRPC handlers: the key RELATIVE to the prefix store, split on '/', last part,
    strconv.ParseUint; a failure is returned as the error of the query -/
def grpcSeq (pre k : Bytes) : Outcome UInt64 :=
  match parseUint ((splitOn slash (k.drop pre.length)).getLastD []) with
  | some n => .ok n
  | none => .err "ParseUint"

/-- a by-path scan: every entry under the prefix is reported for the REQUESTED (src, dst) — that is what
    `GetAllPacketCommitmentsByPath` and the gRPC handlers do (`NewPacketState(req.SrcChain, req.DstChain, seq, value)`) -/
def scanByPath {V} (parse : Bytes → Outcome UInt64) (pre a b : Bytes) :
    List (Bytes × V) → Outcome (List (Bytes × Bytes × UInt64 × V))
  | [] => .ok []
  | (k, v) :: r =>
    if hasPrefix k pre then
      match parse k with
      | .ok n =>
        match scanByPath parse pre a b r with
        | .ok l => .ok ((a, b, n, v) :: l)
        | .err e => .err e
        | .panic s => .panic s
      | .err e => .err e
      | .panic s => .panic s
    else scanByPath parse pre a b r

def scanParserOf (p : ScanParser) (pre : Bytes) : Bytes → Outcome UInt64 :=
  match p with
  | .splitLast => grpcSeq pre
  | _ => keeperSeq

/-! ### point accessors of the packet keeper (Get* / Set* / Has* / delete*) -/

inductive StoreOp where
  | get | set | has | delete
  deriving DecidableEq, Repr

/-- `store.<op>(host.<keyFn>(…))` inside the keeper method `fn` (regenerated); `verbatim` = the method's own
    parameters reach the key function unchanged and in order -/
structure Accessor where
  fn : String
  family : String
  op : StoreOp
  keyFn : String
  keyT : Template
  verbatim : Bool

/-- a keeper method that only forwards to another accessor (regenerated) -/
structure Delegate where
  fn : String
  family : String
  target : String
  verbatim : Bool

/-- KVStore.Get on the key-sorted store -/
def storeGet {α} (k : Bytes) : List (Bytes × α) → Option α
  | [] => none
  | (k', v) :: r => if k = k' then some v else storeGet k r

/-! ### parsers that read a key / a text form back (records regenerated from the source by tools/gofacts) -/

inductive BEDecoder where
  | binaryBE     -- binary.BigEndian.Uint64: panics below 8 bytes, reads the first 8
  | sdkBE        -- sdk.BigEndianToUint64: 0 for the empty slice, otherwise as above
  deriving DecidableEq, Repr

/-- `GetHeightFromIterationKey`: b := key[len(skip):]; revision := dec(b[revLo:revHi]); height := dec(b[heightLo:]) -/
structure IterKeyParser where
  skip : Bytes
  revLo : Nat
  revHi : Nat
  heightLo : Nat
  decoder : BEDecoder
  deriving DecidableEq, Repr

/-- `ParseHeight`: strings.Split(s, sep); exactly `parts` parts; ParseUint(part revIdx), ParseUint(part heightIdx) -/
structure HeightParser where
  sep : UInt8
  parts : Nat
  revIdx : Nat
  heightIdx : Nat
  base : Nat
  bits : Nat
  deriving DecidableEq, Repr

/-- `iterateHashes`: ks := strings.Split(key, sep); src := ks[srcIdx]; dst := ks[dstIdx]; ParseUint(ks[len-seqFromEnd]) -/
structure HashKeyParser where
  sep : UInt8
  srcIdx : Nat
  dstIdx : Nat
  seqFromEnd : Nat
  base : Nat
  bits : Nat
  deriving DecidableEq, Repr

/-- `host.ParsePath` -/
structure PathParser where
  sep : UInt8
  minParts : Nat
  srcIdx : Nat
  dstIdx : Nat
  deriving DecidableEq, Repr

/-- bsc `GetRecentSigners` / `DeleteAllSigner`: ParseHeight(strings.Split(key, sep)[heightIdx]) -/
structure SignerKeyParser where
  fn : String
  sep : UInt8
  heightIdx : Nat

def decodeBE : BEDecoder → Bytes → Outcome UInt64
  | .binaryBE, b => if b.length < 8 then .panic "BigEndian.Uint64: short slice" else .ok (UInt64.ofNat (ofBE (b.take 8)))
  | .sdkBE, b => bigEndianToUint64 b

/-- interpreter of an `IterKeyParser` (slice expressions panic when out of range) -/
def heightFromIterKey (p : IterKeyParser) (key : Bytes) : Outcome (UInt64 × UInt64) :=
  if key.length < p.skip.length then .panic "slice bounds out of range" else
  let b := key.drop p.skip.length
  if p.revHi < p.revLo || b.length < p.revHi || b.length < p.heightLo then .panic "slice bounds out of range" else
  match decodeBE p.decoder ((b.drop p.revLo).take (p.revHi - p.revLo)) with
  | .ok r =>
    match decodeBE p.decoder (b.drop p.heightLo) with
    | .ok h => .ok (r, h)
    | .err e => .err e
    | .panic s => .panic s
  | .err e => .err e
  | .panic s => .panic s

/-- strconv.ParseUint(s, base, bits) for the only parameters the model knows (10, 64) -/
def parseUintP (base bits : Nat) (s : Bytes) : Option UInt64 :=
  if base = 10 ∧ bits = 64 then parseUint s else none

/-- interpreter of a `HeightParser` -/
def parseHeightP (p : HeightParser) (s : Bytes) : Option (UInt64 × UInt64) :=
  let ks := splitOn p.sep s
  if ks.length ≠ p.parts then none else
  match ks[p.revIdx]?, ks[p.heightIdx]? with
  | some a, some b =>
    match parseUintP p.base p.bits a with
    | none => none
    | some r =>
      match parseUintP p.base p.bits b with
      | none => none
      | some h => some (r, h)
  | _, _ => none

/-- interpreter of a `HashKeyParser` (index expressions and a failing ParseUint panic) -/
def parseHashesKeyP (p : HashKeyParser) (key : Bytes) : Outcome (Bytes × Bytes × UInt64) :=
  let ks := splitOn p.sep key
  match ks[p.srcIdx]?, ks[p.dstIdx]? with
  | some a, some b =>
    if ks.length < p.seqFromEnd then .panic "iterateHashes: index out of range" else
    match parseUintP p.base p.bits (ks.getD (ks.length - p.seqFromEnd) []) with
    | some n => .ok (a, b, n)
    | none => .panic "iterateHashes: ParseUint"
  | _, _ => .panic "iterateHashes: index out of range"

/-- interpreter of a `PathParser` -/
def parsePathP (p : PathParser) (path : Bytes) : Outcome (Bytes × Bytes) :=
  let ks := splitOn p.sep path
  if ks.length < p.minParts then .err "cannot parse path" else
  match ks[p.srcIdx]?, ks[p.dstIdx]? with
  | some a, some b => .ok (a, b)
  | _, _ => .panic "index out of range"

/-- height read from a bsc recent-signer key: index expression panics, ParseHeight failure is an error -/
def parseSignerKey (p : SignerKeyParser) (hp : HeightParser) (key : Bytes) : Outcome (UInt64 × UInt64) :=
  match (splitOn p.sep key)[p.heightIdx]? with
  | none => .panic "index out of range"
  | some t =>
    match parseHeightP hp t with
    | some h => .ok h
    | none => .err "ParseHeight"

/-- KVStore.Delete on the key-sorted store -/
def storeDel {α} (k : Bytes) (st : List (Bytes × α)) : List (Bytes × α) := st.filter (fun kv => kv.1 ≠ k)

/-! ### inventory of raw prefix iterations / prefix stores / range iterations (regenerated) -/

inductive SiteKind where
  | const       -- a constant prefix
  | param       -- the caller passes the whole prefix
  | hostFn      -- built by a function of x/xibc/core/host (covered by the template obligations)
  | sprintf     -- fmt.Sprintf with a non-constant (variable-length) component
  | concat      -- string concatenation with a non-constant component
  | fullRange   -- Iterator(nil, nil) over a store (bounded by that store's own prefix)
  | other
  deriving DecidableEq, Repr

/-- one site; `terminated` = a prefix built from a variable-length component ends with the separator '/';
    `known` = the site is listed in the expected inventory (props/C19.json "prefix_sites") -/
structure PrefixSite where
  id : String
  kind : SiteKind
  terminated : Bool
  known : Bool

/-- range delete: every entry whose key starts with `p` is removed (what a clear-by-prefix loop does) -/
def storeClear {α} (p : Bytes) (st : List (Bytes × α)) : List (Bytes × α) := st.filter (fun kv => !hasPrefix kv.1 p)

/-! ### query path: client gRPC `ConsensusStates` (prefix store "clients/<name>/consensusStates/") -/

/-- key test + height of the `ConsensusStates` handler on a key RELATIVE to "clients/<name>/consensusStates/":
    a bare consensus-state key is exactly the 16 raw height bytes (whatever bytes they are — 0x2f included); anything
    longer is metadata stored below a consensus-state key ("…/processedTime") and is skipped -/
def consQueryKey (k : Bytes) : Option (UInt64 × UInt64) :=
  if k.length ≠ 16 then none else some (UInt64.ofNat (ofBE (k.take 8)), UInt64.ofNat (ofBE (k.drop 8)))

end TM.Host
