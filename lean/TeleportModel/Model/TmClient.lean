import TeleportModel.Base.Util
/-
Model of the XIBC Tendermint light client
  x/xibc/clients/light-clients/tendermint/types/{update.go, client_state.go, store.go, header.go}
  x/xibc/core/client/keeper/client.go (`CreateClient`, `UpdateClient`)
  x/xibc/core/client/types/height.go (`IsRevisionFormat`, `ParseChainID`, `SetRevisionNumber`)
together with the Tendermint v0.34.16 library functions they call
  light/verifier.go   `Verify`, `VerifyAdjacent`, `VerifyNonAdjacent`, `HeaderExpired`, `verifyNewHeaderAndVals`
  types/validator_set.go `ValidatorSetFromProto`, `updateTotalVotingPower`, `ValidateBasic`,
                         `VerifyCommitLight`, `VerifyCommitLightTrusting`, `GetByAddress`, `safeMul`
  types/block.go      `SignedHeader.ValidateBasic`
in the order in which the code checks things.  Executable; core Lean only.

External primitives are fields of `Env`: the validator-set hash, the header hash, ed25519 signature
verification over the canonical vote sign bytes, ICS-23 membership verification and proto decoding of proofs.
Structural validity of the wire objects (hash sizes, address sizes, proto decoding) arrives as flags.
Times are nanoseconds (`Int`), int64 / uint64 arithmetic is modelled where the code relies on it.
-/
namespace TM.TmClient

abbrev Hash := Bytes

/-! ### int64 / uint64 -/
def two63 : Int := 9223372036854775808
def two64 : Int := 18446744073709551616
def maxInt64 : Int := 9223372036854775807
def minInt64 : Int := -9223372036854775808
/-- `types.MaxTotalVotingPower = MaxInt64 / 8` -/
def maxTotalVotingPower : Int := 1152921504606846975
def two64N : Nat := 18446744073709551616

/-- conversion to `int64` (two's complement wrap) -/
def wrap64 (x : Int) : Int := (x + two63) % two64 - two63
/-- conversion `int64 → uint64` -/
def toU64 (x : Int) : Nat := (x % two64).toNat
/-- clip to the int64 range (`safeAddClip`) -/
def clip64 (x : Int) : Int := if x > maxInt64 then maxInt64 else if x < minInt64 then minInt64 else x

/-! ### heights -/
structure Height where
  rev : Nat
  h : Nat
  deriving DecidableEq, Repr

instance : LT Height := ⟨fun a b => a.rev < b.rev ∨ (a.rev = b.rev ∧ a.h < b.h)⟩
instance : LE Height := ⟨fun a b => a < b ∨ a = b⟩
instance (a b : Height) : Decidable (a < b) := by unfold LT.lt; unfold instLTHeight; exact inferInstance
instance (a b : Height) : Decidable (a ≤ b) := by unfold LE.le; unfold instLEHeight; exact inferInstance

def Height.max (a b : Height) : Height := if a < b then b else a

/-! ### chain identifiers and revisions (`height.go`) -/
def cDash : UInt8 := 0x2d
def cNL : UInt8 := 0x0a
def isDigit (c : UInt8) : Bool := 0x30 ≤ c && c ≤ 0x39

/-- split at the last `-` : (prefix, suffix) -/
def splitLastDash (s : Bytes) : Option (Bytes × Bytes) :=
  let r := s.reverse
  let suf := r.takeWhile (· ≠ cDash)
  match r.dropWhile (· ≠ cDash) with
  | [] => none
  | _ :: pre => some (pre.reverse, suf.reverse)

/-- regexp `^.*[^-]-{1}[1-9][0-9]*$` (`.` does not match a newline, `[^-]` does) -/
def isRevisionFormat (s : Bytes) : Bool :=
  match splitLastDash s with
  | none => false
  | some (pre, suf) =>
    (match suf with
     | [] => false
     | d :: ds => isDigit d && d ≠ 0x30 && ds.all isDigit) &&
    (match pre.reverse with
     | [] => false
     | c :: rest => c ≠ cDash && rest.all (· ≠ cNL))

def decVal (ds : Bytes) : Nat := ds.foldl (fun acc d => 10 * acc + (d.toNat - 0x30)) 0

/-- `ParseChainID`; `strconv.ParseUint` overflow is the panic of the sanity check -/
def parseChainID (s : Bytes) : Outcome Nat :=
  if !isRevisionFormat s then .ok 0
  else match splitLastDash s with
    | none => .ok 0
    | some (_, suf) =>
      let v := decVal suf
      if v < two64N then .ok v else .panic "ParseChainID"

/-- decimal digits (structural recursion on fuel; 20 digits cover `uint64`) -/
def decNatAux : Nat → Nat → Bytes → Bytes
  | 0, _, acc => acc
  | f + 1, n, acc =>
    let acc' := UInt8.ofNat (0x30 + n % 10) :: acc
    if n / 10 = 0 then acc' else decNatAux f (n / 10) acc'

def decBytes (i : Int) : Bytes :=
  if i < 0 then cDash :: decNatAux 20 (-i).toNat [] else decNatAux 20 i.toNat []

/-- `SetRevisionNumber` (only called when `isRevisionFormat`), `strconv.Itoa(int(revision))` -/
def setRevisionNumber (s : Bytes) (rev : Nat) : Bytes :=
  match splitLastDash s with
  | none => s
  | some (pre, _) => pre ++ [cDash] ++ decBytes (wrap64 rev)

/-! ### validator sets -/
structure Validator where
  addr : Nat          -- identity of the 20-byte address field
  key : Nat           -- identity of the public key
  power : Int         -- int64
  pk : Bool           -- public key present and convertible (`ValidatorFromProto`)
  addrOk : Bool       -- address has 20 bytes (`Validator.ValidateBasic`)
  deriving DecidableEq, Repr

/-- a validator set as it arrives in the header message -/
structure ValSetP where
  isNil : Bool
  vals : List Validator
  propConv : Bool      -- proposer present and convertible
  propOk : Bool        -- proposer passes `ValidateBasic`
  deriving DecidableEq, Repr

def totalOf : List Validator → Int
  | [] => 0
  | v :: vs => v.power + totalOf vs

/-- `updateTotalVotingPower`: clipped running sum, panic above `MaxTotalVotingPower` -/
def totalPowerAux : Int → List Validator → Outcome Int
  | s, [] => .ok s
  | s, v :: vs =>
    let s' := clip64 (s + v.power)
    if s' > maxTotalVotingPower then .panic "updateTotalVotingPower" else totalPowerAux s' vs

def require (c : Bool) (cls : String) : Outcome Unit := if c then .ok () else .err cls

/-- `ValidatorSetFromProto` followed by `ValidateBasic`; returns the validators and the cached total power -/
def valSetFromProto (p : ValSetP) : Outcome (List Validator × Int) := do
  require (!p.isNil) "valset-nil"
  require (p.vals.all (·.pk)) "valset-conv"
  require p.propConv "valset-proposer"
  let total ← totalPowerAux 0 p.vals
  require (!p.vals.isEmpty) "valset-empty"
  require (p.vals.all (fun v => decide (0 ≤ v.power) && v.addrOk)) "valset-basic"
  require p.propOk "valset-proposer-basic"
  pure (p.vals, total)

/-! ### commits and headers -/
inductive Flag where
  | absent | commit | nil | bad
  deriving DecidableEq, Repr

structure CommitSig where
  flag : Flag
  addr : Nat
  deriving DecidableEq, Repr

structure Commit where
  height : Int
  blockHash : Hash
  basicOk : Bool          -- `CommitFromProto` / `Commit.ValidateBasic` structural checks
  sigs : List CommitSig
  deriving DecidableEq, Repr

/-- the Tendermint block header -/
structure TmHeader where
  chainId : Bytes
  height : Int            -- int64
  time : Int              -- ns
  valsHash : Hash
  nextValsHash : Hash
  appHash : Hash
  structOk : Bool         -- `Header.ValidateBasic` apart from the height sign
  other : Bytes           -- every other field (relevant only through the header hash)
  deriving DecidableEq, Repr

/-- the client message `Header` -/
structure Header where
  sh : TmHeader
  commit : Option Commit
  vals : ValSetP
  trustedHeight : Height
  trustedVals : ValSetP
  deriving DecidableEq, Repr

structure Env where
  valsHash : List Validator → Hash
  headerHash : TmHeader → Hash
  /-- `val.PubKey.VerifySignature(commit.VoteSignBytes(chainID, idx), commit.Signatures[idx].Signature)` -/
  sigValid : Bytes → Commit → Nat → Nat → Bool
  /-- proof bytes decode into a `MerkleProof` -/
  proofDecodes : Bytes → Bool
  /-- `merkleProof.VerifyMembership(specs, root, path, value)` : root, proof, path identity, value -/
  membership : Hash → Bytes → Bytes → Bytes → Bool

/-! ### who signed (semantic reading of a commit, used by the theorems and by nothing else) -/
def anySig (env : Env) (cid : Bytes) (c : Commit) (key : Nat) : Nat → List CommitSig → Bool
  | _, [] => false
  | i, s :: ss => (decide (s.flag = .commit) && env.sigValid cid c i key) || anySig env cid c key (i + 1) ss

/-- some for-block signature of the commit verifies under `key` -/
def signedBy (env : Env) (cid : Bytes) (c : Commit) (key : Nat) : Bool := anySig env cid c key 0 c.sigs

/-- weighted sum of the validators selected by a predicate on (index, validator) -/
def wsum (p : Nat → Validator → Bool) : Nat → List Validator → Int
  | _, [] => 0
  | k, v :: vs => (if p k v then v.power else 0) + wsum p (k + 1) vs

/-- voting power of the validators of `vs` that signed; every entry of the set is counted at most once -/
def signedPower (env : Env) (cid : Bytes) (c : Commit) (vs : List Validator) : Int :=
  wsum (fun _ v => signedBy env cid c v.key) 0 vs

/-! ### `VerifyCommitLight` -/
def lightLoop (env : Env) (cid : Bytes) (c : Commit) (needed : Int) :
    Nat → Int → List Validator → List CommitSig → Outcome Unit
  | i, t, v :: vs, s :: ss =>
    if s.flag ≠ .commit then lightLoop env cid c needed (i + 1) t vs ss
    else if env.sigValid cid c i v.key = false then .err "light-wrong-signature"
    else
      let t' := t + v.power
      if t' > needed then .ok () else lightLoop env cid c needed (i + 1) t' vs ss
  | _, _, _, _ => .err "light-not-enough-power"

def verifyCommitLight (env : Env) (cid : Bytes) (vs : List Validator) (total : Int) (height : Int) (c : Commit) :
    Outcome Unit :=
  if vs.length ≠ c.sigs.length then .err "light-size"
  else if height ≠ c.height then .err "light-height"
  else lightLoop env cid c (total * 2 / 3) 0 0 vs c.sigs

/-! ### `VerifyCommitLightTrusting` -/
/-- `GetByAddress`: first validator with that address -/
def findAddr (a : Nat) : Nat → List Validator → Option (Nat × Validator)
  | _, [] => none
  | i, v :: vs => if v.addr = a then some (i, v) else findAddr a (i + 1) vs

def trustLoop (env : Env) (cid : Bytes) (c : Commit) (vals : List Validator) (needed : Int) :
    Nat → Int → List Nat → List CommitSig → Outcome Unit
  | _, _, _, [] => .err "trusting-not-enough-power"
  | i, t, seen, s :: ss =>
    if s.flag ≠ .commit then trustLoop env cid c vals needed (i + 1) t seen ss
    else match findAddr s.addr 0 vals with
      | none => trustLoop env cid c vals needed (i + 1) t seen ss
      | some (vi, v) =>
        if vi ∈ seen then .err "trusting-double-vote"
        else if env.sigValid cid c i v.key = false then .err "trusting-wrong-signature"
        else
          let t' := t + v.power
          if t' > needed then .ok () else trustLoop env cid c vals needed (i + 1) t' (vi :: seen) ss

/-- `safeMul` -/
def safeMul (a b : Int) : Option Int :=
  if a = 0 ∨ b = 0 then some 0
  else
    let absB := if b < 0 then wrap64 (-b) else b
    let absA := if a < 0 then wrap64 (-a) else a
    if absA > Int.tdiv maxInt64 absB then none else some (a * b)

/-- trust level numerator / denominator are `uint64`, converted with `int64(…)` -/
def verifyCommitLightTrusting (env : Env) (cid : Bytes) (vs : List Validator) (total : Int) (c : Commit)
    (num den : Nat) : Outcome Unit :=
  if den = 0 then .err "trusting-zero-denominator"
  else match safeMul total (wrap64 num) with
    | none => .err "trusting-overflow"
    | some m => trustLoop env cid c vs (Int.tdiv m (wrap64 den)) 0 0 [] c.sigs

/-! ### client and consensus state, client store -/
structure ConsState where
  time : Int
  root : Hash
  nextValsHash : Hash
  deriving DecidableEq, Repr

structure ClientState where
  chainId : Bytes
  tlNum : Nat               -- uint64
  tlDen : Nat               -- uint64
  trustingPeriod : Int      -- int64 ns
  maxClockDrift : Int       -- int64 ns
  latest : Height
  timeDelay : Nat           -- uint64 ns
  deriving DecidableEq, Repr

def lookup {α} (h : Height) : List (Height × α) → Option α
  | [] => none
  | (k, v) :: rest => if k = h then some v else lookup h rest

def erase {α} (h : Height) : List (Height × α) → List (Height × α)
  | [] => []
  | (k, v) :: rest => if k = h then erase h rest else (k, v) :: erase h rest

def insert {α} (h : Height) (v : α) (m : List (Height × α)) : List (Height × α) := (h, v) :: erase h m

structure Store where
  cons : List (Height × ConsState)     -- consensusStates/{height}
  ptime : List (Height × Nat)          -- consensusStates/{height}/processedTime
  iter : List (Height × Unit)          -- iterateConsensusStates{height}
  deriving Repr

structure Client where
  cs : ClientState
  st : Store
  deriving Repr

/-- the trust-level part of `ClientState.Validate`: `light.ValidateTrustLevel` (uint64 arithmetic: `num*3` may wrap)
    and the requirement that numerator and denominator fit `int64` (the library converts them with `int64(…)`) -/
def validTrustLevel (num den : Nat) : Bool :=
  !(decide ((num * 3) % two64N < den) || decide (num > den) || decide (den = 0)) &&
  decide ((num : Int) ≤ maxInt64) && decide ((den : Int) ≤ maxInt64)

/-- `IsExpired` / `HeaderExpired` -/
def expired (t period now : Int) : Bool := !decide (t + period > now)

/-- first key of the ascending iteration over `iterateConsensusStates` -/
def minHeight : List (Height × Unit) → Option Height
  | [] => none
  | (k, _) :: rest =>
    match minHeight rest with
    | none => some k
    | some m => if k < m then some k else some m

inductive Status where
  | active | expired | unknown
  deriving DecidableEq, Repr

/-- `ClientState.Status` -/
def status (c : Client) (now : Int) : Status :=
  match lookup c.cs.latest c.st.cons with
  | none => .unknown
  | some k => if expired k.time c.cs.trustingPeriod now then .expired else .active

/-- `CreateClient` for a Tendermint client: client state, `Initialize` (metadata), consensus state -/
def createClient (cs : ClientState) (k : ConsState) (now : Int) : Client :=
  { cs := cs,
    st := { cons := [(cs.latest, k)], ptime := [(cs.latest, toU64 now)], iter := [(cs.latest, ())] } }

/-! ### `checkValidity` -/
/-- `Header.GetHeight` -/
def headerHeight (hd : Header) : Outcome Height := do
  let r ← parseChainID hd.sh.chainId
  pure ⟨r, toU64 hd.sh.height⟩

/-- chain id handed to `light.Verify` -/
def effChainId (cs : ClientState) (rev : Nat) : Bytes :=
  if isRevisionFormat cs.chainId then setRevisionNumber cs.chainId rev else cs.chainId

/-- `SignedHeader.ValidateBasic(chainID)` -/
def signedHeaderBasic (env : Env) (cid : Bytes) (hd : Header) : Outcome Commit :=
  match hd.commit with
  | none => .err "missing-commit"
  | some c => do
    require (decide (0 < hd.sh.height) && hd.sh.structOk) "header-basic"
    require c.basicOk "commit-basic"
    require (hd.sh.chainId = cid) "chain-id"
    require (c.height = hd.sh.height) "commit-height"
    require (c.blockHash = env.headerHash hd.sh) "commit-block-hash"
    pure c

/-- `verifyNewHeaderAndVals` -/
def verifyNewHeaderAndVals (env : Env) (cid : Bytes) (hd : Header) (vals : List Validator)
    (trustedH : Int) (trustedTime : Int) (now drift : Int) : Outcome Commit := do
  let c ← signedHeaderBasic env cid hd
  require (decide (hd.sh.height > trustedH)) "height-not-greater"
  require (decide (hd.sh.time > trustedTime)) "time-not-after"
  require (decide (hd.sh.time < now + drift)) "time-from-future"
  require (hd.sh.valsHash = env.valsHash vals) "vals-hash"
  pure c

/-- `light.Verify` with the trusted header built from the consensus state -/
def lightVerify (env : Env) (cs : ClientState) (cid : Bytes) (tc : ConsState) (trustedH : Int)
    (tvals : List Validator) (ttotal : Int) (hd : Header) (vals : List Validator) (total : Int) (now : Int) :
    Outcome Unit :=
  if hd.sh.height ≠ wrap64 (trustedH + 1) then do
    -- VerifyNonAdjacent
    require (!expired tc.time cs.trustingPeriod now) "old-header-expired"
    let c ← verifyNewHeaderAndVals env cid hd vals trustedH tc.time now cs.maxClockDrift
    verifyCommitLightTrusting env cid tvals ttotal c cs.tlNum cs.tlDen
    verifyCommitLight env cid vals total hd.sh.height c
  else do
    -- VerifyAdjacent
    require (!expired tc.time cs.trustingPeriod now) "old-header-expired"
    let c ← verifyNewHeaderAndVals env cid hd vals trustedH tc.time now cs.maxClockDrift
    require (hd.sh.valsHash = tc.nextValsHash) "adjacent-next-vals"
    verifyCommitLight env cid vals total hd.sh.height c

/-- `checkValidity` (with `checkTrustedHeader`); returns the header height -/
def checkValidity (env : Env) (cs : ClientState) (tc : ConsState) (hd : Header) (now : Int) : Outcome Height := do
  -- checkTrustedHeader
  let (tvals, ttotal) ← valSetFromProto hd.trustedVals
  require (tc.nextValsHash = env.valsHash tvals) "trusted-vals-hash"
  -- same revision
  let hh ← headerHeight hd
  require (hh.rev = hd.trustedHeight.rev) "revision"
  -- conversions of the signed header and of the validator set
  require (decide (0 ≤ hd.sh.height) && decide (hd.sh.height ≠ 0) && hd.sh.structOk) "header-conv"
  require (match hd.commit with | none => true | some c => c.basicOk) "commit-conv"
  let (vals, total) ← valSetFromProto hd.vals
  -- newer than the trusted height
  require (!decide (hh ≤ hd.trustedHeight)) "height-lte-trusted"
  let cid := effChainId cs hh.rev
  lightVerify env cs cid tc (wrap64 hd.trustedHeight.h) tvals ttotal hd vals total now
  pure hh

/-! ### `CheckHeaderAndUpdateState`, keeper `UpdateClient` -/
/-- pruning of the earliest consensus state when it is expired; `none` = `pruneError` -/
def prune (cs : ClientState) (st : Store) (now : Int) : Option Store :=
  match minHeight st.iter with
  | none => some st
  | some m =>
    match lookup m st.cons with
    | none => none
    | some k =>
      if expired k.time cs.trustingPeriod now then
        some { cons := erase m st.cons, ptime := erase m st.ptime, iter := erase m st.iter }
      else some st

def consOf (hd : Header) : ConsState := ⟨hd.sh.time, hd.sh.appHash, hd.sh.nextValsHash⟩

/-- `ConsensusState.ValidateBasic` (root not empty, next-validators hash empty or 32 bytes, positive Unix time): demanded of the consensus
    state a client proposal carries and of the one an accepted header produces -/
def validConsState (k : ConsState) : Bool :=
  !k.root.isEmpty && (k.nextValsHash.isEmpty || k.nextValsHash.length == 32) && decide (1000000000 ≤ k.time)


/-- keeper `UpdateClient` with a Tendermint header at block time `now` -/
def updateClient (env : Env) (c : Client) (hd : Header) (now : Int) : Outcome Client :=
  match status c now with
  | .unknown => .err "status-unknown"
  | .expired => .err "status-expired"
  | .active =>
    match lookup hd.trustedHeight c.st.cons with
    | none => .err "no-trusted-consensus-state"
    | some tc => do
      let hh ← checkValidity env c.cs tc hd now
      -- the consensus state the header produces must pass the module's own validation (exported genesis)
      require (validConsState (consOf hd)) "invalid-consensus-state"
      match prune c.cs c.st now with
      | none => .err "prune-error"
      | some st =>
        -- update: latest height, metadata; keeper: client state, consensus state
        let cs' := { c.cs with latest := Height.max c.cs.latest hh }
        pure { cs := cs',
               st := { cons := insert hh (consOf hd) st.cons,
                       ptime := insert hh (toU64 now) st.ptime,
                       iter := insert hh () st.iter } }

/-- a history of update attempts; a rejected update leaves the client unchanged -/
def runUpdates (env : Env) (c : Client) : List (Header × Int) → Client
  | [] => c
  | (hd, now) :: rest =>
    match updateClient env c hd now with
    | .ok c' => runUpdates env c' rest
    | _ => runUpdates env c rest

/-! ### keeper `UpgradeClient` + tendermint `UpgradeState` -/
/-- The stored client state is *replaced* by the proposal's client state (a validated configuration, typically the
    same chain-id family at the next revision; the keeper itself compares only the client type), `UpgradeState`
    writes processed time and iteration key for the new latest height, and the keeper stores the supplied consensus
    state there.  Nothing else in the client store is touched, so consensus states of several revisions coexist. -/
def upgradeClient (c : Client) (cs : ClientState) (k : ConsState) (now : Int) : Client :=
  { cs := cs,
    st := { cons := insert cs.latest k c.st.cons,
            ptime := insert cs.latest (toU64 now) c.st.ptime,
            iter := insert cs.latest () c.st.iter } }

/-- one step of a client's life after creation -/
inductive Step where
  | update (hd : Header) (now : Int)
  | upgrade (cs : ClientState) (k : ConsState) (now : Int)

def applyStep (env : Env) (c : Client) : Step → Client
  | .update hd now =>
    match updateClient env c hd now with
    | .ok c' => c'
    | _ => c
  | .upgrade cs k now => upgradeClient c cs k now

/-- histories of updates (accepted or rejected) interleaved with upgrades -/
def runSteps (env : Env) (c : Client) : List Step → Client
  | [] => c
  | s :: rest => runSteps env (applyStep env c s) rest

/-! ### `VerifyPacketCommitment`, `VerifyPacketAcknowledgement` : `produceVerificationArgs`, `verifyDelayPeriodPassed`, membership -/

/-- `produceVerificationArgs`: proof height not above the latest height, proof present and decodable, consensus state
    stored at the proof height -/
def produceVerificationArgs (env : Env) (c : Client) (h : Height) (proof : Option Bytes) : Outcome (Bytes × ConsState) := do
  require (!decide (c.cs.latest < h)) "height-above-latest"
  match proof with
  | none => .err "proof-nil"
  | some pf => do
    require (env.proofDecodes pf) "proof-decode"
    match lookup h c.st.cons with
    | none => .err "no-consensus-state"
    | some k => pure (pf, k)

/-- `verifyDelayPeriodPassed` -/
def verifyDelayPeriodPassed (c : Client) (h : Height) (delay : Nat) (now : Int) : Outcome Unit :=
  match lookup h c.st.ptime with
  | none => .err "no-processed-time"
  | some pt => do
    -- uint64 arithmetic: validTime := processedTime + delayPeriod; an overflowing sum is "not passed"
    require (decide (pt + delay < two64N)) "delay-overflow"
    require (!decide (pt + delay > toU64 now)) "delay-not-passed"

/-- the guards shared by every `Verify*` entry point: `produceVerificationArgs`, then `verifyDelayPeriodPassed` with the
    client's `GetDelayTime()` (= `TimeDelay`) -/
def verifyArgs (env : Env) (c : Client) (h : Height) (proof : Option Bytes) (now : Int) : Outcome (Bytes × ConsState) := do
  let r ← produceVerificationArgs env c h proof
  verifyDelayPeriodPassed c h c.cs.timeDelay now
  pure r

/-- `host.PacketCommitmentPath` / `host.PacketAcknowledgementPath` under the client's prefix, as opaque tagged identities
    of (source chain, destination chain, sequence) -/
def commitmentPath (id : Bytes) : Bytes := 0x63 :: id
def acknowledgementPath (id : Bytes) : Bytes := 0x61 :: id

/-- `ClientState.VerifyPacketCommitment` -/
def verifyPacketCommitment (env : Env) (c : Client) (h : Height) (proof : Option Bytes) (id value : Bytes) (now : Int) :
    Outcome Unit := do
  let (pf, k) ← verifyArgs env c h proof now
  require (env.membership k.root pf (commitmentPath id) value) "membership"

/-- `ClientState.VerifyPacketAcknowledgement` -/
def verifyPacketAcknowledgement (env : Env) (c : Client) (h : Height) (proof : Option Bytes) (id value : Bytes) (now : Int) :
    Outcome Unit := do
  let (pf, k) ← verifyArgs env c h proof now
  require (env.membership k.root pf (acknowledgementPath id) value) "membership"

/-! ### the stateless stage of the real entry points -/

/-- `Header.ValidateBasic` (run by `MsgUpdateClient.ValidateBasic` before the message reaches the msg server):
    conversion of the signed header, `SignedHeader.ValidateBasic` against the header's *own* chain id, trusted height
    not above the header height, validator set present, convertible and hashing to the header's validators hash -/
def headerValidateBasic (env : Env) (hd : Header) : Outcome Unit := do
  require (decide (0 ≤ hd.sh.height) && decide (hd.sh.height ≠ 0) && hd.sh.structOk) "header-conv"
  require (match hd.commit with | none => true | some c => c.basicOk) "commit-conv"
  let _ ← signedHeaderBasic env hd.sh.chainId hd
  let hh ← headerHeight hd
  require (!decide (hh < hd.trustedHeight)) "trusted-height-above-header"
  let (vals, _) ← valSetFromProto hd.vals
  require (hd.sh.valsHash = env.valsHash vals) "vals-hash"

/-- `MsgUpdateClient` as a transaction sees it: `ValidateBasic`, then the msg server (relayer authorisation is C06's
    subject and assumed here) calling the keeper's `UpdateClient` -/
def updateClientMsg (env : Env) (c : Client) (hd : Header) (now : Int) : Outcome Client := do
  headerValidateBasic env hd
  updateClient env c hd now

/-- the part of `{Create,Upgrade}ClientProposal.ValidateBasic` that depends on the modelled fields -/
def validProposal (cs : ClientState) (k : ConsState) : Bool := validTrustLevel cs.tlNum cs.tlDen && validConsState k

/-! ### several clients in one store; export / import; discarded executions -/

/-- the client keeper's store: chain name ↦ client -/
abbrev World := List (Bytes × Client)

def World.get (w : World) (n : Bytes) : Option Client :=
  match w with
  | [] => none
  | (m, c) :: rest => if m = n then some c else World.get rest n

def World.set (w : World) (n : Bytes) (c : Client) : World :=
  match w with
  | [] => [(n, c)]
  | (m, d) :: rest => if m = n then (n, c) :: rest else (m, d) :: World.set rest n c

inductive WOp where
  /-- `CreateClientProposal`: `ValidateBasic`, `HandleCreateClient` (refused when the name is taken) -/
  | create (n : Bytes) (cs : ClientState) (k : ConsState) (now : Int)
  /-- `UpgradeClientProposal`: `ValidateBasic`, `HandleUpgradeClient` -/
  | upgrade (n : Bytes) (cs : ClientState) (k : ConsState) (now : Int)
  /-- keeper `UpdateClient` -/
  | update (n : Bytes) (hd : Header) (now : Int)
  /-- `MsgUpdateClient` through `ValidateBasic` and the msg server -/
  | updateMsg (n : Bytes) (hd : Header) (now : Int)
  /-- export genesis → JSON → validate → wipe → init genesis (module level or whole app) -/
  | restart
  /-- any operation executed on a cache context that is dropped (simulation, CheckTx, proposal dry run, failed tx) -/
  | discarded (op : WOp)

/-- a restart re-creates exactly the client store: client states, consensus states, processed times, iteration keys -/
def restart (w : World) : World := w

def applyW (env : Env) (w : World) : WOp → World
  | .create n cs k now =>
    match w.get n with
    | some _ => w
    | none => if validProposal cs k then w.set n (createClient cs k now) else w
  | .upgrade n cs k now =>
    match w.get n with
    | none => w
    | some c => if validProposal cs k then w.set n (upgradeClient c cs k now) else w
  | .update n hd now =>
    match w.get n with
    | none => w
    | some c => match updateClient env c hd now with
      | .ok c' => w.set n c'
      | _ => w
  | .updateMsg n hd now =>
    match w.get n with
    | none => w
    | some c => match updateClientMsg env c hd now with
      | .ok c' => w.set n c'
      | _ => w
  | .restart => restart w
  | .discarded _ => w

def runW (env : Env) (w : World) : List WOp → World
  | [] => w
  | op :: rest => runW env (applyW env w op) rest

end TM.TmClient
