import TeleportModel.Base.Util
/-
Shared executable model of the XIBC receive / acknowledge path (properties C01, C02, C05).

Transcribes, in the order the Go code checks things,
  x/xibc/keeper/msg_server.go               RecvPacket, Acknowledgement (UpdateClient only abstractly)
  x/xibc/core/packet/keeper/packet.go       Keeper.RecvPacket, WriteAcknowledgement, AcknowledgePacket, SendPacket
  x/xibc/core/packet/keeper/keeper.go       ValidatePacket, the store accessors
  x/xibc/core/packet/types/packet.go        ValidateBasic, CommitPacket, CommitAcknowledgement, NewAcknowledgement
  x/xibc/core/host/keys.go                  the four packet key templates (concrete byte strings)
  x/xibc/core/client/keeper/relayer.go      GetRelayer, AuthRelayer, GetRelayerAddressOnOtherChain / OnTeleport
  x/xibc/clients/*/types/client_state.go    VerifyPacketCommitment / VerifyPacketAcknowledgement down to
                                            produceVerificationArgs + delay checks; the Merkle / MPT membership
                                            check itself is the parameter `Env.verify`.
The xibc KV store is modelled as what it is: maps from *key byte strings* to value byte strings (one map per
prefix). The theorems are therefore statements about store keys; a statement about a (src,dst,seq) triple follows
because equal triples have equal keys (no injectivity of the key template is needed or assumed).

External computations are fields of `Env`: sha256, the go-ethereum ABI decoder + JSON round trip of
`Packet.ABIDecode` (returns the struct it leaves behind *and* whether it reported an error, so the decode quirk of
Keeper.RecvPacket is expressible), the ABI encoders, the acknowledgement decoder, the membership verifier and
bech32 validity. The EVM side (packet contract) is an event log `Chain.evm` of the calls the handlers make.
-/
namespace TM.Xibc
open TM

/-! ### finite tables (association lists; `set` removes older bindings, so dumps have unique keys) -/
abbrev Tab (κ α : Type) := List (κ × α)

namespace Tab
variable {κ α : Type} [DecidableEq κ]
def get (m : Tab κ α) (k : κ) : Option α := (m.find? (fun e => decide (e.1 = k))).map (·.2)
def del (m : Tab κ α) (k : κ) : Tab κ α := m.filter (fun e => !decide (e.1 = k))
def set (m : Tab κ α) (k : κ) (v : α) : Tab κ α := (k, v) :: del m k
def has (m : Tab κ α) (k : κ) : Bool := (get m k).isSome
end Tab

/-! ### data -/
structure Height where
  rev : UInt64
  h   : UInt64
  deriving DecidableEq, Repr

/-- `Height.LT` of core/client/types/height.go: lexicographic on (revision number, revision height). -/
def Height.lt (a b : Height) : Bool := a.rev < b.rev || (a.rev == b.rev && a.h < b.h)

structure Packet where
  src       : Bytes
  dst       : Bytes
  seq       : UInt64
  sender    : Bytes
  transfer  : Bytes
  call      : Bytes
  callback  : Bytes
  feeOption : UInt64
  deriving DecidableEq, Repr

def Packet.zero : Packet := ⟨[], [], 0, [], [], [], [], 0⟩

structure Ack where
  code      : UInt64
  result    : Bytes
  message   : Bytes
  relayer   : Bytes
  feeOption : UInt64
  deriving DecidableEq, Repr

inductive ClientKind | tm | bsc | eth | tss
  deriving DecidableEq, Repr

structure Client where
  kind       : ClientKind
  latest     : Height
  cons       : Tab Height Bytes        -- consensus states: height ↦ root
  processed  : Tab Height UInt64       -- Tendermint metadata: height ↦ processed time (unix nanos)
  delayTime  : UInt64                  -- Tendermint `TimeDelay`
  delayBlock : UInt64                  -- BSC / ETH `GetDelayBlock`
  tssAddr    : Bytes                   -- TSS `TssAddress`
  deriving Repr

structure Relayer where
  address   : Bytes
  chains    : List Bytes
  addresses : List Bytes
  deriving DecidableEq, Repr

/-- Calls made by the handlers into the packet contract (newest first). -/
inductive Event
  | recvCallback (key : Bytes)                          -- committed effects of CallPacket("onRecvPacket", packet); key = receipt key
  | setAckStatus (dst : Bytes) (seq : UInt64) (st : Nat) -- CallPacket("setAckStatus", dst, seq, 1|2)
  | feePaid (dst : Bytes) (seq : UInt64) (relayer : Bytes)
  | onAck (key : Bytes)                                 -- CallPacket("OnAcknowledgePacket", packet, ack); key = commitment key
  | setSequence (dst : Bytes) (seq : UInt64)
  deriving DecidableEq, Repr

structure Chain where
  name     : Bytes
  clients  : Tab Bytes Client
  relayers : List Relayer             -- in store order (ascending address bytes)
  receipts : Tab Bytes Bytes          -- receipts/{src}/{dst}/sequences/{seq} ↦ 0x01
  commits  : Tab Bytes Bytes          -- commitments/…  ↦ sha256(abi(packet))
  acks     : Tab Bytes Bytes          -- acks/…         ↦ sha256(ack bytes)
  nextSeq  : Tab Bytes Bytes          -- nextSequenceSend/{src}/{dst} ↦ 8-byte big endian
  evm      : List Event
  ackWrites : List Bytes              -- ghost: ack keys passed to SetPacketAcknowledgement (newest first)

def Chain.init (name : Bytes) : Chain :=
  { name := name, clients := [], relayers := [], receipts := [], commits := [], acks := [], nextSeq := [],
    evm := [], ackWrites := [] }

structure Env where
  sha256       : Bytes → Bytes
  decodePacket : Bytes → Packet × Bool     -- (struct left behind by ABIDecode, error reported?)
  encodePacket : Packet → Bytes            -- Packet.ABIPack (cannot fail for this tuple type)
  decodeAck    : Bytes → Option Ack        -- Acknowledgement.ABIDecode
  encodeAck    : Ack → Bytes
  /-- membership verification of the client `name` of kind `kind` against consensus root `root`. -/
  verify       : Bytes → ClientKind → Bytes → Bytes → Bytes → Bytes → Bool   -- name kind root proof path value
  bech32Valid  : Bytes → Bool

/-! ### keys (core/host/keys.go) -/
def str (s : String) : Bytes := s.toUTF8.toList

/-- decimal digits of a sequence number, kernel-reducible -/
def decimal (n : UInt64) : Bytes := (Nat.toDigits 10 n.toNat).map (fun c => UInt8.ofNat c.toNat)

-- the key templates as literal bytes (so that closed examples reduce in the kernel)
def slash : Bytes := [47]
def sequencesInfix : Bytes := [47, 115, 101, 113, 117, 101, 110, 99, 101, 115, 47]          -- "/sequences/"
def receiptsPfx : Bytes := [114, 101, 99, 101, 105, 112, 116, 115]      -- "receipts"
def commitmentsPfx : Bytes := [99, 111, 109, 109, 105, 116, 109, 101, 110, 116, 115]   -- "commitments"
def acksPfx : Bytes := [97, 99, 107, 115]              -- "acks"
def nextSeqPfx : Bytes := [110, 101, 120, 116, 83, 101, 113, 117, 101, 110, 99, 101, 83, 101, 110, 100, 47]      -- "nextSequenceSend/"

def packetKey (pfx : Bytes) (src dst : Bytes) (seq : UInt64) : Bytes :=
  pfx ++ slash ++ src ++ slash ++ dst ++ sequencesInfix ++ decimal seq

def receiptKey (p : Packet) : Bytes := packetKey receiptsPfx p.src p.dst p.seq
def commitKey  (p : Packet) : Bytes := packetKey commitmentsPfx p.src p.dst p.seq
def ackKey     (p : Packet) : Bytes := packetKey acksPfx p.src p.dst p.seq
def nextSeqKey (src dst : Bytes) : Bytes := nextSeqPfx ++ src ++ slash ++ dst

def be8 (n : UInt64) : Bytes :=
  [56, 48, 40, 32, 24, 16, 8, 0].map (fun (s : Nat) => UInt8.ofNat ((n.toNat >>> s) % 256))
def ofBe8 (b : Bytes) : UInt64 := UInt64.ofNat (b.foldl (fun acc x => (acc * 256 + x.toNat) % 18446744073709551616) 0)

/-- GetNextSequenceSend: 1 when absent. -/
def Chain.nextSequenceSend (c : Chain) (src dst : Bytes) : UInt64 :=
  match c.nextSeq.get (nextSeqKey src dst) with
  | none => 1
  | some b => ofBe8 b

/-! ### validation -/
/-- Packet.ValidateBasic -/
def Packet.validateBasic (p : Packet) : Bool :=
  !p.src.isEmpty && !p.dst.isEmpty && p.src != p.dst && p.seq != 0 && !(p.call.isEmpty && p.transfer.isEmpty)

/-- Keeper.ValidatePacket -/
def validatePacket (c : Chain) (p : Packet) : Bool :=
  p.validateBasic && !(p.dst != c.name && p.src != c.name)

/-! ### relayer registry (core/client/keeper/relayer.go) -/
inductive Lookup (α : Type) | found (a : α) | notFound | panic
  deriving Repr

def getRelayer (c : Chain) (addr : Bytes) : Option Relayer := c.relayers.find? (fun r => r.address == addr)

def authRelayer (c : Chain) (chain addr : Bytes) : Bool :=
  match getRelayer c addr with
  | none => false
  | some ir => ir.chains.contains chain

/-- first `i` with `chains[i] = chain`, then `addresses[i]` (index out of range panics in Go). -/
def scanOther (chain : Bytes) : List Bytes → List Bytes → Lookup Bytes
  | [], _ => .notFound
  | ch :: chs, as =>
    if ch == chain then
      match as with
      | [] => .panic
      | a :: _ => .found a
    else scanOther chain chs as.tail

def relayerOnOtherChain (c : Chain) (chain addr : Bytes) : Lookup Bytes :=
  match getRelayer c addr with
  | none => .notFound
  | some ir => scanOther chain ir.chains ir.addresses

def lowerAscii (b : UInt8) : UInt8 := if 65 ≤ b.toNat ∧ b.toNat ≤ 90 then b + 32 else b
/-- strings.EqualFold restricted to ASCII letters (relayer addresses are hex / bech32 strings). -/
def equalFold (a b : Bytes) : Bool := a.map lowerAscii == b.map lowerAscii

def scanTeleport (chain addr : Bytes) : List Bytes → List Bytes → Lookup Unit
  | [], _ => .notFound
  | ch :: chs, as =>
    if ch == chain then
      match as with
      | [] => .panic
      | a :: as' => if equalFold a addr then .found () else scanTeleport chain addr chs as'
    else scanTeleport chain addr chs as.tail

def relayerOnTeleportIn (chain addr : Bytes) : List Relayer → Lookup Bytes
  | [] => .notFound
  | ir :: rest =>
    match scanTeleport chain addr ir.chains ir.addresses with
    | .found _ => .found ir.address
    | .panic => .panic
    | .notFound => relayerOnTeleportIn chain addr rest

def relayerOnTeleport (c : Chain) (chain addr : Bytes) : Lookup Bytes := relayerOnTeleportIn chain addr c.relayers

def bytesLt : Bytes → Bytes → Bool
  | [], [] => false
  | [], _ :: _ => true
  | _ :: _, [] => false
  | a :: as, b :: bs => a < b || (a == b && bytesLt as bs)

def insertRelayer (r : Relayer) : List Relayer → List Relayer
  | [] => [r]
  | x :: xs => if r.address == x.address then r :: xs
               else if bytesLt r.address x.address then r :: x :: xs
               else x :: insertRelayer r xs

/-! ### light-client verification up to the membership check -/
def Client.verify (env : Env) (name : Bytes) (cl : Client) (now : UInt64) (h : Height)
    (proof path value : Bytes) : Bool :=
  match cl.kind with
  | .tss => proof == cl.tssAddr
  | .tm =>
    !(cl.latest.lt h) &&
    (match cl.cons.get h, cl.processed.get h with
     | some root, some pt => decide (pt + cl.delayTime ≤ now) && env.verify name cl.kind root proof path value
     | _, _ => false)
  | _ =>
    !(cl.latest.lt h) && !(decide (cl.latest.h < h.h)) &&
    (match cl.cons.get h with
     | some root => decide (cl.delayBlock ≤ cl.latest.h - h.h) && env.verify name cl.kind root proof path value
     | none => false)

/-- "use signer as tss client proof" -/
def Client.effProof (cl : Client) (signer proof : Bytes) : Bytes := if cl.kind = .tss then signer else proof

/-! ### messages -/
inductive Callback
  | ok (code : UInt64) (result message : Bytes)   -- CallPacket returned, result tuple decoded
  | fail                                           -- CallPacket returned an error
  | undecodable                                    -- UnpackIntoInterface failed
  deriving DecidableEq, Repr

structure EvmOut where
  setAck : Bool
  fee    : Bool
  onAck  : Bool
  deriving DecidableEq, Repr

inductive Msg
  | recvPacket (packet proof : Bytes) (h : Height) (signer : Bytes) (cb : Callback)
  | acknowledgement (packet ack proof : Bytes) (h : Height) (signer : Bytes) (evm : EvmOut)
  | sendPacket (p : Packet) (setSeqOk : Bool)            -- Keeper.SendPacket as called from the EVM hook
  | updateClient (chain : Bytes) (h : Height) (root : Bytes) (signer : Bytes) (headerOk : Bool)  -- root: consensus root; for a TSS client the new TssAddress
  | createClient (chain : Bytes) (cl : Client)           -- governance (abstract)
  | registerRelayer (r : Relayer)                        -- governance (abstract)
  | toggleClient (chain : Bytes) (cl : Client)           -- governance ToggleClientProposal: a client of another kind
  | upgradeClient (chain : Bytes) (cl : Client)          -- governance UpgradeClientProposal: same kind, new parameters
  | restart                                              -- node restart through genesis export -> JSON -> import

/-- the callback's state changes are committed (`write()`): CallPacket succeeded with result code 0 -/
def Callback.committed : Callback → Bool
  | .ok code _ _ => code == 0
  | _ => false

inductive Result | ok | err
  deriving DecidableEq, Repr

abbrev Err := Except String

/-! ### Keeper.SendPacket -/
def sendPacket (env : Env) (c : Chain) (p : Packet) (setSeqOk : Bool) : Err Chain :=
  if !p.validateBasic then .error "send:basic"
  else if p.src != c.name then .error "send:src"
  else if !c.clients.has p.dst then .error "send:client"
  else if p.seq != c.nextSequenceSend p.src p.dst then .error "send:seq"
  else
    let commitment := env.sha256 (env.encodePacket p)
    let next := c.nextSequenceSend p.src p.dst + 1
    if !setSeqOk then .error "send:evm"
    else .ok { c with nextSeq := c.nextSeq.set (nextSeqKey p.src p.dst) (be8 next),
                      evm := .setSequence p.dst next :: c.evm,
                      commits := c.commits.set (commitKey p) commitment }

/-! ### Keeper.RecvPacket -/
def keeperRecv (env : Env) (c : Chain) (now : UInt64) (packet proof : Bytes) (h : Height) (signer : Bytes) :
    Err Chain :=
  let d := env.decodePacket packet
  let p := d.1
  if d.2 && p.seq == 0 then .error "recv:decode"
  else if !validatePacket c p then .error "recv:validate"
  else if c.receipts.has (receiptKey p) then .error "recv:received"
  else
    match c.clients.get p.src with
    | none => .error "recv:client"
    | some cl =>
      let commitment := env.sha256 (env.encodePacket p)
      if !cl.verify env p.src now h (cl.effProof signer proof) (commitKey p) commitment then .error "recv:verify"
      else
        let c1 := { c with receipts := c.receipts.set (receiptKey p) [1] }
        if p.dst != c.name && c1.clients.has p.dst then
          .ok { c1 with commits := c1.commits.set (commitKey p) commitment }
        else .ok c1

/-! ### Keeper.WriteAcknowledgement -/
def writeAck (env : Env) (c : Chain) (p : Packet) (ack : Bytes) : Err Chain :=
  if ack.isEmpty then .error "wack:empty"
  else if c.acks.has (ackKey p) then .error "wack:exists"
  else if !c.clients.has p.src then .error "wack:client"
  else .ok { c with acks := c.acks.set (ackKey p) (env.sha256 ack), ackWrites := ackKey p :: c.ackWrites }

def errMsgCallback : Bytes := str "receive packet callback failed"
def errMsgDst : Bytes := str "dstChain not found"

/-! ### msg_server RecvPacket -/
def recvPacket (env : Env) (c : Chain) (now : UInt64) (packet proof : Bytes) (h : Height) (signer : Bytes)
    (cb : Callback) : Err Chain :=
  match keeperRecv env c now packet proof h signer with
  | .error e => .error e
  | .ok c1 =>
    let d := env.decodePacket packet
    let p := d.1
    if d.2 then .error "recv:decode2"
    else
      match relayerOnOtherChain c1 p.src signer with
      | .notFound => .error "recv:relayer"
      | .panic => .error "recv:panic"
      | .found relayer =>
        if p.dst == c1.name then
          -- the callback runs on the cache context `cctx`; its effects (here: the `recvCallback` entry of the
          -- contract log) are written back only if CallPacket returned no error and the result code is 0;
          -- the acknowledgement is always written on `ctx`
          match cb with
          | .fail => writeAck env c1 p (env.encodeAck ⟨1, [], errMsgCallback, relayer, p.feeOption⟩)
          | .undecodable => .error "recv:result"
          | .ok code result message =>
            match writeAck env c1 p (env.encodeAck ⟨code, result, message, relayer, p.feeOption⟩) with
            | .error e => .error e
            | .ok c2 =>
              if code != 0 then .ok c2
              else .ok { c2 with evm := .recvCallback (receiptKey p) :: c2.evm }
        else if !c1.clients.has p.dst then
          writeAck env c1 p (env.encodeAck ⟨1, [], errMsgDst, relayer, p.feeOption⟩)
        else .ok c1

/-! ### Keeper.AcknowledgePacket -/
def keeperAck (env : Env) (c : Chain) (now : UInt64) (packet ack proof : Bytes) (h : Height) (signer : Bytes) :
    Err Chain :=
  let d := env.decodePacket packet
  let p := d.1
  if d.2 then .error "ack:decode"
  else if !validatePacket c p then .error "ack:validate"
  else
    let stored := (c.commits.get (commitKey p)).getD []     -- Get returns nil when absent; bytes.Equal(nil, []) holds
    let pc := env.sha256 (env.encodePacket p)
    if stored != pc then .error "ack:commitment"
    else
      match c.clients.get p.dst with
      | none => .error "ack:client"
      | some cl =>
        let ackC := env.sha256 ack
        if !cl.verify env p.dst now h (cl.effProof signer proof) (ackKey p) ackC then .error "ack:verify"
        else
          let c1 := { c with commits := c.commits.del (commitKey p) }
          if p.src != c.name then
            if !c1.clients.has p.src then .error "ack:srcclient"
            else .ok { c1 with acks := c1.acks.set (ackKey p) ackC, ackWrites := ackKey p :: c1.ackWrites }
          else .ok c1

/-- `len(ack.String()) == 0`: the proto text of an acknowledgement whose fields are all default. -/
def Ack.isBlank (a : Ack) : Bool :=
  a.code == 0 && a.result.isEmpty && a.message.isEmpty && a.relayer.isEmpty && a.feeOption == 0

/-! ### msg_server Acknowledgement -/
def acknowledgement (env : Env) (c : Chain) (now : UInt64) (packet ack proof : Bytes) (h : Height) (signer : Bytes)
    (o : EvmOut) : Err Chain :=
  match keeperAck env c now packet ack proof h signer with
  | .error e => .error e
  | .ok c1 =>
    let d := env.decodePacket packet
    let p := d.1
    if d.2 then .error "ack:decode2"
    else
      match env.decodeAck ack with
      | none => .error "ack:ackdecode"
      | some a =>
        if a.isBlank then .error "ack:blank"
        else if p.src == c1.name then
          if !o.setAck then .error "ack:evm1"
          else
            let c2 := { c1 with evm := .setAckStatus p.dst p.seq (if a.code == 0 then 1 else 2) :: c1.evm }
            match relayerOnTeleport c2 p.dst a.relayer with
            | .notFound => .error "ack:relayer"
            | .panic => .error "ack:panic"
            | .found relayer =>
              if !env.bech32Valid relayer then .error "ack:bech32"
              else if !o.fee then .error "ack:evm2"
              else
                let c3 := { c2 with evm := .feePaid p.dst p.seq relayer :: c2.evm }
                if !o.onAck then .error "ack:evm3"
                else .ok { c3 with evm := .onAck (commitKey p) :: c3.evm }
        else .ok c1

/-! ### client messages (abstract: only the client / relayer tables change) -/
def maxHeight (a b : Height) : Height := if a.lt b then b else a

def updateClient (c : Chain) (now : UInt64) (chain : Bytes) (h : Height) (root signer : Bytes) (headerOk : Bool) :
    Err Chain :=
  if !authRelayer c chain signer then .error "upd:auth"
  else
    match c.clients.get chain with
    | none => .error "upd:client"
    | some cl =>
      if cl.kind = .tss then
        -- TSS: CheckMsg demands the CURRENT TSS address as signer; CheckHeaderAndUpdateState copies the header's
        -- address (carried in `root`) into the client state and yields no consensus state; the keeper stores the
        -- client state all the same: from now on the NEW address is the verifier
        if signer != cl.tssAddr then .error "upd:tss-signer"
        else if !headerOk then .error "upd:header"
        else .ok { c with clients := c.clients.set chain { cl with tssAddr := root } }
      else if !headerOk then .error "upd:header"
      else
        let cl' := { cl with latest := maxHeight cl.latest h, cons := cl.cons.set h root,
                             processed := cl.processed.set h now }
        .ok { c with clients := c.clients.set chain cl' }

def Height.isZero (h : Height) : Bool := h.rev == 0 && h.h == 0

/-- MsgRecvPacket.ValidateBasic (run by baseapp before the handler) -/
def recvBasic (env : Env) (packet : Bytes) (h : Height) (signer : Bytes) : Bool :=
  !h.isZero && env.bech32Valid signer && !(env.decodePacket packet).2 && (env.decodePacket packet).1.validateBasic

/-- MsgAcknowledgement.ValidateBasic -/
def ackBasic (env : Env) (packet ack : Bytes) (h : Height) (signer : Bytes) : Bool :=
  !h.isZero && !ack.isEmpty && env.bech32Valid signer && !(env.decodePacket packet).2 &&
    (env.decodePacket packet).1.validateBasic

/-- UpgradeClient keeps the client store: the consensus states / metadata the new state brings are added to the old ones -/
def mergeClient (old new : Client) : Client :=
  { new with cons := new.cons.foldl (fun t e => t.set e.1 e.2) old.cons,
             processed := new.processed.foldl (fun t e => t.set e.1 e.2) old.processed }

/-- Keeper.ToggleClient: the client must exist and be of another kind; its store is cleared and the new client installed.
Only the client table changes. -/
def toggleClient (c : Chain) (chain : Bytes) (cl : Client) : Err Chain :=
  match c.clients.get chain with
  | none => .error "toggle:client"
  | some old =>
    if old.kind = cl.kind then .error "toggle:kind"
    else .ok { c with clients := c.clients.set chain cl }

/-- Keeper.UpgradeClient: the client must exist and be of the same kind. Only the client table changes. -/
def upgradeClient (c : Chain) (chain : Bytes) (cl : Client) : Err Chain :=
  match c.clients.get chain with
  | none => .error "upgrade:client"
  | some old =>
    if old.kind = cl.kind then .ok { c with clients := c.clients.set chain (mergeClient old cl) }
    else .error "upgrade:kind"

def handle (env : Env) (c : Chain) (now : UInt64) : Msg → Err Chain
  | .recvPacket packet proof h signer cb =>
    if !recvBasic env packet h signer then .error "recv:basic" else recvPacket env c now packet proof h signer cb
  | .acknowledgement packet ack proof h signer o =>
    if !ackBasic env packet ack h signer then .error "ack:basic"
    else acknowledgement env c now packet ack proof h signer o
  | .sendPacket p ok => sendPacket env c p ok
  | .updateClient chain h root signer ok => updateClient c now chain h root signer ok
  | .createClient chain cl => .ok { c with clients := c.clients.set chain cl }
  | .registerRelayer r => .ok { c with relayers := insertRelayer r c.relayers }
  -- x/xibc ExportGenesis -> InitGenesis re-creates every client, consensus state, relayer, receipt, commitment,
  -- acknowledgement and send sequence under the key it had: the identity on the modelled state
  | .toggleClient chain cl => toggleClient c chain cl
  | .upgradeClient chain cl => upgradeClient c chain cl
  | .restart => .ok c

/-- runMsgs: a handler error discards every write of the message. -/
def deliver (env : Env) (c : Chain) (now : UInt64) (m : Msg) : Chain × Result :=
  match handle env c now m with
  | .ok c' => (c', .ok)
  | .error _ => (c, .err)

def errTag (env : Env) (c : Chain) (now : UInt64) (m : Msg) : String :=
  match handle env c now m with
  | .ok _ => "ok"
  | .error e => e

def run (env : Env) (c : Chain) : List (UInt64 × Msg) → Chain × List Result
  | [] => (c, [])
  | (now, m) :: ms =>
    let r := deliver env c now m
    let rest := run env r.1 ms
    (rest.1, r.2 :: rest.2)

end TM.Xibc
