import TeleportModel.Base.Util
/-
C12 — the token-pair registry of x/aggregate.

State: the three store maps of x/aggregate/keeper/token_pairs.go
  0x01 | id    ↦ TokenPair      (`pairs`)
  0x02 | erc20 ↦ id             (`byErc`)
  0x03 | denom ↦ id             (`byDen`)
plus what the guards of the governance actions read: the module parameter `EnableAggregate` and the bank
module's denomination metadata (`metas`, keyed by base denomination; bank never deletes metadata).

Actions: x/aggregate/keeper/proposals.go (RegisterCoin, AddCoin, RegisterERC20, ToggleRelay,
UpdateTokenPairERC20) behind their proposal `ValidateBasic` and the governance cache-context wrapper
(an error discards every write), the self-destruct clean-up of msg_server.go (ConvertCoin / ConvertERC20 call
`MintingEnabled` and then delete the pair if the contract is gone), genesis init / export / Validate.

Everything external is an input of the action (it arrives on the op line, taken from the real run):
`HasSupply`, the result of `QueryERC20`, the address the EVM gives to the deployed contract and whether the
deployment succeeded, the stateless proposal validation result, derived strings (`CreateDenom`,
`CreateDenomDescription`, `SanitizeERC20Name`), the set of live contracts.

The pair id is `tmhash(ERC20Address | "|" | Denoms[0])` (types/token_pair.go GetID) over the address STRING as stored.
The hash is a parameter `H : String → Denom → Id`; the theorems assume it injective (collision freeness) as a named hypothesis.

Strings are kept in the hex form of the line protocol (equal iff the real strings are equal, same
lexicographic order); only `hexAddr?` (go-ethereum `IsHexAddress` + `HexToAddress`) looks inside a string.
Addresses are 40 lower-case hex digits.
-/
namespace TM.Registry

/-! ### finite maps (association lists without duplicate keys by construction of `ins`) -/

abbrev Map (κ ν : Type) := List (κ × ν)

namespace Map
variable {κ ν : Type} [DecidableEq κ]

def find : Map κ ν → κ → Option ν
  | [], _ => none
  | (k', v) :: t, k => if k' = k then some v else find t k

def del (m : Map κ ν) (k : κ) : Map κ ν := m.filter (fun e => !decide (e.1 = k))

def ins (m : Map κ ν) (k : κ) (v : ν) : Map κ ν := (k, v) :: del m k

def insAll (m : Map κ ν) (ks : List κ) (v : ν) : Map κ ν := ks.foldl (fun m k => ins m k v) m

def delAll (m : Map κ ν) (ks : List κ) : Map κ ν := ks.foldl (fun m k => del m k) m

/-- the entries a KV-store iteration yields: one per key, the one `find` returns (for maps built with `ins` / `del`
this is the list itself) -/
def entriesAux (seen : List κ) : Map κ ν → Map κ ν
  | [] => []
  | (k, v) :: t => if seen.contains k then entriesAux seen t else (k, v) :: entriesAux (k :: seen) t

def entries (m : Map κ ν) : Map κ ν := entriesAux [] m

end Map

/-! ### data -/

abbrev Addr := String
abbrev Denom := String

/-- banktypes.Metadata (aliases of denom units are not read by any guard) -/
structure Meta where
  base : String
  name : String
  symbol : String
  display : String
  desc : String
  units : List (String × Nat)
  deriving DecidableEq, Repr, Inhabited

/-- types.ERC20Data returned by `QueryERC20` -/
structure ERC20Data where
  name : String
  symbol : String
  decimals : Nat
  deriving DecidableEq, Repr

/-- types.TokenPair; `owner`: 1 = OWNER_MODULE, 2 = OWNER_EXTERNAL.
`addrStr` is the field `ERC20Address` AS STORED: a string. The governance actions write `common.Address.String()`
(EIP-55 spelling); a genesis file may spell the same 20 bytes differently (lower case, upper case, without `0x`:
everything `common.IsHexAddress` accepts passes `TokenPair.Validate`). `GetID` hashes the STRING, the address index
is keyed by the 20 BYTES (`GetERC20Contract() = common.HexToAddress(ERC20Address)`, below `Pair.addr`). -/
structure Pair where
  addrStr : String
  denoms : List Denom
  enabled : Bool
  owner : Nat
  deriving DecidableEq, Repr

structure Reg (Id : Type) where
  enabled : Bool := true                 -- params.EnableAggregate
  pairs : Map Id Pair := []
  byErc : Map Addr Id := []
  byDen : Map Denom Id := []
  metas : Map Denom Meta := []

inductive Status where
  | ok | err | panic      -- proposals
  | rej | del | conv      -- ConvertCoin / ConvertERC20: MintingEnabled failed / pair deleted / conversion attempted
  deriving DecidableEq, Repr

def Status.str : Status → String
  | .ok => "ok" | .err => "err" | .panic => "panic" | .rej => "rej" | .del => "del" | .conv => "conv"

/-! ### go-ethereum `common.IsHexAddress` / `HexToAddress` on a (hex-encoded) string -/

def isHexChar (c : Char) : Bool :=
  ('0' ≤ c && c ≤ '9') || ('a' ≤ c && c ≤ 'f') || ('A' ≤ c && c ≤ 'F')

def lowerHex (c : Char) : Char := if 'A' ≤ c && c ≤ 'F' then Char.ofNat (c.toNat + 32) else c

def strip0x : List Char → List Char
  | '0' :: 'x' :: t => t
  | '0' :: 'X' :: t => t
  | l => l

/-- `some a` iff `common.IsHexAddress(s)`; then `a = HexToAddress(s)` (canonical lower-case form). -/
def hexAddr? (tokenHex : String) : Option Addr :=
  match TM.unhex tokenHex with
  | none => none
  | some bs =>
    let cs := strip0x (bs.map (fun b => Char.ofNat b.toNat))
    if cs.length = 40 ∧ cs.all isHexChar then some (String.ofList (cs.map lowerHex)) else none

/-- `common.HexToAddress` on a string that `IsHexAddress` accepts: optional `0x`/`0X` dropped, 40 digits, case
irrelevant; result in the canonical form of the line protocol (40 lower-case digits). -/
def addrOf (s : String) : Addr := String.ofList ((strip0x s.toList).map lowerHex)

/-- `common.IsHexAddress` on an address string (ethermint `ValidateAddress`, used by `TokenPair.Validate`) -/
def isHexAddressStr (s : String) : Bool :=
  let cs := strip0x s.toList
  cs.length = 40 && cs.all isHexChar

/-- TokenPair.GetERC20Contract -/
def Pair.addr (p : Pair) : Addr := addrOf p.addrStr

/-! ### the keeper functions -/

section
variable {Id : Type} [DecidableEq Id] (H : String → Denom → Id)

/-- TokenPair.GetID = tmhash(ERC20Address + "|" + Denoms[0]): the address STRING as stored; `Denoms[0]` panics on an
empty list -/
def getID (p : Pair) : Option Id :=
  match p.denoms with
  | [] => none
  | d :: _ => some (H p.addrStr d)

/-- Keeper.GetTokenPairID -/
def tokenPairID (r : Reg Id) (tokenHex : String) : Option Id :=
  match hexAddr? tokenHex with
  | some a => r.byErc.find a
  | none => r.byDen.find tokenHex

/-- types.EqualMetadata, literally: the denom units are compared as `*DenomUnit` POINTERS; the stored side was just
unmarshalled, so two units are never equal — the function succeeds only if there is no unit to compare. -/
def equalMetadata (stored given : Meta) : Bool :=
  if stored.base = given.base ∧ stored.desc = given.desc ∧ stored.display = given.display
      ∧ stored.name = given.name ∧ stored.symbol = given.symbol then
    if stored.units.length ≠ given.units.length then false
    else stored.units.isEmpty
  else false

/-- Keeper.verifyMetadata: `none` = error, `some metas'` = ok -/
def verifyMetadata (metas : Map Denom Meta) (m : Meta) : Option (Map Denom Meta) :=
  match metas.find m.base with
  | none => some (metas.ins m.base m)
  | some st => if equalMetadata st m then some metas else none

/-- the part of banktypes.Metadata.Validate the model itself relies on (the display denomination is one of the
units; in particular there is at least one unit); the rest of `ValidateBasic` arrives as the bit `vb`. -/
def hasDisplayUnit (m : Meta) : Bool := m.units.any (fun u => u.1 = m.display)

/-- Keeper.DeleteTokenPair -/
def deleteTokenPair (r : Reg Id) (p : Pair) : Option (Reg Id) :=
  match getID H p with
  | none => none
  | some id => some { r with pairs := r.pairs.del id, byErc := r.byErc.del p.addr, byDen := r.byDen.delAll p.denoms }

/-- Keeper.RegisterCoin behind RegisterCoinProposal.ValidateBasic -/
def registerCoin (r : Reg Id) (vb hasSupply isEvmDenom deployOk : Bool) (deployAddr : Addr) (deployStr : String) (m : Meta) :
    Reg Id × Status :=
  if !(vb && hasDisplayUnit m) then (r, .err) else
  if !r.enabled then (r, .err) else
  if isEvmDenom then (r, .err) else
  if (r.byDen.find m.name).isSome then (r, .err) else        -- IsDenomRegistered(metadata.Name)  (Name, not Base)
  if !hasSupply then (r, .err) else
  match verifyMetadata r.metas m with
  | none => (r, .err)
  | some metas' =>
    match m.units with
    | [] => (r, .panic)                                        -- DeployERC20Contract: DenomUnits[0]
    | _ :: _ =>
      if !deployOk then (r, .err) else
      let pair : Pair := { addrStr := deployStr, denoms := [m.base], enabled := true, owner := 1 }   -- addr.String()
      let id := H deployStr m.base
      ({ r with metas := metas', pairs := r.pairs.ins id pair,
                byDen := r.byDen.insAll pair.denoms id, byErc := r.byErc.ins deployAddr id }, .ok)

/-- Keeper.AddCoin behind AddCoinProposal.ValidateBasic -/
def addCoin (r : Reg Id) (vb hasSupply isEvmDenom : Bool) (contractHex : String) (m : Meta) : Reg Id × Status :=
  if !(vb && hasDisplayUnit m) then (r, .err) else
  match hexAddr? contractHex with
  | none => (r, .err)
  | some a =>
    if !r.enabled then (r, .err) else
    if isEvmDenom then (r, .err) else
    if (r.byDen.find m.name).isSome then (r, .err) else
    if !hasSupply then (r, .err) else
    match verifyMetadata r.metas m with
    | none => (r, .err)
    | some metas' =>
      match r.byErc.find a with
      | none => (r, .err)
      | some id =>
        match r.pairs.find id with
        | none => (r, .err)
        | some p =>
          let p' : Pair := { p with denoms := p.denoms ++ [m.base] }
          match getID H p' with
          | none => (r, .panic)
          | some id' =>
            if id ≠ id' then (r, .err) else
            ({ r with metas := metas', pairs := r.pairs.ins id' p', byDen := r.byDen.ins m.base id' }, .ok)

/-- Keeper.RegisterERC20 (+ CreateCoinMetadata) behind RegisterERC20Proposal.ValidateBasic.
`denom = CreateDenom(contract.String())`, `desc = CreateDenomDescription(contract.String())`,
`sanitized = SanitizeERC20Name(name)`, `mdValid` = result of `metadata.Validate()` on the constructed metadata. -/
def registerERC20 (r : Reg Id) (vb : Bool) (addr : Addr) (addrStr : String) (q : Option ERC20Data)
    (sanitized denom desc : String) (mdValid : Bool) : Reg Id × Status :=
  if !vb then (r, .err) else
  if !r.enabled then (r, .err) else
  if (r.byErc.find addr).isSome then (r, .err) else
  match q with
  | none => (r, .err)
  | some d =>
    if (r.metas.find denom).isSome then (r, .err) else
    if (r.byDen.find denom).isSome then (r, .err) else
    let md : Meta :=
      { base := denom, name := denom, symbol := d.symbol, desc := desc,
        display := if d.decimals > 0 then sanitized else denom,
        units := (denom, 0) :: (if d.decimals > 0 then [(sanitized, d.decimals)] else []) }
    if !mdValid then (r, .err) else
    let pair : Pair := { addrStr := addrStr, denoms := [md.name], enabled := true, owner := 2 }   -- contract.String()
    let id := H addrStr md.name
    ({ r with metas := r.metas.ins md.base md, pairs := r.pairs.ins id pair,
              byDen := r.byDen.insAll pair.denoms id, byErc := r.byErc.ins addr id }, .ok)

/-- Keeper.ToggleRelay behind ToggleTokenRelayProposal.ValidateBasic -/
def toggleRelay (r : Reg Id) (vb : Bool) (tokenHex : String) : Reg Id × Status :=
  if !vb then (r, .err) else
  match tokenPairID r tokenHex with
  | none => (r, .err)
  | some id =>
    match r.pairs.find id with
    | none => (r, .err)
    | some p =>
      let p' : Pair := { p with enabled := !p.enabled }
      match getID H p' with
      | none => (r, .panic)                                    -- SetTokenPair: GetID
      | some id' => ({ r with pairs := r.pairs.ins id' p' }, .ok)

/-- the checks of UpdateTokenPairERC20 between the pair lookup and the writes; `some md` = passed -/
def updateChecks (r : Reg Id) (d0 : Denom) (q : Option ERC20Data) (descOld : String) : Option Meta :=
  match r.metas.find d0 with
  | none => none
  | some md =>
    if md.units.isEmpty then none else
    match q with
    | none => none
    | some e =>
      if md.display ≠ e.name ∨ md.symbol ≠ e.symbol ∨ md.desc ≠ descOld then none else
      match md.units.find? (fun u => u.1 = e.name) with
      | none => none
      | some u => if u.2 ≠ e.decimals then none else some md

/-- Keeper.UpdateTokenPairERC20 AS IT IS in the repository: after `DeleteTokenPair` (which removes the index entries
of every denomination) only `Denoms[0]` is indexed again, and the new address is not checked against the registry. -/
def updateERC20Orig (r : Reg Id) (vb : Bool) (old new : Addr) (newStr : String) (q : Option ERC20Data)
    (descOld descNew : String) : Reg Id × Status :=
  if !vb then (r, .err) else
  match r.byErc.find old with
  | none => (r, .err)
  | some id =>
    match r.pairs.find id with
    | none => (r, .err)
    | some p =>
      match p.denoms with
      | [] => (r, .panic)
      | d0 :: _ =>
        match updateChecks r d0 q descOld with
        | none => (r, .err)
        | some md =>
          let r1 := { r with metas := r.metas.ins md.base { md with desc := descNew } }
          match deleteTokenPair H r1 p with
          | none => (r, .panic)
          | some r2 =>
            let p' : Pair := { p with addrStr := newStr }        -- newERC20Addr.Hex()
            let newID := H newStr d0
            ({ r2 with pairs := r2.pairs.ins newID p', byDen := r2.byDen.ins d0 newID,
                       byErc := r2.byErc.ins new newID }, .ok)

/-- UpdateTokenPairERC20 with the repair of fixes/C12-update-erc20-reindex.diff: a new address that is already
registered is rejected, and every denomination of the pair is indexed under the new id. -/
def updateERC20 (r : Reg Id) (vb : Bool) (old new : Addr) (newStr : String) (q : Option ERC20Data)
    (descOld descNew : String) : Reg Id × Status :=
  if !vb then (r, .err) else
  match r.byErc.find old with
  | none => (r, .err)
  | some id =>
    match r.pairs.find id with
    | none => (r, .err)
    | some p =>
      if (r.byErc.find new).isSome then (r, .err) else          -- repair (1)
      match p.denoms with
      | [] => (r, .panic)
      | d0 :: _ =>
        match updateChecks r d0 q descOld with
        | none => (r, .err)
        | some md =>
          let r1 := { r with metas := r.metas.ins md.base { md with desc := descNew } }
          match deleteTokenPair H r1 p with
          | none => (r, .panic)
          | some r2 =>
            let p' : Pair := { p with addrStr := newStr }        -- newERC20Addr.Hex()
            let newID := H newStr d0
            ({ r2 with pairs := r2.pairs.ins newID p', byDen := r2.byDen.insAll p'.denoms newID,   -- repair (2)
                       byErc := r2.byErc.ins new newID }, .ok)

/-- Keeper.MintingEnabled as far as the registry is concerned (blocked receiver / send-enabled are environment:
the harness converts between an account and its own EVM address). `none` = rejected. -/
def mintingEnabled (r : Reg Id) (tokenHex denomHex : String) : Option Pair :=
  if !r.enabled then none else
  let id := tokenPairID r tokenHex
  let denomId := tokenPairID r denomHex
  if denomId ≠ id then none else
  match id with
  | none => none
  | some id =>
    match r.pairs.find id with
    | none => none
    | some p => if !p.enabled then none else some p

/-- msg_server.go ConvertCoin / ConvertERC20 as far as the registry is concerned: the pair of a contract that no longer
exists is deleted (and the message succeeds so that the deletion persists); otherwise the conversion runs and does not
touch the registry. `live` = the addresses that currently hold contract code. -/
def convert (r : Reg Id) (vb : Bool) (tokenHex denomHex : String) (live : List Addr) : Reg Id × Status :=
  if !vb then (r, .rej) else                                  -- MsgConvertCoin / MsgConvertERC20 .ValidateBasic
  match mintingEnabled r tokenHex denomHex with
  | none => (r, .rej)
  | some p =>
    if live.contains p.addr then (r, .conv) else
    match deleteTokenPair H r p with
    | none => (r, .panic)
    | some r' => (r', .del)

/-! ### genesis (x/aggregate/genesis.go, types/genesis.go) -/

/-- GenesisState.Validate as far as pairs are concerned: duplicates of the address STRING (`seenErc20` is keyed by
`b.ERC20Address`, two spellings of one contract are different keys) and of `Denoms[0]` ONLY (`Denoms[0]` on an empty list
panics: `none`), then `TokenPair.Validate`: the address string must be a hex address (the denominations are syntactically
valid in every generated file). -/
def validateGenesisAux (seenE : List String) (seenD : List Denom) : List Pair → Option Bool
  | [] => some true
  | p :: ps =>
    if seenE.contains p.addrStr then some false else
    match p.denoms with
    | [] => none
    | d :: _ =>
      if seenD.contains d then some false else
      if !isHexAddressStr p.addrStr then some false else
      validateGenesisAux (p.addrStr :: seenE) (d :: seenD) ps

def validateGenesis (ps : List Pair) : Option Bool := validateGenesisAux [] [] ps

/-- `seenDenom` of the repaired Validate: every denomination of the pair, `none` = one of them was seen before -/
def addDenoms (seen : List Denom) : List Denom → Option (List Denom)
  | [] => some seen
  | d :: ds => if seen.contains d then none else addDenoms (d :: seen) ds

/-- GenesisState.Validate with the repair of fixes/C12-genesis-validate-duplicates.diff: a pair needs a denomination,
`TokenPair.Validate` first, contracts compared as 20-byte addresses, EVERY denomination checked for duplicates. -/
def validateGenesisStrictAux (seenE : List Addr) (seenD : List Denom) : List Pair → Bool
  | [] => true
  | p :: ps =>
    if p.denoms.isEmpty then false else
    if !isHexAddressStr p.addrStr then false else
    if seenE.contains p.addr then false else
    match addDenoms seenD p.denoms with
    | none => false
    | some seenD' => validateGenesisStrictAux (p.addr :: seenE) seenD' ps

def validateGenesisStrict (ps : List Pair) : Bool := validateGenesisStrictAux [] [] ps

/-- InitGenesis: for every pair `id := GetID()` (from the string as written), `SetTokenPair` (under `GetID()` of the pair as
stored — the same string), `SetDenomsMap(id)`, `SetERC20Map(GetERC20Contract(), id)` (`none` = GetID panicked) -/
def initGenesis (r : Reg Id) : List Pair → Option (Reg Id)
  | [] => some r
  | p :: ps =>
    match getID H p with
    | none => none
    | some id =>
      initGenesis { r with pairs := r.pairs.ins id p, byDen := r.byDen.insAll p.denoms id, byErc := r.byErc.ins p.addr id } ps

/-- ExportGenesis: `GetAllTokenPairs` (store order; the order is irrelevant for the theorems) -/
def exportGenesis (r : Reg Id) : List Pair := (Map.entries r.pairs).map (·.2)

/-- the module store emptied (params and bank metadata are other stores) -/
def wipe (r : Reg Id) : Reg Id := { r with pairs := [], byErc := [], byDen := [] }

/-- RESTART of the module in the middle of a history: `ExportGenesis` → (JSON, `Validate`: checked on the real code and by
the driver) → empty store → `InitGenesis`. `none` = InitGenesis panicked. Theorem `restart_identity`: on a consistent
registry this is the identity. -/
def restart (r : Reg Id) : Option (Reg Id) := initGenesis H (wipe r) (exportGenesis r)



/-! ### actions and runs -/

inductive Action where
  | setParams (enable : Bool)
  | bankMeta (m : Meta)                  -- environment: some other module / genesis writes bank metadata
  | registerCoin (vb hasSupply isEvmDenom deployOk : Bool) (deployAddr : Addr) (deployStr : String) (m : Meta)
  | addCoin (vb hasSupply isEvmDenom : Bool) (contractHex : String) (m : Meta)
  | registerERC20 (vb : Bool) (addr : Addr) (addrStr : String) (q : Option ERC20Data) (sanitized denom desc : String) (mdValid : Bool)
  | toggle (vb : Bool) (tokenHex : String)
  | update (vb : Bool) (old new : Addr) (newStr : String) (q : Option ERC20Data) (descOld descNew : String)
  | convert (vb : Bool) (tokenHex denomHex : String) (live : List Addr)
  | restart                              -- the module is restarted from its own export (see `restart`)
  deriving Repr

/-- one governance action / conversion message; `fixed` selects the repaired UpdateTokenPairERC20 -/
def stepWith (fixed : Bool) (r : Reg Id) : Action → Reg Id × Status
  | .setParams b => ({ r with enabled := b }, .ok)
  | .bankMeta m => ({ r with metas := r.metas.ins m.base m }, .ok)
  | .registerCoin vb hs ev dk a as m => registerCoin H r vb hs ev dk a as m
  | .addCoin vb hs ev c m => addCoin H r vb hs ev c m
  | .registerERC20 vb a as q s d ds mv => registerERC20 H r vb a as q s d ds mv
  | .toggle vb t => toggleRelay H r vb t
  | .update vb o n ns q d1 d2 => if fixed then updateERC20 H r vb o n ns q d1 d2 else updateERC20Orig H r vb o n ns q d1 d2
  | .convert vb t d l => convert H r vb t d l
  | .restart => match restart H r with
    | some r' => (r', .ok)
    | none => (r, .panic)

def step (r : Reg Id) (a : Action) : Reg Id × Status := stepWith H true r a
def stepOrig (r : Reg Id) (a : Action) : Reg Id × Status := stepWith H false r a

def runWith (fixed : Bool) (r : Reg Id) : List Action → Reg Id
  | [] => r
  | a :: as => runWith fixed (stepWith H fixed r a).1 as

def run (r : Reg Id) (as : List Action) : Reg Id := runWith H true r as
def runOrig (r : Reg Id) (as : List Action) : Reg Id := runWith H false r as

end

end TM.Registry
