import TeleportModel.Base.Util
/-
C13 — key-value store and byte-string utilities used by `Model/Genesis.lean`.

A store is an association list kept in strictly ascending key order (the order in which the IAVL /
cachekv iterators of cosmos-sdk enumerate keys: plain lexicographic order on the raw key bytes).
`Sorted` is the well-formedness invariant (it implies "no duplicate keys"); `set`/`del` preserve it.
Prefix iteration (`iter`) is the key-ordered sub-list. Core Lean only.
-/
namespace TM.GKv
open TM

/-- strict lexicographic order on byte strings (`bytes.Compare a b < 0`) -/
def blt : Bytes → Bytes → Bool
  | [], [] => false
  | [], _ :: _ => true
  | _ :: _, [] => false
  | a :: as, b :: bs =>
    if a.toNat < b.toNat then true else if b.toNat < a.toNat then false else blt as bs

abbrev Store := List (Bytes × Bytes)

def get : Store → Bytes → Option Bytes
  | [], _ => none
  | (k', v) :: r, k => if k' = k then some v else get r k

/-- ordered insert / replace -/
def set : Store → Bytes → Bytes → Store
  | [], k, v => [(k, v)]
  | (k', v') :: r, k, v =>
    if k' = k then (k, v) :: r
    else if blt k k' then (k, v) :: (k', v') :: r
    else (k', v') :: set r k v

def del : Store → Bytes → Store
  | [], _ => []
  | (k', v') :: r, k => if k' = k then r else (k', v') :: del r k

def Sorted (s : Store) : Prop := s.Pairwise (fun a b => blt a.1 b.1 = true)

def sortedB : Store → Bool
  | [] => true
  | [_] => true
  | a :: b :: r => blt a.1 b.1 && sortedB (b :: r)

/-- apply a list of writes in order (later writes win) -/
def setAll (s : Store) (l : List (Bytes × Bytes)) : Store := l.foldl (fun s kv => set s kv.1 kv.2) s

/-- `sdk.KVStorePrefixIterator(store, p)`: the entries whose key starts with `p`, in key order -/
def iter (s : Store) (p : Bytes) : Store := s.filter (fun kv => p.isPrefixOf kv.1)

def isSuffix (suf k : Bytes) : Bool := suf.reverse.isPrefixOf k.reverse

/-! ### big-endian uint64 (`sdk.Uint64ToBigEndian`, `binary.BigEndian.Uint64`) -/

def natOfBE (bs : Bytes) : Nat := bs.foldl (fun a b => a * 256 + b.toNat) 0

def be64 (n : UInt64) : Bytes :=
  [56, 48, 40, 32, 24, 16, 8, 0].map (fun sh => UInt8.ofNat (n.toNat / 2 ^ sh % 256))

/-- only used on exactly 8 bytes -/
def u64OfBE (bs : Bytes) : UInt64 := UInt64.ofNat (natOfBE bs)

/-! ### decimal (`%d`, `strconv.ParseUint(s, 10, 64)`) -/

def digit (n : Nat) : UInt8 := UInt8.ofNat (48 + n % 10)

def toDecAux : Nat → Nat → Bytes → Bytes
  | 0, _, acc => acc
  | fuel + 1, n, acc =>
    if n < 10 then digit n :: acc else toDecAux fuel (n / 10) (digit (n % 10) :: acc)

/-- decimal representation of a uint64 (at most 20 digits) -/
def toDec (n : Nat) : Bytes := toDecAux 20 n []

def parseDecAux : Bytes → Nat → Option Nat
  | [], acc => some acc
  | c :: r, acc =>
    if 48 ≤ c.toNat ∧ c.toNat ≤ 57 then parseDecAux r (acc * 10 + (c.toNat - 48)) else none

/-- `strconv.ParseUint(s, 10, 64)`: non-empty, digits only (leading zeros allowed), value < 2^64 -/
def parseDec (b : Bytes) : Option Nat :=
  if b = [] then none else
  match parseDecAux b 0 with
  | some n => if n < 2 ^ 64 then some n else none
  | none => none

/-! ### splitting (`strings.Split(s, "/")`, `bytes.IndexByte`) -/

def splitOn (sep : UInt8) : Bytes → List Bytes
  | [] => [[]]
  | c :: r =>
    if c = sep then [] :: splitOn sep r
    else match splitOn sep r with
      | [] => [[c]]
      | h :: t => (c :: h) :: t

/-- split at the first separator -/
def breakAt (sep : UInt8) : Bytes → Option (Bytes × Bytes)
  | [] => none
  | c :: r =>
    if c = sep then some ([], r)
    else match breakAt sep r with
      | none => none
      | some (a, b) => some (c :: a, b)

def slash : UInt8 := 0x2f

def joinSlash : List Bytes → Bytes
  | [] => []
  | [a] => a
  | a :: r => a ++ slash :: joinSlash r

end TM.GKv
