import TeleportModel.Base.Util
/-
C03 — multi-chain world model of cross-chain value transfer.

A family of chains indexed by `ChainId`; per chain an abstract but executable model of the token bookkeeping of
the system contracts (endpoint `crossChainCall` / `onRecvPacket` / `onAcknowledgementPacket`, packet
`sendPacket` / `onRecvPacket` / `setAckStatus` / `sendPacketFeeToRelayer` / `OnAcknowledgePacket`, the `agent`
contract's `send` / `callback`), the keeper state the packet handlers maintain (next sequence, commitments,
receipts, acknowledgements) and the two Go handlers `msg_server.RecvPacket` / `msg_server.Acknowledgement`,
the first with its context handling (`ctx`, `cctx := ctx.CacheContext()`, `write()`) explicit.

`recvHandler fixed := true`  is the repaired handler (callback on `cctx`, written back only for result code 0),
`recvHandler fixed := false` is the handler of the unchanged tree (callback on `ctx`).

Relayer steps read the *source chain's committed state* (ideal light client; conclusion of C02/C07).
Contract byte code is modelled, not verified; the differential run ties this file to the byte code.
Core Lean only (links into `tpmodel`).
-/
namespace TM.World

abbrev ChainId := Nat
abbrev Token := Nat      -- token id local to a chain; 0 = native coin (zero address)
abbrev Acct := Nat

def acEndpoint : Acct := 1
def acPacket : Acct := 2
def acAgent : Acct := 3
def acExecute : Acct := 4
def acRelayer : Acct := 5
def acForwarder : Acct := 10   -- a batching contract: one transaction, several `crossChainCall`s
def acEmitter : Acct := 11     -- any OTHER contract: it can emit logs shaped like the packet contract's `PacketSent(bytes)`
def acSwitch : Acct := 12      -- a sender's callback contract that reverts while its switch is on

/-- accounts 13 … 20: module accounts of the app (gov, fee collector, ibc transfer, bonded / not-bonded pool, the xibc packet
module, aggregate, evm). The bank refuses to credit the NATIVE coin to them ("blocked addresses"); ERC-20 balances are
contract storage and are not affected. -/
def blocked (a : Acct) : Bool := decide (13 ≤ a ∧ a ≤ 20)

/-- token amounts, allowances and supplies are `uint256`: checked arithmetic reverts at 2^256 -/
def U256 : Nat := 2 ^ 256

/-- packet sequences are `uint64`: the counter can not pass 2^64-1, so the last sequence that can be sent is 2^64-2 -/
def U64 : Nat := 2 ^ 64

def upd1 {α} (f : Nat → α) (k : Nat) (v : α) : Nat → α := fun x => if x = k then v else f x
def upd2 {α} (f : Nat → Nat → α) (a b : Nat) (v : α) : Nat → Nat → α :=
  fun x y => if x = a ∧ y = b then v else f x y

/-- What the execution of a packet's call data does on the destination (no token effect of its own). -/
inductive Plain
  | ok        -- succeeds
  | fail      -- fails inside the EVM: `Execute.execute` returns success = false
  | revert    -- makes the whole `onRecvPacket` EVM call revert (e.g. malformed contract address string)
  | hookFail  -- EVM call succeeds, a post-transaction hook fails afterwards (e.g. staking event with an invalid validator)
  deriving DecidableEq, Repr

inductive Call
  | none
  | plain (k : Plain)
  /-- `agent.send(refund, receiver, dst, fee)`: forward the received tokens to `dst` (nested crossChainCall). -/
  | agent (refund recv : Acct) (dst : ChainId) (fee : Nat)
  deriving DecidableEq, Repr

structure Transfer where
  token : Token            -- token id on the source chain
  ori : Option Token       -- `some o`: a bound token going back to its origin chain, where it is `o`
  amount : Nat
  receiver : Acct
  deriving DecidableEq, Repr

structure Packet where
  src : ChainId
  dst : ChainId
  seq : Nat
  sender : Acct
  transfer : Option Transfer
  call : Call
  callback : Bool          -- callback address = the agent contract
  cbSwitch : Bool := false -- callback address = the switch contract `acSwitch` (a user's own callback contract)
  deriving DecidableEq, Repr

/-- Static configuration of a chain (governance: `bindToken`, client creation). -/
structure Cfg where
  clients : ChainId → Bool
  trace : ChainId → Token → Option Token     -- (origin chain, origin token) ↦ bound token here (`bindingTraces`)
  ori : Token → ChainId → Option Token       -- (bound token here, origin chain) ↦ origin token (`bindings[..].oriToken`)
  scale : Token → ChainId → Nat              -- (bound token here, origin chain) ↦ `bindings[..].scale`: 1 origin unit = 10^scale bound units
  seq0 : ChainId → Nat := fun _ => 1         -- first send sequence of the path towards a chain (1 unless the counter was planted, e.g. by an imported genesis)

/-- Everything an EVM revert rolls back. `credited` / `refunded` are ghost counters living next to the token
effects they count (so they share their fate under every rollback). -/
structure Evm where
  bal : Token → Acct → Nat
  supply : Token → Nat                       -- ERC-20 total supply of bound tokens (mint / burn)
  out : Token → ChainId → Nat                -- endpoint `outTokens[token][dst]`
  bindAmt : Token → ChainId → Nat            -- endpoint `bindings[token/oriChain].amount`
  ackStatus : ChainId → Nat → Nat            -- packet `ackStatus[dst/seq]`
  fee : ChainId → Nat → Token × Nat          -- packet `packetFees[dst/seq]`
  agentData : ChainId → Nat → Option (Token × Nat × Acct)
  allow : Token → Acct → Nat                 -- ERC-20 allowance of the endpoint contract over an account's tokens
  feePaid : ChainId → Nat → Nat              -- ghost: (dst, seq) ↦ times the relay fee of that packet was paid out
  credited : ChainId → Nat → Nat             -- ghost: (src, seq) ↦ times the effects of that packet were applied here
  refunded : ChainId → Nat → Nat             -- ghost: (dst, seq) ↦ times that packet was refunded here

/-- Everything a cache context (`ctx.CacheContext()`) branches: EVM state and keeper stores. -/
structure Chain where
  evm : Evm
  nextSeq : ChainId → Nat
  commits : List Packet                      -- packet commitments (sent, not yet acknowledged)
  receipts : ChainId → Nat → Bool
  acks : ChainId → Nat → Option Nat          -- (src, seq) ↦ acknowledgement code written here

def Evm.empty : Evm :=
  { bal := fun _ _ => 0, supply := fun _ => 0, out := fun _ _ => 0, bindAmt := fun _ _ => 0,
    ackStatus := fun _ _ => 0, fee := fun _ _ => (0, 0), agentData := fun _ _ => none,
    allow := fun _ _ => 0, feePaid := fun _ _ => 0,
    credited := fun _ _ => 0, refunded := fun _ _ => 0 }

def Chain.empty : Chain :=
  { evm := Evm.empty, nextSeq := fun _ => 1, commits := [], receipts := fun _ _ => false, acks := fun _ _ => none }

def debit (e : Evm) (t : Token) (a : Acct) (n : Nat) : Option Evm :=
  if e.bal t a < n then none else some { e with bal := upd2 e.bal t a (e.bal t a - n) }

def credit (e : Evm) (t : Token) (a : Acct) (n : Nat) : Evm :=
  { e with bal := upd2 e.bal t a (e.bal t a + n) }

/-- ERC-20 `transferFrom` / `burnFrom` executed by the endpoint: consumes the allowance (the native coin, token 0,
travels as `msg.value` and needs none). -/
def spend (e : Evm) (t : Token) (a : Acct) (n : Nat) : Option Evm :=
  if t = 0 then some e
  else if e.allow t a < n then none
  else if e.allow t a = U256 - 1 then some e                  -- `type(uint256).max` is an unlimited allowance: not consumed
  else some { e with allow := upd2 e.allow t a (e.allow t a - n) }

/-- `spend` then `debit`: what `transferFrom(a, …, n)` / `burnFrom(a, n)` needs. -/
def pull (e : Evm) (t : Token) (a : Acct) (n : Nat) : Option Evm :=
  match spend e t a n with
  | none => none
  | some e => debit e t a n

structure SendArgs where
  dst : ChainId
  token : Token
  amount : Nat
  receiver : Acct
  call : Call
  feeToken : Token
  feeAmount : Nat
  callback : Bool
  cbSwitch : Bool := false
  deriving DecidableEq, Repr

/-- Contract part of `endpoint.crossChainCall` + `packet.sendPacket` (all-or-nothing inside the EVM). -/
def sendEvm (cfg : Cfg) (self : ChainId) (seq : Nat) (e : Evm) (sender : Acct) (a : SendArgs) : Option (Evm × Packet) :=
  if a.dst = self then none
  else if a.amount = 0 ∧ a.call = Call.none then none
  else
    match pull e a.feeToken sender a.feeAmount with
    | none => none
    | some e =>
      let e := credit e a.feeToken acPacket a.feeAmount
      let e := { e with fee := upd2 e.fee a.dst seq (a.feeToken, a.feeAmount) }
      let pk (tr : Option Transfer) : Packet :=
        { src := self, dst := a.dst, seq := seq, sender := sender, transfer := tr, call := a.call, callback := a.callback,
          cbSwitch := a.cbSwitch }
      if a.amount = 0 then some (e, pk none)
      else
        match cfg.ori a.token a.dst with
        | some o =>
          -- bound token going back to its origin: `amount` is in origin units, burn amount·10^scale,
          -- bindings.amount -= amount·10^scale
          if e.bindAmt a.token a.dst < a.amount * 10 ^ cfg.scale a.token a.dst then none
          else
            match pull e a.token sender (a.amount * 10 ^ cfg.scale a.token a.dst) with
            | none => none
            | some e =>
              some ({ e with supply := upd1 e.supply a.token (e.supply a.token - a.amount * 10 ^ cfg.scale a.token a.dst),
                             bindAmt := upd2 e.bindAmt a.token a.dst
                               (e.bindAmt a.token a.dst - a.amount * 10 ^ cfg.scale a.token a.dst) },
                    pk (some { token := a.token, ori := some o, amount := a.amount, receiver := a.receiver }))
        | none =>
          -- origin token (or a token not bound towards dst): escrow, outTokens += amount
          match pull e a.token sender a.amount with
          | none => none
          | some e =>
            let e := credit e a.token acEndpoint a.amount
            some ({ e with out := upd2 e.out a.token a.dst (e.out a.token a.dst + a.amount) },
                  pk (some { token := a.token, ori := none, amount := a.amount, receiver := a.receiver }))

/-- Post-transaction hook of the packet keeper: `Keeper.SendPacket` for the `PacketSent` event. -/
def sendKeeper (cfg : Cfg) (c : Chain) (p : Packet) : Option Chain :=
  -- client exists; packet sequence = next send sequence; the incremented counter fits a uint64 (`setSequence` reverts otherwise)
  if cfg.clients p.dst ∧ p.seq = c.nextSeq p.dst ∧ p.seq + 1 < U64 then
    some { c with nextSeq := upd1 c.nextSeq p.dst (p.seq + 1), commits := p :: c.commits }
  else none

/-- A user's `crossChainCall` transaction (`ApplyTransaction`: EVM state and hooks commit together or not at all).
The system contracts themselves never originate a `crossChainCall` (byte-code fact; the agent does, inside a receive). -/
def send (cfg : Cfg) (self : ChainId) (c : Chain) (sender : Acct) (a : SendArgs) : Option Chain :=
  if sender = acEndpoint ∨ sender = acPacket then none else
  match sendEvm cfg self (c.nextSeq a.dst) c.evm sender a with
  | none => none
  | some (e, p) => sendKeeper cfg { c with evm := e } p

/-- One call frame of a batching (forwarder) contract. -/
inductive Leg
  | approve (t : Token) (n : Nat)      -- token.approve(endpoint, n) by the forwarder
  | send (a : SendArgs)                -- endpoint.crossChainCall{value}(a) by the forwarder
  | fakelog (p : Packet)               -- a call to a contract that emits LOG1(keccak("PacketSent(bytes)"), abi(p)): a look-alike
  deriving Repr

/-- native coin a leg needs as `msg.value` -/
def Leg.value : Leg → Nat
  | .approve _ _ => 0
  | .send a => (if a.token = 0 then a.amount else 0) + (if a.feeToken = 0 then a.feeAmount else 0)
  | .fakelog _ => 0

/-- a log of the receipt that has the `PacketSent(bytes)` topic: who emitted it, and the packet its data encodes -/
abbrev SentLog := Acct × Packet

/-- `Hooks.PostTxProcessing` considers ONLY the logs emitted by the packet contract itself
(`log.Address != PacketContractAddress ⇒ continue`): a look-alike log of any other contract is not a packet. -/
def hookPackets (logs : List SentLog) : List Packet :=
  (logs.filter (fun l => l.1 == acPacket)).map (·.2)

/-- EVM part of a batch: the frames run in order on ONE EVM state and every `crossChainCall` reads the same
`getNextSequenceSend` (`seq0`): the keeper's hook runs only after the EVM has finished. `strict`: a failing frame
reverts the whole transaction; otherwise only that frame's own changes are reverted. Returns the logs of the receipt
that carry the `PacketSent(bytes)` topic, each with its emitter. -/
def batchEvm (cfg : Cfg) (self : ChainId) (seq0 : ChainId → Nat) (strict : Bool) : Evm → List Leg → Option (Evm × List SentLog)
  | e, [] => some (e, [])
  | e, .approve t n :: ls => batchEvm cfg self seq0 strict { e with allow := upd2 e.allow t acForwarder n } ls
  | e, .send a :: ls =>
    match sendEvm cfg self (seq0 a.dst) e acForwarder a with
    | none => if strict then none else batchEvm cfg self seq0 strict e ls
    | some (e1, p) =>
      match batchEvm cfg self seq0 strict e1 ls with
      | none => none
      | some (e2, ps) => some (e2, (acPacket, p) :: ps)
  | e, .fakelog p :: ls =>
    match batchEvm cfg self seq0 strict e ls with
    | none => none
    | some (e2, ps) => some (e2, (acEmitter, p) :: ps)

/-- Hook part of a batch: `Hooks.PostTxProcessing` handles EVERY `PacketSent` log of the receipt, in order, and fails
on the first `SendPacket` that fails. -/
def batchKeeper (cfg : Cfg) : Chain → List Packet → Option Chain
  | c, [] => some c
  | c, p :: ps =>
    match sendKeeper cfg c p with
    | none => none
    | some c1 => batchKeeper cfg c1 ps

/-- One transaction of `sender` to the forwarder contract carrying the legs' native coin as value
(`ApplyTransaction`: EVM state and ALL hooks commit together or not at all). -/
def batch (cfg : Cfg) (self : ChainId) (c : Chain) (sender : Acct) (strict : Bool) (legs : List Leg) : Option Chain :=
  if sender = acEndpoint ∨ sender = acPacket then none else
  match debit c.evm 0 sender ((legs.map Leg.value).sum) with
  | none => none
  | some e0 =>
    match batchEvm cfg self c.nextSeq strict (credit e0 0 acForwarder ((legs.map Leg.value).sum)) legs with
    | none => none
    | some (e1, logs) => batchKeeper cfg { c with evm := e1 } (hookPackets logs)

/-- A module-initiated EVM call of a keeper that does NOT run the post-transaction hooks — the AGGREGATE keeper's own
`CallEVMWithData` (`ApplyMessage` with commit = true, no `PostTxProcessing`) during `MsgConvertERC20` / `MsgConvertCoin` /
the ICS-20 hook, which call `transfer` / `mint` / `burn` of the pair's token. The token is a contract: what its code does
is a PARAMETER (`legs`: the frames it executes, as for the batching contract). The EVM state is committed; whatever
`PacketSent` logs the frames produced are dropped — nobody turns them into commitments. -/
def moduleCallNoHooks (cfg : Cfg) (self : ChainId) (c : Chain) (legs : List Leg) : Option Chain :=
  match batchEvm cfg self c.nextSeq true c.evm legs with
  | none => none
  | some (e1, _) => some { c with evm := e1 }

/-- The four things `CallPacket(ctx, "onRecvPacket", packet)` does. -/
inductive Cb
  | ok (c : Chain)                          -- result code 0, state after
  | evmRevert                               -- error; the EVM discarded its own state
  | errorResult (code : Nat) (c : Chain)    -- no error, result code ≠ 0, state returned by the EVM call
  | hookFail (c : Chain)                    -- error reported after the EVM state `c` had been committed
  | commitFail (c : Chain)                  -- the EVM run succeeded, writing its state back to the stores failed HALF-WAY: `c` is the
                                            -- partly written state (accounts are written in address order), an error is reported

/-- Transfer part of `endpoint.onRecvPacket`; `none` = non-zero result code without state change.
Returns the token credited on this chain and the number of its units that one unit of the packet's amount is worth
here (10^scale for a bound token that is minted, 1 for an origin token that is released). -/
def recvTransfer (cfg : Cfg) (e : Evm) (p : Packet) : Option (Evm × Token × Nat) :=
  match p.transfer with
  | none => some ({ e with credited := upd2 e.credited p.src p.seq (e.credited p.src p.seq + 1) }, 0, 1)
  | some t =>
    match t.ori with
    | none =>
      match cfg.trace p.src t.token with
      | none => none                                            -- "token not bound"
      | some v =>
        -- checked uint256 arithmetic: amount·10^scale and the new total supply must fit (the revert is caught: code 2)
        if U256 ≤ e.supply v + t.amount * 10 ^ cfg.scale v p.src then none else
        let e := credit e v t.receiver (t.amount * 10 ^ cfg.scale v p.src)
        some ({ e with supply := upd1 e.supply v (e.supply v + t.amount * 10 ^ cfg.scale v p.src),
                       bindAmt := upd2 e.bindAmt v p.src (e.bindAmt v p.src + t.amount * 10 ^ cfg.scale v p.src),
                       credited := upd2 e.credited p.src p.seq (e.credited p.src p.seq + 1) }, v, 10 ^ cfg.scale v p.src)
    | some o =>
      if e.out o p.src < t.amount then none                     -- "amount is greater than locked"
      else
        match debit e o acEndpoint t.amount with
        | none => none
        | some e =>
          let e := credit e o t.receiver t.amount
          some ({ e with out := upd2 e.out o p.src (e.out o p.src - t.amount),
                         credited := upd2 e.credited p.src p.seq (e.credited p.src p.seq + 1) }, o, 1)

/-- the packet releases escrowed NATIVE coin (a bound token coming home to its origin, where it is token 0) to an
account the bank blocks -/
def blockedRelease (p : Packet) : Bool :=
  match p.transfer with
  | some t => decide (t.ori = some 0) && blocked t.receiver && decide (0 < t.amount)
  | none => false

def releaseTo (p : Packet) : Acct :=
  match p.transfer with
  | some t => t.receiver
  | none => 0

/-- `packet.onRecvPacket` as seen through `CallEVMWithData` (EVM call, then hooks on the same context). -/
def onRecv (cfg : Cfg) (self : ChainId) (c : Chain) (p : Packet) : Cb :=
  match recvTransfer cfg c.evm p with
  | none => .errorResult 2 c
  | some (e, tok, k) =>
    let c1 : Chain := { c with evm := e }
    -- the native coin released to a module account the bank blocks: the EVM run (transfer part AND call data, unless the
    -- call data reverts the whole call) succeeds, but the commit of the state fails at that account — after the endpoint
    -- (a smaller address) has been debited and `outTokens` decremented. `CallPacket` returns an error.
    if blockedRelease p ∧ p.call ≠ .plain .revert then
      .commitFail { c with evm := { e with bal := upd2 e.bal 0 (releaseTo p) (c.evm.bal 0 (releaseTo p)) } }
    else
    match p.call with
    | .none => .ok c1
    | .plain .ok => .ok c1
    | .plain .fail => .errorResult 3 c1          -- "execute call data failed": returned, not reverted
    | .plain .revert => .evmRevert
    | .plain .hookFail => .hookFail c1
    | .agent refund recv dst fee =>
      match p.transfer with
      | none => .errorResult 3 c1
      | some t =>
        if t.receiver ≠ acAgent ∨ t.amount < fee then .errorResult 3 c1
        else
          -- the agent works in units of the token it received: amount·k in total, fee·k of it as the relay fee;
          -- if that token is itself bound towards `dst` (it goes home) the agent hands the endpoint the packet's own
          -- units (amount - fee), which the endpoint then multiplies by the scale of THAT binding
          let aout : Nat := match cfg.ori tok dst with
            | some _ => t.amount - fee
            | none => (t.amount - fee) * k
          let kout : Nat := match cfg.ori tok dst with
            | some _ => 10 ^ cfg.scale tok dst
            | none => 1
          let a : SendArgs := { dst := dst, token := tok, amount := aout, receiver := recv, call := .none,
                                feeToken := tok, feeAmount := fee * k, callback := true }
          -- the agent approves the endpoint for everything it received
          let e := { e with allow := upd2 e.allow tok acAgent (t.amount * k) }
          match sendEvm cfg self (c1.nextSeq dst) e acAgent a with
          | none => .errorResult 3 c1               -- inner call reverted; its own state is gone, the transfer part stays
          | some (e2, p2) =>
            let e3 := { e2 with agentData := upd2 e2.agentData dst p2.seq (some (tok, aout * kout, refund)) }
            match sendKeeper cfg { c1 with evm := e3 } p2 with
            | none => .hookFail { c1 with evm := e3 }
            | some c2 => .ok c2

/-- `msg_server.RecvPacket` after the proof of the packet commitment has been verified.
`fixed = false`: the unchanged tree — `cctx, write := ctx.CacheContext()` is created but the callback runs on `ctx`;
`fixed = true`: the repaired handler — callback on `cctx`, `write()` only for (no error ∧ result code 0);
the acknowledgement is written on `ctx` in every case. -/
def recvHandler (fixed : Bool) (cfg : Cfg) (self : ChainId) (c : Chain) (p : Packet) : Option Chain :=
  if p.dst ≠ self then none
  else if c.receipts p.src p.seq then none                        -- already received
  else if !cfg.clients p.src then none
  else
    let ctx : Chain := { c with receipts := upd2 c.receipts p.src p.seq true }     -- PacketKeeper.RecvPacket(ctx)
    let cctx : Chain := ctx                                                         -- cctx, write := ctx.CacheContext()
    let writeAck (x : Chain) (code : Nat) : Chain := { x with acks := upd2 x.acks p.src p.seq (some code) }
    if fixed then
      match onRecv cfg self cctx p with                             -- callback on cctx
      | .ok cctx' => some (writeAck cctx' 0)                        -- write(): ctx := cctx'; ack on ctx
      | .evmRevert => some (writeAck ctx 1)
      | .errorResult code _ => some (writeAck ctx code)             -- cctx discarded
      | .hookFail _ => some (writeAck ctx 1)                        -- cctx discarded
      | .commitFail _ => some (writeAck ctx 1)                      -- cctx discarded, with the half-written state in it
    else
      match onRecv cfg self ctx p with                              -- callback on ctx (cctx stays empty; write() is a no-op)
      | .ok ctx' => some (writeAck ctx' 0)
      | .evmRevert => some (writeAck ctx 1)
      | .errorResult code ctx' => some (writeAck ctx' code)
      | .hookFail ctx' => some (writeAck ctx' 1)
      | .commitFail ctx' => some (writeAck ctx' 1)

/-- Refund part of `endpoint.onAcknowledgementPacket` (error acknowledgement). -/
def refund (cfg : Cfg) (e : Evm) (p : Packet) : Option Evm :=
  match p.transfer with
  | none => none                                                   -- decoding the empty transfer data reverts
  | some t =>
    match t.ori with
    | some _ =>
      -- bound token that had been burnt: mint back amount·10^scale, bindings.amount += amount·10^scale
      -- (checked uint256 arithmetic: the new total supply must fit, else the refund — and with it the message — fails)
      if U256 ≤ e.supply t.token + t.amount * 10 ^ cfg.scale t.token p.dst then none else
      let e := credit e t.token p.sender (t.amount * 10 ^ cfg.scale t.token p.dst)
      some { e with supply := upd1 e.supply t.token (e.supply t.token + t.amount * 10 ^ cfg.scale t.token p.dst),
                    bindAmt := upd2 e.bindAmt t.token p.dst (e.bindAmt t.token p.dst + t.amount * 10 ^ cfg.scale t.token p.dst),
                    refunded := upd2 e.refunded p.dst p.seq (e.refunded p.dst p.seq + 1) }
    | none =>
      if e.out t.token p.dst < t.amount then none
      else
        match debit e t.token acEndpoint t.amount with
        | none => none
        | some e =>
          let e := credit e t.token p.sender t.amount
          some { e with out := upd2 e.out t.token p.dst (e.out t.token p.dst - t.amount),
                        refunded := upd2 e.refunded p.dst p.seq (e.refunded p.dst p.seq + 1) }

/-- `agent.callback` on an error acknowledgement: pass the refunded tokens on to the refund address. -/
def agentCallback (e : Evm) (p : Packet) : Option Evm :=
  match e.agentData p.dst p.seq with
  | none => none
  | some (tok, amt, to) =>
    match debit e tok acAgent amt with
    | none => none
    | some e => some (credit e tok to amt)

/-- `msg_server.Acknowledgement` after the proof of the acknowledgement has been verified, in the handler's order of
effects: keeper `AcknowledgePacket` (commitment must match; it is deleted) → `setAckStatus` → resolve the relayer named
in the acknowledgement in THIS chain's registry (`rel`, the result of `GetRelayerAddressOnTeleport`) → pay the relay fee
to it → `OnAcknowledgePacket` (refund on an error code, callback). It is one transaction: ANY failure — an
unresolvable relayer included — aborts it and leaves the chain unchanged (the acknowledgement can be relayed again). In particular an error acknowledgement of a packet
WITHOUT transfer data makes `OnAcknowledgePacket` revert (`refund … none => none`: the endpoint contract decodes the
empty transfer data), so that `MsgAcknowledgement` fails every time: the packet stays committed (pending) and its
relay fee stays in escrow — an observation outside C03 (docs/C03-observation-call-only-ack.md), modelled as it is. -/
def ackHandler (cfg : Cfg) (self : ChainId) (c : Chain) (p : Packet) (code : Nat) (rel : Option Acct) : Option Chain :=
  if p.src ≠ self then none
  else if p ∉ c.commits then none                                  -- commitment must match
  else if !cfg.clients p.dst then none
  else
    let e := c.evm
    let e := { e with ackStatus := upd2 e.ackStatus p.dst p.seq (if code = 0 then 1 else 2) }   -- setAckStatus
    match rel with                                   -- GetRelayerAddressOnTeleport(dstChain, ack.Relayer)
    | none => none                                   -- ErrRelayerNotFound: the whole MsgAcknowledgement fails
    | some relayer =>
    match debit e (e.fee p.dst p.seq).1 acPacket (e.fee p.dst p.seq).2 with                       -- sendPacketFeeToRelayer
    | none => none
    | some e1 =>
      let e1 := credit e1 (e.fee p.dst p.seq).1 relayer (e.fee p.dst p.seq).2
      let e1 := { e1 with feePaid := upd2 e1.feePaid p.dst p.seq (e1.feePaid p.dst p.seq + 1) }
      let r : Option Evm := if code = 0 then some e1 else refund cfg e1 p                         -- OnAcknowledgePacket
      match r with
      | none => none
      | some e2 =>
        let r2 : Option Evm := if p.callback ∧ code ≠ 0 then agentCallback e2 p else some e2
        match r2 with
        | none => none
        | some e3 => some { c with evm := e3, commits := c.commits.erase p }

/-- `MsgAcknowledgement` as a whole: `OnAcknowledgePacket` also calls the packet's callback contract — for a success code
and for an error code alike. If that is the switch contract and its switch is on (`cbFail`), the call reverts and with it
the whole message: nothing is consumed, the same acknowledgement can be delivered again later. -/
def ackMsg (cfg : Cfg) (self : ChainId) (c : Chain) (p : Packet) (code : Nat) (rel : Option Acct) (cbFail : Bool) : Option Chain :=
  if p.cbSwitch ∧ cbFail then none
  -- a relay fee in the native coin whose recipient (the relayer resolved by the registry) is an account the bank blocks:
  -- `sendPacketFeeToRelayer` runs, the commit of its state fails, the whole message fails
  else if (c.evm.fee p.dst p.seq).1 = 0 ∧ 0 < (c.evm.fee p.dst p.seq).2 ∧ (rel.map blocked).getD false then none
  else ackHandler cfg self c p code rel

/-- One entry of a chain's relayer registry (`RegisterRelayers` stores one per relayer address and REPLACES it):
the relayer's account on this chain and, per counterparty chain, the name ("tag") it goes by there. `rank` is the
position of the entry in the store's iteration order (byte order of the bech32 address; computed by the harness). -/
structure RelayerEntry where
  addr : Acct
  rank : Nat
  chains : List (ChainId × Nat)
  deriving Repr

abbrev Registry := List RelayerEntry       -- kept sorted by `rank`

def Registry.put (r : Registry) (e : RelayerEntry) : Registry :=
  let r := r.filter (fun x => x.addr != e.addr)
  (r.filter (fun x => x.rank < e.rank)) ++ e :: (r.filter (fun x => ¬ x.rank < e.rank))

/-- `GetRelayerAddressOnOtherChain(chain, signer)`: what the signer of a `MsgRecvPacket` is called on `chain`
(first listed occurrence); it is written into the acknowledgement. -/
def Registry.onOther (r : Registry) (chain : ChainId) (signer : Acct) : Option Nat :=
  match r.find? (fun e => e.addr == signer) with
  | none => none
  | some e => (e.chains.find? (fun ct => ct.1 == chain)).map (·.2)

/-- `GetRelayerAddressOnTeleport(chain, tag)`: the first registered relayer (store order) that lists `tag` for `chain`;
it receives the relay fee. -/
def Registry.onTeleport (r : Registry) (chain : ChainId) (tag : Nat) : Option Acct :=
  (r.find? (fun e => e.chains.any (fun ct => ct.1 == chain && ct.2 == tag))).map (·.addr)

structure World where
  cfg : ChainId → Cfg
  chains : ChainId → Chain
  reg : ChainId → Registry                       -- relayer registry of every chain (governance; changes at any time)
  ackTag : ChainId → ChainId → Nat → Nat         -- (dst, src, seq) ↦ relayer name written into the acknowledgement on dst
  cbFail : ChainId → Bool := fun _ => false      -- per chain: the switch of the callback contract `acSwitch` (on = its calls revert)

def World.set (w : World) (i : ChainId) (c : Chain) : World := { w with chains := upd1 w.chains i c }

def findPacket (l : List Packet) (dst : ChainId) (seq : Nat) : Option Packet :=
  l.find? (fun p => p.dst == dst && p.seq == seq)

inductive Step
  | send (c : ChainId) (sender : Acct) (a : SendArgs)
  | recv (src dst : ChainId) (seq : Nat) (signer : Acct)   -- relayer `signer`: deliver the packet committed on `src` to `dst`
  | ack (src dst : ChainId) (seq : Nat)      -- relayer: deliver the acknowledgement written on `dst` to `src`
  | mint (c : ChainId) (t : Token) (who : Acct) (n : Nat)    -- an origin token's own minter (no bridge state involved)
  | approve (c : ChainId) (t : Token) (who : Acct) (n : Nat) -- ERC-20 `approve(endpoint, n)` by an account
  | transfer (c : ChainId) (t : Token) (src dst : Acct) (n : Nat)  -- an ordinary token / coin transfer between accounts
  | batch (c : ChainId) (sender : Acct) (strict : Bool) (legs : List Leg)   -- one transaction, several crossChainCalls
  | register (c : ChainId) (addr : Acct) (rank : Nat) (chains : List (ChainId × Nat))   -- RegisterRelayers on chain c
  | cbset (c : ChainId) (on : Bool)          -- the owner of the callback contract on chain c flips its switch
  | restart (c : ChainId) (wholeApp : Bool)  -- chain c is restarted from its exported state (xibc module only / the whole application)
  | discard (s : Step)                       -- `s` executed on a context that is dropped (Simulate, CheckTx, a gov dry run, a failed multi-message tx)
  deriving Repr

/-- One step; a rejected message leaves the world unchanged. -/
def step (fixed : Bool) (w : World) : Step → World
  | .send i sender a =>
    match send (w.cfg i) i (w.chains i) sender a with
    | none => w
    | some c => w.set i c
  | .recv src dst seq signer =>
    match findPacket (w.chains src).commits dst seq with
    | none => w
    | some p =>
      match (w.reg dst).onOther src signer with          -- the signer must be a relayer registered for the source chain
      | none => w
      | some tag =>
        match recvHandler fixed (w.cfg dst) dst (w.chains dst) p with
        | none => w
        | some c => { w.set dst c with ackTag := fun d s q => if d = dst ∧ s = src ∧ q = seq then tag else w.ackTag d s q }
  | .ack src dst seq =>
    match findPacket (w.chains src).commits dst seq with
    | none => w
    | some p =>
      match (w.chains dst).acks src seq with
      | none => w
      | some code =>
        match ackMsg (w.cfg src) src (w.chains src) p code ((w.reg src).onTeleport dst (w.ackTag dst src seq)) (w.cbFail src) with
        | none => w
        | some c => w.set src c
  | .mint i t who n =>
    let c := w.chains i
    if U256 ≤ c.evm.supply t + n then w else      -- ERC-20 `_mint`: the total supply is a checked uint256
    w.set i { c with evm := { credit c.evm t who n with supply := upd1 c.evm.supply t (c.evm.supply t + n) } }
  | .approve i t who n =>
    let c := w.chains i
    w.set i { c with evm := { c.evm with allow := upd2 c.evm.allow t who n } }
  | .transfer i t src dst n =>
    let c := w.chains i
    if src = acEndpoint ∨ src = acPacket then w       -- the system contracts move tokens only through the handlers above
    else if t = 0 ∧ blocked dst then w                -- the bank refuses to credit the native coin to a module account
    else
      match debit c.evm t src n with
      | none => w
      | some e => w.set i { c with evm := credit e t dst n }

  | .batch i sender strict legs =>
    match batch (w.cfg i) i (w.chains i) sender strict legs with
    | none => w
    | some c => w.set i c

  | .register i addr rank chains =>
    { w with reg := upd1 w.reg i ((w.reg i).put { addr := addr, rank := rank, chains := chains }) }

  | .cbset i on => { w with cbFail := upd1 w.cbFail i on }

  -- an export → import restart loses and changes nothing the model talks about
  | .restart _ _ => w

  -- whatever ran on a dropped context left no trace
  | .discard _ => w

def run (fixed : Bool) (w : World) (steps : List Step) : World := steps.foldl (step fixed) w

end TM.World
