import TeleportModel.Base.Util
/-
C04 — send sequencing.  Executable transcription of

  ethermint v0.13.0  x/evm/keeper/state_transition.go   ApplyTransaction     (`applyTx`)
  x/xibc/core/packet/keeper/evm.go                      CallEVMWithData      (`callEvm`)
  x/xibc/core/packet/keeper/evm_hooks.go                Hooks.PostTxProcessing (`hookP`)
  x/xibc/core/packet/keeper/packet.go                   SendPacket / RecvPacket / AcknowledgePacket
  x/xibc/core/packet/keeper/keeper.go                   ValidatePacket, GetNextSequenceSend (absent ⇒ 1)
  x/xibc/core/packet/types/packet.go                    Packet.ValidateBasic, CommitPacket = sha256 ∘ ABIPack
  x/xibc/keeper/msg_server.go                           RecvPacket / Acknowledgement (callback wrapper)
  x/xibc/core/client/keeper/proposal.go                 HandleCreateClient (existence check only)

What is a parameter (not modelled, arrives on the op line, produced by the real EVM / real libraries):
  * the EVM execution of a transaction or module call: `vmOk` and the list of logs it emitted, already
    classified the way the hook classifies them (`Log`); the ABI/JSON decoding of a `PacketSent` payload into
    (src, dst, seq, "has data", re-encoded bytes) — C19 owns the codec;
  * `Env.sha256`;
  * light-client verification results (`verifyOk`), relayer-registry lookups (`relayerFound`).
The packet contract's sequence counter is the abstract field `cseq` (raw `sequences[dst]`, view
`getNextSequenceSend` = 1 when unset); the contract never increments it itself (observed on the byte code:
two `crossChainCall`s to one destination in one transaction emit the same sequence) — only `setSequence`,
called by `SendPacket`, writes it.  The endpoint's escrow `outTokens[token][dst]` is the abstract field
`escrow`; every genuine `PacketSent` carries the amount the endpoint locked for it (`Packet.esc`).
Sequences are `Nat` (no wrap-around at 2^64: trusted to be unreachable).
-/
namespace TM.Send

structure Env where
  sha256 : Bytes → Bytes

/-- A decoded packet as `SendPacket` sees it. `bytes` = `ABIPack` of the decoded struct (what `CommitPacket`
hashes and what `EventSendPacket` carries). `esc` = (token index, amount) locked by the endpoint for this send. -/
structure Packet where
  src : Bytes
  dst : Bytes
  seq : Nat
  hasData : Bool
  bytes : Bytes
  esc : Option (Nat × Nat)
  deriving DecidableEq, Repr

/-- A receipt log as classified by `PostTxProcessing`. -/
inductive Log where
  | other                 -- address ≠ packet contract, or no topics, or a known event that is not PacketSent: `continue`
  | unknownEvent          -- packet-contract address, topic not in the ABI: `EventByID` error ⇒ return err
  | badData               -- PacketSent whose payload does not unpack / decode ⇒ return err
  | sent (p : Packet)
  deriving DecidableEq, Repr

abbrev Key := Bytes × Nat            -- (dst, seq); the source component of every commitment key is `self` (see `recv`)
abbrev Triple := Bytes × Bytes × Nat

structure Chain where
  self : Bytes
  clients : Bytes → Bool
  nextSeq : Bytes → Option Nat       -- store `nextSequenceSend/self/dst`
  cseq : Bytes → Nat                 -- packet contract `sequences[dst]`
  commits : Key → Option Bytes       -- store `commitments/self/dst/seq`
  receipts : Triple → Bool
  escrow : Nat × Bytes → Int         -- endpoint `outTokens[token][dst]`
  sent : List Packet                 -- ghost: packets whose `SendPacket` succeeded (and was not discarded), oldest first
  acked : List Key                   -- ghost: commitments deleted by an accepted acknowledgement

def upd {α β} [DecidableEq α] (f : α → β) (k : α) (v : β) : α → β := fun x => if x = k then v else f x

@[simp] theorem upd_same {α β} [DecidableEq α] (f : α → β) (k : α) (v : β) : upd f k v k = v := by simp [upd]
theorem upd_other {α β} [DecidableEq α] (f : α → β) (k x : α) (v : β) (h : x ≠ k) : upd f k v x = f x := by simp [upd, h]

/-- `GetNextSequenceSend`: absent ⇒ 1. -/
def chainNext (c : Chain) (dst : Bytes) : Nat := (c.nextSeq dst).getD 1
/-- contract view `getNextSequenceSend`. -/
def contractNext (c : Chain) (dst : Bytes) : Nat := if c.cseq dst = 0 then 1 else c.cseq dst

/-- A chain on which nothing has been sent yet. `seqs` = counters explicitly initialised (to 1 by client set-up). -/
def fresh (self : Bytes) (clients : List Bytes) (seqs : List (Bytes × Nat)) : Chain :=
  { self := self, clients := fun n => clients.contains n,
    nextSeq := fun d => (seqs.find? (fun e => e.1 == d)).map (·.2),
    -- a counter explicitly stored as 1 is the client set-up default (contract slot still unset); any other value is a
    -- counter of a chain that has already sent `n-1` packets to `d`: both sides hold `n`
    cseq := fun d => match seqs.find? (fun e => e.1 == d) with
      | some e => if e.2 = 1 then 0 else e.2
      | none => 0,
    commits := fun _ => none, receipts := fun _ => false, escrow := fun _ => 0, sent := [], acked := [] }

/-- `Packet.ValidateBasic`. -/
def validateBasic (p : Packet) : Bool :=
  !p.src.isEmpty && !p.dst.isEmpty && p.src != p.dst && p.seq != 0 && p.hasData

inductive SendErr where
  | invalid | notSelf | noClient | wrongSeq | setSeqFailed
  deriving DecidableEq, Repr

/-- `Keeper.SendPacket`, in the order of the code. -/
def sendPacket (env : Env) (c : Chain) (p : Packet) : Except SendErr Chain :=
  if !validateBasic p then .error .invalid
  else if p.src ≠ c.self then .error .notSelf
  else if !c.clients p.dst then .error .noClient
  else if p.seq ≠ chainNext c p.dst then .error .wrongSeq
  -- `nextSequenceSend++` on a uint64, then `CallPacket("setSequence", dst, next)`. The packet contract accepts the
  -- new value only if it is its own counter + 1 (raw `sequences[dst] + 1`, or view + 1 when the slot is unset;
  -- observed on the byte code: with `sequences = 7` only 8 is accepted, with the slot unset 1 and 2). At
  -- `seq = 2^64 - 1` the Go increment wraps to 0, which the contract rejects: the send fails and the whole
  -- transaction is reverted — the counter can never wrap, it stays at 2^64 - 1 and that destination is closed.
  else if p.seq + 1 ≥ 2 ^ 64 then .error .setSeqFailed
  else if ¬ (p.seq = c.cseq p.dst ∨ p.seq = contractNext c p.dst) then .error .setSeqFailed
  else .ok { c with
    nextSeq := upd c.nextSeq p.dst (some (p.seq + 1)),
    cseq := upd c.cseq p.dst (p.seq + 1),                 -- CallPacket("setSequence", dst, next+1)
    commits := upd c.commits (p.dst, p.seq) (some (env.sha256 p.bytes)),
    sent := c.sent ++ [p] }

/-- `PostTxProcessing`, returning the context as it is when the hook returns (`true` = nil error). -/
def hookP (env : Env) (c : Chain) : List Log → Chain × Bool
  | [] => (c, true)
  | .other :: ls => hookP env c ls
  | .unknownEvent :: _ => (c, false)
  | .badData :: _ => (c, false)
  | .sent p :: ls =>
    match sendPacket env c p with
    | .ok c' => hookP env c' ls
    | .error _ => (c, false)

/-- EVM state committed by a successful execution: the endpoint's escrow of every genuine send. -/
def lockOne (c : Chain) (p : Packet) : Chain :=
  match p.esc with
  | some (tok, amt) => { c with escrow := upd c.escrow (tok, p.dst) (c.escrow (tok, p.dst) + amt) }
  | none => c

def evmCommit (c : Chain) : List Log → Chain
  | [] => c
  | .sent p :: ls => evmCommit (lockOne c p) ls
  | _ :: ls => evmCommit c ls

inductive Res where
  | ok | vmFailed | hookFailed | err | ackOk (code : Nat) | ackErr
  | ackNoRoute            -- msg_server: destination is another chain without client ⇒ error acknowledgement (code 1)
  deriving DecidableEq, Repr

/-- ethermint `ApplyTransaction`: EVM state and hooks on a temp context, committed only if every hook succeeds. -/
def applyTx (env : Env) (c : Chain) (vmOk : Bool) (logs : List Log) : Chain × Res :=
  if !vmOk then (c, .vmFailed)
  else
    match hookP env (evmCommit c logs) logs with
    | (c', true) => (c', .ok)
    | (_, false) => (c, .hookFailed)

/-- `CallEVMWithData` (module path): `ApplyMessage(commit = true)` and the hooks run on the caller's context;
on hook failure an error is returned but nothing is rolled back here. -/
def callEvm (env : Env) (c : Chain) (vmOk : Bool) (logs : List Log) : Chain × Bool :=
  if !vmOk then (c, false) else hookP env (evmCommit c logs) logs

structure Cfg where
  /-- `msg_server.RecvPacket` runs the callback on `cctx` and writes it back only on success with code 0
  (the C03 repair of F1/F13); `false` = the unrepaired tree (callback on `ctx`). -/
  cbOnCctx : Bool
  /-- `HandleCreateClient` rejects the chain's own name (optional hardening fixes/C04-create-client-own-name.diff);
  `false` = the tree as it is (existence check only). -/
  rejectOwnName : Bool := false

structure RecvIn where
  p : Packet
  verifyOk : Bool
  relayerFound : Bool
  cbVmOk : Bool
  cbLogs : List Log
  cbCode : Nat

/-- `Keeper.ValidatePacket`. -/
def validatePacket (c : Chain) (p : Packet) : Bool :=
  validateBasic p && (p.dst == c.self || p.src == c.self)

/-- State written by an accepted `Keeper.RecvPacket`: the receipt and — relay branch, destination is another chain
with a client — a commitment. `validatePacket` and `dst ≠ self` give `src = self`, so the key written by the relay
branch is `commitments/self/dst/seq`. -/
def recvStore (env : Env) (c : Chain) (p : Packet) : Chain :=
  let c1 := { c with receipts := upd c.receipts (p.src, p.dst, p.seq) true }
  if p.dst ≠ c.self ∧ c.clients p.dst = true then
    { c1 with commits := upd c1.commits (p.dst, p.seq) (some (env.sha256 p.bytes)) } else c1

/-- `msg_server.RecvPacket` after the keeper accepted the packet: callback (destination is this chain) on `ctx`
(unrepaired) or on `cctx` written back only on success with code 0 (repaired). -/
def recvCallback (cfg : Cfg) (env : Env) (c2 : Chain) (r : RecvIn) : Chain × Res :=
  match callEvm env c2 r.cbVmOk r.cbLogs with
  | (c3, true) =>
    if cfg.cbOnCctx then (if r.cbCode = 0 then (c3, .ackOk 0) else (c2, .ackOk r.cbCode))
    else (c3, .ackOk r.cbCode)
  | (c3, false) => if cfg.cbOnCctx then (c2, .ackErr) else (c3, .ackErr)

/-- `Keeper.RecvPacket` followed by `msg_server.RecvPacket` (inside the message's `runMsgs` cache:
an error return discards everything). -/
def recv (cfg : Cfg) (env : Env) (c : Chain) (r : RecvIn) : Chain × Res :=
  if !validatePacket c r.p then (c, .err)
  else if c.receipts (r.p.src, r.p.dst, r.p.seq) then (c, .err)
  else if !c.clients r.p.src then (c, .err)
  else if !r.verifyOk then (c, .err)
  else if !r.relayerFound then (c, .err)
  else if r.p.dst = c.self then recvCallback cfg env (recvStore env c r.p) r
  else (recvStore env c r.p, if c.clients r.p.dst then .ok else .ackNoRoute)

structure AckIn where
  p : Packet
  verifyOk : Bool
  code : Nat          -- acknowledgement code (≠ 0 ⇒ the endpoint refunds the escrow of `p`)
  relayerFound : Bool
  cbOk : Bool         -- setAckStatus / sendPacketFeeToRelayer / OnAcknowledgePacket all succeeded

/-- `Keeper.AcknowledgePacket` + `msg_server.Acknowledgement`. -/
def ack (env : Env) (c : Chain) (a : AckIn) : Chain × Res :=
  if !validatePacket c a.p then (c, .err)
  else if a.p.src ≠ c.self then (c, .err)      -- no commitment is ever stored under another source (keys are self/dst/seq)
  else if c.commits (a.p.dst, a.p.seq) ≠ some (env.sha256 a.p.bytes) then (c, .err)
  else if !c.clients a.p.dst then (c, .err)
  else if !a.verifyOk then (c, .err)
  else if !a.relayerFound then (c, .err)
  else if !a.cbOk then (c, .err)
  else
    let c1 := { c with commits := upd c.commits (a.p.dst, a.p.seq) none, acked := (a.p.dst, a.p.seq) :: c.acked }
    let c2 := if a.code = 0 then c1 else
      match a.p.esc with
      | some (tok, amt) => { c1 with escrow := upd c1.escrow (tok, a.p.dst) (c1.escrow (tok, a.p.dst) - amt) }
      | none => c1
    (c2, .ok)

/-- `HandleCreateClient`: only an existence check — in particular the chain's own name is accepted
(unless the hardening patch is applied: `cfg.rejectOwnName`). -/
def createClient (cfg : Cfg) (c : Chain) (name : Bytes) : Chain × Res :=
  if cfg.rejectOwnName && name == c.self then (c, .err)
  else if c.clients name then (c, .err) else ({ c with clients := upd c.clients name true }, .ok)

/-- `app/upgrades.go`, the registered `v0.2` software-upgrade handler, as run by `x/upgrade`'s BeginBlocker at the
plan height:
  * `EvmKeeper.DeleteAccount(packet contract)` — code, account and the whole **storage** of the packet contract
    (its per-destination `sequences`, ack status, fees) — then `SetEVMCode` re-installs the byte code;
    same for the agent contract (no state of this model). The endpoint contract is NOT deleted: only its code is
    re-set, its storage (`outTokens`, bindings) survives;
  * `xibc.ResetStates`: every key of the xibc store is deleted (clients, consensus states, relayers, receipts,
    acknowledgements, commitments, next-send counters) and the default genesis is re-initialised (no client, no
    sequence); only the native chain name is carried over.
So BOTH counters of every destination are back to "unset ⇒ 1", no commitment and no receipt is left, no client
exists, the escrow is untouched. The ghost lists restart: sequencing is per epoch (since genesis / the last upgrade). -/
def upgrade (c : Chain) : Chain × Res :=
  ({ c with clients := fun _ => false, nextSeq := fun _ => none, cseq := fun _ => 0, commits := fun _ => none,
            receipts := fun _ => false, sent := [], acked := [] }, .ok)

/-- Restart of the node from an exported genesis: `app.ExportAppStateAndValidators(false, nil)` (every module's
ExportGenesis), a new `app.NewTeleport` on an empty database, `InitChain` with that app state (`InitChainer`:
`mm.InitGenesis`, then `SetEVMCode` of the system contracts — which re-sets code hash and account but leaves storage
and balance alone). Export followed by import is meant to be lossless: the **identity** on everything this model
talks about (chain counters and commitments by x/xibc genesis, contract counters and escrow by x/evm genesis —
contract storage —, clients, receipts). Unlike `upgrade` nothing restarts: the ghost lists continue. -/
def restart (c : Chain) : Chain × Res := (c, .ok)

inductive Op where
  | discarded   -- any handler run on a context that is dropped (Simulate / CheckTx / dry run / failed multi-message tx)
  | restart
  | upgrade
  | tx (vmOk : Bool) (logs : List Log)
  | recv (r : RecvIn)
  | ack (a : AckIn)
  | createClient (name : Bytes)

def step (cfg : Cfg) (env : Env) (c : Chain) : Op → Chain × Res
  | .discarded => (c, .ok)
  | .restart => restart c
  | .upgrade => upgrade c
  | .tx v ls => applyTx env c v ls
  | .recv r => recv cfg env c r
  | .ack a => ack env c a
  | .createClient n => createClient cfg c n

def run (cfg : Cfg) (env : Env) (c : Chain) : List Op → Chain
  | [] => c
  | o :: os => run cfg env (step cfg env c o).1 os

end TM.Send
