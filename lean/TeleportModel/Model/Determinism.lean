import TeleportModel.Base.Util
/-
C14 — deterministic state machine. Models of every place where the state-machine code of /repo consults an
UNORDERED source (a Go map iteration, whose order is randomised per run) and whose result feeds state, events
or results. Each computation is written over a `List` of the entries in *iteration order*; the theorems of
`Proofs/C14.lean` show the result is the same for every permutation of that list.

Sites (tools/nondetsites, props/sites-C14.json):
  * bsc/types/snapshot.go  `(*snapshot).validators` / `inturn`  : keys of `s.Validators` collected in map order,
    then `sort.Sort(validatorsAscending)`; in-turn validator = sorted[(Number+1) % len]
  * bsc/types/header.go    `verifySeal`  : `for seen, recent := range snap.Recents { if recent == signer { if seen > number-limit { return ErrRecentlySigned } } }`
  * adapter/{gov,staking}/adapter.go `NewHookAdapter` : `for name, event := range parsed.Events { switch name { case …: handlers[event.ID] = h; default: panic } }`
  * app/app.go maccPerms / keys copies, genesis duplicate checks (map used as a set: membership only)
  * types/events.go `EmitTypedEvent` (after the fix): attributes produced in map order by cosmos-sdk, sorted by key before emission
  * integer accumulation over a map (the automatic `sum` class of the inventory tool)
Core Lean only.
-/
namespace TM.Determinism

/-! ### sorting (Go `sort.Sort` over distinct keys) -/

/-- addresses / keys compared as numbers (big-endian `bytes.Compare` on fixed-width keys is the order of the numbers) -/
abbrev Addr := Nat

def leB (a b : Nat) : Bool := decide (a ≤ b)

/-- `sort.Sort(validatorsAscending(l))` -/
def sortAddrs (l : List Addr) : List Addr := l.mergeSort leB

/-- `(*snapshot).validators()`: `keys` = the keys of `s.Validators` in the order the map iteration produced them -/
def validators (keys : List Addr) : List Addr := sortAddrs keys

/-- `(*snapshot).inturn(validator)`; `none` = the Go code panics (modulo by zero on an empty validator set) -/
def inturn (keys : List Addr) (number : Nat) (v : Addr) : Option Bool :=
  let vs := validators keys
  if vs.length = 0 then none else some (vs.getD ((number + 1) % vs.length) 0 == v)

/-! ### loops with early return of a constant (membership tests) -/

/-- a `for k, v := range m { if hit(k, v) { return e } }` loop followed by `return none`:
    the result of the first hit in iteration order -/
def firstHit {α ε : Type} (hit : α → Bool) (e : ε) : List α → Option ε
  | [] => none
  | a :: rest => if hit a then some e else firstHit hit e rest

/-- bsc `verifySeal`: entry = (block number `seen`, signer `recent`); `shifted seen` is the Go condition
    `seen > number-limit` (whatever its arithmetic — property C09 owns it), the error value is the same on every hit -/
def recentlySigned (recents : List (Nat × Addr)) (signer : Addr) (shifted : Nat → Bool) : Option String :=
  firstHit (fun (e : Nat × Addr) => e.2 == signer && shifted e.1) "ErrRecentlySigned" recents

/-- set membership (`_, ok := m[k]`) expressed over the list of keys -/
def member (keys : List Nat) (k : Nat) : Bool := keys.contains k

/-- duplicate detection with a `seen` map used as a set (genesis validation) -/
def hasDup : List Nat → Bool
  | [] => false
  | a :: rest => rest.contains a || hasDup rest

/-! ### tables built by insertion (`m2[k] = v` inside a range loop) -/

/-- a Go map as a lookup function -/
abbrev Table (κ ν : Type) := κ → Option ν

def Table.empty {κ ν : Type} : Table κ ν := fun _ => none

def Table.insert {κ ν : Type} [DecidableEq κ] (t : Table κ ν) (k : κ) (v : ν) : Table κ ν :=
  fun k' => if k' = k then some v else t k'

/-- `for k, v := range entries { m2[k] = v }` -/
def buildTable {κ ν : Type} [DecidableEq κ] (entries : List (κ × ν)) : Table κ ν :=
  entries.foldl (fun t e => t.insert e.1 e.2) Table.empty

/-- adapter `NewHookAdapter`: `events` = (name, id) in map order; `known name` = the handler selected by the
    `switch`, `none` = `default: panic`. Result: `none` = panic, `some table` = handler table by event id. -/
def hookTable {η : Type} (known : Nat → Option η) (events : List (Nat × Nat)) : Option (Table Nat η) :=
  if events.any (fun e => (known e.1).isNone) then none
  else some (buildTable (events.filterMap (fun e => (known e.1).map (fun h => (e.2, h)))))

/-- `adapter.NewManager(adapters...)` + `Manager.InitGenesis`: the adapters are put into a map by name AND their names
    are kept in argument order (`OrderInitGenesis`); InitGenesis walks the ordered slice and looks every name up
    (`nil` entries skipped). Result: the adapters in the order they are initialised. -/
def managerInit {α : Type} (adapters : List (Nat × α)) : List α :=
  (adapters.map Prod.fst).filterMap (buildTable adapters)

/-! ### typed event attributes (fix `C14-typed-event-order`) -/

structure Attr where
  key : Nat
  val : Nat
  deriving DecidableEq, Repr

def attrLe (a b : Attr) : Bool := decide (a.key ≤ b.key)

/-- `sort.SliceStable(attrs, key order)` -/
def sortAttrs (l : List Attr) : List Attr := l.mergeSort attrLe

/-! ### integer accumulation -/

def sumAll (l : List Nat) : Nat := l.foldl (· + ·) 0

/-! ### the replay model of the correspondence driver

The twin replay compares two observation streams of the real code. The model side is deliberately small:
its state is the list of agreed observation digests; `obs a b` appends when the twins agree and marks the
history diverged otherwise. `run` is a function of its inputs — `run_deterministic` is trivial by construction;
the content of C14 is carried by the permutation theorems above and by the site inventory. -/

structure Replay where
  agreed : List String := []
  diverged : Bool := false
  deriving Repr

inductive Op where
  | obs (a b : String)
  | fin (na nb : Nat)
  | other

def stepOp (s : Replay) : Op → Replay × String
  | .obs a b => if a = b then ({ s with agreed := a :: s.agreed }, "same " ++ a) else ({ s with diverged := true }, "diverged")
  | .fin na nb => (s, "end " ++ toString na ++ " " ++ toString nb)
  | .other => (s, "ok")

def run (s : Replay) : List Op → Replay × List String
  | [] => (s, [])
  | o :: rest =>
    let r := stepOp s o
    let rr := run r.1 rest
    (rr.1, r.2 :: rr.2)


/-! ### loop models fed the same entries as the real functions (differential probes of harness/c14_probe_test.go)

The theorems of `Proofs/C14.lean` are about the list models above. These probe functions tie the models to the
code: the harness feeds the REAL function (bsc `CheckHeaderAndUpdateState` over a crafted client state, the relayer
registry through the gov handler, adapter `NewHookAdapter`, genesis `Validate`, `types.EmitTypedEvent`, the eth
future-block check) the same entries in several insertion orders and many repetitions, and the driver prints what
these functions say. A loop that stops sorting / starts iterating a map diverges here even when two replays agree. -/

/-- adjacent duplicates removed (the input is sorted): together with `sortAddrs` this is "keys of the map, sorted" -/
def dedupSorted : List Nat → List Nat
  | [] => []
  | [a] => [a]
  | a :: b :: rest => if a = b then dedupSorted (b :: rest) else a :: dedupSorted (b :: rest)

/-- `snapshot()` + `validators()`: the slice `ClientState.Validators` (any order, duplicates possible) is put into a
    map and the keys are sorted -/
def validatorSet (vals : List Addr) : List Addr := dedupSorted (sortAddrs vals)

inductive BscVerdict where
  | unauthorized | recent | wrongDifficulty | ok
  deriving DecidableEq, Repr

/-- bsc `verifySeal` for header `number` sealed by `signer` claiming in-turn (`claim = true`, difficulty 2) or not:
    membership in the snapshot, recents window (`number < limit ∨ seen > number - limit`, limit = |set|/2+1),
    turn = sorted[(snap.Number + 1) % |set|] with snap.Number = number - 1 -/
def bscVerdict (vals : List Addr) (recents : List (Nat × Addr)) (number : Nat) (signer : Addr) (claim : Bool) : BscVerdict :=
  let set := validatorSet vals
  if !set.contains signer then .unauthorized
  else
    let limit := set.length / 2 + 1
    if recents.any (fun e => e.2 == signer && (decide (number < limit) || decide (e.1 > number - limit))) then .recent
    else if (set.getD (number % set.length) 0 == signer) == claim then .ok else .wrongDifficulty

/-- bsc `update`: the validator slice stored after header `number` is accepted: the pending list AS IT WAS PARSED
    (order and duplicates preserved) when `number % epoch = len(Validators)/2`, else unchanged -/
def bscStoredVals {α : Type} (vals pending : List α) (epoch number : Nat) : List α :=
  if number % epoch = vals.length / 2 then pending else vals

/-- relayer registry: `RegisterRelayers` stores the two slices as given; `AuthRelayer` = membership of the chain;
    `GetRelayerAddressOnOtherChain` = address at the FIRST index whose chain matches -/
def relayerAuth (chains : List String) (c : String) : Bool := chains.contains c

def relayerAddr : List String → List String → String → Option String
  | ch :: cs, a :: as, c => if ch = c then some a else relayerAddr cs as c
  | _, _, _ => none

/-- eth `verifyHeader` time checks, in code order: future block against the BLOCK time (+15 s), then not after parent -/
def ethTimeVerdict (blockTime parentTime headerTime : Nat) : String :=
  if headerTime > blockTime + 15 then "future" else if headerTime ≤ parentTime then "old" else "ok"

/-- aggregate genesis `Validate` over valid pairs: duplicate contract or duplicate first denomination -/
def aggGenesisDup (erc20s denoms : List Nat) : Bool := hasDup erc20s || hasDup denoms

/-- rvesting `validatePerBlockReward` over well-formed coins: empty list or duplicate denomination is rejected -/
def rewardInvalid (denoms : List Nat) : Bool := denoms.isEmpty || hasDup denoms


/-! ### replicas: the step function takes ONLY (committed state, block)

A node of the model is its committed state and nothing else: there is no place where process-local memory
(a memo in a keeper, a cache, a counter) could live. `Machine.step` is the whole block execution
(BeginBlock, every DeliverTx, EndBlock, Commit): it receives the committed state and the block and returns the
new committed state and everything the node reports (codes, gas, data, events, app hash).
A *discarded* execution (CheckTx, Simulate, a query, a run on a cache context that is dropped, a multi-message
transaction that is rolled back) computes `step` and throws the result away. Replica histories: two nodes,
operations `block` (both execute it), `fork` (node 2 becomes a fresh process opened on node 1's committed
state), `discard₁ / discard₂` (a discarded execution on one node only). -/

structure Machine (σ β ρ : Type) where
  step : σ → β → σ × ρ

/-- a node: committed state only -/
structure Node (σ : Type) where
  committed : σ

namespace Machine
variable {σ β ρ : Type}

/-- executing a block: the node's new committed state and its reported result -/
def exec (m : Machine σ β ρ) (n : Node σ) (b : β) : Node σ × ρ :=
  let r := m.step n.committed b
  ({ committed := r.1 }, r.2)

/-- a discarded execution: the block is run, result and state are dropped -/
def discard (m : Machine σ β ρ) (n : Node σ) (b : β) : Node σ :=
  let _ := m.step n.committed b
  n

/-- the CALL PATH by which the process reaches the block execution (a direct call, the ABCI local client, socket server,
    handshake replay, block sync; the frames below it; the directory the binary was built from) is an explicit parameter
    that `exec` ignores: it is not an input of `step` -/
def execVia (m : Machine σ β ρ) (_path : List String) (n : Node σ) (b : β) : Node σ × ρ := m.exec n b

/-- the NODE-LOCAL CONFIGURATION (app.toml, config.toml, command line flags, home directory: JSON-RPC gas cap, tracer,
    minimum gas prices, API toggles, caches, pruning, invariant-check period …) is an explicit parameter that `exec`
    ignores: it is not an input of `step` -/
def execWith (m : Machine σ β ρ) (_config : List (String × String)) (n : Node σ) (b : β) : Node σ × ρ := m.exec n b

/-- a fresh process opened on the committed database of `n` -/
def forkOf (n : Node σ) : Node σ := { committed := n.committed }
end Machine

inductive RepOp (β : Type) where
  | block (b : β)       -- both nodes execute the block
  | fork                -- node 2 := fresh fork of node 1
  | discard₁ (b : β)    -- discarded execution on node 1 only
  | discard₂ (b : β)    -- discarded execution on node 2 only

/-- the pair of nodes after one replica operation, with the results of a `block` -/
def repStep {σ β ρ : Type} (m : Machine σ β ρ) (p : Node σ × Node σ) : RepOp β → (Node σ × Node σ) × Option (ρ × ρ)
  | .block b =>
    let r1 := m.exec p.1 b
    let r2 := m.exec p.2 b
    ((r1.1, r2.1), some (r1.2, r2.2))
  | .fork => ((p.1, Machine.forkOf p.1), none)
  | .discard₁ b => ((m.discard p.1 b, p.2), none)
  | .discard₂ b => ((p.1, m.discard p.2 b), none)

/-- a replica history: final pair of nodes and the result pairs of all blocks, in order -/
def repRun {σ β ρ : Type} (m : Machine σ β ρ) (p : Node σ × Node σ) : List (RepOp β) → (Node σ × Node σ) × List (ρ × ρ)
  | [] => (p, [])
  | o :: rest =>
    let s := repStep m p o
    let r := repRun m s.1 rest
    (r.1, match s.2 with | some x => x :: r.2 | none => r.2)

/-- COUNTER-MODEL (the memo of seed C14-4): a node that also carries process-local memory which a discarded
    execution may change and `step` may read. committed = stored client height, memo = memoised height,
    block = the header height of an update; an update is accepted iff it is above the height the node BELIEVES
    (memo first). -/
structure MemoNode where
  committed : Nat
  memo : Option Nat
  deriving DecidableEq, Repr

def memoBelief (n : MemoNode) : Nat := n.memo.getD n.committed

/-- executing an update for real: accepted iff above the believed height; the memo is written through -/
def memoExec (n : MemoNode) (h : Nat) : MemoNode × Bool :=
  if h > memoBelief n then ({ committed := h, memo := some h }, true) else ({ n with memo := some (memoBelief n) }, false)

/-- the same update on a discarded context: the committed state is restored, the memo is not -/
def memoDiscard (n : MemoNode) (h : Nat) : MemoNode :=
  { committed := n.committed, memo := (memoExec n h).1.memo }

/-- discharge classes accepted for an inventoried site (reasons are in props/sites-C14.json) -/
def classes : List String :=
  ["telemetry-only", "cli-or-query-only", "simulation-only", "test-support-only", "startup-configuration",
   "abigen-binding-unreachable", "hasher-pool", "vendored-ethash-pure-computation", "vendored-ethash-progress-logging",
   "vendored-ethash-mining-unreachable", "vendored-ethash-dataset-unreachable", "vendored-ethash-disk-cache-disabled",
   "vendored-ethash-future-cache", "vendored-ethash-sealer-loop-idle", "sorted-before-use", "order-independent-body", "startup-wiring",
   "constant-table", "deterministic-memo", "vendored-ethash-per-call-instance", "read-only-lookup", "deterministic-error-text", "config-non-consensus", "operator-override-by-design"]

/-- theorems of `Proofs/C14.lean` that an inventoried site may name as its discharge -/
def theoremNames : List String :=
  ["TM.Determinism.bsc_validators_perm", "TM.Determinism.bsc_inturn_perm", "TM.Determinism.bsc_recents_perm",
   "TM.Determinism.handler_table_perm", "TM.Determinism.table_build_perm", "TM.Determinism.membership_perm",
   "TM.Determinism.genesis_dup_perm", "TM.Determinism.adapter_manager_order", "TM.Determinism.typed_event_sorted_perm", "TM.Determinism.sum_perm",
   "TM.Determinism.bsc_verdict_perm", "TM.Determinism.validatorSet_perm"]

def dischargeOk (d : String) : Bool :=
  if d.startsWith "auto:" then true
  else if d.startsWith "class:" then classes.contains (d.drop 6).toString
  else if d.startsWith "theorem:" then theoremNames.contains (d.drop 8).toString
  else false

end TM.Determinism
