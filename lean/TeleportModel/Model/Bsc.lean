import TeleportModel.Base.Util
/-
BSC (Parlia) light client — x/xibc/clients/light-clients/bsc/types/{header.go, update.go, snapshot.go,
store.go, bsc.go, client_state.go} and the two keeper entry points that reach it
(x/xibc/core/client/keeper/client.go: CreateClient, UpdateClient).

Conventions
* `uint64` values are `Nat`s; every place where Go's arithmetic can wrap is written with an explicit
  `% two64` (`subU64`, `toI64`, `wrapI64`).
* `common.BytesToAddress b` / `common.BytesToHash b` crop to the last 20 / 32 bytes and left-pad, i.e. they are
  the big-endian value of `b` modulo 2^160 / 2^256: addresses and hashes are `Nat`s (`toAddr`, `toHash`),
  `bytes.Compare` on addresses is `<` on these numbers.
* `ecrecover` (secp256k1 over the Parlia seal hash) and `Header.Hash` (keccak of the RLP encoding) are
  parameters (`Env`).
* `Fix` selects between the code as found and the repaired code (fixes/C09-*.diff); the driver and the
  theorems use `Fix.fixed`, the witnesses of the defects use `Fix.asFound`.
-/
namespace TM.Bsc
open TM

abbrev Addr := Nat
abbrev Hash := Nat

def two64 : Nat := 18446744073709551616
def two63 : Nat := 9223372036854775808

def beNat (b : Bytes) : Nat := b.foldl (fun acc x => acc * 256 + x.toNat) 0
def toAddr (b : Bytes) : Addr := beNat b % 2 ^ 160
def toHash (b : Bytes) : Hash := beNat b % 2 ^ 256

/-- `types.CalcUncleHash(nil)` -/
def uncleHashC : Hash := 0x1dcc4de8dec75d7aab85b567b6ccd41ad312451b948a7413f0a142fd40d49347

def extraVanity : Nat := 32
def extraSeal : Nat := 65
def addressLength : Nat := 20
def gasLimitBoundDivisor : Nat := 256
def minGasLimit : Nat := 5000
def gasCap : Nat := 0x7fffffffffffffff

structure Header where
  rev : Nat
  number : Nat
  parentHash : Bytes
  uncleHash : Bytes
  coinbase : Bytes
  root : Bytes
  txHash : Bytes
  receiptHash : Bytes
  bloom : Bytes
  difficulty : Bytes
  gasLimit : Nat
  gasUsed : Nat
  time : Nat
  extra : Bytes
  mixDigest : Bytes
  nonce : Bytes
  deriving DecidableEq, Repr

structure Env where
  /-- `Header.Hash()` -/
  hash : Header → Hash
  /-- `ecrecover(header, chainId)`; `none` = the library reports an error -/
  recover : Nat → Header → Option Addr

structure ClientState where
  head : Header
  chainId : Nat
  epoch : Nat
  validators : List Bytes
  trustingPeriod : Nat
  deriving DecidableEq, Repr

/-- one `recentSingers/{rev}-{num}` entry -/
structure Signer where
  rev : Nat
  num : Nat
  addr : Addr
  deriving DecidableEq, Repr

/-- one consensus state -/
structure Cons where
  rev : Nat
  num : Nat
  time : Nat
  root : Bytes
  deriving DecidableEq, Repr

structure Store where
  recents : List Signer
  pending : List Bytes
  cons : List Cons
  deriving DecidableEq, Repr

def Store.empty : Store := ⟨[], [], []⟩

structure Fix where
  /-- F9: `number < limit ||` in front of the wrapping comparison of verifySeal -/
  guardSmall : Bool
  /-- F9b: consensus-state expiry no longer deletes the recent-signer record of that height -/
  keepSigner : Bool
  /-- F14: a header must carry the revision number of the head (`verifyCascadingFields`) -/
  sameRevision : Bool
  deriving DecidableEq, Repr

def Fix.fixed : Fix := ⟨true, true, true⟩
def Fix.asFound : Fix := ⟨false, false, false⟩

/-! ### uint64 / int64 arithmetic -/

/-- `a - b` on `uint64` (`b` is always a small in-range value: 1, a list length, a loop index) -/
def subU64 (a b : Nat) : Nat := (a % two64 + two64 - b) % two64
def toI64 (n : Nat) : Int := if n % two64 < two63 then ((n % two64 : Nat) : Int) else ((n % two64 : Nat) : Int) - (two64 : Int)
def wrapI64 (i : Int) : Int := (i + (two63 : Int)) % (two64 : Int) - (two63 : Int)

/-- `diff := int64(parent.GasLimit) - int64(header.GasLimit); if diff < 0 { diff *= -1 }; uint64(diff)` -/
def gasDiff (parentGas hdrGas : Nat) : Nat :=
  let d := wrapI64 (toI64 parentGas - toI64 hdrGas)
  let d := if d < 0 then wrapI64 (-d) else d
  (d % (two64 : Int)).toNat

/-! ### store primitives -/

def setSigner (rs : List Signer) (rev num : Nat) (a : Addr) : List Signer :=
  ⟨rev, num, a⟩ :: rs.filter (fun e => !(e.rev == rev && e.num == num))

def deleteSigner (rs : List Signer) (rev num : Nat) : List Signer :=
  rs.filter (fun e => !(e.rev == rev && e.num == num))

def setCons (cs : List Cons) (c : Cons) : List Cons :=
  c :: cs.filter (fun e => !(e.rev == c.rev && e.num == c.num))

def deleteCons (cs : List Cons) (rev num : Nat) : List Cons :=
  cs.filter (fun e => !(e.rev == rev && e.num == num))

def lookupCons (cs : List Cons) (rev num : Nat) : Option Cons :=
  cs.find? (fun e => e.rev == rev && e.num == num)

/-! ### validator set of the snapshot: distinct addresses in ascending order -/

def insertSorted (a : Addr) : List Addr → List Addr
  | [] => [a]
  | b :: t => if a < b then a :: b :: t else if a = b then b :: t else b :: insertSorted a t

def valSet (vs : List Bytes) : List Addr := vs.foldr (fun v acc => insertSorted (toAddr v) acc) []

/-- `snapshot.inturn` (snapshot number = number of the head) -/
def inturn (vs : List Bytes) (headNumber : Nat) (signer : Addr) : Bool :=
  let s := valSet vs
  s[((headNumber + 1) % two64) % s.length]? == some signer

/-- the loop over `snap.Recents` of verifySeal -/
def recentlySigned (fx : Fix) (rs : List Signer) (signer : Addr) (number limit : Nat) : Bool :=
  rs.any (fun e => e.addr == signer &&
    ((fx.guardSmall && decide (number < limit)) || decide (e.num > subU64 number limit)))

/-! ### header.go -/

/-- `ToBscHeader` panics in `BytesToBloom` / `BytesToBlockNonce` on oversized input -/
def toBscPanics (h : Header) : Bool := decide (h.bloom.length > 256) || decide (h.nonce.length > 8)

def validateBasic (h : Header) : Outcome Unit :=
  if h.extra.length < extraVanity then .err "missing-vanity"
  else if h.extra.length < extraVanity + extraSeal then .err "missing-signature"
  else if toHash h.mixDigest ≠ 0 then .err "mix-digest"
  else if toHash h.uncleHash ≠ uncleHashC then .err "uncle-hash"
  else if h.number > 0 then
    if toBscPanics h then .panic "ToBscHeader"
    else if beNat h.difficulty % two64 = 0 then .err "difficulty"
    else .ok ()
  else .ok ()

def verifySeal (fx : Fix) (env : Env) (cs : ClientState) (st : Store) (h : Header) : Outcome Store :=
  match env.recover cs.chainId h with
  | none => .err "ecrecover"
  | some signer =>
    if signer ≠ toAddr h.coinbase then .err "coinbase-mismatch"
    else
      let vals := valSet cs.validators
      if !vals.contains signer then .err "unauthorized"
      else if recentlySigned fx st.recents signer h.number (vals.length / 2 + 1) then .err "recently-signed"
      else
        let st' := { st with recents := setSigner st.recents h.rev h.number signer }
        if toBscPanics h then .panic "ToBscHeader"
        else
          let it := inturn cs.validators cs.head.number signer
          let d := beNat h.difficulty
          if it && d ≠ 2 then .err "wrong-difficulty"
          else if !it && d ≠ 1 then .err "wrong-difficulty"
          else .ok st'

def verifyCascadingFields (fx : Fix) (env : Env) (cs : ClientState) (st : Store) (h : Header) : Outcome Store :=
  let parent := cs.head
  if parent.number % two64 ≠ subU64 h.number 1 then .err "unknown-ancestor"
  else if toBscPanics parent then .panic "parent.Hash"
  else if env.hash parent ≠ toHash h.parentHash then .err "unknown-ancestor"
  else if fx.sameRevision && decide (h.rev ≠ parent.rev) then .err "revision"
  else if h.gasLimit > gasCap then .err "gas-limit-cap"
  else if h.gasUsed > h.gasLimit then .err "gas-used"
  else if gasDiff parent.gasLimit h.gasLimit ≥ parent.gasLimit % two64 / gasLimitBoundDivisor
          || decide (h.gasLimit < minGasLimit) then .err "gas-limit-bound"
  else verifySeal fx env cs st h

def verifyHeader (fx : Fix) (env : Env) (cs : ClientState) (st : Store) (h : Header) : Outcome Store :=
  match validateBasic h with
  | .err e => .err e
  | .panic p => .panic p
  | .ok _ =>
    if cs.epoch = 0 then .panic "divide-by-zero"
    else
      let isEpoch := h.number % cs.epoch = 0
      let signersBytes := h.extra.length - extraVanity - extraSeal
      if ¬ isEpoch ∧ signersBytes ≠ 0 then .err "extra-validators"
      else if isEpoch ∧ signersBytes % addressLength ≠ 0 then .err "span-validators"
      else verifyCascadingFields fx env cs st h

/-! ### bsc.go: ParseValidators -/

def chunks : Nat → Bytes → List Bytes
  | 0, _ => []
  | k + 1, b => b.take addressLength :: chunks k (b.drop addressLength)

def parseValidators (extra : Bytes) : Option (List Bytes) :=
  let vb := (extra.drop extraVanity).take (extra.length - extraVanity - extraSeal)
  if vb.length % addressLength ≠ 0 then none
  else if vb.length / addressLength = 0 then none   -- "epoch header carries no validators"
  else some (chunks (vb.length / addressLength) vb)

/-! ### update.go -/

def expired (tp bt : Nat) (c : Cons) : Bool := decide ((c.time + tp) % two64 < bt)

def keyLt (a b : Cons) : Bool := decide (a.rev < b.rev) || (a.rev == b.rev && decide (a.num < b.num))

/-- the first consensus state in ascending key order (the iteration callback always returns `true`, so
`IterateConsensusStateAscending` stops after the first one) — returned when it is expired -/
def firstCons : List Cons → Option Cons
  | [] => none
  | c :: rest =>
    match firstCons rest with
    | none => some c
    | some b => if keyLt c b then some c else some b

def pruneTarget (tp bt : Nat) (cs : List Cons) : Option Cons :=
  match firstCons cs with
  | none => none
  | some c => if expired tp bt c then some c else none

def pruneExpired (fx : Fix) (cs : ClientState) (st : Store) (bt : Nat) : Store :=
  match pruneTarget cs.trustingPeriod bt st.cons with
  | none => st
  | some c =>
    { st with cons := deleteCons st.cons c.rev c.num,
              recents := if fx.keepSigner then st.recents else deleteSigner st.recents c.rev c.num }

/-- `update`: pending validators, delayed switch, recents pruning, new head -/
def update (cs : ClientState) (st : Store) (h : Header) : Outcome (ClientState × Store) :=
  if cs.epoch = 0 then .panic "divide-by-zero"
  else
    let number := h.number
    let pend : Option (List Bytes) :=
      if number % cs.epoch = 0 then parseValidators h.extra else some st.pending
    match pend with
    | none => .err "validator-bytes"
    | some pending =>
      let switch := number % cs.epoch = cs.validators.length / 2
      let rs1 :=
        if switch then
          let oldLimit := cs.validators.length / 2 + 1
          let newLimit := (valSet pending).length / 2 + 1
          (List.range (oldLimit - newLimit)).foldl
            (fun rs i => deleteSigner rs h.rev (subU64 (subU64 number newLimit) i)) st.recents
        else st.recents
      let vals := if switch then pending else cs.validators
      let limit := vals.length / 2 + 1
      let rs2 := if number ≥ limit then deleteSigner rs1 h.rev (number - limit) else rs1
      .ok ({ cs with head := h, validators := vals }, { st with pending := pending, recents := rs2 })

def checkHeaderAndUpdateState (fx : Fix) (env : Env) (cs : ClientState) (st : Store) (bt : Nat) (h : Header) :
    Outcome (ClientState × Store) :=
  match lookupCons st.cons cs.head.rev cs.head.number with
  | none => .err "no-consensus-state"
  | some _ =>
    match verifyHeader fx env cs st h with
    | .err e => .err e
    | .panic p => .panic p
    | .ok st1 => update cs (pruneExpired fx cs st1 bt) h

/-! ### keeper: UpdateClient / CreateClient -/

def updateClient (fx : Fix) (env : Env) (cs : ClientState) (st : Store) (bt : Nat) (h : Header) :
    Outcome (ClientState × Store) :=
  match lookupCons st.cons cs.head.rev cs.head.number with
  | none => .err "status-unknown"
  | some c =>
    if expired cs.trustingPeriod bt c then .err "status-expired"
    else
      match checkHeaderAndUpdateState fx env cs st bt h with
      | .err e => .err e
      | .panic p => .panic p
      | .ok (cs', st') => .ok (cs', { st' with cons := setCons st'.cons ⟨h.rev, h.number, h.time, h.root⟩ })

/-- `ClientState.Validate` (epoch ≠ 0, chain id fits int64, height ≠ 0-0, `Header.ValidateBasic`) + keeper
`CreateClient` (`Initialize`) on an empty client store; the initial consensus state is `⟨head.time, head.root⟩`. -/
def createClient (env : Env) (cs : ClientState) : Outcome (ClientState × Store) :=
  if cs.epoch = 0 then .err "epoch-zero"
  else if cs.chainId > gasCap then .err "chain-id"          -- math.MaxInt64 = 2^63 - 1
  else if cs.head.rev = 0 ∧ cs.head.number = 0 then .err "height-zero"
  else
  match validateBasic cs.head with
  | .err e => .err e
  | .panic p => .panic p
  | .ok _ =>
    if cs.head.number % cs.epoch ≠ 0 then .err "genesis-block"
    else
      match env.recover cs.chainId cs.head with
      | none => .err "ecrecover"
      | some signer =>
        if signer ≠ toAddr cs.head.coinbase then .err "coinbase-mismatch"
        else
          match parseValidators cs.head.extra with
          | none => .err "validator-bytes"
          | some pending =>
            .ok (cs, { recents := [⟨cs.head.rev, cs.head.number, signer⟩], pending := pending,
                       cons := [⟨cs.head.rev, cs.head.number, cs.head.time, cs.head.root⟩] })

/-- `UpgradeClientProposal.ValidateBasic` (`ClientState.Validate` of the new state) + keeper `UpgradeClient` →
`UpgradeState`: the store of the existing client `st` keeps its consensus states (only the earliest one is pruned
when it has expired under the NEW trusting period), every recent-signer record is deleted, the new head's sealer is
recorded, the pending list is the one the new head carries; then the new client state and the consensus state
`⟨head.time, head.root⟩` of the new head's height are written (overwriting what was there). -/
def upgradeClient (env : Env) (st : Store) (cs : ClientState) (bt : Nat) : Outcome (ClientState × Store) :=
  if cs.epoch = 0 then .err "epoch-zero"
  else if cs.chainId > gasCap then .err "chain-id"
  else if cs.head.rev = 0 ∧ cs.head.number = 0 then .err "height-zero"
  else
  match validateBasic cs.head with
  | .err e => .err e
  | .panic p => .panic p
  | .ok _ =>
    if cs.head.number % cs.epoch ≠ 0 then .err "genesis-block"
    else
      let cons1 := match pruneTarget cs.trustingPeriod bt st.cons with
        | none => st.cons
        | some c => deleteCons st.cons c.rev c.num
      match env.recover cs.chainId cs.head with
      | none => .err "ecrecover"
      | some signer =>
        if signer ≠ toAddr cs.head.coinbase then .err "coinbase-mismatch"
        else
          match parseValidators cs.head.extra with
          | none => .err "validator-bytes"
          | some pending =>
            .ok (cs, { recents := [⟨cs.head.rev, cs.head.number, signer⟩], pending := pending,
                       cons := setCons cons1 ⟨cs.head.rev, cs.head.number, cs.head.time, cs.head.root⟩ })

/-! ### several clients in one process, discarded executions

Verification is a function of (committed client state, header) only: there is no process-wide state (no
signature cache, no memoised snapshot). A world is a family of clients; an operation addresses one client;
`dry` runs an update and throws its effects away (a failed multi-message transaction, a simulation, a dropped
cache context). -/

abbrev World := Nat → Option (ClientState × Store)

def World.empty : World := fun _ => none

def World.set (w : World) (i : Nat) (s : ClientState × Store) : World := fun j => if j = i then some s else w j

inductive Op where
  | create (i : Nat) (cs0 : ClientState)
  | update (i : Nat) (bt : Nat) (h : Header)
  | dry (i : Nat) (bt : Nat) (h : Header)
  | upgrade (i : Nat) (cs1 : ClientState) (bt : Nat)
  /-- the hosting chain is exported (`ExportGenesis`, incl. the BSC client's `ExportMetadata`: recent signers and
  pending validators) and re-imported (`InitGenesis`) -/
  | restart

/-- verdict of the real call (`ok` / `err` / `panic` as seen by the caller) -/
def verdict {α} : Outcome α → Outcome Unit
  | .ok _ => .ok ()
  | .err e => .err e
  | .panic p => .panic p

/-- one operation: the new world and the verdict the caller sees -/
def applyOp (env : Env) (w : World) : Op → World × Outcome Unit
  | .create i cs0 =>
    match w i with
    | some _ => (w, .err "client-exists")
    | none =>
      match createClient env cs0 with
      | .ok s => (w.set i s, .ok ())
      | .err e => (w, .err e)
      | .panic p => (w, .panic p)
  | .update i bt h =>
    match w i with
    | none => (w, .err "client-not-found")
    | some (cs, st) =>
      match updateClient Fix.fixed env cs st bt h with
      | .ok s => (w.set i s, .ok ())
      | .err e => (w, .err e)
      | .panic p => (w, .panic p)
  | .dry i bt h =>
    match w i with
    | none => (w, .err "client-not-found")
    | some (cs, st) => (w, verdict (updateClient Fix.fixed env cs st bt h))
  | .upgrade i cs1 bt =>
    match w i with
    | none => (w, .err "client-not-found")
    | some (_, st) =>
      match upgradeClient env st cs1 bt with
      | .ok s => (w.set i s, .ok ())
      | .err e => (w, .err e)
      | .panic p => (w, .panic p)
  | .restart => (w, .ok ())

def runOps (env : Env) (w : World) (ops : List Op) : World := ops.foldl (fun w op => (applyOp env w op).1) w

/-- does the operation address the committed state of client `c`? (`dry` addresses nobody's) -/
def Op.touches (c : Nat) : Op → Bool
  | .create i _ => i == c
  | .update i _ _ => i == c
  | .dry _ _ _ => false
  | .upgrade i _ _ => i == c
  | .restart => false

end TM.Bsc
