import TeleportModel.Base.Util
import TeleportModel.Model.Host
/-
C19 — the path → key-bytes codec of x/xibc/core/commitment/types/merkle.go. A `MerklePath` is a list of key-path
elements (strings). The Tendermint client builds `NewMerklePath(host.PacketCommitmentPath(src, dst, seq))`, prepends the
store prefix with `ApplyPrefix`, and every proof step looks its key up with `GetKey(i)` = unescape(KeyPath[i]).
`String` / `Pretty` are the text forms ("/" ++ escape(k) per element, and its unescape).

Transcribed from Go 1.23 net/url: `shouldEscape` for the modes encodePathSegment (PathEscape / PathUnescape) and
encodeQueryComponent (QueryEscape / QueryUnescape), `escape`, `unescape`. Which of them each MerklePath function uses
is a regenerated fact (Generated/Merkle.lean). Core Lean only.
-/
namespace TM.Merkle
open TM TM.Host

inductive EscapeFn where
  | none | pathEscape | queryEscape
  deriving DecidableEq, Repr

inductive UnescapeFn where
  | pathUnescape | queryUnescape
  deriving DecidableEq, Repr

/-- regenerated: what each MerklePath function does to a key-path element -/
structure Codec where
  newMerklePath : EscapeFn
  applyPrefix : EscapeFn
  string : EscapeFn
  pretty : UnescapeFn
  getKey : UnescapeFn
  deriving DecidableEq, Repr

/-- regenerated: a proof verification of the Tendermint client, the host path it proves and the host key the keeper
    stores under -/
structure ProofPath where
  fn : String
  pathFn : String
  pathT : Template
  keyT : Template

def isAlnum (c : UInt8) : Bool := (97 ≤ c && c ≤ 122) || (65 ≤ c && c ≤ 90) || (48 ≤ c && c ≤ 57)

/-- `shouldEscape(c, encodePathSegment)` if `query = false`, `shouldEscape(c, encodeQueryComponent)` otherwise -/
def shouldEscape (query : Bool) (c : UInt8) : Bool :=
  if isAlnum c then false
  else if c = 45 || c = 95 || c = 46 || c = 126 then false                    -- - _ . ~
  else if c = 36 || c = 38 || c = 43 || c = 44 || c = 47 || c = 58 || c = 59 || c = 61 || c = 63 || c = 64 then
    -- $ & + , / : ; = ? @
    if query then true else (c = 47 || c = 59 || c = 44 || c = 63)             -- / ; , ?
  else true

def upperHex (n : Nat) : UInt8 := if n < 10 then UInt8.ofNat (48 + n) else UInt8.ofNat (55 + n)

def isHex (c : UInt8) : Bool := (48 ≤ c && c ≤ 57) || (97 ≤ c && c ≤ 102) || (65 ≤ c && c ≤ 70)

def unHex (c : UInt8) : Nat :=
  if 48 ≤ c && c ≤ 57 then c.toNat - 48
  else if 97 ≤ c && c ≤ 102 then c.toNat - 97 + 10
  else if 65 ≤ c && c ≤ 70 then c.toNat - 65 + 10
  else 0

/-- `escape(s, mode)` -/
def escape (query : Bool) : Bytes → Bytes
  | [] => []
  | c :: r =>
    if c = 32 && query then 43 :: escape query r
    else if shouldEscape query c then 37 :: upperHex (c.toNat / 16) :: upperHex (c.toNat % 16) :: escape query r
    else c :: escape query r

/-- scanner state of `unescape`: plain text, after '%', after '%' and one hex digit -/
inductive USt where
  | normal
  | pct
  | pct1 (a : UInt8)

/-- `unescape(s, mode)`: a '%' not followed by two hex digits is an EscapeError; '+' is a space only in query mode -/
def unescapeSt (query : Bool) : USt → Bytes → Option Bytes
  | .normal, [] => some []
  | .pct, [] => none
  | .pct1 _, [] => none
  | .normal, c :: r =>
    if c = 37 then unescapeSt query .pct r
    else if c = 43 then (unescapeSt query .normal r).map (fun t => (if query then 32 else 43) :: t)
    else (unescapeSt query .normal r).map (fun t => c :: t)
  | .pct, a :: r => if isHex a then unescapeSt query (.pct1 a) r else none
  | .pct1 a, b :: r =>
    if isHex b then (unescapeSt query .normal r).map (fun t => UInt8.ofNat (16 * unHex a + unHex b) :: t) else none

def unescape (query : Bool) (s : Bytes) : Option Bytes := unescapeSt query .normal s

def applyEscape : EscapeFn → Bytes → Bytes
  | .none, s => s
  | .pathEscape, s => escape false s
  | .queryEscape, s => escape true s

def applyUnescape : UnescapeFn → Bytes → Option Bytes
  | .pathUnescape, s => unescape false s
  | .queryUnescape, s => unescape true s

abbrev MerklePath := List Bytes

/-- `NewMerklePath(keyPath...)` -/
def newMerklePath (c : Codec) (ks : List Bytes) : MerklePath := ks.map (applyEscape c.newMerklePath)

/-- `ApplyPrefix(prefix, path)`: error for an empty prefix -/
def applyPrefix (c : Codec) (pre : Bytes) (p : MerklePath) : Option MerklePath :=
  if pre = [] then none else some (applyEscape c.applyPrefix pre :: p)

/-- `GetKey(i)`: index check, then unescape -/
def getKey (c : Codec) (p : MerklePath) (i : Nat) : Option Bytes :=
  match p[i]? with
  | none => none
  | some k => applyUnescape c.getKey k

/-- `String()` -/
def pathString (c : Codec) (p : MerklePath) : Bytes := (p.map (fun k => slash :: applyEscape c.string k)).flatten

/-- `Pretty()` (none = panic) -/
def pathPretty (c : Codec) (p : MerklePath) : Option Bytes := applyUnescape c.pretty (pathString c p)

/-- the key the Tendermint client proves for a host path: element 1 of prefix ++ [path] -/
def proofKey (c : Codec) (pre path : Bytes) : Option Bytes :=
  match applyPrefix c pre (newMerklePath c [path]) with
  | none => none
  | some p => getKey c p 1

end TM.Merkle
