import TeleportModel.Base.Util
/-
C16 — the aggregate module's ICS-20 middleware.

Transcribes
  * x/aggregate/ibc_middleware.go  `IBCMiddleware.OnRecvPacket` (+ the pass-through callbacks),
  * ibc/module.go                  `Module.OnRecvPacket` (calls the wrapped application),
  * app/app.go                     `transferStack := aggregate.NewIBCMiddleware(AggregateKeeper, ibctransfer.NewIBCModule(..))`
                                   routed under "transfer": the middleware wraps the ICS-20 transfer application,
  * x/aggregate/keeper/ibc_hook.go `Keeper.OnRecvPacket` (the hook),
  * x/aggregate/keeper/msg_server.go `ConvertCoin`, `convertCoinNativeCoin`, `convertCoinNativeERC20`,
  * x/aggregate/keeper/mint.go     `MintingEnabled`,
  * x/aggregate/keeper/token_pairs.go `DeleteTokenPair`, `IsDenomRegistered`,
  * ibc-go v3.0.0 modules/core/keeper/msg_server.go `RecvPacket` — what core does with the value returned by the
    callback (`coreCommit`; TRUSTED BASE: transcribed from the pinned dependency, not part of /repo).

Parameters (external computations / components):
  * `View`  — what the JSON codec, `sdk.NewIntFromString`, `sdk.AccAddressFromBech32` and `types.IBCDenom`
              (sha256 of the prefixed trace) say about a packet,
  * `Inner` — the wrapped ICS-20 transfer application: its acknowledgement and its state effect,
  * `Evm σ` — the EVM: contract calls `balanceOf` / `mint` / `transfer` of the pair's ERC-20 contract and
              `GetAccountWithoutBalance(..).IsContract()`; `σ` is the EVM state.

The hook is modelled with a flag: `fixed = true` is the repaired code (every path returns the inner `ack`),
`fixed = false` is the code as found (every path returns Go `nil`) — defect F7.
Executable; core Lean only.
-/
namespace TM.Ics20

abbrev Denom := String
abbrev Addr := Bytes

/-- A non-nil `exported.Acknowledgement` (channeltypes.Acknowledgement): result bytes or error string. -/
inductive Ack where
  | result (b : Bytes)
  | error (msg : Bytes)
  deriving DecidableEq, Repr

/-- `Acknowledgement.Success()`. -/
def Ack.success : Ack → Bool
  | .result _ => true
  | .error _ => false

inductive Owner where
  | unspecified | module | external
  deriving DecidableEq, Repr

/-- `types.TokenPair` (the ERC-20 address is a contract identity). -/
structure Pair where
  contract : Nat
  enabled : Bool
  owner : Owner
  denoms : List Denom
  deriving Repr

/-- The part of the chain state the middleware reads or writes. `σ` = EVM state. -/
structure State (σ : Type) where
  enabled : Bool                      -- params.EnableAggregate
  denomMap : Denom → Option Nat       -- KeyPrefixTokenPairByDenom: denom ↦ pair id
  pairs : Nat → Option Pair           -- KeyPrefixTokenPair: id ↦ pair
  bal : Addr → Denom → Int            -- bank balances
  blocked : Addr → Bool               -- bank BlockedAddr
  sendEnabled : Denom → Bool          -- bank IsSendEnabledCoin
  modAddr : Addr                      -- aggregate module account (escrow of converted coins)
  evm : σ

/-- The EVM as used by ConvertCoin. Every call may change the EVM state (`ApplyMessage(.., commit = true)`). -/
structure Evm (σ : Type) where
  isContract : σ → Nat → Bool
  /-- `k.balanceOf`: `none` = Go `nil` (call failed or result not unpackable). -/
  balanceOf : σ → Nat → Addr → σ × Option Nat
  /-- `CallEVM(.., "mint", receiver, amount)`: `none` = error. -/
  mint : σ → Nat → Addr → Int → Option σ
  /-- `CallEVM(.., "transfer", receiver, amount)`: `none` = error; else (state, unpacked bool (none = unpack
      error), an `Approval` event was logged). -/
  transfer : σ → Nat → Addr → Int → Option (σ × Option Bool × Bool)

/-- What the external decoders say about a packet. -/
structure View where
  decodeOk : Bool            -- transfertypes.ModuleCdc.UnmarshalJSON(packet.GetData(), &data) == nil
  amount : Option Int        -- sdk.NewIntFromString(data.Amount)
  receiver : Option Addr     -- sdk.AccAddressFromBech32(data.Receiver) (none = error)
  denom : Denom              -- types.IBCDenom(packet.DestPort, packet.DestChannel, data.Denom) = `hookDenom H fields`
  deriving Repr

/-! ### which denomination? (routing fields of the packet + `data.Denom`) -/

/-- The packet fields that determine denominations: source / destination port and channel, and `data.Denom`. -/
structure Fields where
  srcPort : String
  srcChan : String
  dstPort : String
  dstChan : String
  denom : String          -- FungibleTokenPacketData.Denom as decoded ("" when undecodable)
  deriving Repr

/-- `transfertypes.GetDenomPrefix(port, channel)` = "port/channel/". -/
def denomPrefix (port chan : String) : String := port ++ "/" ++ chan ++ "/"

/-- `transfertypes.ReceiverChainIsSource(port, channel, denom)` = `strings.HasPrefix(denom, GetDenomPrefix(port, channel))`. -/
def hasPrefix (port chan denom : String) : Bool := (denomPrefix port chan).toList.isPrefixOf denom.toList

/-- `denom[len(prefix):]`. -/
def stripPrefix (port chan denom : String) : String := String.ofList (denom.toList.drop (denomPrefix port chan).toList.length)

/-- `ParseDenomTrace(raw)` followed by "`IBCDenom()` if the path is not empty, else the raw base denomination":
    a raw denomination without "/" is a base denomination, otherwise the voucher "ibc/" + HEX(sha256(raw)).
    `H` is that hash naming (external: sha256). -/
def voucherOf (H : String → Denom) (raw : String) : Denom :=
  if raw.toList.contains '/' then H raw else raw

/-- The denomination the ICS-20 transfer application credits to the receiver (ibc-go v3.0.0
    `transfer/keeper/relay.go OnRecvPacket`): the coin RETURNS when `data.Denom` starts with the SOURCE port/channel
    prefix (prefix stripped; native coin or the local voucher of the rest); otherwise the voucher of the trace
    prefixed with the DESTINATION port/channel. -/
def creditedDenom (H : String → Denom) (f : Fields) : Denom :=
  if hasPrefix f.srcPort f.srcChan f.denom then voucherOf H (stripPrefix f.srcPort f.srcChan f.denom)
  else H (denomPrefix f.dstPort f.dstChan ++ f.denom)

/-- The denomination the hook converts: `types.IBCDenom(packet.GetDestPort(), packet.GetDestChannel(), data.Denom)`
    (x/aggregate/types/ibc.go): ALWAYS the voucher of the trace prefixed with the destination port/channel
    (the prefixed string always contains "/", so `ParseDenomTrace(..).IBCDenom()` is the hash form). -/
def hookDenom (H : String → Denom) (f : Fields) : Denom :=
  H (denomPrefix f.dstPort f.dstChan ++ f.denom)

/-- The wrapped application (ICS-20 transfer): acknowledgement (never nil: the transfer application is
    synchronous) and state effect (mint voucher / unescrow native coin, possibly partial on error). -/
structure Inner (σ P : Type) where
  ack : State σ → P → Ack
  effect : State σ → P → State σ

/-- status of the `EventIBCAggregate` emitted by the hook. -/
inductive Ev where
  | none | failed | success
  deriving DecidableEq, Repr

structure Res (σ : Type) where
  ack : Option Ack     -- the Go interface value returned to IBC core (`none` = nil)
  st : State σ
  ev : Ev

/-! ### bank -/

def addBal (b : Addr → Denom → Int) (a : Addr) (d : Denom) (x : Int) : Addr → Denom → Int :=
  fun a' d' => if a' = a ∧ d' = d then b a' d' + x else b a' d'

/-- `SendCoins` of one coin (subtract, then add). -/
def sendCoins (b : Addr → Denom → Int) (src dst : Addr) (d : Denom) (amt : Int) : Addr → Denom → Int :=
  addBal (addBal b src d (-amt)) dst d amt

/-- `SendCoinsFromAccountToModule(sender, "aggregate", Coins{coin})`: `Coins.IsValid` (positive amount) and
    sufficient spendable balance. -/
def escrow {σ} (st : State σ) (sender : Addr) (d : Denom) (amt : Int) : Option (Addr → Denom → Int) :=
  if amt ≤ 0 then none
  else if st.bal sender d < amt then none
  else some (sendCoins st.bal sender st.modAddr d amt)

/-- `common.BytesToAddress`: the last 20 bytes, left-padded with zeros. -/
def evmAddr (a : Addr) : Addr :=
  if 20 ≤ a.length then a.drop (a.length - 20) else List.replicate (20 - a.length) 0 ++ a

/-! ### registry -/

/-- `DeleteTokenPair`: the pair, and the denom map entry of every denomination of the pair. -/
def deletePair {σ} (st : State σ) (id : Nat) (p : Pair) : State σ :=
  { st with
    pairs := fun i => if i = id then none else st.pairs i
    denomMap := fun d => if p.denoms.contains d then none else st.denomMap d }

/-- `MintingEnabled(ctx, sender, receiver, denom, denom)`; `none` = error. -/
def mintingEnabled {σ} (st : State σ) (sender recv : Addr) (d : Denom) : Option (Nat × Pair) :=
  if !st.enabled then none
  else match st.denomMap d with
    | none => none
    | some id =>
      match st.pairs id with
      | none => none
      | some p =>
        if !p.enabled then none
        else if st.blocked recv then none
        else if sender ≠ recv && !st.sendEnabled d then none
        else some (id, p)

/-! ### ConvertCoin -/

/-- the balance-invariance check shared by both flows: `none` = a nil balance reaches big.Int arithmetic (panic) -/
def balanceGrewBy (b0 b1 : Option Nat) (amt : Int) : Option Bool :=
  match b0, b1 with
  | some x, some y => some (decide ((y : Int) = (x : Int) + amt))
  | _, _ => none

/-- the module-escrow check of `convertCoinNativeERC20`: `balanceEscrowAfter == balanceEscrow - amount`
    (`none` = a nil balance reaches big.Int arithmetic: panic) -/
def balanceFellBy (m0 m1 : Option Nat) (amt : Int) : Option Bool :=
  match m0, m1 with
  | some x, some y => some (decide ((y : Int) = (x : Int) - amt))
  | _, _ => none

/-- `convertCoinNativeCoin` (pair owned by the module: escrow coins, mint tokens). -/
def convertNativeCoin {σ} (E : Evm σ) (st : State σ) (p : Pair) (sender recv : Addr) (d : Denom) (amt : Int) :
    Outcome (State σ) :=
  let r0 := E.balanceOf st.evm p.contract recv
  match escrow st sender d amt with
  | none => .err "escrow"
  | some bank1 =>
    match E.mint r0.1 p.contract recv amt with
    | none => .err "evm"
    | some e2 =>
      let r1 := E.balanceOf e2 p.contract recv
      match balanceGrewBy r0.2 r1.2 amt with
      | none => .panic "nil-balance"
      | some false => .err "invariance"
      | some true => .ok { st with bal := bank1, evm := r1.1 }

/-- `convertCoinNativeERC20` (pair owned externally: escrow coins, transfer escrowed tokens, burn coins).
    Order: receiver's and module's token balances read, coins escrowed, `transfer`, bool result, receiver balance
    +amount, module balance -amount (commit 320c042), coins burned, approval-log check. -/
def convertNativeERC20 {σ} (E : Evm σ) (st : State σ) (p : Pair) (sender recv : Addr) (d : Denom) (amt : Int) :
    Outcome (State σ) :=
  let r0 := E.balanceOf st.evm p.contract recv
  let q0 := E.balanceOf r0.1 p.contract (evmAddr st.modAddr)     -- types.ModuleAddress
  match escrow st sender d amt with
  | none => .err "escrow"
  | some bank1 =>
    match E.transfer q0.1 p.contract recv amt with
    | none => .err "evm"
    | some (e2, ret, approval) =>
      match ret with
      | none => .err "unpack"
      | some false => .err "transfer-false"
      | some true =>
        let r1 := E.balanceOf e2 p.contract recv
        match balanceGrewBy r0.2 r1.2 amt with
        | none => .panic "nil-balance"
        | some false => .err "invariance"
        | some true =>
          let q1 := E.balanceOf r1.1 p.contract (evmAddr st.modAddr)
          match balanceFellBy q0.2 q1.2 amt with
          | none => .panic "nil-escrow-balance"
          | some false => .err "escrow-invariance"
          | some true =>
            if bank1 st.modAddr d < amt then .err "burn"
            else if approval then .err "approval"
            else .ok { st with bal := addBal bank1 st.modAddr d (-amt), evm := q1.1 }

/-- `Keeper.ConvertCoin`. `.ok` with the pair deleted when the contract has self-destructed. -/
def convertCoin {σ} (E : Evm σ) (st : State σ) (sender recv : Addr) (d : Denom) (amt : Int) : Outcome (State σ) :=
  match mintingEnabled st sender recv d with
  | none => .err "minting"
  | some (id, p) =>
    if !E.isContract st.evm p.contract then .ok (deletePair st id p)
    else match p.owner with
      | .module => convertNativeCoin E st p sender recv d amt
      | .external => convertNativeERC20 E st p sender recv d amt
      | .unspecified => .err "owner"

/-! ### the hook and the middleware -/

/-- `Keeper.OnRecvPacket(ctx, packet, ack)`. The conversion runs on a cache context that is written only when
    `ConvertCoin` returns no error. `fixed = false`: the code as found returns `nil` on every path (F7).
    `guard = true`: the code with fixes/C16-receiver-length.diff — a receiver that is not a 20-byte address has no EVM
    account of its own (`common.BytesToAddress` would keep the LAST 20 bytes / left-pad), so no conversion is attempted;
    `guard = false`: the code before that repair. -/
def hookG {σ} (guard fixed : Bool) (E : Evm σ) (v : View) (st : State σ) (ack : Ack) : Outcome (Res σ) :=
  let ret : Option Ack := if fixed then some ack else none
  if !v.decodeOk then .ok ⟨ret, st, .failed⟩
  else match v.amount with
    | none => .ok ⟨ret, st, .failed⟩
    | some amt =>
      let receiver := v.receiver.getD []           -- `receiver, _ := sdk.AccAddressFromBech32(..)`
      if guard && receiver.length != 20 then .ok ⟨ret, st, .failed⟩   -- len(receiver.Bytes()) != common.AddressLength
      else match st.denomMap v.denom with          -- IsDenomRegistered
      | none => .ok ⟨ret, st, .failed⟩
      | some _ =>
        if amt < 0 then .panic "NewCoin-negative"  -- sdk.NewCoin panics on a negative amount
        else match convertCoin E st receiver (evmAddr receiver) v.denom amt with
          | .ok st' => .ok ⟨ret, st', .success⟩    -- write()
          | .err _ => .ok ⟨ret, st, .failed⟩       -- cache context dropped
          | .panic s => .panic s

/-- the hook as repaired (receiver-length guard) -/
def hook {σ} (fixed : Bool) (E : Evm σ) (v : View) (st : State σ) (ack : Ack) : Outcome (Res σ) :=
  hookG true fixed E v st ack

/-- the hook before the receiver-length repair -/
def hookUnguarded {σ} (fixed : Bool) (E : Evm σ) (v : View) (st : State σ) (ack : Ack) : Outcome (Res σ) :=
  hookG false fixed E v st ack

/-- `IBCMiddleware.OnRecvPacket`: the wrapped application first; the hook only after a successful ack. -/
def onRecv {σ P} (fixed : Bool) (E : Evm σ) (view : P → View) (inner : Inner σ P) (st : State σ) (pkt : P) :
    Outcome (Res σ) :=
  let ack := inner.ack st pkt
  let sI := inner.effect st pkt
  if !ack.success then .ok ⟨some ack, sI, .none⟩
  else hook fixed E (view pkt) sI ack

/-- the middleware over the hook before the receiver-length repair (for the witness of the defect) -/
def onRecvUnguarded {σ P} (fixed : Bool) (E : Evm σ) (view : P → View) (inner : Inner σ P) (st : State σ) (pkt : P) :
    Outcome (Res σ) :=
  let ack := inner.ack st pkt
  let sI := inner.effect st pkt
  if !ack.success then .ok ⟨some ack, sI, .none⟩
  else hookUnguarded fixed E (view pkt) sI ack

/-- ibc-go v3.0.0 core `Keeper.RecvPacket` after the callback (TRUSTED BASE):
    the callback's state changes are written iff `ack == nil || ack.Success()`;
    an acknowledgement is written iff `ack != nil`. Returns (acknowledgement committed for the packet, state). -/
def coreCommit {σ} (pre : State σ) (r : Res σ) : Option Ack × State σ :=
  match r.ack with
  | none => (none, r.st)
  | some a => (some a, if a.success then r.st else pre)

/-! ### the stateless stage, restarts, dropped executions -/

/-- The packet's own fields as `MsgRecvPacket.ValidateBasic` → `Packet.ValidateBasic` looks at them (identifiers are
    well-formed by construction in this model). -/
structure Wire where
  seq : Nat
  dataEmpty : Bool
  timeoutRev : Nat
  timeoutHeight : Nat
  timeoutTimestamp : Nat

/-- `Packet.ValidateBasic`: sequence ≠ 0, some timeout, non-empty data. -/
def packetValidateBasic (w : Wire) : Bool :=
  w.seq != 0 && !(w.timeoutRev == 0 && w.timeoutHeight == 0 && w.timeoutTimestamp == 0) && !w.dataEmpty

/-- A transaction carrying MsgRecvPacket: `ValidateBasic ; handler`. `none` = refused statelessly (the handler, hence
    the middleware, never runs; nothing changes). -/
def deliverMsg {σ P} (fixed : Bool) (E : Evm σ) (view : P → View) (inner : Inner σ P) (wire : P → Wire) (st : State σ) (pkt : P) :
    Option (Outcome (Res σ)) :=
  if packetValidateBasic (wire pkt) then some (onRecv fixed E view inner st pkt) else none

/-- Restart of the aggregate module (ExportGenesis → JSON → Validate → wipe → InitGenesis): params and every pair with all
    its denominations, its contract and its enabled flag are exported and re-indexed — the identity on the state the
    property talks about. -/
def restart {σ} (st : State σ) : State σ := st

/-- Running the callback on a context that is dropped (Simulate / CheckTx / failed multi-message tx / the harness' own
    copies): the identity. -/
def dropped {σ P} (fixed : Bool) (E : Evm σ) (view : P → View) (inner : Inner σ P) (st : State σ) (pkt : P) : State σ :=
  let _ := onRecv fixed E view inner st pkt
  st

/-- The other callbacks of the middleware: the wrapped application's result, then the keeper's no-op. -/
def onAcknowledgement {ε} (innerResult : Option ε) : Option ε :=
  match innerResult with
  | some e => some e
  | none => none            -- `k.OnAcknowledgementPacket` returns nil

/-- `ibc.Module.OnTimeoutPacket` (embedded, not overridden). -/
def onTimeout {ε} (innerResult : Option ε) : Option ε := innerResult

/-! ### a concrete EVM for the driver (the contracts the harness installs) -/

inductive Kind where
  | std            -- syscontracts/erc20 ERC20MinterBurnerDecimals deployed by RegisterCoin (module = minter)
  | tiny (k : Nat) -- hand-assembled: mint/transfer(to, x): bal[to] += k*x (mod 2^256), returns true; balanceOf
  | tinyd          -- hand-assembled honest ledger: mint(to,x): bal[to] += x; transfer(to,x): reverts unless
                   -- bal[caller] >= x, bal[caller] -= x, bal[to] += x, returns true; balanceOf
  | revert         -- every call reverts
  | nocode         -- no code at the address
  | balrevert      -- mint/transfer return true without effect, everything else reverts
  deriving DecidableEq, Repr

structure Contract where
  kind : Kind
  bals : Addr → Nat
  supply : Nat

abbrev EvmSt := Nat → Option Contract

def two256 : Nat := 2 ^ 256
def zero20 : Addr := List.replicate 20 0

def setContract (e : EvmSt) (c : Nat) (x : Contract) : EvmSt := fun i => if i = c then some x else e i

def cIsContract (e : EvmSt) (c : Nat) : Bool :=
  match e c with
  | some x => x.kind != .nocode
  | none => false

def cBalanceOf (e : EvmSt) (c : Nat) (a : Addr) : EvmSt × Option Nat :=
  match e c with
  | some x =>
    (match x.kind with
     | .std => (e, some (x.bals a))
     | .tiny _ => (e, some (x.bals a))
     | .tinyd => (e, some (x.bals a))
     | _ => (e, none))
  | none => (e, none)

def cCredit (x : Contract) (a : Addr) (n : Nat) : Contract :=
  { x with bals := fun a' => if a' = a then n else x.bals a' }

def cMint (e : EvmSt) (c : Nat) (to : Addr) (amt : Int) : Option EvmSt :=
  match e c with
  | none => some e
  | some x =>
    match x.kind with
    | .std =>
      if to = zero20 then none
      else if x.supply + amt.toNat ≥ two256 then none
      else some (setContract e c { cCredit x to (x.bals to + amt.toNat) with supply := x.supply + amt.toNat })
    | .tiny k => some (setContract e c (cCredit x to ((x.bals to + k * amt.toNat) % two256)))
    | .tinyd => some (setContract e c (cCredit x to ((x.bals to + amt.toNat) % two256)))
    | .revert => none
    | .nocode => some e
    | .balrevert => some e

def cTransfer (modEvm : Addr) (e : EvmSt) (c : Nat) (to : Addr) (amt : Int) : Option (EvmSt × Option Bool × Bool) :=
  match e c with
  | none => some (e, none, false)
  | some x =>
    match x.kind with
    | .std =>
      if to = zero20 then none
      else if x.bals modEvm < amt.toNat then none
      else
        let x1 := cCredit x modEvm (x.bals modEvm - amt.toNat)
        some (setContract e c (cCredit x1 to (x1.bals to + amt.toNat)), some true, false)
    | .tiny k => some (setContract e c (cCredit x to ((x.bals to + k * amt.toNat) % two256)), some true, false)
    | .tinyd =>
      if x.bals modEvm < amt.toNat then none
      else
        let x1 := cCredit x modEvm (x.bals modEvm - amt.toNat)
        some (setContract e c (cCredit x1 to ((x1.bals to + amt.toNat) % two256)), some true, false)
    | .revert => none
    | .nocode => some (e, none, false)
    | .balrevert => some (e, some true, false)

def concreteEvm (modEvm : Addr) : Evm EvmSt :=
  { isContract := cIsContract, balanceOf := cBalanceOf, mint := cMint, transfer := cTransfer modEvm }

end TM.Ics20
