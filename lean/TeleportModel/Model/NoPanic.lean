import TeleportModel.Base.Util
import TeleportModel.Model.Vesting
import TeleportModel.Model.GovCycle
/-
C15 — no panic outside transaction recovery.

Model of every teleport entry point that runs WITHOUT panic recovery, with every partial Go operation
explicit as an `Outcome.panic` site, together with the stateless validators that are supposed to guard them:

* xibc client proposals  (x/xibc/core/client/proposal_handler.go → keeper/proposal.go → keeper/client.go →
  ClientState.Initialize / UpgradeState of the tendermint / bsc / eth / tss clients)
* aggregate proposals    (x/aggregate/proposal_handler.go → keeper/proposals.go)
* InitGenesis of xibc (client + packet), aggregate, rvesting on a genesis accepted by `ValidateGenesis`
* (rvesting BeginBlocker is `TM.Vesting.beginBlock`; its theorem is `TM.Vesting.no_panic`, Proofs/C20.lean)

Abstraction: a value is represented by exactly the features the control flow looks at (lengths of byte fields,
numbers, flags).  Results of external computations (signature recovery, bech32 / denom regexp checks, EVM calls,
bank look-ups) are inputs (`…Env` records, flags); the theorems quantify over all of them.
The code modelled is the tree WITH the three C15 fixes (fixes/C15-*.diff): the guards they add are marked FIX.
Core Lean only.
-/
namespace TM.NoPanic
open TM

abbrev Out := Outcome

/-- `math.MaxInt64`: `big.NewInt(int64(x))` is negative above it. -/
def maxI64 : Nat := 9223372036854775807

/-- Outcome of `ecrecover(header, chainID)` followed by the comparison with `header.Coinbase`. -/
inductive SigRes | fail | mismatch | good
  deriving DecidableEq, Repr

/-! ## Client states of the four client types -/

/-- bsc `ClientState` (+ its `Header`). -/
structure Bsc where
  epoch : Nat
  chainId : Nat
  height : Nat        -- Header.Height.RevisionHeight
  extraLen : Nat      -- len(Header.Extra)
  mixZero : Bool      -- BytesToHash(MixDigest) == 0
  uncleOk : Bool      -- BytesToHash(UncleHash) == uncleHash
  bloomLen : Nat
  nonceLen : Nat
  diffZero : Bool     -- Difficulty.Uint64() == 0
  deriving DecidableEq, Repr

structure Eth where
  height : Nat
  gasLimit : Nat
  gasUsed : Nat
  bloomLen : Nat
  diffZero : Bool
  deriving DecidableEq, Repr

structure Tm where
  chainBlank : Bool
  trustOk : Bool      -- light.ValidateTrustLevel
  trusting : Int
  unbonding : Int
  drift : Int
  height : Nat
  specsNil : Bool
  specHasNil : Bool
  deriving DecidableEq, Repr

structure Tss where
  addrOk : Bool       -- AccAddressFromBech32(TssAddress)
  deriving DecidableEq, Repr

inductive CS | tm (c : Tm) | bsc (c : Bsc) | eth (c : Eth) | tss (c : Tss)
  deriving DecidableEq, Repr

/-- Go type of a consensus state value. -/
inductive CT | tm | bsc | eth | tss
  deriving DecidableEq, Repr

def CS.ct : CS → CT
  | .tm _ => .tm | .bsc _ => .bsc | .eth _ => .eth | .tss _ => .tss

/-! ## Stateless validators -/

/-- bsc `Header.ValidateBasic` (header.go). `ToBscHeader` (only reached for number > 0) converts Bloom and Nonce
with the panicking `BytesToBloom` / `BytesToBlockNonce`. -/
def bscHeaderValidate (h : Bsc) : Out Unit :=
  if h.extraLen < 32 then .err "missing-vanity" else
  if h.extraLen < 97 then .err "missing-signature" else
  if !h.mixZero then .err "mix-digest" else
  if !h.uncleOk then .err "uncle-hash" else
  if h.height > 0 then
    if h.bloomLen > 256 then .panic "bsc.BytesToBloom" else
    if h.nonceLen > 8 then .panic "bsc.BytesToBlockNonce" else
    if h.diffZero then .err "difficulty" else .ok ()
  else .ok ()

/-- bsc `ClientState.Validate`. FIX (C15-bsc-clientstate-validate): Epoch ≠ 0, ChainId ≤ MaxInt64; then (6c8eeb9)
`Header.Height.IsZero()` ⇒ error (the model's heights have revision number 0). -/
def bscValidate (c : Bsc) : Out Unit :=
  if c.epoch = 0 then .err "epoch-zero" else
  if c.chainId > maxI64 then .err "chain-id-overflow" else
  if c.height = 0 then .err "height-zero" else
  bscHeaderValidate c

/-- eth `Header.ValidateBasic`. FIX (C15-eth-bloom-length): len(Bloom) ≤ 256. -/
def ethHeaderValidate (c : Eth) : Out Unit :=
  if c.bloomLen > 256 then .err "bloom-length" else
  if c.gasLimit > maxI64 then .err "gas-limit" else
  if c.gasUsed > c.gasLimit then .err "gas-used" else
  if c.height > 0 then
    if c.bloomLen > 256 then .panic "eth.BytesToBloom" else
    if c.diffZero then .err "difficulty" else .ok ()
  else .ok ()

/-- eth `ClientState.Validate`: (6c8eeb9) `Header.Height.IsZero()` ⇒ error, then `Header.ValidateBasic`. -/
def ethValidate (c : Eth) : Out Unit :=
  if c.height = 0 then .err "height-zero" else ethHeaderValidate c

/-- tendermint `ClientState.Validate`. -/
def tmValidate (c : Tm) : Out Unit :=
  if c.chainBlank then .err "chain-id" else
  if !c.trustOk then .err "trust-level" else
  if c.trusting = 0 then .err "trusting" else
  if c.unbonding = 0 then .err "unbonding" else
  if c.drift = 0 then .err "drift" else
  if c.height = 0 then .err "height" else
  if c.trusting ≥ c.unbonding then .err "trusting>=unbonding" else
  if c.specsNil then .err "specs-nil" else
  if c.specHasNil then .err "spec-nil" else .ok ()

def tssValidate (c : Tss) : Out Unit := if c.addrOk then .ok () else .err "tss-address"

def csValidate : CS → Out Unit
  | .tm c => tmValidate c | .bsc c => bscValidate c | .eth c => ethValidate c | .tss c => tssValidate c

/-! ## `Initialize` / `UpgradeState` -/

/-- The part of bsc `Initialize` / `UpgradeState` after the store pruning: `ecrecover`
(`len(Extra) < extraSeal` check, `Extra[len-65:]`, `encodeSigHeader` with `Extra[:len-65]` and
`panic("can't encode")` when rlp refuses the negative chain id), coinbase comparison,
`ParseValidators` (`extra[32 : len-65]`). -/
def bscSeal (c : Bsc) (sig : SigRes) : Out Unit :=
  if c.extraLen < 65 then .err "missing-signature" else
  if c.chainId > maxI64 then .panic "bsc.encodeSigHeader: rlp negative big.Int" else
  match sig with
  | .fail => .err "ecrecover"
  | .mismatch => .err "coinbase"
  | .good =>
    if c.extraLen < 97 then .panic "bsc.ParseValidators: extra[32:len-65]" else
    if (c.extraLen - 97) % 20 ≠ 0 then .err "validator-bytes" else
    if (c.extraLen - 97) / 20 = 0 then .err "no-validators" else .ok ()   -- 24f4cfb

/-- bsc `ClientState.Initialize`: checked type assertion on the consensus state (fix 67b55c5), then `Height % Epoch`. -/
def bscInit (c : Bsc) (cons : CT) (sig : SigRes) : Out Unit :=
  if cons ≠ .bsc then .err "consensus-type" else
  if c.epoch = 0 then .panic "bsc.Initialize: % Epoch" else
  if c.height % c.epoch ≠ 0 then .err "genesis-block" else
  bscSeal c sig

/-- bsc `ClientState.UpgradeState`: consensus type check, `% Epoch`, prune (first consensus state unreadable ⇒ error),
`DeleteAllSigner` (height parse error), then as `Initialize`. -/
def bscUpgrade (c : Bsc) (cons : CT) (sig : SigRes) (pruneErr signerErr : Bool) : Out Unit :=
  if cons ≠ .bsc then .err "consensus-type" else
  if c.epoch = 0 then .panic "bsc.UpgradeState: % Epoch" else
  if c.height % c.epoch ≠ 0 then .err "genesis-block" else
  if pruneErr then .err "prune" else
  if signerErr then .err "signers" else
  bscSeal c sig

/-- eth `Initialize` and `UpgradeState` (identical): checked type assertion on the consensus state (fix 67b55c5),
`MarshalInterface`, then `header.Hash()` → `ToEthHeader` → `BytesToBloom`. -/
def ethInit (c : Eth) (cons : CT) (marshalErr : Bool) : Out Unit :=
  if cons ≠ .eth then .err "consensus-type" else
  if marshalErr then .err "marshal" else
  if c.bloomLen > 256 then .panic "eth.BytesToBloom" else .ok ()

/-- tendermint `Initialize` and (fix 0fd3c3d) `UpgradeState`: checked type assertion on the consensus state,
then `setConsensusMetadata` (total). -/
def tmInit (cons : CT) : Out Unit := if cons = .tm then .ok () else .err "consensus-type"

structure Env where
  sig : SigRes := .fail      -- for the bsc client state whose Initialize / UpgradeState runs
  pruneErr : Bool := false
  signerErr : Bool := false
  marshalErr : Bool := false
  deriving Repr

def csInit (c : CS) (cons : CT) (e : Env) : Out Unit :=
  match c with
  | .tm _ => tmInit cons
  | .bsc b => bscInit b cons e.sig
  | .eth x => ethInit x cons e.marshalErr
  | .tss _ => .ok ()

def csUpgrade (c : CS) (cons : CT) (e : Env) : Out Unit :=
  match c with
  | .tm _ => tmInit cons
  | .bsc b => bscUpgrade b cons e.sig e.pruneErr e.signerErr
  | .eth x => ethInit x cons e.marshalErr
  | .tss _ => .ok ()

/-! ## xibc client keeper and proposal handlers -/

/-- A protobuf `Any` field after decoding: absent, holding a value of another interface, or a value. -/
inductive AnyV (α : Type) | nil | wrong | val (a : α)
  deriving Repr

structure XSt where
  clients : List (String × CS) := []
  native : String := "teleport"      -- `GetChainName`: the chain's own name (genesis `NativeChainName`)
  deriving Repr

def XSt.get (s : XSt) (chain : String) : Option CS := (s.clients.find? (·.1 = chain)).map (·.2)
def XSt.set (s : XSt) (chain : String) (c : CS) : XSt :=
  { s with clients := (chain, c) :: s.clients.filter (·.1 ≠ chain) }

/-- the features tendermint `ConsensusState.ValidateBasic` reads. -/
structure TmCons where
  rootEmpty : Bool := false     -- Root == nil || len(Root) == 0
  hashOk : Bool := true         -- tmtypes.ValidateHash(NextValidatorsHash): empty or 32 bytes
  tsPositive : Bool := true     -- Timestamp.Unix() > 0
  deriving Repr, DecidableEq

/-- tendermint `ConsensusState.ValidateBasic`. -/
def tmConsValidate (c : TmCons) : Out Unit :=
  if c.rootEmpty then .err "root" else
  if !c.hashOk then .err "next-validators-hash" else
  if !c.tsPositive then .err "timestamp" else .ok ()

/-- `ConsensusState.ValidateBasic` of the four types: bsc, eth and tss accept everything. -/
def consValidate (t : CT) (tmc : TmCons) : Out Unit :=
  match t with
  | .tm => tmConsValidate tmc
  | _ => .ok ()

/-- Create / Upgrade / Toggle client proposal. `absOk` = `govtypes.ValidateAbstract` ∧
`host.ClientIdentifierValidator(ChainName)` (total functions of strings). -/
structure ClientProp where
  absOk : Bool
  chain : String
  cs : AnyV CS
  cons : AnyV CT
  tmc : TmCons := {}            -- content of the consensus state when it is a tendermint one
  deriving Repr

/-- `ValidateBasic` of the three client proposals (identical bodies). Since fafdbf1 the consensus state must unpack
(nil `Any` / not a `ConsensusState` ⇒ error) and pass its type's `ValidateBasic`, after `clientState.Validate()`. -/
def clientValidateBasic (p : ClientProp) : Out Unit :=
  if !p.absOk then .err "abstract" else
  match p.cs with
  | .nil => .err "unpack-nil"
  | .wrong => .err "unpack-type"
  | .val c => do
    csValidate c
    match p.cons with
    | .nil => .err "unpack-nil"
    | .wrong => .err "unpack-type"
    | .val t => consValidate t p.tmc

def unpack {α} : AnyV α → Out α
  | .nil => .err "unpack-nil" | .wrong => .err "unpack-type" | .val a => .ok a

/-- `handleCreateClientProposal` → `HandleCreateClient` → `Keeper.CreateClient`. -/
def handleCreate (e : Env) (s : XSt) (p : ClientProp) : Out XSt :=
  if p.chain = s.native then .err "own-chain-name" else     -- 3b1567f
  match s.get p.chain with
  | some _ => .err "client-exists"
  | none => do
    let c ← unpack p.cs
    let cons ← unpack p.cons
    csInit c cons e
    pure (s.set p.chain c)

/-- `handleUpgradeClientProposal` → `HandleUpgradeClient` → `Keeper.UpgradeClient`. -/
def handleUpgrade (e : Env) (s : XSt) (p : ClientProp) : Out XSt := do
  let c ← unpack p.cs
  let cons ← unpack p.cons
  match s.get p.chain with
  | none => .err "client-not-found"
  | some old =>
    if old.ct ≠ c.ct then .err "client-type" else do
    csUpgrade c cons e
    pure (s.set p.chain c)

/-- `handleToggleClientProposal` → `HandleToggleClient` → `Keeper.ToggleClient`: since fixes e081e86 / 0be1a17 it clears the
replaced client's store (`clearClientStore`: iterate + delete, total) and calls `Initialize` of the NEW client state;
of the stored client only its type is looked at. -/
def handleToggle (e : Env) (s : XSt) (p : ClientProp) : Out XSt :=
  match s.get p.chain with
  | none => .err "client-not-found"
  | some old => do
    let c ← unpack p.cs
    let cons ← unpack p.cons
    if old.ct = c.ct then .err "client-type" else do
    csInit c cons e
    pure (s.set p.chain c)

/-- lexical class of a bech32 account-address string: empty, not parseable, parseable
(`sdk.AccAddressFromBech32` rejects the empty / blank string first, so "empty and valid" does not exist). -/
inductive AddrStr | empty | bad | good
  deriving DecidableEq, Repr

structure RelayerProp where
  absOk : Bool
  addr : AddrStr
  nChains : Nat
  nAddrs : Nat
  chainsOk : Bool
  deriving Repr

def relayerValidateBasic (p : RelayerProp) : Out Unit :=
  if !p.absOk then .err "abstract" else
  if p.addr ≠ .good then .err "address" else
  if p.nAddrs = 0 ∨ p.nAddrs ≠ p.nChains then .err "length" else
  if !p.chainsOk then .err "chain" else .ok ()

/-- `handleRegisterRelayerProposal` → `RegisterRelayers`: `store.Set([]byte(address), …)` — the cosmos-sdk store panics
("key is nil") on an EMPTY key, i.e. on an empty `Address` string; otherwise total. -/
def handleRelayer (s : XSt) (p : RelayerProp) : Out XSt :=
  if p.addr = .empty then .panic "client.RegisterRelayers: store.Set nil key (empty address)" else .ok s

inductive XProp
  | create (p : ClientProp) | upgrade (p : ClientProp) | toggle (p : ClientProp) | relayer (p : RelayerProp)
  deriving Repr

def xValidateBasic : XProp → Out Unit
  | .create p | .upgrade p | .toggle p => clientValidateBasic p
  | .relayer p => relayerValidateBasic p

def xHandle (e : Env) (s : XSt) : XProp → Out XSt
  | .create p => handleCreate e s p
  | .upgrade p => handleUpgrade e s p
  | .toggle p => handleToggle e s p
  | .relayer p => handleRelayer s p

/-! ## xibc genesis -/

structure XGenCons where
  heightZero : Bool
  cons : AnyV CT
  consValid : Bool      -- ConsensusState.ValidateBasic
  typeMatch : Bool      -- cs.ClientType() == clientState.ClientType()
  deriving Repr

structure XGen where
  clients : List (Bool × String × AnyV CS)          -- (ClientIdentifierValidator ok, chain name, client state)
  consensus : List (String × List XGenCons)
  metadata : List (String × List (Bool × Bool))     -- per client: (key empty, value empty)
  nativeOk : Bool
  packetOk : Bool                                    -- packet GenesisState.Validate (total)
  deriving Repr

def xgenClients : List (Bool × String × AnyV CS) → List (String × CS) → Out (List (String × CS))
  | [], acc => .ok acc
  | (idOk, chain, a) :: rest, acc =>
    if !idOk then .err "identifier" else
    match a with
    | .nil => .panic "client.genesis.Validate: nil Any .GetCachedValue()"
    | .wrong => .err "client-state-type"
    | .val c => do
      csValidate c
      xgenClients rest ((chain, c) :: acc.filter (·.1 ≠ chain))

def xgenConsStates : List XGenCons → Out Unit
  | [] => .ok ()
  | c :: rest =>
    if c.heightZero then .err "height-zero" else
    match c.cons with
    | .nil => .panic "client.genesis.Validate: nil Any .GetCachedValue()"
    | .wrong => .err "consensus-state-type"
    | .val _ =>
      if !c.consValid then .err "consensus-invalid" else
      if !c.typeMatch then .err "type-mismatch" else xgenConsStates rest

def xgenConsensus (valid : List (String × CS)) : List (String × List XGenCons) → Out Unit
  | [] => .ok ()
  | (chain, l) :: rest =>
    if (valid.find? (·.1 = chain)).isNone then .err "unknown-chain" else do
    xgenConsStates l
    xgenConsensus valid rest

def xgenMeta (valid : List (String × CS)) : List (String × List (Bool × Bool)) → Out Unit
  | [] => .ok ()
  | (chain, l) :: rest =>
    if (valid.find? (·.1 = chain)).isNone then .err "unknown-chain" else
    if l.any (fun kv => kv.1 || kv.2) then .err "metadata-empty" else xgenMeta valid rest

/-- xibc `GenesisState.Validate` (client part, then packet part). -/
def xValidateGenesis (g : XGen) : Out Unit := do
  let valid ← xgenClients g.clients []
  xgenConsensus valid g.consensus
  xgenMeta valid g.metadata
  if !g.nativeOk then .err "native-chain-name" else
  if !g.packetOk then .err "packet-genesis" else .ok ()

def xinitClients : List (Bool × String × AnyV CS) → XSt → Out XSt
  | [], s => .ok s
  | (_, chain, a) :: rest, s =>
    match a with
    | .nil => .panic "client.InitGenesis: nil Any .GetCachedValue()"
    | .wrong => .panic "client.InitGenesis: invalid client state"
    | .val c => xinitClients rest (s.set chain c)

def xinitCons : List XGenCons → Out Unit
  | [] => .ok ()
  | c :: rest =>
    match c.cons with
    | .nil => .panic "client.InitGenesis: nil Any .GetCachedValue()"
    | .wrong => .panic "client.InitGenesis: invalid consensus state"
    | .val _ => xinitCons rest

def xinitConsAll : List (String × List XGenCons) → Out Unit
  | [] => .ok ()
  | (_, l) :: rest => do xinitCons l; xinitConsAll rest

/-- `SetAllClientMetadata` (runs first): `store.Set` panics on an empty key / nil value. -/
def xinitMeta : List (String × List (Bool × Bool)) → Out Unit
  | [] => .ok ()
  | (_, l) :: rest =>
    if l.any (fun kv => kv.1 || kv.2) then .panic "client.InitGenesis: store.Set nil key / nil value" else xinitMeta rest

/-- xibc `InitGenesis` (client.InitGenesis; packet.InitGenesis is total given the module account). -/
def xInitGenesis (g : XGen) : Out XSt := do
  xinitMeta g.metadata
  let s ← xinitClients g.clients {}
  xinitConsAll g.consensus
  pure s

/-! ## aggregate -/

/-- bank `DenomUnit` as `Metadata.Validate` sees it. -/
structure DUnit where
  denom : String
  exponent : Nat
  unitOk : Bool        -- DenomUnit.Validate
  deriving Repr, DecidableEq

structure Meta where
  nameBlank : Bool
  symbolBlank : Bool
  baseValid : Bool
  displayValid : Bool
  name : String
  base : String
  display : String
  units : List DUnit
  deriving Repr

/-- the loop of bank `Metadata.Validate` (cosmos-sdk v0.45.2 x/bank/types/metadata.go). -/
def metaLoop (m : Meta) : List DUnit → Nat → Nat → List String → Bool → Out Bool
  | [], _, _, _, hasDisplay => .ok hasDisplay
  | u :: rest, i, cur, seen, hasDisplay =>
    if i = 0 ∧ u.denom ≠ m.base then .err "first-unit-base" else
    if i = 0 ∧ u.exponent ≠ 0 then .err "base-exponent" else
    if i ≠ 0 ∧ cur ≥ u.exponent then .err "unsorted" else
    if seen.contains u.denom then .err "duplicate-unit" else
    if !u.unitOk then .err "unit-invalid" else
    metaLoop m rest (i + 1) u.exponent (u.denom :: seen) (hasDisplay || u.denom == m.display)

def metaValidate (m : Meta) : Out Unit :=
  if m.nameBlank then .err "name" else
  if m.symbolBlank then .err "symbol" else
  if !m.baseValid then .err "base" else
  if !m.displayValid then .err "display" else
  match metaLoop m m.units 0 0 [] false with
  | .ok true => .ok ()
  | .ok false => .err "no-display-unit"
  | .err e => .err e
  | .panic p => .panic p

structure Pair where
  erc20 : String           -- 20 address bytes, lower-case hex
  denoms : List String
  enabled : Bool
  deriving Repr, DecidableEq

/-- `TokenPair.GetID` reads `Denoms[0]`. The model uses the hash pre-image as identifier. -/
def Pair.id (p : Pair) : Out String :=
  match p.denoms with
  | [] => .panic "aggregate.TokenPair.GetID: Denoms[0]"
  | d :: _ => .ok (p.erc20 ++ "|" ++ d)

structure ASt where
  enable : Bool := true
  pairs : List (String × Pair) := []        -- id ↦ pair
  denomMap : List (String × String) := []   -- denom ↦ id
  ercMap : List (String × String) := []     -- erc20 ↦ id
  deriving Repr

def lookup (l : List (String × α)) (k : String) : Option α := (l.find? (·.1 = k)).map (·.2)
def insert (l : List (String × α)) (k : String) (v : α) : List (String × α) := (k, v) :: l.filter (·.1 ≠ k)
def erase (l : List (String × α)) (k : String) : List (String × α) := l.filter (·.1 ≠ k)

def ASt.setPair (s : ASt) (id : String) (p : Pair) : ASt := { s with pairs := insert s.pairs id p }
def ASt.setDenoms (s : ASt) (ds : List String) (id : String) : ASt :=
  { s with denomMap := ds.foldl (fun m d => insert m d id) s.denomMap }
def ASt.setErc (s : ASt) (a id : String) : ASt := { s with ercMap := insert s.ercMap a id }

/-- outcome of an EVM-backed helper, computed by the node's own libraries. -/
inductive Ext (α : Type) | ok (a : α) | err
  deriving Repr

/-- `RegisterCoinProposal` / `AddCoinProposal` content. `restOk` = `ValidateIBCDenom` ∧ `validateIBC` ∧
(`IsHexAddress(ContractAddress)`) ∧ `ValidateAbstract` — total string functions evaluated after `Metadata.Validate`. -/
structure CoinProp where
  md : Meta
  restOk : Bool
  contract : Option String := none       -- AddCoin: `some hex` when IsHexAddress, `none` otherwise
  deriving Repr

def coinValidateBasic (p : CoinProp) : Out Unit := do
  metaValidate p.md
  if p.restOk then .ok () else .err "rest"

structure CoinEnv where
  isEvmDenom : Bool
  hasSupply : Bool
  verifyOk : Bool                 -- verifyMetadata
  deploy : Ext String             -- DeployERC20Contract after the `DenomUnits[0]` read: address or error
  deriving Repr

/-- the common prefix of `RegisterCoin` and `AddCoin`. NOTE `IsDenomRegistered(coinMetadata.Name)` (sic). -/
def coinChecks (e : CoinEnv) (s : ASt) (m : Meta) : Out Unit :=
  if !s.enable then .err "disabled" else
  if e.isEvmDenom then .err "evm-denom" else
  if (lookup s.denomMap m.name).isSome then .err "already-registered" else
  if !e.hasSupply then .err "no-supply" else
  if !e.verifyOk then .err "metadata-mismatch" else .ok ()

/-- `handleRegisterCoinProposal` → `RegisterCoin` → `DeployERC20Contract` (`coinMetadata.DenomUnits[0]`). -/
def handleRegisterCoin (e : CoinEnv) (s : ASt) (p : CoinProp) : Out ASt := do
  coinChecks e s p.md
  match p.md.units with
  | [] => .panic "aggregate.DeployERC20Contract: DenomUnits[0]"
  | _ :: _ =>
    match e.deploy with
    | .err => .err "deploy"
    | .ok addr =>
      let pair : Pair := { erc20 := addr, denoms := [p.md.base], enabled := true }
      let id ← pair.id
      pure (((s.setPair id pair).setDenoms pair.denoms id).setErc addr id)

/-- `handleAddCoinProposal` → `AddCoin`. -/
def handleAddCoin (e : CoinEnv) (s : ASt) (p : CoinProp) : Out ASt :=
  match p.contract with
  | none => .err "contract-address"
  | some addr => do
    coinChecks e s p.md
    match lookup s.ercMap addr with
    | none => .err "pair-not-found"
    | some id =>
      match lookup s.pairs id with
      | none => .err "pair-not-found"
      | some pair =>
        let pair' := { pair with denoms := pair.denoms ++ [p.md.base] }
        let id' ← pair'.id
        if id ≠ id' then .err "id-changed" else
        pure ((s.setPair id' pair').setDenoms [p.md.base] id')

/-- `handleRegisterERC20Proposal` → `RegisterERC20`; `create` = `CreateCoinMetadata` (EVM queries, bank look-ups,
`Metadata.Validate` of the constructed metadata): the new denom or an error. -/
def handleRegisterERC20 (create : Ext String) (s : ASt) (addr : String) : Out ASt :=
  if !s.enable then .err "disabled" else
  if (lookup s.ercMap addr).isSome then .err "already-registered" else
  match create with
  | .err => .err "create-metadata"
  | .ok denom =>
    let pair : Pair := { erc20 := addr, denoms := [denom], enabled := true }
    do
    let id ← pair.id
    pure (((s.setPair id pair).setDenoms pair.denoms id).setErc addr id)

/-- token of `ToggleTokenRelayProposal`: hex address or denom. -/
inductive Token | erc (a : String) | denom (d : String)
  deriving Repr

def ASt.tokenId (s : ASt) : Token → Option String
  | .erc a => lookup s.ercMap a
  | .denom d => lookup s.denomMap d

/-- `handleToggleRelayProposal` → `ToggleRelay` (`SetTokenPair` → `GetID`). -/
def handleToggleRelay (s : ASt) (t : Token) : Out ASt :=
  match s.tokenId t with
  | none => .err "not-registered"
  | some id =>
    if id = "" then .err "not-registered" else
    match lookup s.pairs id with
    | none => .err "not-registered"
    | some pair =>
      let pair' := { pair with enabled := !pair.enabled }
      do
      let id' ← pair'.id
      pure (s.setPair id' pair')

structure UpdEnv where
  metaFound : Bool
  metaUnits : Nat
  restOk : Bool           -- QueryERC20(new) and the comparisons with the stored metadata
  deriving Repr

/-- `handleUpdateTokenPairERC20Proposal` → `UpdateTokenPairERC20` (`pair.Denoms[0]` on the STORED pair). -/
def handleUpdatePair (e : UpdEnv) (s : ASt) (old new : String) : Out ASt :=
  match lookup s.ercMap old with
  | none => .err "not-registered"
  | some id =>
    if id = "" then .err "not-registered" else
    match lookup s.pairs id with
    | none => .err "pair-not-found"
    | some pair =>
      -- repaired code (fix be1487f): the new address must not belong to a token pair already
      if (lookup s.ercMap new).isSome then .err "already-registered" else
      match pair.denoms with
      | [] => .panic "aggregate.UpdateTokenPairERC20: pair.Denoms[0]"
      | d0 :: _ =>
        if !e.metaFound then .err "no-metadata" else
        if e.metaUnits = 0 then .err "no-units" else
        if !e.restOk then .err "erc20-mismatch" else
        let pair' := { pair with erc20 := new }
        do
        let _ ← pair.id                    -- DeleteTokenPair
        let id' ← pair'.id
        let s1 : ASt := { s with pairs := erase s.pairs id, ercMap := erase s.ercMap old,
                                 denomMap := pair.denoms.foldl (fun m d => erase m d) s.denomMap }
        pure (((s1.setPair id' pair').setDenoms (d0 :: pair.denoms.tail) id').setErc new id')

/-! ### string → number parsers (transcribed; validator and handler each name THEIR parser) -/

/-- Go `(*big.Int).SetString(s, 10)` (math/big `Int.scan` + `nat.scan` with base 10, then "entire string consumed"):
an optional single `+` / `-`, then ONE OR MORE ASCII digits `0`–`9`, nothing else — no `0x` / `0b` / `0o` prefixes, no
underscores (both only for base 0), no white space, no exponent, no non-ASCII digits; leading zeros are plain decimal.
`none` = `(nil, false)`. -/
def setString10 (s : String) : Option Int :=
  let cs := s.toList
  let sd : Bool × List Char :=
    match cs with
    | '+' :: r => (false, r)
    | '-' :: r => (true, r)
    | r => (false, r)
  if sd.2.isEmpty || !sd.2.all Char.isDigit then none
  else
    let n : Nat := sd.2.foldl (fun a c => 10 * a + (c.toNat - 48)) 0
    some (if sd.1 then - (n : Int) else (n : Int))

/-- the parser `EnableTimeBasedSupplyLimitProposal.ValidateBasic` applies to its four numeric fields:
`new(big.Int).SetString(field, 10)`, `valid` flag CHECKED. -/
def limitVbParse (s : String) : Option Int := setString10 s

/-- the parser `handleEnableTimeBasedSupplyLimitProposal` applies to the same fields when it re-parses them:
`new(big.Int).SetString(field, 10)`, flag DISCARDED (`x, _ :=`): `none` is a nil `*big.Int` that reaches `abi.Pack`. -/
def limitHParse (s : String) : Option Int := setString10 s

/-- `EnableTimeBasedSupplyLimitProposal`: the four numeric fields are the raw strings of the content. -/
structure LimitProp where
  addrOk : Bool
  period : String
  limit : String
  maxAmt : String
  minAmt : String
  absOk : Bool
  deriving Repr

def limitValidateBasic (p : LimitProp) : Out Unit :=
  if !p.addrOk then .err "address" else
  match limitVbParse p.period with
  | none => .err "period" | some tp => if tp ≤ 0 then .err "period" else
  match limitVbParse p.minAmt with
  | none => .err "min" | some mn => if mn ≤ 0 then .err "min" else
  match limitVbParse p.maxAmt with
  | none => .err "max" | some mx => if mx ≤ mn then .err "max" else
  match limitVbParse p.limit with
  | none => .err "limit" | some l => if l ≤ mx then .err "limit" else
  if p.absOk then .ok () else .err "abstract"

/-- `handleEnableTimeBasedSupplyLimitProposal`: re-parses the four strings, results used unchecked; a nil `*big.Int`
reaches `abi.Pack` (`reflect: call of reflect.Value.Type on zero Value`). -/
def handleEnableLimit (evmOk : Bool) (p : LimitProp) : Out Unit :=
  if (limitHParse p.period).isNone ∨ (limitHParse p.limit).isNone ∨ (limitHParse p.maxAmt).isNone ∨ (limitHParse p.minAmt).isNone then
    .panic "aggregate.handleEnableTimeBasedSupplyLimitProposal: nil *big.Int in abi.Pack"
  else if evmOk then .ok () else .err "evm"

/-- RegisterERC20Trace / DisableTimeBasedSupplyLimit: one EVM call. -/
def handleEvmOnly (evmOk : Bool) : Out Unit := if evmOk then .ok () else .err "evm"

/-! ### aggregate genesis -/

structure GenPair where
  erc20 : String
  addrOk : Bool
  denoms : List (String × Bool)     -- (denom, sdk.ValidateDenom ok — informative; the model evaluates the regexp itself)
  deriving Repr

/-- the inner loop of `GenesisState.Validate` over the denominations of one pair (ccb0d33: EVERY denomination is checked). -/
def aDupScan : List String → List String → Option (List String)
  | [], seen => some seen
  | d :: rest, seen => if seen.contains d then none else aDupScan rest (d :: seen)

/-- aggregate `GenesisState.Validate` as of ccb0d33: an empty `Denoms` list is an ERROR (it used to be an index panic),
`TokenPair.Validate` (denominations, then address), contracts compared as addresses, every denomination checked for duplicates. -/
def aValidateLoop : List GenPair → List String → List String → Out Unit
  | [], _, _ => .ok ()
  | b :: rest, seenE, seenD =>
    if b.denoms.isEmpty then .err "no-denoms" else
    if b.denoms.any (fun d => !Vesting.validDenom d.1) then .err "denom" else
    if !b.addrOk then .err "address" else
    if seenE.contains b.erc20 then .err "dup-erc20" else
    match aDupScan (b.denoms.map (·.1)) seenD with
    | none => .err "dup-denom"
    | some seenD' => aValidateLoop rest (b.erc20 :: seenE) seenD'

/-- aggregate `GenesisState.Validate` (`Params.Validate` is `nil`). -/
def aValidateGenesis (g : List GenPair) : Out Unit := aValidateLoop g [] []

def aInitLoop : List GenPair → ASt → Out ASt
  | [], s => .ok s
  | b :: rest, s =>
    let pair : Pair := { erc20 := b.erc20, denoms := b.denoms.map (·.1), enabled := true }
    match pair.id with
    | .ok id =>
      if pair.denoms.any (· == "") then .panic "aggregate.InitGenesis: SetDenomMap store.Set nil key" else
      aInitLoop rest (((s.setPair id pair).setDenoms pair.denoms id).setErc pair.erc20 id)
    | .err e => .err e
    | .panic p => .panic p

/-- aggregate `InitGenesis`. -/
def aInitGenesis (enable : Bool) (g : List GenPair) : Out ASt := aInitLoop g { enable := enable }

/-! ## rvesting genesis -/

inductive From | none | bad | good
  deriving DecidableEq, Repr

structure RvGen where
  enable : Bool
  reward : List Vesting.Entry
  src : From                 -- GenesisState.From: empty / not bech32 / bech32
  initRewardValid : Bool     -- InitReward.Validate()
  deriving Repr

/-- rvesting `ValidateGenesis`. FIX (C15-rvesting-genesis-params): the reward list is validated
also when `EnableVesting` is false (as `SetParamSet` does). -/
def rvValidateGenesis (g : RvGen) : Out Unit :=
  if !Vesting.validate g.reward then .err "reward" else
  match g.src with
  | .none => .ok ()
  | .bad => .err "from"
  | .good => if g.initRewardValid then .ok () else .err "init-reward"

/-- rvesting `Keeper.InitGenesis`: `SetParams` → `Subspace.SetParamSet` panics when a value fails its
validator; `panic(err)` on a bad `From` or a failed transfer (`canPay` = bank result). -/
def rvInitGenesis (g : RvGen) (canPay : Bool) : Out Unit :=
  if !Vesting.validate g.reward then .panic "rvesting.InitGenesis: SetParamSet invalid value" else
  match g.src with
  | .none => .ok ()
  | .bad => .panic "rvesting.InitGenesis: panic(err) AccAddressFromBech32"
  | .good => if canPay then .ok () else .panic "rvesting.InitGenesis: panic(err) SendCoinsFromAccountToModule"

/-! ### rvesting genesis DOCUMENT (life-cycle probe): `init_reward` as the raw coin list of the genesis file -/

/-- the rvesting section of a genesis file. -/
structure RvDoc where
  enable : Bool
  reward : List Vesting.Entry            -- params.per_block_reward
  src : From                             -- from: empty / malformed / well-formed
  initReward : GovCycle.Coins            -- init_reward, as written (order, duplicates, zeros preserved)
  deriving Repr

/-- rvesting `ValidateGenesis`: `validatePerBlockReward` (always), and when `from` is set: bech32, then
`InitReward.Validate()` = the transcribed `sdk.Coins.Validate` (`GovCycle.rawValid`: valid denominations, strictly increasing, no
duplicates, positive amounts; empty is valid). -/
def rvValidateDoc (d : RvDoc) : Out Unit :=
  if !Vesting.validate d.reward then .err "reward" else
  match d.src with
  | .none => .ok ()
  | .bad => .err "from"
  | .good => if GovCycle.rawValid d.initReward then .ok () else .err "init-reward"

/-- rvesting `Keeper.InitGenesis` on the document: `SetParams` (panics on an invalid reward list), nothing more when `from` is empty;
otherwise `SendCoinsFromAccountToModule(from, InitReward)` — `ErrInvalidCoins` unless `InitReward.IsValid()`, `ErrInsufficientFunds`
unless `from` can pay (`canPay`) — and `panic(err)`. -/
def rvInitDoc (d : RvDoc) (canPay : Bool) : Out Unit :=
  if !Vesting.validate d.reward then .panic "rvesting.InitGenesis: SetParamSet invalid value" else
  match d.src with
  | .none => .ok ()
  | .bad => .panic "rvesting.InitGenesis: panic(err) AccAddressFromBech32"
  | .good =>
    if !GovCycle.rawValid d.initReward then .panic "rvesting.InitGenesis: panic(err) invalid coins" else
    if canPay then .ok () else .panic "rvesting.InitGenesis: panic(err) insufficient funds"

/-- the variant with per-coin validation + `sdk.NewCoins` canonicalisation (which panics on a duplicate denomination). -/
def rvValidateDocPerCoin (d : RvDoc) : Out Unit :=
  if !Vesting.validate d.reward then .err "reward" else
  match d.src with
  | .none => .ok ()
  | .bad => .err "from"
  | .good => if d.initReward.all (fun c => Vesting.validDenom c.1 && decide (0 ≤ c.2)) then .ok () else .err "init-reward"

def rvInitDocNewCoins (d : RvDoc) (canPay : Bool) : Out Unit :=
  if !Vesting.validate d.reward then .panic "SetParamSet" else
  match d.src with
  | .none => .ok ()
  | .bad => .panic "bech32"
  | .good =>
    if !decide ((d.initReward.map (·.1)).Nodup) then .panic "sdk.NewCoins: duplicate denomination" else
    if canPay then .ok () else .panic "insufficient funds"

/-! ## app life cycle: InitChain and the v0.2 upgrade over a genesis account table

`auth.accounts` of a genesis may hold an account of any registered kind at any address — also at addresses the app itself
writes at start-up (`SetEVMCode` for the five system contracts in `InitChainer` and in the v0.2 upgrade handler) or looks up
(`GetModuleAccount` of the modules initialised at genesis). -/

inductive AccKind | base | eth | module | contVesting | delayedVesting | periodicVesting | permanentLocked
  deriving DecidableEq, Repr

/-- where the genesis account sits. `moduleInit`: module-account address looked up with `GetModuleAccount` during InitChain
(fee_collector, distribution, the two staking pools, gov, transfer, xibc packet, aggregate); `moduleLazy`: module-account
address not touched at start-up (evm, interchainaccounts, the rvesting pool). -/
inductive AddrClass | sysContract | moduleInit | moduleLazy | control
  deriving DecidableEq, Repr

/-- `auth` genesis validation of the account: a `ModuleAccount` must sit at the address derived from its name, so it cannot be
valid at a system-contract (or any other non-module) address; every other kind is accepted anywhere. -/
def lcValidate (k : AccKind) (a : AddrClass) : Out Unit :=
  if k = .module ∧ (a = .sysContract ∨ a = .control) then .err "module-account-address" else .ok ()

/-- `app.SetEVMCode`: builds a FRESH account from the configured prototype (`NewAccountWithAddress` → `*EthAccount`), sets the
code hash and stores it — it OVERWRITES whatever account is stored at the address and never looks at it, so the unchecked
assertion `.(*ethermint.EthAccount)` is on a value constructed in place. Total. -/
def setEVMCode (_existing : Option AccKind) : Out AccKind := .ok .eth

/-- the variant that re-uses a stored account (`GetAccount`, else a new one) and keeps the unchecked assertion. -/
def setEVMCodeReuse (existing : Option AccKind) : Out AccKind :=
  match existing with
  | none | some .eth => .ok .eth
  | some _ => .panic "app.SetEVMCode: account.(*ethermint.EthAccount) on a stored account of another kind"

/-- InitChain for a validated genesis holding one account of kind `k` at an address of class `a`.
cosmos-sdk `GetModuleAccountAndPermissions` panics ("account is not a module account") when the stored account at a module
address is of another kind — cosmos-sdk behaviour on every chain, recorded here so that the observations agree. -/
def lcInitChain (k : AccKind) (a : AddrClass) : Out Unit :=
  if a = .moduleInit ∧ k ≠ .module then .panic "cosmos-sdk auth: account is not a module account" else
  if a = .sysContract then (match setEVMCode (some k) with | .ok _ => .ok () | .err e => .err e | .panic m => .panic m) else .ok ()

/-- the v0.2 upgrade handler (upgrade BeginBlocker): `SetEVMCode` for agent / packet / endpoint / execute again. -/
def lcUpgrade (k : AccKind) (a : AddrClass) : Out Unit :=
  if a = .sysContract then (match setEVMCode (some k) with | .ok _ => .ok () | .err e => .err e | .panic m => .panic m) else .ok ()

/-! ## the block gas meter

Begin/EndBlock code runs under the block's gas meter: absent in keeper-level contexts, infinite when
`consensus_params.block.max_gas = -1`, FINITE otherwise — and then already filled by the block's transactions when
`gov.EndBlocker` executes a passed proposal.  `ConsumeGas` on a finite meter panics (`ErrorOutOfGas`) on overflow; only `runTx`
recovers that.  The modelled block-phase steps never touch the meter: they take the gas state as an argument and ignore it. -/

structure BlockGas where
  finite : Bool
  limit : Nat
  consumed : Nat
  deriving Repr, DecidableEq

/-- `GasMeter.ConsumeGas(amount)` on the block meter (what the modelled code does NOT do). -/
def consumeBlockGas (g : BlockGas) (amount : Nat) : Out BlockGas :=
  if g.finite ∧ g.consumed + amount > g.limit then .panic "ErrorOutOfGas: block gas meter" else .ok { g with consumed := g.consumed + amount }

/-- a passed xibc proposal executed by `gov.EndBlocker` in a block with gas state `g`. -/
def xHandleInBlock (_g : BlockGas) (e : Env) (s : XSt) (p : XProp) : Out XSt := xHandle e s p

/-- the aggregate handlers that make module-initiated EVM calls, in a block with gas state `g`. -/
def registerCoinInBlock (_g : BlockGas) (e : CoinEnv) (s : ASt) (p : CoinProp) : Out ASt := handleRegisterCoin e s p
def evmOnlyInBlock (_g : BlockGas) (evmOk : Bool) : Out Unit := handleEvmOnly evmOk
def enableLimitInBlock (_g : BlockGas) (evmOk : Bool) (p : LimitProp) : Out Unit := handleEnableLimit evmOk p

/-- a handler that charges the EVM call's gas to the block (the variant the code must not become). -/
def evmOnlyChargingBlock (g : BlockGas) (evmOk : Bool) (gasUsed : Nat) : Out Unit :=
  if evmOk then (match consumeBlockGas g gasUsed with | .ok _ => .ok () | .err e => .err e | .panic m => .panic m) else .err "evm"

end TM.NoPanic
